(* The port of the subtree{path,pending} stack machine (Ckpt/Stack.v) refines
   the count abstraction (Ckpt/Model.v): the three one-step facts (one
   nextChunk incl. trim, one split, hasNext) for the concrete representation
   relation. *)
From Verif Require Import Lib.Base Mkvs.Trie Mkvs.BitsProofs Mkvs.AlistProofs Mkvs.TrieProofs
  Ckpt.Model Ckpt.Proofs Ckpt.ParProofs Ckpt.Stack Ckpt.EstProofs.
From Coq Require Import Permutation.
Local Open Scope nat_scope.

(* ------------------------------------------------------------------ *)
(* 0. the nodes of a tree, as values                                    *)
(* ------------------------------------------------------------------ *)
Definition lfnode (lf : option entry) : list tree :=
  match lf with Some (k, v) => [Leaf k v] | None => [] end.
Fixpoint nodes (t : tree) : list tree :=
  match t with
  | Nil => []
  | Leaf _ _ => [t]
  | Node _ lf l r => t :: lfnode lf ++ nodes l ++ nodes r
  end.

Lemma nodes_self t : t <> Nil -> In t (nodes t).
Proof. destruct t; [congruence| |]; intros _; cbn; auto. Qed.

Lemma lfnode_contents lf m : In m (lfnode lf) -> exists k v, m = Leaf k v /\ lf = Some (k, v).
Proof. destruct lf as [[k v]|]; cbn; [intros [<-|[]]; eauto|tauto]. Qed.

Lemma nodes_facts t : forall p, wf_at p t -> forall n, In n (nodes t) ->
  n <> Nil /\ contents n <> [] /\ incl (contents n) (contents t) /\ tnodes n <= tnodes t /\ exists q, wf_at q n.
Proof.
  induction t as [|k v|lbl lf l IHl r IHr]; intros p W n Hin; cbn [nodes] in Hin.
  - destruct Hin.
  - destruct Hin as [<-|[]]. repeat split; try discriminate; try (intros e He; exact He); try lia. eauto.
  - pose proof W as W0. cbn [wf_at] in W. destruct W as (Hlf & Wl & Wr & _).
    destruct Hin as [<-|Hin].
    + repeat split; try discriminate; try (intros e He; exact He); try lia; eauto.
      pose proof (wf_node_len _ _ _ _ _ W0) as L. intros E. rewrite E in L. cbn in L. lia.
    + rewrite !in_app_iff in Hin. destruct Hin as [Hin|[Hin|Hin]].
      * apply lfnode_contents in Hin as (k & v & -> & ->). destruct Hlf as [Hv Hb].
        repeat split; try discriminate; cbn [tnodes contents]; try lia.
        -- intros e [<-|[]]. cbn. auto.
        -- exists (p ++ lbl). cbn. split; [assumption|]. rewrite Hb. apply is_prefix_refl.
      * destruct (IHl _ Wl _ Hin) as (H1 & H2 & H3 & H4 & H5). repeat split; auto.
        -- intros e He. cbn [contents]. rewrite !in_app_iff. auto.
        -- cbn [tnodes]. lia.
      * destruct (IHr _ Wr _ Hin) as (H1 & H2 & H3 & H4 & H5). repeat split; auto.
        -- intros e He. cbn [contents]. rewrite !in_app_iff. auto.
        -- cbn [tnodes]. lia.
Qed.

Lemma sorted_distinct a b : sorted (a ++ b) -> forall x, In x a -> In x b -> False.
Proof.
  intros S x Ha Hb. apply sorted_app_inv in S as (_ & _ & Hab). specialize (Hab x x Ha Hb).
  unfold key_lt in Hab. rewrite bytes_cmp_refl in Hab. discriminate.
Qed.

Lemma NoDup_app_intro {A} (a b : list A) :
  NoDup a -> NoDup b -> (forall x, In x a -> In x b -> False) -> NoDup (a ++ b).
Proof.
  induction a as [|x a IH]; intros Ha Hb Hd; cbn [app]; [assumption|].
  inversion Ha; subst. constructor.
  - rewrite in_app_iff. intros [?|?]; [auto|]. eapply Hd; [now left|eassumption].
  - apply IH; auto. intros y Hy. apply Hd. now right.
Qed.

Lemma NoDup_app_inv {A} (a b : list A) :
  NoDup (a ++ b) -> NoDup a /\ NoDup b /\ (forall x, In x a -> In x b -> False).
Proof.
  induction a as [|x a IH]; cbn [app]; intros Hn.
  - repeat split; [constructor|assumption|intros ? []].
  - inversion Hn; subst. destruct (IH H2) as (Ha & Hb & Hd). repeat split; [|assumption|].
    + constructor; [|assumption]. intros Hi. apply H1. apply in_or_app. now left.
    + intros y [<-|Hy] Hyb; [apply H1; apply in_or_app; now right|eauto].
Qed.

(* in a well-formed tree different positions hold different subtrees *)
Lemma nodes_nodup t : forall p, wf_at p t -> NoDup (nodes t).
Proof.
  induction t as [|k v|lbl lf l IHl r IHr]; intros p W; cbn [nodes].
  - constructor.
  - constructor; [intros []|constructor].
  - pose proof W as W0. pose proof (contents_sorted_at _ _ W0) as Srt. cbn [contents] in Srt.
    cbn [wf_at] in W. destruct W as (Hlf & Wl & Wr & _).
    assert (forall n, In n (nodes l) -> contents n <> [] /\ incl (contents n) (contents l) /\ tnodes n <= tnodes l) as Fl
      by (intros n Hn; destruct (nodes_facts _ _ Wl _ Hn) as (? & ? & ? & ? & ?); auto).
    assert (forall n, In n (nodes r) -> contents n <> [] /\ incl (contents n) (contents r) /\ tnodes n <= tnodes r) as Fr
      by (intros n Hn; destruct (nodes_facts _ _ Wr _ Hn) as (? & ? & ? & ? & ?); auto).
    constructor.
    + rewrite !in_app_iff. intros [Hin|[Hin|Hin]].
      * apply lfnode_contents in Hin as (k & v & E & _). discriminate.
      * destruct (Fl _ Hin) as (_ & _ & L). cbn [tnodes] in L. lia.
      * destruct (Fr _ Hin) as (_ & _ & L). cbn [tnodes] in L. lia.
    + apply NoDup_app_intro; [destruct lf as [[k v]|]; cbn; repeat constructor; intros []| |].
      * apply NoDup_app_intro; eauto. intros n Hl Hr.
        destruct (Fl _ Hl) as (Hne & Il & _). destruct (Fr _ Hr) as (_ & Ir & _).
        destruct (contents n) as [|e rest] eqn:Ec; [congruence|].
        apply sorted_app_inv in Srt as (_ & Srt & _).
        eapply (sorted_distinct _ _ Srt e); [apply Il|apply Ir]; now left.
      * intros n Hf Hlr. apply lfnode_contents in Hf as (k & v & -> & ->).
        rewrite in_app_iff in Hlr.
        assert (In (k, v) (contents l ++ contents r)) as Hin.
        { destruct Hlr as [Hn|Hn]; [destruct (Fl _ Hn) as (_ & Il & _)|destruct (Fr _ Hn) as (_ & Il & _)];
            apply in_or_app; [left|right]; apply Il; cbn; auto. }
        eapply (sorted_distinct _ _ Srt (k, v)); [cbn; auto|exact Hin].
Qed.

(* ------------------------------------------------------------------ *)
(* 1. one pop of the machine; the builder's accounting                  *)
(* ------------------------------------------------------------------ *)
Definition lfatom (lf : option entry) : list atom :=
  match lf with Some (k, v) => [(Leaf k v, VB)] | None => [] end.
Inductive ev := EvLeaf (e : entry) | EvOpen | EvOther.
Definition mstep (a : atom) (rest : list atom) : list atom * ev :=
  match fst a with
  | Nil => (rest, EvOther)
  | Leaf k v => (rest, EvLeaf (k, v))
  | Node lbl lf l r =>
      match snd a with
      | VB => (lfatom lf ++ (fst a, VA) :: rest, EvOpen)
      | VA => (push_child l ((fst a, VL) :: rest), EvOther)
      | VL => (push_child r ((fst a, VR) :: rest), EvOther)
      | VR => (rest, EvOther)
      end
  end.

Lemma nc_loop_unfold f size a rest pb ll vis :
  nc_loop (S f) size (a :: rest) pb ll vis =
  if (size <=? psize pb)%N && ll then Some (a :: rest, pb, rev vis)
  else match mstep a rest with
       | (stk', EvLeaf e) => nc_loop f size stk' (include (fst a) pb) true (e :: vis)
       | (stk', EvOpen) => nc_loop f size stk' (include (fst a) pb) false vis
       | (stk', EvOther) => nc_loop f size stk' (include (fst a) pb) ll vis
       end.
Proof.
  destruct a as [nd st]. cbn [nc_loop]. destruct ((size <=? psize pb)%N && ll); [reflexivity|].
  unfold mstep. cbn [fst snd]. destruct nd as [|k v|lbl lf l r]; try reflexivity.
  destruct st; try reflexivity. destruct lf as [[k v]|]; reflexivity.
Qed.

(* the nodes never included so far that the stack will still open *)
Definition todo_atom (a : atom) : list tree :=
  match snd a with
  | VB => nodes (fst a)
  | VA => match fst a with Node _ _ l r => nodes l ++ nodes r | _ => [] end
  | VL => match fst a with Node _ _ l r => nodes r | _ => [] end
  | VR => []
  end.
Fixpoint todo (stk : list atom) : list tree :=
  match stk with
  | [] => []
  | a :: rest => todo_atom a ++ todo rest
  end.

Definition leafy (n : tree) : Prop := forall m, In m (nodes n) -> contents m <> [].
Definition is_leaf (n : tree) : Prop := exists k v, n = Leaf k v.
Definition atom_ok (pb : pbuilder) (n : tree) (st : vstate) : Prop :=
  n <> Nil /\ (st <> VB -> In n (inc pb)) /\ (is_leaf n -> st = VB) /\ leafy n.
Definition good (stk : list atom) (pb : pbuilder) : Prop :=
  pb_ok pb /\ NoDup (inc pb ++ todo stk) /\
  (forall n st, In (n, st) stk -> atom_ok pb n st).

Lemma leafy_l lbl lf l r : leafy (Node lbl lf l r) -> leafy l.
Proof. intros L m Hm. apply L. cbn [nodes]. right. rewrite !in_app_iff. auto. Qed.
Lemma leafy_r lbl lf l r : leafy (Node lbl lf l r) -> leafy r.
Proof. intros L m Hm. apply L. cbn [nodes]. right. rewrite !in_app_iff. auto. Qed.
Lemma leafy_leaf k v : leafy (Leaf k v).
Proof. intros m [<-|[]]. discriminate. Qed.

Lemma todo_push_child c stk : todo (push_child c stk) = nodes c ++ todo stk.
Proof. destruct c; reflexivity. Qed.

Lemma todo_app a b : todo (a ++ b) = todo a ++ todo b.
Proof. induction a as [|x a IH]; cbn [todo app]; [reflexivity|]. now rewrite IH, app_assoc. Qed.

Lemma push_child_in c stk n st : In (n, st) (push_child c stk) -> (n = c /\ st = VB /\ c <> Nil) \/ In (n, st) stk.
Proof. destruct c; cbn; auto; intros [[= <- <-]|?]; auto; left; repeat split; discriminate. Qed.

Lemma NoDup_move {A} (a : list A) x b : NoDup (a ++ x :: b) -> NoDup ((x :: a) ++ b).
Proof. intros Hn. eapply Permutation_NoDup; [|exact Hn]. apply Permutation_sym, Permutation_middle. Qed.

Lemma atom_ok_mono pb pb' n st : incl (inc pb) (inc pb') -> atom_ok pb n st -> atom_ok pb' n st.
Proof. intros Hi (H1 & H2 & H3 & H4). repeat split; auto. Qed.

Lemma good_step a rest pb :
  good (a :: rest) pb ->
  good (fst (mstep a rest)) (include (fst a) pb) /\
  inc (include (fst a) pb) = (if match snd a with VB => true | _ => false end then fst a :: inc pb else inc pb) /\
  psize (include (fst a) pb) =
    (psize pb + if match snd a with VB => true | _ => false end then node_size (fst a) else 0)%N.
Proof.
  destruct a as [nd st]. intros (Hok & Hnd & Hst). cbn [fst snd].
  destruct (Hst nd st (or_introl eq_refl)) as (Hnn & Hinc & Hlf & Hly).
  assert (forall n0 st0, In (n0, st0) rest -> atom_ok pb n0 st0) as Hrest by (intros; apply Hst; now right).
  assert (st <> VB -> include nd pb = pb) as Esame.
  { intros Hs. specialize (Hinc Hs). unfold include.
    destruct nd; [reflexivity| |]; (destruct (existsb _ (inc pb)) eqn:E; [reflexivity|]);
      exfalso; apply mem_tree_in in Hinc; congruence. }
  destruct st.
  - (* VB: a node never seen before *)
    assert (~ In nd (inc pb)) as Hni.
    { cbn [todo todo_atom fst snd] in Hnd. apply NoDup_app_inv in Hnd as (_ & _ & Hd). intros Hi. apply (Hd nd Hi).
      apply in_or_app. left. now apply nodes_self. }
    assert (include nd pb = mkpb (nd :: inc pb) (psize pb + node_size nd)) as Einc.
    { unfold include. destruct nd; [congruence| |];
        (destruct (existsb _ (inc pb)) eqn:E; [apply mem_tree_in in E; contradiction|reflexivity]). }
    rewrite Einc. cbn [inc psize]. split; [|split; reflexivity].
    destruct (include_ok nd pb Hok) as [Hok' _]. rewrite Einc in Hok'.
    assert (forall n0 st0, In (n0, st0) rest -> atom_ok (mkpb (nd :: inc pb) (psize pb + node_size nd)) n0 st0) as Hrest'.
    { intros n0 st0 Hin. eapply atom_ok_mono; [|apply Hrest; exact Hin]. cbn [inc]. intros x Hx. now right. }
    unfold mstep. cbn [fst snd]. destruct nd as [|k v|lbl lf l r]; [congruence| |]; cbn [fst].
    + split; [assumption|]. split; [|exact Hrest'].
      cbn [todo todo_atom fst snd nodes inc app] in *. apply NoDup_move. exact Hnd.
    + split; [assumption|]. split.
      * cbn [inc]. cbn [todo todo_atom fst snd nodes] in Hnd.
        assert (todo (lfatom lf ++ (Node lbl lf l r, VA) :: rest) = lfnode lf ++ (nodes l ++ nodes r) ++ todo rest) as ->
          by (destruct lf as [[k v]|]; reflexivity).
        apply NoDup_move. cbn [app] in Hnd. rewrite <- !app_assoc in Hnd. rewrite <- !app_assoc. exact Hnd.
      * intros n0 st0 Hin. rewrite in_app_iff in Hin. destruct Hin as [Hin|[[= <- <-]|Hin]].
        -- destruct lf as [[k v]|]; cbn in Hin; [|tauto]. destruct Hin as [[= <- <-]|[]].
           repeat split; [discriminate|congruence|apply leafy_leaf].
        -- repeat split; [discriminate|intros _; now left|intros (k & v & E); discriminate|exact Hly].
        -- now apply Hrest'.
  - (* VA *)
    rewrite (Esame ltac:(discriminate)). split; [|split; [reflexivity|lia]].
    unfold mstep. cbn [fst snd]. destruct nd as [|k v|lbl lf l r]; [congruence| |]; cbn [fst].
    + exfalso. assert (VA = VB) by (apply Hlf; eexists; eexists; reflexivity). discriminate.
    + split; [assumption|]. split.
      * rewrite todo_push_child. cbn [todo todo_atom fst snd] in *. rewrite <- ?app_assoc in *. exact Hnd.
      * intros n0 st0 Hin. apply push_child_in in Hin as [(-> & -> & Hc)|[[= <- <-]|Hin]].
        -- repeat split; [assumption|congruence|eapply leafy_l; eauto].
        -- repeat split; [discriminate|intros _; apply Hinc; discriminate|intros (k & v & E); discriminate|exact Hly].
        -- now apply Hrest.
  - (* VL *)
    rewrite (Esame ltac:(discriminate)). split; [|split; [reflexivity|lia]].
    unfold mstep. cbn [fst snd]. destruct nd as [|k v|lbl lf l r]; [congruence| |]; cbn [fst].
    + exfalso. assert (VL = VB) by (apply Hlf; eexists; eexists; reflexivity). discriminate.
    + split; [assumption|]. split.
      * rewrite todo_push_child. cbn [todo todo_atom fst snd] in *. rewrite <- ?app_assoc in *. exact Hnd.
      * intros n0 st0 Hin. apply push_child_in in Hin as [(-> & -> & Hc)|[[= <- <-]|Hin]].
        -- repeat split; [assumption|congruence|eapply leafy_r; eauto].
        -- repeat split; [discriminate|intros _; apply Hinc; discriminate|intros (k & v & E); discriminate|exact Hly].
        -- now apply Hrest.
  - (* VR *)
    rewrite (Esame ltac:(discriminate)). split; [|split; [reflexivity|lia]].
    unfold mstep. cbn [fst snd]. destruct nd as [|k v|lbl lf l r]; [congruence| |]; cbn [fst].
    + exfalso. assert (VR = VB) by (apply Hlf; eexists; eexists; reflexivity). discriminate.
    + split; [assumption|]. split; [cbn [todo todo_atom fst snd app] in Hnd; exact Hnd|exact Hrest].
Qed.

(* ------------------------------------------------------------------ *)
(* 2. what the stack will still visit, with the cost each key adds      *)
(* ------------------------------------------------------------------ *)
Definition em := (entry * N)%type.
Definition toem (a : aent) : em := (aentry a, amarg a).
Definition bumpm (c : N) (l : list em) : list em :=
  match l with (e, m) :: r => (e, (m + c)%N) :: r | [] => [] end.
Definition margs (t : tree) : list em := map toem (annot 0 t).

Lemma map_bump c l : map toem (bump c l) = bumpm c (map toem l).
Proof. destruct l as [|[[e f] m] r]; reflexivity. Qed.

Lemma margs_any t : forall A, map toem (annot A t) = margs t.
Proof.
  unfold margs. induction t as [|k v|lbl lf l IHl r IHr]; intros A; cbn [annot]; try reflexivity.
  rewrite !map_bump, !map_app, IHl, IHr, (IHl (0 + _)%N), (IHr (0 + _)%N). f_equal. f_equal.
  destruct lf as [[k v]|]; reflexivity.
Qed.

Definition margs_lf (lf : option entry) : list em :=
  match lf with Some (k, v) => [((k, v), leaf_cost k v)] | None => [] end.
Lemma margs_node lbl lf l r :
  margs (Node lbl lf l r) = bumpm (node_cost lbl lf) (margs_lf lf ++ margs l ++ margs r).
Proof.
  unfold margs at 1. cbn [annot]. rewrite map_bump, !map_app, !margs_any. f_equal. f_equal.
  destruct lf as [[k v]|]; reflexivity.
Qed.
Lemma margs_entries t : map fst (margs t) = contents t.
Proof. unfold margs. rewrite map_map. rewrite <- (annot_entries t 0%N). apply map_ext. intros [[e f] m]. reflexivity. Qed.

Definition fut_atom (a : atom) : list em :=
  match snd a with
  | VB => margs (fst a)
  | VA => match fst a with Node _ _ l r => margs l ++ margs r | _ => [] end
  | VL => match fst a with Node _ _ l r => margs r | _ => [] end
  | VR => []
  end.
Fixpoint fut (stk : list atom) : list em :=
  match stk with [] => [] | a :: rest => fut_atom a ++ fut rest end.

Lemma fut_push_child c stk : fut (push_child c stk) = margs c ++ fut stk.
Proof. destruct c; reflexivity. Qed.

Fixpoint tm (size acc : N) (l : list em) : list entry :=
  match l with
  | [] => []
  | (e, m) :: r => if (acc <? size)%N then e :: tm size (acc + m) r else []
  end.
Lemma take_more_tm size l : forall acc, take_more size acc l = tm size acc (map toem l).
Proof. induction l as [|[[e f] m] r IH]; intros acc; cbn; [reflexivity|]. now rewrite IH. Qed.

Lemma bumpm_app c a b : a <> [] -> bumpm c (a ++ b) = bumpm c a ++ b.
Proof. destruct a as [|[e m] a]; [congruence|reflexivity]. Qed.

(* the effect of one pop on the future *)
Lemma fut_step a rest pb :
  good (a :: rest) pb ->
  match snd (mstep a rest) with
  | EvLeaf e => fut (a :: rest) = (e, node_size (fst a)) :: fut (fst (mstep a rest)) /\ snd a = VB
  | EvOpen => fut (a :: rest) = bumpm (node_size (fst a)) (fut (fst (mstep a rest))) /\
              fut (fst (mstep a rest)) <> [] /\ snd a = VB
  | EvOther => fut (a :: rest) = fut (fst (mstep a rest)) /\ snd a <> VB
  end.
Proof.
  destruct a as [nd st]. intros (_ & _ & Hst). destruct (Hst nd st (or_introl eq_refl)) as (Hnn & _ & Hlf & Hly).
  unfold mstep. cbn [fst snd]. destruct nd as [|k v|lbl lf l r]; [congruence| |].
  - cbn [snd fst]. assert (st = VB) as -> by (apply Hlf; eexists; eexists; reflexivity).
    split; reflexivity.
  - destruct st; cbn [snd fst fut fut_atom].
    + rewrite margs_node.
      assert (fut (lfatom lf ++ (Node lbl lf l r, VA) :: rest) = (margs_lf lf ++ margs l ++ margs r) ++ fut rest) as Ef.
      { destruct lf as [[k v]|]; cbn [lfatom app fut fut_atom fst snd margs_lf]; [|reflexivity].
        unfold margs at 1. cbn. reflexivity. }
      rewrite Ef. assert (margs_lf lf ++ margs l ++ margs r <> []) as Hne.
      { intros E. apply (Hly (Node lbl lf l r) (or_introl eq_refl)).
        rewrite <- margs_entries, margs_node, E. reflexivity. }
      split; [rewrite (bumpm_app _ (margs_lf lf ++ margs l ++ margs r) (fut rest) Hne); reflexivity|]. split; [|reflexivity].
      intros E. apply app_eq_nil in E as [E _]. contradiction.
    + rewrite fut_push_child. cbn [fut fut_atom fst snd]. split; [now rewrite app_assoc|discriminate].
    + rewrite fut_push_child. cbn [fut fut_atom fst snd]. split; [reflexivity|discriminate].
    + split; [reflexivity|discriminate].
Qed.

(* ---------- termination measure ---------- *)
Fixpoint pops (t : tree) : nat :=
  match t with
  | Nil => 0
  | Leaf _ _ => 1
  | Node _ lf l r => 4 + length (lf_contents lf) + pops l + pops r
  end.
Definition mu_atom (a : atom) : nat :=
  match snd a with
  | VB => pops (fst a)
  | VA => match fst a with Node _ _ l r => 3 + pops l + pops r | _ => 1 end
  | VL => match fst a with Node _ _ l r => 2 + pops r | _ => 1 end
  | VR => 1
  end.
Fixpoint smu (stk : list atom) : nat := match stk with [] => 0 | a :: r => mu_atom a + smu r end.

Lemma smu_push_child c stk : smu (push_child c stk) = pops c + smu stk.
Proof. destruct c; reflexivity. Qed.

Lemma smu_step a rest : fst a <> Nil -> S (smu (fst (mstep a rest))) = smu (a :: rest).
Proof.
  destruct a as [nd st]. cbn [fst]. intros Hn. unfold mstep. cbn [fst snd].
  destruct nd as [|k v|lbl lf l r]; [congruence| |].
  - cbn [fst smu]. unfold mu_atom. cbn [fst snd]. destruct st; reflexivity.
  - destruct st; cbn [fst].
    + assert (smu (lfatom lf ++ (Node lbl lf l r, VA) :: rest) = length (lf_contents lf) + (3 + pops l + pops r) + smu rest) as ->
        by (destruct lf as [[k v]|]; reflexivity).
      cbn [smu]. unfold mu_atom. cbn [fst snd pops]. lia.
    + rewrite smu_push_child. cbn [smu]. unfold mu_atom. cbn [fst snd]. lia.
    + rewrite smu_push_child. cbn [smu]. unfold mu_atom. cbn [fst snd]. lia.
    + cbn [smu]. unfold mu_atom. cbn [fst snd]. lia.
Qed.

(* ---------- configurations ---------- *)
(* (pending, builder, lastIsLeaf, visited (reversed), "the last pop was a leaf") *)
Definition cfg := (list atom * pbuilder * bool * list entry * bool)%type.
Definition cstep (a : atom) (rest : list atom) (pb : pbuilder) (ll : bool) (vis : list entry) : cfg :=
  match mstep a rest with
  | (stk', EvLeaf e) => (stk', include (fst a) pb, true, e :: vis, true)
  | (stk', EvOpen) => (stk', include (fst a) pb, false, vis, false)
  | (stk', EvOther) => (stk', include (fst a) pb, ll, vis, false)
  end.
Inductive reach : cfg -> cfg -> Prop :=
| reach_refl c : reach c c
| reach_step a rest pb ll vis jl c' :
    reach (cstep a rest pb ll vis) c' -> reach (a :: rest, pb, ll, vis, jl) c'.

Lemma reach_inv (P : cfg -> Prop) :
  (forall a rest pb ll vis jl, P (a :: rest, pb, ll, vis, jl) -> P (cstep a rest pb ll vis)) ->
  forall c c', reach c c' -> P c -> P c'.
Proof. intros Hs c c' Hr. induction Hr; eauto. Qed.

(* what the loop visits, by the break rule *)
Definition visits (size : N) (stk : list atom) (pb : pbuilder) (ll : bool) : list entry :=
  if ll then tm size (psize pb) (fut stk)
  else match fut stk with [] => [] | (e, m) :: r => e :: tm size (psize pb + m) r end.

Lemma loop_run size fuel : forall stk pb ll vis jl,
  good stk pb -> smu stk < fuel ->
  (ll = true -> (size <= psize pb)%N -> jl = true) ->
  exists stk' pb' ll' jl',
    nc_loop fuel size stk pb ll vis = Some (stk', pb', rev vis ++ visits size stk pb ll) /\
    reach (stk, pb, ll, vis, jl) (stk', pb', ll', rev (rev vis ++ visits size stk pb ll), jl') /\
    (stk' = [] \/ jl' = true).
Proof.
  induction fuel as [|fuel IH]; intros stk pb ll vis jl Hg Hm Hj; [lia|].
  destruct stk as [|a rest].
  - exists [], pb, ll, jl. cbn [nc_loop]. unfold visits. cbn [fut]. destruct ll; cbn [tm]; rewrite app_nil_r, rev_involutive;
      (split; [reflexivity|split; [apply reach_refl|now left]]).
  - rewrite nc_loop_unfold.
    destruct ((size <=? psize pb)%N && ll) eqn:Eb.
    + apply andb_true_iff in Eb as [Es ->]. apply N.leb_le in Es.
      exists (a :: rest), pb, true, jl. unfold visits.
      assert (tm size (psize pb) (fut (a :: rest)) = []) as ->.
      { destruct (fut (a :: rest)) as [|[e m] r]; [reflexivity|]. cbn [tm].
        destruct (N.ltb_spec (psize pb) size); [lia|reflexivity]. }
      rewrite app_nil_r, rev_involutive. split; [reflexivity|]. split; [apply reach_refl|right; auto].
    + destruct (good_step a rest pb Hg) as (Hg' & Hinc & Hsz).
      pose proof (fut_step a rest pb Hg) as Hf.
      assert (fst a <> Nil) as Hnn by (destruct Hg as (_ & _ & Hst); destruct a as [nd st]; apply (Hst nd st); now left).
      pose proof (smu_step a rest Hnn) as Hmu.
      destruct (mstep a rest) as [stk1 e1] eqn:Ems. cbn [fst snd] in *.
      assert (smu stk1 < fuel) as Hm1 by (unfold atom in *; lia).
      destruct e1 as [e| |].
      * (* a leaf *)
        destruct Hf as [Hf Hvb]. rewrite Hvb in Hsz.
        destruct (IH stk1 (include (fst a) pb) true (e :: vis) true Hg' Hm1 ltac:(auto))
          as (stk' & pb' & ll' & jl' & E & R & F).
        exists stk', pb', ll', jl'.
        assert (visits size (a :: rest) pb ll = e :: visits size stk1 (include (fst a) pb) true) as Ev.
        { unfold visits. rewrite Hf, Hsz. destruct ll; [|reflexivity].
          cbn [tm]. apply andb_false_iff in Eb as [Eb|Eb]; [|discriminate]. apply N.leb_gt in Eb.
          destruct (N.ltb_spec (psize pb) size); [reflexivity|lia]. }
        rewrite Ev. cbn [rev] in E, R. rewrite <- app_assoc in E, R. cbn [app] in E, R.
        split; [exact E|]. split; [|exact F]. apply reach_step. unfold cstep. rewrite Ems. exact R.
      * (* an internal node is opened *)
        destruct Hf as (Hf & Hne & Hvb). rewrite Hvb in Hsz.
        destruct (IH stk1 (include (fst a) pb) false vis false Hg' Hm1 ltac:(discriminate))
          as (stk' & pb' & ll' & jl' & E & R & F).
        exists stk', pb', ll', jl'.
        assert (visits size (a :: rest) pb ll = visits size stk1 (include (fst a) pb) false) as Ev.
        { unfold visits. rewrite Hf, Hsz. destruct (fut stk1) as [|[e m] r]; [congruence|]. cbn [bumpm].
          destruct ll.
          - cbn [tm]. apply andb_false_iff in Eb as [Eb|Eb]; [|discriminate]. apply N.leb_gt in Eb.
            destruct (N.ltb_spec (psize pb) size); [|lia]. f_equal. f_equal. lia.
          - f_equal. f_equal. lia. }
        rewrite Ev. split; [exact E|]. split; [|exact F]. apply reach_step. unfold cstep. rewrite Ems. exact R.
      * (* a state transition *)
        destruct Hf as [Hf Hnvb].
        assert (psize (include (fst a) pb) = psize pb) as Hsz' by (rewrite Hsz; destruct (snd a); try congruence; lia).
        assert (ll = true -> (size <= psize (include (fst a) pb))%N -> false = true) as Hj'.
        { intros -> Hle. rewrite Hsz' in Hle. apply andb_false_iff in Eb as [Eb|Eb]; [|discriminate].
          apply N.leb_gt in Eb. lia. }
        destruct (IH stk1 (include (fst a) pb) ll vis false Hg' Hm1 Hj') as (stk' & pb' & ll' & jl' & E & R & F).
        exists stk', pb', ll', jl'.
        assert (visits size (a :: rest) pb ll = visits size stk1 (include (fst a) pb) ll) as Ev
          by (unfold visits; now rewrite Hf, Hsz').
        rewrite Ev. split; [exact E|]. split; [|exact F]. apply reach_step. unfold cstep. rewrite Ems. exact R.
Qed.

(* ------------------------------------------------------------------ *)
(* 3. stacks as positions: (subtree, number of its keys already visited) *)
(* ------------------------------------------------------------------ *)
Definition tot (s : tree) : nat := length (contents s).
Definition nlf (lf : option entry) : nat := length (lf_contents lf).

Inductive lrep : tree -> nat -> list atom -> Prop :=
| lr_fresh s : s <> Nil -> lrep s 0 [(s, VB)]
| lr_done s : lrep s (tot s) []
| lr_lfpend lbl k v l r :
    lrep (Node lbl (Some (k, v)) l r) 0 [(Leaf k v, VB); (Node lbl (Some (k, v)) l r, VA)]
| lr_at lbl lf l r : lrep (Node lbl lf l r) (nlf lf) [(Node lbl lf l r, VA)]
| lr_left lbl lf l r dl stkl :
    lrep l dl stkl -> lrep (Node lbl lf l r) (nlf lf + dl) (stkl ++ [(Node lbl lf l r, VL)])
| lr_right lbl lf l r dr stkr :
    lrep r dr stkr -> lrep (Node lbl lf l r) (nlf lf + tot l + dr) (stkr ++ [(Node lbl lf l r, VR)]).

Lemma tot_node lbl lf l r : tot (Node lbl lf l r) = nlf lf + tot l + tot r.
Proof. unfold tot, nlf. cbn [contents]. rewrite !app_length. lia. Qed.

Lemma lrep_le s d stk : lrep s d stk -> d <= tot s.
Proof.
  induction 1; try rewrite tot_node; try lia.
Qed.

Lemma lrep_nil s d : lrep s d [] -> d = tot s.
Proof.
  intros Hl. remember [] as stk eqn:E. destruct Hl; try discriminate; try reflexivity;
    destruct stkl + destruct stkr; discriminate.
Qed.

Lemma push_child_app c a b : push_child c (a ++ b) = push_child c a ++ b.
Proof. destruct c; reflexivity. Qed.

Lemma mstep_app a r c : mstep a (r ++ c) = (fst (mstep a r) ++ c, snd (mstep a r)).
Proof.
  unfold mstep. destruct (fst a) as [|k v|lbl lf l rr]; try reflexivity.
  destruct (snd a); cbn [fst snd]; try reflexivity.
  - now rewrite <- app_assoc.
  - now rewrite <- push_child_app.
  - now rewrite <- push_child_app.
Qed.

Definition leafev (e : ev) : nat := match e with EvLeaf _ => 1 | _ => 0 end.

Lemma lrep_step s d a rest :
  lrep s d (a :: rest) -> lrep s (d + leafev (snd (mstep a rest))) (fst (mstep a rest)).
Proof.
  intros Hl. remember (a :: rest) as stk eqn:E. revert a rest E.
  induction Hl as [s Hn|s|lbl k v l r|lbl lf l r|lbl lf l r dl stkl Hl IH|lbl lf l r dr stkr Hl IH]; intros a rest E.
  - injection E as <- <-. unfold mstep. cbn [fst snd]. destruct s as [|k v|lbl lf l r]; [congruence| |].
    + cbn. apply (lr_done (Leaf k v)).
    + cbn [fst snd leafev]. rewrite Nat.add_0_r. destruct lf as [[k v]|]; cbn [lfatom app].
      * apply lr_lfpend.
      * apply (lr_at lbl None l r).
  - discriminate.
  - injection E as <- <-. unfold mstep. cbn. apply (lr_at lbl (Some (k, v)) l r).
  - injection E as <- <-. unfold mstep. cbn [fst snd leafev]. rewrite Nat.add_0_r.
    replace (nlf lf) with (nlf lf + 0) by lia. destruct l as [|kl vl|lb2 lf2 l2 r2]; cbn [push_child].
    + apply (lr_left lbl lf Nil r 0 []). apply (lr_done Nil).
    + apply (lr_left lbl lf _ r 0 [_]). apply lr_fresh. discriminate.
    + apply (lr_left lbl lf _ r 0 [_]). apply lr_fresh. discriminate.
  - destruct stkl as [|a0 rest0].
    + apply lrep_nil in Hl. subst dl. cbn [app] in E. injection E as <- <-.
      unfold mstep. cbn [fst snd leafev]. rewrite Nat.add_0_r.
      replace (nlf lf + tot l) with (nlf lf + tot l + 0) by lia.
      destruct r as [|kr vr|lb2 lf2 l2 r2]; cbn [push_child].
      * apply (lr_right lbl lf l Nil 0 []). apply (lr_done Nil).
      * apply (lr_right lbl lf l _ 0 [_]). apply lr_fresh. discriminate.
      * apply (lr_right lbl lf l _ 0 [_]). apply lr_fresh. discriminate.
    + cbn [app] in E. injection E as <- <-. rewrite mstep_app. cbn [fst snd].
      rewrite <- Nat.add_assoc. apply lr_left. apply IH. reflexivity.
  - destruct stkr as [|a0 rest0].
    + apply lrep_nil in Hl. subst dr. cbn [app] in E. injection E as <- <-.
      unfold mstep. cbn [fst snd leafev]. rewrite Nat.add_0_r. rewrite <- (tot_node lbl lf l r). apply lr_done.
    + cbn [app] in E. injection E as <- <-. rewrite mstep_app. cbn [fst snd].
      rewrite <- Nat.add_assoc. apply lr_right. apply IH. reflexivity.
Qed.

(* right after a leaf pop *)
Inductive arep : tree -> nat -> list atom -> Prop :=
| ar_leaf k v : arep (Leaf k v) 1 []
| ar_lf lbl k v l r : arep (Node lbl (Some (k, v)) l r) 1 [(Node lbl (Some (k, v)) l r, VA)]
| ar_left lbl lf l r dl stkl :
    arep l dl stkl -> arep (Node lbl lf l r) (nlf lf + dl) (stkl ++ [(Node lbl lf l r, VL)])
| ar_right lbl lf l r dr stkr :
    arep r dr stkr -> arep (Node lbl lf l r) (nlf lf + tot l + dr) (stkr ++ [(Node lbl lf l r, VR)]).

Lemma lrep_leaf_arep s d a rest e :
  lrep s d (a :: rest) -> snd (mstep a rest) = EvLeaf e -> arep s (d + 1) (fst (mstep a rest)).
Proof.
  intros Hl. remember (a :: rest) as stk eqn:E. revert a rest E.
  induction Hl as [s Hn|s|lbl k v l r|lbl lf l r|lbl lf l r dl stkl Hl IH|lbl lf l r dr stkr Hl IH]; intros a rest E Hev.
  - injection E as <- <-. unfold mstep in *. cbn [fst snd] in *. destruct s as [|k v|lbl lf l r]; [congruence| |].
    + cbn. apply ar_leaf.
    + discriminate.
  - discriminate.
  - injection E as <- <-. unfold mstep. cbn. apply ar_lf.
  - injection E as <- <-. unfold mstep in Hev. cbn in Hev. discriminate.
  - destruct stkl as [|a0 rest0].
    + cbn [app] in E. injection E as <- <-. unfold mstep in Hev. cbn in Hev. discriminate.
    + cbn [app] in E. injection E as <- <-. rewrite mstep_app in *. cbn [fst snd] in *.
      rewrite <- Nat.add_assoc. apply ar_left. eapply IH; eauto.
  - destruct stkr as [|a0 rest0].
    + cbn [app] in E. injection E as <- <-. unfold mstep in Hev. cbn in Hev. discriminate.
    + cbn [app] in E. injection E as <- <-. rewrite mstep_app in *. cbn [fst snd] in *.
      rewrite <- Nat.add_assoc. apply ar_right. eapply IH; eauto.
Qed.

Lemma arep_bounds s d stk : arep s d stk -> 1 <= d <= tot s.
Proof.
  induction 1; try rewrite tot_node; unfold tot, nlf in *; cbn [contents lf_contents length] in *; try lia.
Qed.

(* the canonical (trimmed) stack of a position with at least one key visited *)
Fixpoint canon (s : tree) (d : nat) : list atom :=
  match s with
  | Node lbl lf l r =>
      if d <=? nlf lf then match l, r with Nil, Nil => [] | _, _ => [(s, VA)] end
      else if d - nlf lf <? tot l then canon l (d - nlf lf) ++ [(s, VL)]
      else if d - nlf lf =? tot l then match r with Nil => [] | _ => [(s, VL)] end
      else if d - nlf lf - tot l <? tot r then canon r (d - nlf lf - tot l) ++ [(s, VR)]
      else []
  | _ => []
  end.

Lemma leafy_tot s : leafy s -> s <> Nil -> 1 <= tot s.
Proof.
  intros L Hn. specialize (L s (nodes_self s Hn)). unfold tot. destruct (contents s); [congruence|cbn; lia].
Qed.

Lemma canon_done s : forall d, tot s <= d -> 1 <= d -> leafy s -> canon s d = [].
Proof.
  induction s as [|k v|lbl lf l IHl r IHr]; intros d Hd H1 L; cbn [canon]; try reflexivity.
  rewrite tot_node in Hd.
  destruct (Nat.leb_spec d (nlf lf)).
  - assert (tot l = 0 /\ tot r = 0) as [El Er] by lia.
    destruct l; [|pose proof (leafy_tot _ (leafy_l _ _ _ _ L) ltac:(discriminate)); lia..].
    destruct r; [reflexivity|pose proof (leafy_tot _ (leafy_r _ _ _ _ L) ltac:(discriminate)); lia..].
  - destruct (Nat.ltb_spec (d - nlf lf) (tot l)); [lia|].
    destruct (Nat.eqb_spec (d - nlf lf) (tot l)).
    + destruct r; [reflexivity|pose proof (leafy_tot _ (leafy_r _ _ _ _ L) ltac:(discriminate)); lia..].
    + destruct (Nat.ltb_spec (d - nlf lf - tot l) (tot r)); [lia|reflexivity].
Qed.

Lemma canon_nonempty s : forall d, 1 <= d -> d < tot s -> leafy s -> canon s d <> [].
Proof.
  induction s as [|k v|lbl lf l IHl r IHr]; intros d H1 Hd L; [unfold tot in Hd; cbn in Hd; lia..|].
  rewrite tot_node in Hd. cbn [canon].
  destruct (Nat.leb_spec d (nlf lf)).
  - destruct l, r; try discriminate. unfold tot, nlf in *. destruct lf as [[? ?]|]; cbn [contents lf_contents length] in *; lia.
  - destruct (Nat.ltb_spec (d - nlf lf) (tot l)); [intros E; apply app_eq_nil in E as [_ E]; discriminate|].
    destruct (Nat.eqb_spec (d - nlf lf) (tot l)).
    + destruct r; try discriminate. unfold tot, nlf in *. cbn [contents length] in *. lia.
    + destruct (Nat.ltb_spec (d - nlf lf - tot l) (tot r)); [|lia].
      intros E; apply app_eq_nil in E as [_ E]; discriminate.
Qed.

Lemma trim_app a : forall b, trim (a ++ b) = match trim a with [] => trim b | x => x ++ b end.
Proof.
  induction a as [|[nd st] a IH]; intros b; cbn [app trim]; [destruct (trim b); reflexivity|].
  destruct nd as [|k v|lbl lf l r]; [apply IH|reflexivity|].
  destruct st; try reflexivity; try apply IH.
  - destruct l, r; try reflexivity. apply IH.
  - destruct r; try reflexivity. apply IH.
Qed.

Lemma trim_arep s d stk : arep s d stk -> leafy s -> trim stk = canon s d.
Proof.
  induction 1 as [k v|lbl k v l r|lbl lf l r dl stkl Ha IH|lbl lf l r dr stkr Ha IH]; intros L.
  - reflexivity.
  - cbn [trim canon nlf lf_contents length]. destruct l, r; reflexivity.
  - pose proof (arep_bounds _ _ _ Ha) as [B1 B2]. specialize (IH (leafy_l _ _ _ _ L)).
    rewrite trim_app, IH. cbn [canon].
    destruct (Nat.leb_spec (nlf lf + dl) (nlf lf)); [lia|].
    replace (nlf lf + dl - nlf lf) with dl by lia.
    destruct (Nat.ltb_spec dl (tot l)).
    + pose proof (canon_nonempty l dl B1 ltac:(assumption) (leafy_l _ _ _ _ L)). destruct (canon l dl); [congruence|reflexivity].
    + assert (dl = tot l) as -> by lia. rewrite Nat.eqb_refl.
      rewrite (canon_done l (tot l)) by (try lia; eapply leafy_l; eauto). cbn [trim]. destruct r; reflexivity.
  - pose proof (arep_bounds _ _ _ Ha) as [B1 B2]. specialize (IH (leafy_r _ _ _ _ L)).
    rewrite trim_app, IH. cbn [canon].
    destruct (Nat.leb_spec (nlf lf + tot l + dr) (nlf lf)); [lia|].
    destruct (Nat.ltb_spec (nlf lf + tot l + dr - nlf lf) (tot l)); [lia|].
    destruct (Nat.eqb_spec (nlf lf + tot l + dr - nlf lf) (tot l)); [lia|].
    replace (nlf lf + tot l + dr - nlf lf - tot l) with dr by lia.
    destruct (Nat.ltb_spec dr (tot r)).
    + pose proof (canon_nonempty r dr B1 ltac:(assumption) (leafy_r _ _ _ _ L)). destruct (canon r dr); [congruence|reflexivity].
    + rewrite (canon_done r dr) by (try lia; eapply leafy_r; eauto). reflexivity.
Qed.

(* ------------------------------------------------------------------ *)
(* 4. the canonical stack against the annotated key list of the model   *)
(* ------------------------------------------------------------------ *)
Definition opened_atom (a : atom) : N := match snd a with VB => 0 | _ => node_size (fst a) end.
Fixpoint opened (stk : list atom) : N := match stk with [] => 0 | a :: r => opened_atom a + opened r end.

Lemma opened_app a b : opened (a ++ b) = (opened a + opened b)%N.
Proof. induction a as [|x a IH]; cbn [opened app]; [lia|]. rewrite IH. lia. Qed.
Lemma fut_app a b : fut (a ++ b) = fut a ++ fut b.
Proof. induction a as [|x a IH]; cbn [fut app]; [reflexivity|]. now rewrite IH, app_assoc. Qed.

Lemma annot_first u : forall B a rest, annot B u = a :: rest -> afull a = (B + amarg a)%N.
Proof.
  induction u as [|k v|lbl lf l IHl r IHr]; intros B a rest E; cbn [annot] in E.
  - discriminate.
  - injection E as <- <-. reflexivity.
  - set (c := node_cost lbl lf) in *.
    destruct (annot_lf (B + c) lf ++ annot (B + c) l ++ annot (B + c) r) as [|[[e f] m] rest0] eqn:El; [discriminate|].
    cbn [bump] in E. injection E as <- <-. unfold afull, amarg. cbn [fst snd].
    destruct lf as [[k v]|]; cbn [annot_lf app] in El.
    + injection El as <- <- <- _. lia.
    + destruct (annot (B + c) l) as [|a1 r1] eqn:E1; cbn [app] in El.
      * specialize (IHr _ _ _ El). unfold afull, amarg in IHr. cbn [fst snd] in IHr. lia.
      * injection El as -> _. specialize (IHl _ _ _ E1). unfold afull, amarg in IHl. cbn [fst snd] in IHl. lia.
Qed.

Lemma skipn_bump c l d : 1 <= d -> skipn d (bump c l) = skipn d l.
Proof. destruct d; [lia|]. destruct l as [|[[e f] m] r]; reflexivity. Qed.

Lemma annot_lf_length A lf : length (annot_lf A lf) = nlf lf.
Proof. destruct lf as [[k v]|]; reflexivity. Qed.

Lemma canon_fut s : forall d A, 1 <= d -> d < tot s -> leafy s ->
  match skipn d (annot A s) with
  | [] => False
  | a0 :: r => exists m, fut (canon s d) = (aentry a0, m) :: map toem r /\
                         (A + opened (canon s d) + m = afull a0)%N
  end.
Proof.
  induction s as [|k v|lbl lf l IHl r IHr]; intros d A H1 Hd L; [unfold tot in Hd; cbn in Hd; lia..|].
  rewrite tot_node in Hd. cbn [annot canon]. set (c := node_cost lbl lf). set (A' := (A + c)%N).
  rewrite skipn_bump by assumption.
  pose proof (annot_lf_length A' lf) as Ll1. pose proof (annot_length A' l) as Ll2. fold (tot l) in Ll2.
  pose proof (annot_length A' r) as Ll3. fold (tot r) in Ll3.
  assert (opened_atom (Node lbl lf l r, VA) = c /\ opened_atom (Node lbl lf l r, VL) = c /\
          opened_atom (Node lbl lf l r, VR) = c) as (Oa & Ol & Or) by (repeat split; reflexivity).
  destruct (Nat.leb_spec d (nlf lf)); cbv iota.
  - (* only the node's own leaf visited *)
    assert (d = nlf lf /\ nlf lf = 1) as [-> En] by (unfold nlf in *; destruct lf; cbn in *; lia).
    rewrite skipn_app, skipn_all2 by lia. rewrite Ll1, Nat.sub_diag. cbn [app skipn].
    assert (l = Nil -> r = Nil -> False) as Hlr by (intros -> ->; change (tot Nil) with 0 in Hd; lia).
    destruct (annot A' l ++ annot A' r) as [|a0 rest] eqn:E.
    + apply (f_equal (@length aent)) in E. rewrite app_length in E. cbn in E. lia.
    + exists (amarg a0).
      match goal with |- context [fut ?X] => assert (X = [(Node lbl lf l r, VA)]) as canon_case
        by (destruct l, r; try reflexivity; exfalso; auto) end.
      rewrite canon_case. cbn [fut fut_atom fst snd opened]. rewrite Oa, app_nil_r, <- !(margs_any _ A'), <- map_app, E.
      split; [destruct a0 as [[e f] m]; reflexivity|].
      assert (afull a0 = (A' + amarg a0)%N) as ->.
      { destruct (annot A' l) as [|a1 r1] eqn:E1; cbn [app] in E.
        - eapply annot_first; eauto.
        - injection E as -> _. eapply annot_first; eauto. }
      unfold A'. lia.
  - rewrite skipn_app, skipn_all2 by lia. rewrite Ll1. cbn [app]. rewrite skipn_app, Ll2.
    destruct (Nat.ltb_spec (d - nlf lf) (tot l)); cbv iota.
    + (* inside the left subtree *)
      specialize (IHl (d - nlf lf) A' ltac:(lia) ltac:(lia) (leafy_l _ _ _ _ L)).
      destruct (skipn (d - nlf lf) (annot A' l)) as [|a0 r0]; [contradiction|].
      destruct IHl as (m & Ef & Em). replace (d - nlf lf - tot l) with 0 by lia. cbn [skipn app].
      exists m. rewrite fut_app, Ef, opened_app. cbn [fut fut_atom fst snd opened app]. rewrite Ol.
      split; [rewrite app_nil_r, map_app, margs_any; reflexivity|]. unfold A' in Em. lia.
    + rewrite (skipn_all2 (annot A' l)) by lia. cbn [app].
      destruct (Nat.eqb_spec (d - nlf lf) (tot l)) as [Ee|Ene]; cbv iota.
      * (* left subtree complete, right untouched *)
        rewrite Ee, Nat.sub_diag. cbn [skipn].
        assert (r <> Nil) as Hr by (intros ->; change (tot Nil) with 0 in Hd; lia).
        destruct (annot A' r) as [|a0 rest] eqn:E; [cbn in Ll3; lia|].
        exists (amarg a0).
        match goal with |- context [fut ?X] => assert (X = [(Node lbl lf l r, VL)]) as Ec
          by (destruct r; congruence) end.
        rewrite Ec. cbn [fut fut_atom fst snd opened]. rewrite Ol, app_nil_r, <- (margs_any _ A'), E. split; [destruct a0 as [[e f] m]; reflexivity|].
        rewrite (annot_first _ _ _ _ E). unfold A'. lia.
      * (* inside the right subtree *)
        destruct (Nat.ltb_spec (d - nlf lf - tot l) (tot r)); [|lia]. cbv iota.
        specialize (IHr (d - nlf lf - tot l) A' ltac:(lia) ltac:(lia) (leafy_r _ _ _ _ L)).
        destruct (skipn (d - nlf lf - tot l) (annot A' r)) as [|a0 r0]; [contradiction|].
        destruct IHr as (m & Ef & Em). exists m. rewrite fut_app, Ef, opened_app.
        cbn [fut fut_atom fst snd opened app]. rewrite Or.
        split; [rewrite app_nil_r; reflexivity|]. unfold A' in Em. lia.
Qed.

(* the canonical stack is a stack of the position, holds open internal nodes only *)
Lemma canon_lrep s : forall d, 1 <= d -> d <= tot s -> leafy s -> lrep s d (canon s d).
Proof.
  induction s as [|k v|lbl lf l IHl r IHr]; intros d H1 Hd L.
  - unfold tot in Hd. cbn in Hd. lia.
  - unfold tot in Hd. cbn in Hd. assert (d = 1) as -> by lia. apply (lr_done (Leaf k v)).
  - rewrite tot_node in Hd. cbn [canon].
    destruct (Nat.leb_spec d (nlf lf)).
    + assert (d = nlf lf) as -> by (unfold nlf in *; destruct lf; cbn in *; lia).
      destruct l, r; try apply lr_at.
      replace (nlf lf) with (tot (Node lbl lf Nil Nil)) by (rewrite tot_node; unfold tot; cbn; lia). apply lr_done.
    + destruct (Nat.ltb_spec (d - nlf lf) (tot l)).
      * replace d with (nlf lf + (d - nlf lf)) at 1 by lia. apply lr_left. apply IHl; try lia. eapply leafy_l; eauto.
      * destruct (Nat.eqb_spec (d - nlf lf) (tot l)) as [Ee|Ene].
        -- replace d with (nlf lf + tot l) by lia. destruct r.
           ++ replace (nlf lf + tot l) with (tot (Node lbl lf l Nil)) by (rewrite tot_node; unfold tot; cbn; lia).
              apply lr_done.
           ++ apply (lr_left lbl lf l _ (tot l) []). apply lr_done.
           ++ apply (lr_left lbl lf l _ (tot l) []). apply lr_done.
        -- destruct (Nat.ltb_spec (d - nlf lf - tot l) (tot r)).
           ++ replace d with (nlf lf + tot l + (d - nlf lf - tot l)) at 1 by lia. apply lr_right.
              apply IHr; try lia. eapply leafy_r; eauto.
           ++ replace d with (tot (Node lbl lf l r)) by (rewrite tot_node; lia). apply lr_done.
Qed.

Lemma canon_atoms s : forall d n st, In (n, st) (canon s d) ->
  st <> VB /\ In n (nodes s) /\ ~ is_leaf n /\ n <> Nil.
Proof.
  induction s as [|k v|lbl lf l IHl r IHr]; intros d n st Hin; cbn [canon] in Hin; try destruct Hin.
  assert (forall st0, st0 <> VB -> (n, st) = (Node lbl lf l r, st0) ->
          st <> VB /\ In n (nodes (Node lbl lf l r)) /\ ~ is_leaf n /\ n <> Nil) as Hself.
  { intros st0 Hs [= -> ->]. repeat split; [assumption|cbn; auto|intros (k & v & E); discriminate|discriminate]. }
  destruct (d <=? nlf lf).
  - assert (In (n, st) [(Node lbl lf l r, VA)]) as Hin' by (destruct l, r; (exact Hin || destruct Hin)).
    destruct Hin' as [E|[]]. symmetry in E. apply (Hself VA); [discriminate|assumption].
  - destruct (d - nlf lf <? tot l).
    + rewrite in_app_iff in Hin. destruct Hin as [Hin|[E|[]]].
      * destruct (IHl _ _ _ Hin) as (? & ? & ? & ?). repeat split; auto. cbn [nodes]. right. rewrite !in_app_iff. auto.
      * symmetry in E. apply (Hself VL); [discriminate|assumption].
    + destruct (d - nlf lf =? tot l).
      * assert (In (n, st) [(Node lbl lf l r, VL)]) as Hin' by (destruct r; (exact Hin || destruct Hin)).
        destruct Hin' as [E|[]]. symmetry in E. apply (Hself VL); [discriminate|assumption].
      * destruct (d - nlf lf - tot l <? tot r); [|destruct Hin].
        rewrite in_app_iff in Hin. destruct Hin as [Hin|[E|[]]].
        -- destruct (IHr _ _ _ Hin) as (? & ? & ? & ?). repeat split; auto. cbn [nodes]. right. rewrite !in_app_iff. auto.
        -- symmetry in E. apply (Hself VR); [discriminate|assumption].
Qed.

(* ------------------------------------------------------------------ *)
(* 4b. what the builder has included: exactly the nodes above visited keys *)
(* ------------------------------------------------------------------ *)
Lemma pbuild_eq H S incl0 t :
  (forall n, In n (nodes t) -> (In n incl0 <-> selected S n)) ->
  pbuild H incl0 t = chunk_of H S t.
Proof.
  induction t as [|k v|lbl lf l IHl r IHr]; intros Hn.
  - reflexivity.
  - cbn [pbuild]. unfold chunk_of. cbn [prune_opt].
    specialize (Hn (Leaf k v) (or_introl eq_refl)).
    destruct (existsb (tree_eqb (Leaf k v)) incl0) eqn:E.
    + apply mem_tree_in in E. apply Hn in E as (k' & v' & [[= <- <-]|[]] & Hs). now rewrite Hs.
    + destruct (S k) eqn:Es; [|reflexivity]. exfalso.
      assert (In (Leaf k v) incl0) as Hi by (apply Hn; exists k, v; cbn; auto).
      apply mem_tree_in in Hi. congruence.
  - cbn [pbuild]. pose proof (Hn _ (or_introl eq_refl)) as Ht.
    assert (forall n, In n (nodes l) -> In n incl0 <-> selected S n) as Hl
      by (intros n Hi; apply Hn; cbn [nodes]; right; rewrite !in_app_iff; auto).
    assert (forall n, In n (nodes r) -> In n incl0 <-> selected S n) as Hr
      by (intros n Hi; apply Hn; cbn [nodes]; right; rewrite !in_app_iff; auto).
    destruct (existsb (tree_eqb (Node lbl lf l r)) incl0) eqn:E.
    + apply mem_tree_in in E. apply Ht in E. rewrite (chunk_node H S _ _ _ _ E), IHl, IHr; auto.
    + unfold chunk_of. rewrite prune_unselected; [reflexivity|]. intros Hs. apply Ht in Hs.
      apply mem_tree_in in Hs. congruence.
Qed.

(* the chain of ancestors of a subtree *)
Inductive achain : tree -> list tree -> tree -> Prop :=
| ac_here t : achain t [] t
| ac_l lbl lf l r p s : achain l p s -> achain (Node lbl lf l r) (Node lbl lf l r :: p) s
| ac_r lbl lf l r p s : achain r p s -> achain (Node lbl lf l r) (Node lbl lf l r :: p) s.

Lemma achain_sub t p s : achain t p s -> sub s t.
Proof. induction 1; [apply sub_refl|apply sub_l; assumption|apply sub_r; assumption]. Qed.

Lemma achain_snoc t p lbl lf l r :
  achain t p (Node lbl lf l r) ->
  achain t (p ++ [Node lbl lf l r]) l /\ achain t (p ++ [Node lbl lf l r]) r.
Proof.
  intros Ha. remember (Node lbl lf l r) as s eqn:Es. induction Ha as [t|? ? ? ? p s Ha IH|? ? ? ? p s Ha IH].
  - subst t. cbn [app]. split; [apply ac_l|apply ac_r]; apply ac_here.
  - destruct (IH Es) as [I1 I2]. cbn [app]. split; apply ac_l; assumption.
  - destruct (IH Es) as [I1 I2]. cbn [app]. split; apply ac_r; assumption.
Qed.

Lemma achain_incl t p s : achain t p s -> incl (p ++ nodes s) (nodes t).
Proof.
  induction 1 as [t|lbl lf l r p s Ha IH|lbl lf l r p s Ha IH]; intros n Hn.
  - exact Hn.
  - cbn [app] in Hn. destruct Hn as [<-|Hn]; [cbn; auto|]. cbn [nodes]. right. rewrite !in_app_iff. auto.
  - cbn [app] in Hn. destruct Hn as [<-|Hn]; [cbn; auto|]. cbn [nodes]. right. rewrite !in_app_iff. auto.
Qed.

Lemma node_not_in_child q lbl lf l r c :
  wf_at q c -> (c = l \/ c = r) -> ~ In (Node lbl lf l r) (nodes c).
Proof.
  intros W Hc Hin. destruct (nodes_facts _ _ W _ Hin) as (_ & _ & _ & L & _). cbn [tnodes] in L.
  destruct Hc as [->| ->]; lia.
Qed.

Lemma achain_nodup t p s : achain t p s -> forall q, wf_at q t -> NoDup (p ++ nodes s).
Proof.
  induction 1 as [t|lbl lf l r p s Ha IH|lbl lf l r p s Ha IH]; intros q W.
  - eapply nodes_nodup; eauto.
  - pose proof W as W0. cbn [wf_at] in W. destruct W as (_ & Wl & Wr & _). cbn [app]. constructor; [|eauto].
    intros Hin. apply (achain_incl _ _ _ Ha) in Hin. eapply node_not_in_child; [exact Wl|left; reflexivity|exact Hin].
  - pose proof W as W0. cbn [wf_at] in W. destruct W as (_ & Wl & Wr & _). cbn [app]. constructor; [|eauto].
    intros Hin. apply (achain_incl _ _ _ Ha) in Hin. eapply node_not_in_child; [exact Wr|right; reflexivity|exact Hin].
Qed.

Lemma achain_contains t p s : achain t p s -> forall n, In n p -> incl (contents s) (contents n).
Proof.
  induction 1 as [t|lbl lf l r p s Ha IH|lbl lf l r p s Ha IH]; intros n Hn; [destruct Hn| |];
    (destruct Hn as [<-|Hn]; [|auto]); pose proof (sub_contents _ _ (achain_sub _ _ _ Ha)) as Hs;
    intros e He; cbn [contents]; rewrite !in_app_iff; auto.
Qed.

(* a node of the tree that holds a key of the subtree lies on the chain or in the subtree *)
Lemma achain_anc t p s : achain t p s -> forall q, wf_at q t ->
  forall n e, In n (nodes t) -> In e (contents s) -> In e (contents n) -> In n p \/ In n (nodes s).
Proof.
  induction 1 as [t|lbl lf l r p s Ha IH|lbl lf l r p s Ha IH]; intros q W n e Hn Hes Hen; [now right| |].
  - pose proof (contents_sorted_at _ _ W) as Srt. cbn [contents] in Srt.
    cbn [wf_at] in W. destruct W as (_ & Wl & Wr & _).
    assert (In e (contents l)) as Hel by (eapply sub_contents; [eapply achain_sub; eauto|assumption]).
    cbn [nodes] in Hn. destruct Hn as [<-|Hn]; [left; now left|]. rewrite !in_app_iff in Hn.
    destruct Hn as [Hn|[Hn|Hn]].
    + exfalso. apply lfnode_contents in Hn as (k & v & -> & ->). destruct Hen as [<-|[]].
      eapply (sorted_distinct _ _ Srt (k, v)); [cbn; auto|apply in_or_app; now left].
    + destruct (IH _ Wl n e Hn Hes Hen); [left; now right|now right].
    + exfalso. destruct (nodes_facts _ _ Wr _ Hn) as (_ & _ & Ir & _).
      apply sorted_app_inv in Srt as (_ & Srt & _).
      eapply (sorted_distinct _ _ Srt e); [exact Hel|apply Ir; exact Hen].
  - pose proof (contents_sorted_at _ _ W) as Srt. cbn [contents] in Srt.
    cbn [wf_at] in W. destruct W as (_ & Wl & Wr & _).
    assert (In e (contents r)) as Her by (eapply sub_contents; [eapply achain_sub; eauto|assumption]).
    cbn [nodes] in Hn. destruct Hn as [<-|Hn]; [left; now left|]. rewrite !in_app_iff in Hn.
    destruct Hn as [Hn|[Hn|Hn]].
    + exfalso. apply lfnode_contents in Hn as (k & v & -> & ->). destruct Hen as [<-|[]].
      eapply (sorted_distinct _ _ Srt (k, v)); [cbn; auto|apply in_or_app; now right].
    + exfalso. destruct (nodes_facts _ _ Wl _ Hn) as (_ & _ & Il & _).
      apply sorted_app_inv in Srt as (_ & Srt & _).
      eapply (sorted_distinct _ _ Srt e); [apply Il; exact Hen|exact Her].
    + destruct (IH _ Wr n e Hn Hes Hen); [left; now right|now right].
Qed.

(* the leaf on top of the stack: its ancestors within the subtree are exactly the open atoms below it *)
Lemma lrep_top_in s d k v rest : lrep s d ((Leaf k v, VB) :: rest) -> In (k, v) (contents s).
Proof.
  intros Hl. remember ((Leaf k v, VB) :: rest) as stk eqn:E. revert rest E.
  induction Hl as [s Hn|s|lbl k0 v0 l r|lbl lf l r|lbl lf l r dl stkl Hl IH|lbl lf l r dr stkr Hl IH]; intros rest E.
  - injection E as -> _. cbn. auto.
  - discriminate.
  - injection E as <- <- _. cbn. auto.
  - discriminate.
  - destruct stkl as [|a0 r0]; [discriminate|]. cbn [app] in E. injection E as -> E.
    cbn [contents]. rewrite !in_app_iff. right; left. eapply IH; eauto.
  - destruct stkr as [|a0 r0]; [discriminate|]. cbn [app] in E. injection E as -> E.
    cbn [contents]. rewrite !in_app_iff. right; right. eapply IH; eauto.
Qed.

Lemma lrep_top_leaf s d k v rest : lrep s d ((Leaf k v, VB) :: rest) -> forall q, wf_at q s ->
  forall n, In n (nodes s) -> In (k, v) (contents n) ->
  n = Leaf k v \/ exists st, In (n, st) rest /\ st <> VB.
Proof.
  intros Hl. remember ((Leaf k v, VB) :: rest) as stk eqn:E. revert rest E.
  induction Hl as [s Hs0|s|lbl k0 v0 l r|lbl lf l r|lbl lf l r dl stkl Hl IH|lbl lf l r dr stkr Hl IH];
    intros rest E q W n Hn Hc.
  - injection E as -> _. destruct Hn as [<-|[]]. now left.
  - discriminate.
  - injection E as <- <- <-. pose proof (contents_sorted_at _ _ W) as Srt. cbn [contents lf_contents] in Srt.
    cbn [wf_at] in W. destruct W as (_ & Wl & Wr & _).
    cbn [nodes lfnode] in Hn. destruct Hn as [<-|[<-|Hn]]; [right; exists VA; split; [now left|discriminate]|now left|].
    exfalso. cbn [app] in Hn. rewrite in_app_iff in Hn.
    assert (In (k0, v0) (contents l ++ contents r)) as Hin.
    { destruct Hn as [Hn|Hn]; [destruct (nodes_facts _ _ Wl _ Hn) as (_ & _ & Il & _)|destruct (nodes_facts _ _ Wr _ Hn) as (_ & _ & Il & _)];
        apply in_or_app; [left|right]; apply Il; exact Hc. }
    eapply (sorted_distinct [(k0, v0)] _ Srt (k0, v0)); [cbn; auto|exact Hin].
  - discriminate.
  - destruct stkl as [|a0 r0]; [discriminate|]. cbn [app] in E. injection E as -> E. subst rest.
    pose proof (lrep_top_in _ _ _ _ _ Hl) as Hkl.
    pose proof (contents_sorted_at _ _ W) as Srt. cbn [contents] in Srt.
    cbn [wf_at] in W. destruct W as (_ & Wl & Wr & _).
    cbn [nodes] in Hn. destruct Hn as [<-|Hn].
    { right. exists VL. split; [apply in_or_app; right; now left|discriminate]. }
    rewrite !in_app_iff in Hn. destruct Hn as [Hn|[Hn|Hn]].
    + exfalso. apply lfnode_contents in Hn as (k1 & v1 & -> & ->). destruct Hc as [[= <- <-]|[]].
      eapply (sorted_distinct _ _ Srt (k1, v1)); [cbn; auto|apply in_or_app; now left].
    + destruct (IH _ eq_refl _ Wl n Hn Hc) as [?|(st & Hi & Hs)]; [now left|].
      right. exists st. split; [apply in_or_app; now left|assumption].
    + exfalso. destruct (nodes_facts _ _ Wr _ Hn) as (_ & _ & Ir & _).
      apply sorted_app_inv in Srt as (_ & Srt & _).
      eapply (sorted_distinct _ _ Srt (k, v)); [exact Hkl|apply Ir; exact Hc].
  - destruct stkr as [|a0 r0]; [discriminate|]. cbn [app] in E. injection E as -> E. subst rest.
    pose proof (lrep_top_in _ _ _ _ _ Hl) as Hkr.
    pose proof (contents_sorted_at _ _ W) as Srt. cbn [contents] in Srt.
    cbn [wf_at] in W. destruct W as (_ & Wl & Wr & _).
    cbn [nodes] in Hn. destruct Hn as [<-|Hn].
    { right. exists VR. split; [apply in_or_app; right; now left|discriminate]. }
    rewrite !in_app_iff in Hn. destruct Hn as [Hn|[Hn|Hn]].
    + exfalso. apply lfnode_contents in Hn as (k1 & v1 & -> & ->). destruct Hc as [[= <- <-]|[]].
      eapply (sorted_distinct _ _ Srt (k1, v1)); [cbn; auto|apply in_or_app; now right].
    + exfalso. destruct (nodes_facts _ _ Wl _ Hn) as (_ & _ & Il & _).
      apply sorted_app_inv in Srt as (_ & Srt & _).
      eapply (sorted_distinct _ _ Srt (k, v)); [apply Il; exact Hc|exact Hkr].
    + destruct (IH _ eq_refl _ Wr n Hn Hc) as [?|(st & Hi & Hs)]; [now left|].
      right. exists st. split; [apply in_or_app; now left|assumption].
Qed.

(* ------------------------------------------------------------------ *)
(* 5. one nextChunk                                                     *)
(* ------------------------------------------------------------------ *)
Definition sn_atom (a : atom) : list tree := match snd a with VB => [] | _ => [fst a] end.
Fixpoint sn (stk : list atom) : list tree := match stk with [] => [] | a :: r => sn_atom a ++ sn r end.
Lemma sn_app a b : sn (a ++ b) = sn a ++ sn b.
Proof. induction a as [|x a IH]; cbn [sn app]; [reflexivity|]. now rewrite IH, app_assoc. Qed.

Lemma nodup_drop_mid {A} (a b c : list A) : NoDup (a ++ b ++ c) -> NoDup (a ++ c).
Proof.
  intros Hn. apply NoDup_app_inv in Hn as (Ha & Hbc & Hd). apply NoDup_app_inv in Hbc as (_ & Hc & _).
  apply NoDup_app_intro; auto. intros x Hx Hc'. apply (Hd x Hx). apply in_or_app. now right.
Qed.
Lemma nodup_swap_mid {A} (a b c d : list A) : NoDup (a ++ b ++ c ++ d) -> NoDup (a ++ c ++ b ++ d).
Proof.
  intros Hn. eapply Permutation_NoDup; [|exact Hn]. apply Permutation_app_head.
  rewrite !app_assoc. apply Permutation_app_tail. apply Permutation_app_comm.
Qed.

Lemma canon_alloc s : forall d P Q,
  NoDup (P ++ nodes s ++ Q) -> NoDup (P ++ sn (canon s d) ++ todo (canon s d) ++ Q).
Proof.
  induction s as [|k v|lbl lf l IHl r IHr]; intros d P Q Hn.
  - exact Hn.
  - cbn [canon sn todo app]. apply (nodup_drop_mid P [Leaf k v] Q). exact Hn.
  - cbn [nodes] in Hn. cbn [canon].
    assert (NoDup (P ++ [(Node lbl lf l r)] ++ nodes l ++ nodes r ++ Q)) as Hn1.
    { replace (P ++ ((Node lbl lf l r) :: lfnode lf ++ nodes l ++ nodes r) ++ Q)
        with ((P ++ [(Node lbl lf l r)]) ++ lfnode lf ++ (nodes l ++ nodes r ++ Q)) in Hn
        by (cbn [app]; rewrite <- !app_assoc; reflexivity).
      apply nodup_drop_mid in Hn. rewrite <- app_assoc in Hn. exact Hn. }
    destruct (d <=? nlf lf).
    + assert (NoDup (P ++ sn [((Node lbl lf l r), VA)] ++ todo [((Node lbl lf l r), VA)] ++ Q)) as G.
      { cbn [sn sn_atom todo todo_atom fst snd app]. rewrite app_nil_r, <- !app_assoc. exact Hn1. }
      destruct l, r; try exact G. cbn [sn todo app]. cbn [nodes app] in Hn1. apply (nodup_drop_mid P [(Node lbl lf Nil Nil)] Q). exact Hn1.
    + destruct (d - nlf lf <? tot l).
      * rewrite sn_app, todo_app. cbn [sn sn_atom todo todo_atom fst snd app]. rewrite !app_nil_r, <- !app_assoc.
        specialize (IHl (d - nlf lf) (P ++ [(Node lbl lf l r)]) (nodes r ++ Q)). rewrite <- !app_assoc in IHl. specialize (IHl Hn1).
        apply (nodup_swap_mid P [(Node lbl lf l r)] (sn (canon l (d - nlf lf)))) in IHl. exact IHl.
      * destruct (d - nlf lf =? tot l).
        -- assert (NoDup (P ++ sn [((Node lbl lf l r), VL)] ++ todo [((Node lbl lf l r), VL)] ++ Q)) as G.
           { cbn [sn sn_atom todo todo_atom fst snd app]. rewrite app_nil_r.
             replace (P ++ [(Node lbl lf l r)] ++ nodes l ++ nodes r ++ Q) with ((P ++ [(Node lbl lf l r)]) ++ nodes l ++ (nodes r ++ Q)) in Hn1
               by (rewrite <- !app_assoc; reflexivity).
             apply nodup_drop_mid in Hn1. rewrite <- !app_assoc in Hn1. exact Hn1. }
           destruct r; try exact G. cbn [sn todo app].
           replace (P ++ [(Node lbl lf l Nil)] ++ nodes l ++ nodes Nil ++ Q) with (P ++ ([(Node lbl lf l Nil)] ++ nodes l) ++ Q) in Hn1
             by (cbn [nodes app]; rewrite <- ?app_assoc; reflexivity).
           apply nodup_drop_mid in Hn1. exact Hn1.
        -- destruct (d - nlf lf - tot l <? tot r).
           ++ rewrite sn_app, todo_app. cbn [sn sn_atom todo todo_atom fst snd app]. rewrite !app_nil_r, <- !app_assoc.
              replace (P ++ [(Node lbl lf l r)] ++ nodes l ++ nodes r ++ Q) with ((P ++ [(Node lbl lf l r)]) ++ nodes l ++ (nodes r ++ Q)) in Hn1
                by (rewrite <- !app_assoc; reflexivity).
              apply nodup_drop_mid in Hn1.
              specialize (IHr (d - nlf lf - tot l) (P ++ [(Node lbl lf l r)]) Q Hn1). rewrite <- !app_assoc in IHr.
              apply (nodup_swap_mid P [(Node lbl lf l r)] (sn (canon r (d - nlf lf - tot l)))) in IHr. exact IHr.
           ++ cbn [sn todo app].
              replace (P ++ [(Node lbl lf l r)] ++ nodes l ++ nodes r ++ Q) with (P ++ ([(Node lbl lf l r)] ++ nodes l ++ nodes r) ++ Q) in Hn1
                by (rewrite <- !app_assoc; reflexivity).
              apply nodup_drop_mid in Hn1. exact Hn1.
Qed.

Lemma nodes_trans s : forall n, In n (nodes s) -> incl (nodes n) (nodes s).
Proof.
  induction s as [|k v|lbl lf l IHl r IHr]; intros n Hn; cbn [nodes] in Hn.
  - destruct Hn.
  - destruct Hn as [<-|[]]. intros x Hx; exact Hx.
  - destruct Hn as [<-|Hn]; [intros x Hx; exact Hx|]. rewrite !in_app_iff in Hn.
    intros x Hx. cbn [nodes]. right. rewrite !in_app_iff. destruct Hn as [Hn|[Hn|Hn]].
    + apply lfnode_contents in Hn as (k & v & -> & ->). destruct Hx as [<-|[]]. left. cbn. auto.
    + right; left. eapply IHl; eauto.
    + right; right. eapply IHr; eauto.
Qed.

Lemma leafy_in s n : leafy s -> In n (nodes s) -> leafy n.
Proof. intros L Hn m Hm. apply L. eapply nodes_trans; eauto. Qed.

Lemma wf_leafy q s : wf_at q s -> leafy s.
Proof. intros W m Hm. destruct (nodes_facts _ _ W _ Hm) as (_ & ? & _). assumption. Qed.

Lemma pops_bound s : pops s <= 4 * tnodes s.
Proof.
  induction s as [|k v|lbl lf l IHl r IHr]; cbn [pops tnodes]; try lia.
  assert (length (lf_contents lf) <= 1) by (destruct lf; cbn; lia). lia.
Qed.

Lemma lrep_smu s d stk : lrep s d stk -> smu stk <= pops s.
Proof.
  assert (forall a b, smu (a ++ b) = smu a + smu b) as Happ
    by (induction a as [|x a IH]; intros b; cbn [smu app]; [reflexivity|rewrite IH; lia]).
  induction 1; try rewrite Happ; cbn [smu]; unfold mu_atom; cbn [fst snd pops lf_contents length]; try lia.
Qed.

Lemma nsize_cons x l : nsize_sum (x :: l) = (node_size x + nsize_sum l)%N.
Proof. reflexivity. Qed.
Lemma nsize_perm l1 l2 : Permutation l1 l2 -> nsize_sum l1 = nsize_sum l2.
Proof. induction 1; rewrite ?nsize_cons; try lia. Qed.
Lemma nsize_app a b : nsize_sum (a ++ b) = (nsize_sum a + nsize_sum b)%N.
Proof. induction a as [|x a IH]; cbn [app]; rewrite ?nsize_cons; [cbn; lia|]. rewrite IH. lia. Qed.

Lemma opened_sn stk : opened stk = nsize_sum (sn stk).
Proof.
  induction stk as [|[n st] r IH]; [reflexivity|]. cbn [opened sn]. rewrite nsize_app, IH.
  unfold opened_atom, sn_atom. cbn [fst snd]. destruct st; cbn; lia.
Qed.

Lemma margs_head n : leafy n -> n <> Nil -> exists e m r, margs n = (e, m) :: r /\ In e (contents n).
Proof.
  intros L Hn. pose proof (L n (nodes_self n Hn)) as Hc. pose proof (margs_entries n) as E.
  destruct (margs n) as [|[e m] r]; [exfalso; apply Hc; rewrite <- E; reflexivity|]. exists e, m, r. split; [reflexivity|].
  rewrite <- E. cbn. auto.
Qed.

Section RunFrom.
  Variable s : tree.
  Variable q : path.
  Hypothesis Ws : wf_at q s.
  Variable d0 : nat.
  Variable inc0 : list tree.

  Definition J (c : cfg) : Prop :=
    let '(stk, pb, ll, vis, jl) := c in
    (incl inc0 (inc pb) /\ (jl = true -> ll = true)) /\
    good stk pb /\ lrep s (d0 + length vis) stk /\ (jl = true -> arep s (d0 + length vis) stk) /\
    (forall n, In n (inc pb) ->
       (exists e, In e vis /\ In e (contents n)) \/
       (ll = false /\ exists e m r, fut stk = (e, m) :: r /\ In e (contents n))) /\
    (forall e n, In e vis -> In n (nodes s) -> In e (contents n) -> In n (inc pb)).

  Lemma J_step a rest pb ll vis jl : J (a :: rest, pb, ll, vis, jl) -> J (cstep a rest pb ll vis).
  Proof.
    intros ((H0 & _) & Hg & Hl & _ & HA & HB).
    destruct (good_step a rest pb Hg) as (Hg' & Hinc & _).
    pose proof (fut_step a rest pb Hg) as Hf.
    pose proof (lrep_step _ _ _ _ Hl) as Hl'.
    assert (incl (inc pb) (inc (include (fst a) pb))) as Hmono
      by (rewrite Hinc; destruct (match snd a with VB => true | _ => false end); intros x Hx; [now right|assumption]).
    unfold cstep. destruct (mstep a rest) as [stk1 e1] eqn:Ems. cbn [fst snd] in *.
    destruct e1 as [e| |]; cbn [leafev] in Hl'.
    - (* leaf *)
      destruct Hf as [Hf Hvb]. rewrite Hvb in Hinc.
      assert (exists k v, a = (Leaf k v, VB) /\ e = (k, v)) as (k & v & -> & ->).
      { destruct a as [nd st]. cbn [snd] in Hvb. subst st. unfold mstep in Ems. cbn [fst snd] in Ems.
        destruct nd as [|k v|? ? ? ?]; try discriminate. injection Ems as _ <-. eauto. }
      cbn [fst] in *. refine (conj (conj (fun x Hx => Hmono x (H0 x Hx)) _) (conj Hg' (conj _ (conj _ (conj _ _))))).
      + reflexivity.
      + cbn [length]. replace (d0 + S (length vis)) with (d0 + length vis + 1) by lia. exact Hl'.
      + intros _. cbn [length]. replace (d0 + S (length vis)) with (d0 + length vis + 1) by lia.
        replace stk1 with (fst (mstep (Leaf k v, VB) rest)) by (now rewrite Ems).
        eapply lrep_leaf_arep; [exact Hl|now rewrite Ems].
      + intros n Hn. left. rewrite Hinc in Hn. destruct Hn as [<-|Hn].
        * exists (k, v). split; [now left|cbn; auto].
        * destruct (HA n Hn) as [(e & He & Hc)|(_ & e & m & r & Ef & Hc)].
          -- exists e. split; [now right|assumption].
          -- rewrite Hf in Ef. injection Ef as <- _ _. exists (k, v). split; [now left|assumption].
      + intros e n [<-|He] Hn Hc.
        * rewrite Hinc. destruct (lrep_top_leaf _ _ _ _ _ Hl _ Ws n Hn Hc) as [->|(st & Hi & Hs)]; [now left|].
          right. destruct Hg as (_ & _ & Hat). destruct (Hat n st (or_intror Hi)) as (_ & Hin & _). auto.
        * apply Hmono. eapply HB; eauto.
    - (* open *)
      destruct Hf as (Hf & Hne & Hvb). rewrite Hvb in Hinc. refine (conj (conj (fun x Hx => Hmono x (H0 x Hx)) _) (conj Hg' (conj _ (conj _ (conj _ _))))).
      + discriminate.
      + rewrite Nat.add_0_r in Hl'. exact Hl'.
      + discriminate.
      + intros n Hn. destruct (fut stk1) as [|[e m] r] eqn:Ef; [congruence|]. cbn [bumpm] in Hf.
        rewrite Hinc in Hn. destruct Hn as [<-|Hn].
        * right. split; [reflexivity|]. exists e, m, r. split; [reflexivity|].
          destruct Hg as (_ & _ & Hat). destruct a as [nd st]. cbn [fst snd] in *. subst st.
          destruct (Hat nd VB (or_introl eq_refl)) as (Hnn & _ & _ & Hly).
          destruct (margs_head nd Hly Hnn) as (e' & m' & r' & Em & Hc).
          cbn [fut fut_atom fst snd] in Hf. rewrite Em in Hf. cbn [app] in Hf. injection Hf as -> _ _. exact Hc.
        * destruct (HA n Hn) as [(e' & He & Hc)|(Hll & e' & m' & r' & Ef' & Hc)].
          -- left. eauto.
          -- right. split; [reflexivity|]. exists e, m, r. split; [reflexivity|].
             rewrite Hf in Ef'. injection Ef' as <- _ _. exact Hc.
      + intros e n He Hn Hc. apply Hmono. eapply HB; eauto.
    - (* a state transition *)
      destruct Hf as [Hf Hnvb].
      assert (inc (include (fst a) pb) = inc pb) as Hinc' by (rewrite Hinc; destruct (snd a); congruence).
      refine (conj (conj (fun x Hx => Hmono x (H0 x Hx)) _) (conj Hg' (conj _ (conj _ (conj _ _))))).
      + discriminate.
      + rewrite Nat.add_0_r in Hl'. exact Hl'.
      + discriminate.
      + intros n Hn. rewrite Hinc' in Hn. rewrite <- Hf. auto.
      + intros e n He Hn Hc. rewrite Hinc'. eapply HB; eauto.
  Qed.
End RunFrom.

Section NextChunk.
  Variable H : bytes -> bytes.
  Variable t : tree.
  Hypothesis Wt : wf t.
  Variable size : N.

  Lemma next_run_incl l : incl (next_run size l) (map aentry l).
  Proof. intros e He. rewrite (next_run_split size l). apply in_or_app. now left. Qed.

  Lemma run_from s q path d stk pb fuel a0 r0 m :
    wf_at q s -> achain t path s ->
    good stk pb -> lrep s d stk -> smu stk < fuel ->
    (forall n, In n path -> In n (inc pb)) ->
    (forall n, In n (inc pb) -> exists e m' r, fut stk = (e, m') :: r /\ In e (contents n)) ->
    skipn d (annot (nsize_sum path) s) = a0 :: r0 ->
    fut stk = (aentry a0, m) :: map toem r0 -> (psize pb + m = afull a0)%N ->
    let run := next_run size (skipn d (annot (nsize_sum path) s)) in
    exists stk' pb',
      nc_loop fuel size stk pb false [] = Some (stk', pb', run) /\
      trim stk' = canon s (d + length run) /\
      pbuild H (inc pb') t = chunk_of H (inrun run) t.
  Proof.
    intros Ws Hch Hg Hl Hfu Hpath HA0 Esk Efut Epsz run.
    destruct (loop_run size fuel stk pb false [] false Hg Hfu ltac:(discriminate))
      as (stk' & pb' & ll' & jl' & E & R & F).
    assert (visits size stk pb false = run) as Ev.
    { unfold visits, run. rewrite Efut, Esk, Epsz. destruct a0 as [[e f] mm]. cbn [next_run aentry fst].
      now rewrite take_more_tm. }
    rewrite Ev in E, R. cbn [rev app] in E, R.
    assert (J s d path (stk', pb', ll', rev run, jl')) as Jend.
    { eapply (reach_inv (J s d path)); [|exact R|].
      - intros. eapply (J_step s q Ws); eauto.
      - refine (conj (conj Hpath _) (conj Hg (conj _ (conj _ (conj _ _))))).
        + discriminate.
        + cbn [length]. rewrite Nat.add_0_r. exact Hl.
        + discriminate.
        + intros n Hn. right. split; [reflexivity|]. destruct (HA0 n Hn) as (e & m' & r & ? & ?). eauto.
        + intros e n []. }
    destruct Jend as ((Hp' & Hjl) & Hg' & Hl' & Ha' & HA & HB). rewrite rev_length in Hl', Ha'.
    exists stk', pb'. split; [exact E|].
    assert (run <> []) as Hrne by (unfold run; rewrite Esk; destruct a0 as [[? ?] ?]; discriminate).
    assert (1 <= length run) as Hlen by (destruct run; [congruence|cbn; lia]).
    pose proof (wf_leafy _ _ Ws) as Ly.
    split.
    - destruct F as [->|Hj].
      + apply lrep_nil in Hl'. cbn [trim]. symmetry. apply canon_done; auto; lia.
      + apply trim_arep; auto.
    - apply pbuild_eq. intros n Hn. split.
      + intros Hi. destruct (HA n Hi) as [(e & He & Hc)|(Hll & e & m' & r & Ef & _)].
        * apply in_rev in He. destruct e as [k v]. exists k, v. split; [assumption|]. eapply inrun_self; eauto.
        * exfalso. destruct F as [->|Hj]; [discriminate|]. rewrite (Hjl Hj) in Hll. discriminate.
      + intros (k & v & Hc & Hs).
        assert (exists v', In (k, v') run) as (v' & Hr).
        { unfold inrun in Hs. apply existsb_exists in Hs as ([k' v'] & Hin & Hk). cbn in Hk.
          apply bytes_eqb_eq in Hk. subst k'. eauto. }
        assert (In (k, v') (contents s)) as Hcs.
        { apply next_run_incl in Hr. rewrite <- skipn_map, annot_entries in Hr.
          rewrite <- (firstn_skipn d (contents s)). apply in_or_app. now right. }
        pose proof (achain_sub _ _ _ Hch) as Hsub.
        assert (v' = v) as ->.
        { eapply (sorted_key_unique (contents t)); [now apply contents_sorted|eapply sub_contents; eauto|].
          destruct (nodes_facts _ _ Wt _ Hn) as (_ & _ & Ic & _). now apply Ic. }
        destruct (achain_anc _ _ _ Hch _ Wt n (k, v) Hn Hcs Hc) as [Hp|Hns]; [now apply Hp'|].
        eapply HB; eauto. apply in_rev. now rewrite rev_involutive.
  Qed.
End NextChunk.

(* ------------------------------------------------------------------ *)
(* 6. the representation relation and the three one-step facts          *)
(* ------------------------------------------------------------------ *)
Definition cstack (s : tree) (d : nat) : list atom :=
  match d with O => [(s, VB)] | _ => canon s d end.

Lemma canon_contains s : forall d e n st,
  In (n, st) (canon s d) -> nth_error (contents s) d = Some e -> In e (contents n).
Proof.
  induction s as [|k v|lbl lf l IHl r IHr]; intros d e n st Hin Hnth; cbn [canon] in Hin; try destruct Hin.
  assert (forall st0, (n, st) = (Node lbl lf l r, st0) -> In e (contents n)) as Hself.
  { intros st0 [= -> ->]. eapply nth_error_In; eauto. }
  cbn [contents] in Hnth. fold (nlf lf) in *.
  destruct (Nat.leb_spec d (nlf lf)).
  - assert (In (n, st) [(Node lbl lf l r, VA)]) as Hin' by (destruct l, r; (exact Hin || destruct Hin)).
    destruct Hin' as [E|[]]. symmetry in E. eauto.
  - rewrite nth_error_app2 in Hnth by (unfold nlf in *; lia). fold (nlf lf) in Hnth.
    destruct (Nat.ltb_spec (d - nlf lf) (tot l)).
    + rewrite nth_error_app1 in Hnth by assumption.
      rewrite in_app_iff in Hin. destruct Hin as [Hin|[E|[]]]; [|symmetry in E; eapply Hself; eauto].
      eapply IHl; eauto.
    + destruct (Nat.eqb_spec (d - nlf lf) (tot l)).
      * assert (In (n, st) [(Node lbl lf l r, VL)]) as Hin' by (destruct r; (exact Hin || destruct Hin)).
        destruct Hin' as [E|[]]. symmetry in E. eapply Hself; eauto.
      * destruct (Nat.ltb_spec (d - nlf lf - tot l) (tot r)); [|destruct Hin].
        rewrite nth_error_app2 in Hnth by assumption. fold (tot l) in Hnth.
        rewrite in_app_iff in Hin. destruct Hin as [Hin|[E|[]]]; [|symmetry in E; eapply Hself; eauto].
        eapply IHr; eauto.
Qed.

Lemma include_idem n pb : pb_ok pb -> include n (include n pb) = include n pb.
Proof.
  intros Hok. destruct (include_ok n pb Hok) as [Hok' Hin].
  unfold include at 1. destruct n as [|k v|lbl lf l r]; [reflexivity| |];
    (destruct (existsb _ (inc (include _ pb))) eqn:E; [reflexivity|]);
    exfalso; assert (E' : existsb (tree_eqb _) (inc (include _ pb)) = true)
      by (apply mem_tree_in; apply Hin; right; split; [reflexivity|discriminate]);
    rewrite E' in E; discriminate.
Qed.

Lemma fold_include_map (l : list atom) pb :
  fold_left (fun pb a => include (fst a) pb) l pb = fold_left (fun pb n => include n pb) (map fst l) pb.
Proof. revert pb; induction l as [|a l IH]; intros pb; cbn [fold_left map]; auto. Qed.

Lemma next_run_len size l : length (next_run size l) <= length l.
Proof.
  pose proof (next_run_split size l) as E. apply (f_equal (@length entry)) in E.
  rewrite map_length, app_length in E. lia.
Qed.

Section Premises.
  Variable H : bytes -> bytes.
  Variable t : tree.
  Hypothesis Wt : wf t.
  Variable size : N.

  Definition Rrep (st : stask) (c : task) : Prop :=
    tsub c <> Nil /\ achain t (spath st) (tsub c) /\ tanc c = nsize_sum (spath st) /\
    tdone c <= tot (tsub c) /\ spend st = cstack (tsub c) (tdone c).

  Lemma Rrep_wf st c : Rrep st c -> exists q, wf_at q (tsub c).
  Proof. intros (_ & Hch & _). eapply sub_wf; [eapply achain_sub; eauto|exact Wt]. Qed.

  (* --- hasNext --- *)
  Lemma fin_agree st c : Rrep st c -> s_finished st = negb (unfinished c).
  Proof.
    intros Hr. destruct (Rrep_wf _ _ Hr) as [q Wq]. pose proof (wf_leafy _ _ Wq) as Ly.
    destruct Hr as (Hn & _ & _ & Hle & Hsp). unfold s_finished, unfinished. rewrite Hsp. fold (tot (tsub c)).
    pose proof (leafy_tot _ Ly Hn) as Ht. unfold cstack. destruct (tdone c) as [|d'] eqn:Ed.
    - destruct (Nat.ltb_spec 0 (tot (tsub c))); [reflexivity|lia].
    - destruct (Nat.ltb_spec (S d') (tot (tsub c))).
      + pose proof (canon_nonempty (tsub c) (S d') ltac:(lia) ltac:(assumption) Ly).
        destruct (canon (tsub c) (S d')); [congruence|reflexivity].
      + rewrite canon_done by (auto; lia). reflexivity.
  Qed.

  (* --- nextChunk --- *)
  Lemma next_agree st c :
    Rrep st c -> unfinished c = true ->
    exists st', s_next_chunk H t size st =
                Some (chunk_of H (inrun (task_run size c)) t, task_run size c, st') /\
                Rrep st' (advance size c).
  Proof.
    intros Hr Hu. destruct (Rrep_wf _ _ Hr) as [q Wq]. pose proof (wf_leafy _ _ Wq) as Ly.
    destruct Hr as (Hn & Hch & Ha & Hle & Hsp).
    destruct st as [path stk], c as [s a d]. cbn [tsub tanc tdone spath spend] in *. subst a stk.
    unfold unfinished in Hu. cbn [tsub tdone] in Hu. apply Nat.ltb_lt in Hu. fold (tot s) in Hu.
    unfold s_next_chunk. cbn [spath spend].
    rewrite fold_include_map, <- fold_left_app.
    set (run := task_run size (mk s (nsize_sum path) d)).
    assert (run = next_run size (skipn d (annot (nsize_sum path) s))) as Erun by reflexivity.
    (* the remaining keys *)
    destruct (skipn d (annot (nsize_sum path) s)) as [|a0 r0] eqn:Esk.
    { apply (f_equal (@length aent)) in Esk. rewrite skipn_length, annot_length in Esk. unfold tot in Hu. cbn in Esk. lia. }
    pose proof (achain_nodup _ _ _ Hch _ Wt) as Hnd.
    assert (4 * tnodes s < 4 * tnodes t + 4) as Hfuel.
    { pose proof (achain_incl _ _ _ Hch s (in_or_app _ _ _ (or_intror (nodes_self s Hn)))) as Hin.
      destruct (nodes_facts _ _ Wt _ Hin) as (_ & _ & _ & L & _). lia. }
    assert (forall stk', Rrep (mks path (trim stk')) (advance size (mk s (nsize_sum path) d)) <->
                         trim stk' = canon s (d + length run)) as Hres.
    { intros stk'. unfold Rrep, advance. cbn [tsub tanc tdone spath spend]. fold run.
      assert (1 <= length run) by (rewrite Erun; destruct a0 as [[? ?] ?]; cbn; lia).
      assert (d + length run <= tot s).
      { pose proof (next_run_len size (a0 :: r0)) as Ll. rewrite <- Erun in Ll.
        apply (f_equal (@length aent)) in Esk. rewrite skipn_length, annot_length in Esk. unfold tot. lia. }
      unfold cstack. destruct (d + length run) eqn:E; [lia|]. rewrite <- E.
      split; [intros (_ & _ & _ & _ & X); exact X|intros X; repeat split; auto; lia]. }
    destruct d as [|d'].
    - (* a fresh task: pending = [subtree root], already included up front *)
      cbn [cstack rev map app]. rewrite fold_left_app. cbn [fold_left fst].
      set (pbP := fold_left (fun pb n => include n pb) path (mkpb [] 0%N)).
      destruct (pb_size_is_sum_l path) as (HndP & HszP & HinP). fold pbP in HndP, HszP, HinP.
      assert (pb_ok pbP) as HokP.
      { repeat split; auto. intros Hi. apply HinP in Hi as [_ Hi]. congruence. }
      assert (forall n, In n path -> n <> Nil).
      { intros n Hi Hnil. subst n. pose proof (achain_incl _ _ _ Hch Nil (in_or_app _ _ _ (or_introl Hi))) as Hin.
        destruct (nodes_facts _ _ Wt _ Hin) as (Hnn & _). congruence. }
      assert (Permutation (inc pbP) path) as Hperm.
      { apply NoDup_Permutation; auto.
        - apply NoDup_app_inv in Hnd as (Hp & _). exact Hp.
        - intros x. rewrite HinP. split; [tauto|]. intros Hx. split; auto. }
      assert (nc_loop (4 * tnodes t + 4) size [(s, VB)] (include s pbP) false [] =
              nc_loop (4 * tnodes t + 4) size [(s, VB)] pbP false []) as Esame.
      { replace (4 * tnodes t + 4) with (S (4 * tnodes t + 3)) by lia. rewrite !nc_loop_unfold.
        rewrite !andb_false_r. cbn [fst]. now rewrite include_idem. }
      rewrite Esame.
      destruct (run_from H t Wt size s q path 0 [(s, VB)] pbP (4 * tnodes t + 4) a0 r0 (amarg a0) Wq Hch)
        as (stk' & pb' & E & Etrim & Epb).
      + (* good *)
        split; [exact HokP|]. split.
        * cbn [todo todo_atom fst snd]. rewrite app_nil_r.
          eapply Permutation_NoDup; [|exact Hnd]. apply Permutation_app_tail. now apply Permutation_sym.
        * intros n st [[= <- <-]|[]]. repeat split; auto; congruence.
      + now apply lr_fresh.
      + cbn [smu]. unfold mu_atom. cbn [fst snd]. pose proof (pops_bound s). lia.
      + intros n Hi. apply HinP. split; auto.
      + intros n Hi. apply HinP in Hi as [Hi _].
        destruct (margs_head s Ly Hn) as (e & m' & r & Em & Hc). exists e, m', r.
        cbn [fut fut_atom fst snd]. rewrite app_nil_r. split; [exact Em|].
        eapply achain_contains; eauto.
      + exact Esk.
      + cbn [fut fut_atom fst snd skipn] in *. rewrite app_nil_r. rewrite <- (margs_any s (nsize_sum path)), Esk.
        destruct a0 as [[e f] m]. reflexivity.
      + rewrite HszP, (nsize_perm _ _ Hperm). cbn [skipn] in Esk. symmetry. eapply annot_first; eauto.
      + rewrite Esk in E, Etrim, Epb. rewrite <- Erun in E, Etrim, Epb. rewrite E. eexists. split; [rewrite Epb; reflexivity|].
        apply Hres. exact Etrim.
    - (* at least one key of the subtree visited before: the canonical stack *)
      cbn [cstack]. set (d := S d') in *. set (stk := canon s d).
      set (pb1 := fold_left (fun pb n => include n pb) (path ++ map fst (rev stk)) (mkpb [] 0%N)).
      destruct (pb_size_is_sum_l (path ++ map fst (rev stk))) as (Hnd1 & Hsz1 & Hin1). fold pb1 in Hnd1, Hsz1, Hin1.
      pose proof (canon_atoms s d) as Hat. fold stk in Hat.
      assert (sn stk = map fst stk) as Esn.
      { clear - Hat. induction stk as [|[n st] r IH]; [reflexivity|]. cbn [sn map]. unfold sn_atom. cbn [fst snd].
        destruct (Hat n st (or_introl eq_refl)) as (Hs & _). destruct st; try congruence; cbn [app]; f_equal;
          apply IH; intros; apply Hat; now right. }
      pose proof (canon_alloc s d path [] ltac:(rewrite app_nil_r; exact Hnd)) as Hall. fold stk in Hall.
      rewrite app_nil_r in Hall.
      assert (NoDup (path ++ sn stk)) as Hnd2.
      { rewrite app_assoc in Hall. apply NoDup_app_inv in Hall as (Hx & _). exact Hx. }
      assert (forall n, In n (path ++ sn stk) -> n <> Nil) as Hnn.
      { intros n Hi Hnil. subst n. apply in_app_or in Hi as [Hi|Hi].
        - pose proof (achain_incl _ _ _ Hch Nil (in_or_app _ _ _ (or_introl Hi))) as Hin.
          destruct (nodes_facts _ _ Wt _ Hin) as (Hnn & _). congruence.
        - rewrite Esn in Hi. apply in_map_iff in Hi as ([n st] & E & Hi). cbn in E. subst n.
          destruct (Hat _ _ Hi) as (_ & _ & _ & Hx). congruence. }
      assert (Permutation (inc pb1) (path ++ sn stk)) as Hperm.
      { apply NoDup_Permutation; auto. intros x. rewrite Hin1, Esn, !in_app_iff, map_rev, <- in_rev. split.
        - tauto.
        - intros Hx. split; [assumption|]. apply Hnn. rewrite Esn. apply in_or_app. exact Hx. }
      assert (pb_ok pb1) as Hok1.
      { repeat split; auto. intros Hi. apply Hin1 in Hi as [_ Hi]. congruence. }
      pose proof (canon_fut s d (nsize_sum path) ltac:(lia) Hu Ly) as Hcf. rewrite Esk in Hcf. fold stk in Hcf.
      destruct Hcf as (m & Efut & Efull).
      destruct (run_from H t Wt size s q path d stk pb1 (4 * tnodes t + 4) a0 r0 m Wq Hch)
        as (stk' & pb' & E & Etrim & Epb).
      + split; [exact Hok1|]. split.
        * eapply Permutation_NoDup; [apply Permutation_app_tail, Permutation_sym; exact Hperm|].
          rewrite <- app_assoc. exact Hall.
        * intros n st Hi. destruct (Hat n st Hi) as (Hs & Hns & Hnl & Hnn').
          repeat split; auto.
          -- intros _. eapply Permutation_in; [apply Permutation_sym; exact Hperm|].
             apply in_or_app. right. rewrite Esn. apply in_map_iff. exists (n, st). auto.
          -- intros Hl. contradiction.
          -- eapply leafy_in; eauto.
      + apply canon_lrep; auto; lia.
      + pose proof (lrep_smu s d stk (canon_lrep s d ltac:(lia) ltac:(lia) Ly)). pose proof (pops_bound s). lia.
      + intros n Hi. eapply Permutation_in; [apply Permutation_sym; exact Hperm|]. apply in_or_app. now left.
      + intros n Hi. exists (aentry a0), m, (map toem r0). split; [exact Efut|].
        assert (nth_error (contents s) d = Some (aentry a0)) as Hnth.
        { rewrite <- (annot_entries s (nsize_sum path)), nth_error_map.
          rewrite <- (firstn_skipn d (annot (nsize_sum path) s)), Esk.
          rewrite nth_error_app2 by (rewrite firstn_length; lia).
          rewrite firstn_length, annot_length. fold (tot s). replace (d - Nat.min d (tot s)) with 0 by lia. reflexivity. }
        eapply Permutation_in in Hi; [|exact Hperm]. apply in_app_or in Hi as [Hi|Hi].
        * eapply achain_contains; eauto. eapply nth_error_In; eauto.
        * rewrite Esn in Hi. apply in_map_iff in Hi as ([n' st] & En & Hi). cbn in En. subst n'.
          eapply canon_contains; eauto.
      + exact Esk.
      + exact Efut.
      + rewrite Hsz1, (nsize_perm _ _ Hperm), nsize_app, <- opened_sn. exact Efull.
      + rewrite Esk in E, Etrim, Epb. rewrite <- Erun in E, Etrim, Epb.
        rewrite E. eexists. split; [rewrite Epb; reflexivity|]. apply Hres. exact Etrim.
  Qed.
End Premises.

From Verif Require Import Ckpt.StackProofs.

Section Premises2.
  Variable H : bytes -> bytes.
  Variable t : tree.
  Hypothesis Wt : wf t.

  Notation RUrep := (RU (Rrep t)).

  Lemma child_rel path s lbl lf l r c a :
    s = Node lbl lf l r -> achain t path s -> (c = l \/ c = r) -> a = nsize_sum path ->
    Forall2 RUrep (s_child path s c) (child_tasks (a + node_cost lbl lf) [c]).
  Proof.
    intros Es Hch Hc Ea. subst s.
    destruct c as [|k v|lb2 lf2 l2 r2] eqn:Ec; cbn [s_child child_tasks flat_map app]; [constructor| |];
      (constructor; [|constructor]); rewrite <- Ec in *.
    all: destruct (achain_snoc _ _ _ _ _ _ Hch) as [Al Ar].
    all: assert (achain t (path ++ [Node lbl lf l r]) c) as Hc' by (destruct Hc as [->| ->]; assumption).
    all: destruct (sub_wf _ _ (achain_sub _ _ _ Hc') [] Wt) as [q Wq].
    all: assert (c <> Nil) as Hn by (rewrite Ec; discriminate).
    all: pose proof (leafy_tot _ (wf_leafy _ _ Wq) Hn) as Ht.
    all: split; [unfold Rrep; cbn [tsub tanc tdone spath spend cstack]; repeat split; auto; try lia;
                 rewrite nsize_app, Ea; cbn; lia
                |unfold unfinished; cbn [tsub tdone]; apply Nat.ltb_lt; exact Ht].
  Qed.

  Lemma split_agree st c :
    RUrep st c -> Forall2 RUrep (s_split st) (split c).
  Proof.
    intros [Hr Hu]. pose proof Hr as Hr0. destruct (Rrep_wf t Wt _ _ Hr) as [q Wq]. pose proof (wf_leafy _ _ Wq) as Ly.
    destruct Hr as (Hn & Hch & Ha & Hle & Hsp).
    destruct st as [path stk], c as [s a d]. cbn [tsub tanc tdone spath spend] in *. subst stk.
    pose proof Hu as Hu0. unfold unfinished in Hu. cbn [tsub tdone] in Hu. apply Nat.ltb_lt in Hu. fold (tot s) in Hu.
    assert (Forall2 RUrep [mks path (cstack s d)] [mk s a d]) as Hsame by (constructor; [split; assumption|constructor]).
    unfold s_split, split. cbn [spend spath tsub tanc tdone].
    destruct s as [|k v|lbl lf l r]; [congruence| |].
    - (* a leaf: d = 0 *)
      assert (d = 0) as -> by (unfold tot in Hu; cbn in Hu; lia). cbn [cstack rev app]. exact Hsame.
    - rewrite tot_node in Hu. fold (nlf lf). fold (tot l).
      pose proof (leafy_l _ _ _ _ Ly) as Ll. pose proof (leafy_r _ _ _ _ Ly) as Lr.
      assert (Forall2 RUrep (s_child path (Node lbl lf l r) l ++ s_child path (Node lbl lf l r) r)
                             (child_tasks (a + node_cost lbl lf) [l; r])) as Hkids.
      { replace (child_tasks (a + node_cost lbl lf) [l; r])
          with (child_tasks (a + node_cost lbl lf) [l] ++ child_tasks (a + node_cost lbl lf) [r])
          by (unfold child_tasks; cbn [flat_map]; rewrite ?app_nil_r; reflexivity).
        apply Forall2_app; eapply child_rel; eauto. }
      destruct d as [|d'].
      + (* fresh *)
        cbn [cstack rev app]. destruct (Nat.leb_spec 0 (nlf lf)); [|lia].
        destruct l, r; try exact Hkids. exact Hsame.
      + assert (nlf lf <= 1) as Hnlf by (unfold nlf; destruct lf; cbn; lia).
        change (cstack (Node lbl lf l r) (S d')) with (canon (Node lbl lf l r) (S d')) in *.
        destruct (achain_snoc _ _ _ _ _ _ Hch) as [Al Ar].
        destruct (Nat.leb_spec (S d') (nlf lf)) as [C1|C1].
        * (* visitAt *)
          assert (l = Nil -> r = Nil -> False) as Hlr by (intros -> ->; change (tot Nil) with 0 in Hu; lia).
          assert (canon (Node lbl lf l r) (S d') = [(Node lbl lf l r, VA)]) as Ecan.
          { cbn [canon]. fold (nlf lf). destruct (Nat.leb_spec (S d') (nlf lf)); [|lia].
            destruct l, r; try reflexivity. exfalso. now apply Hlr. }
          rewrite Ecan. cbn [rev app].
          destruct l as [|kl vl|lb1 lf1 l1 r1] eqn:El, r as [|kr vr|lb2 lf2 l2 r2] eqn:Er;
            try (exfalso; now apply Hlr); exact Hkids.
        * destruct (Nat.ltb_spec (S d') (nlf lf + tot l)) as [C2|C2].
          -- (* visitAtLeft, inside the left subtree *)
             assert (canon (Node lbl lf l r) (S d') = canon l (S d' - nlf lf) ++ [(Node lbl lf l r, VL)]) as Ecan.
             { cbn [canon]. fold (nlf lf). fold (tot l). destruct (Nat.leb_spec (S d') (nlf lf)); [lia|].
               destruct (Nat.ltb_spec (S d' - nlf lf) (tot l)); [reflexivity|lia]. }
             rewrite Ecan, rev_unit, rev_involutive.
             pose proof (canon_nonempty l (S d' - nlf lf) ltac:(lia) ltac:(lia) Ll) as Hne.
             match goal with |- context [match ?X with _ => _ end] => destruct X as [|x xs] eqn:Erev end.
             { exfalso. apply Hne. apply (f_equal (@rev _)) in Erev. rewrite rev_involutive in Erev. exact Erev. }
             apply Forall2_app; [eapply child_rel; eauto|].
             constructor; [|constructor].
             assert (l <> Nil) as Hln by (intros ->; change (tot Nil) with 0 in *; lia).
             split.
             ++ unfold Rrep. cbn [tsub tanc tdone spath spend]. repeat split; auto; try lia.
                ** rewrite nsize_app, Ha. cbn. lia.
                ** unfold cstack. destruct (S d' - nlf lf) eqn:E; [lia|]. reflexivity.
             ++ unfold unfinished. cbn [tsub tdone]. apply Nat.ltb_lt. fold (tot l). lia.
          -- destruct (Nat.eqb_spec (S d') (nlf lf + tot l)) as [C3|C3].
             ++ (* visitAtLeft with only the subroot left *)
                assert (r <> Nil) as Hrn by (intros ->; change (tot Nil) with 0 in *; lia).
                assert (canon (Node lbl lf l r) (S d') = [(Node lbl lf l r, VL)]) as Ecan.
                { cbn [canon]. fold (nlf lf). fold (tot l). destruct (Nat.leb_spec (S d') (nlf lf)); [lia|].
                  destruct (Nat.ltb_spec (S d' - nlf lf) (tot l)); [lia|].
                  destruct (Nat.eqb_spec (S d' - nlf lf) (tot l)); [|lia]. destruct r; congruence. }
                rewrite Ecan in *. cbn [rev app]. exact Hsame.
             ++ (* visitAtRight *)
                assert (canon (Node lbl lf l r) (S d') = canon r (S d' - nlf lf - tot l) ++ [(Node lbl lf l r, VR)]) as Ecan.
                { cbn [canon]. fold (nlf lf). fold (tot l). destruct (Nat.leb_spec (S d') (nlf lf)); [lia|].
                  destruct (Nat.ltb_spec (S d' - nlf lf) (tot l)); [lia|].
                  destruct (Nat.eqb_spec (S d' - nlf lf) (tot l)); [lia|].
                  destruct (Nat.ltb_spec (S d' - nlf lf - tot l) (tot r)); [reflexivity|lia]. }
                rewrite Ecan, rev_unit, rev_involutive.
                constructor; [|constructor].
                assert (r <> Nil) as Hrn by (intros ->; change (tot Nil) with 0 in *; lia).
                split.
                ** unfold Rrep. cbn [tsub tanc tdone spath spend]. repeat split; auto; try lia.
                   --- rewrite nsize_app, Ha. cbn. lia.
                   --- unfold cstack. destruct (S d' - nlf lf - tot l) eqn:E; [lia|]. reflexivity.
                ** unfold unfinished. cbn [tsub tdone]. apply Nat.ltb_lt. fold (tot r). lia.
  Qed.

  (* ---------------- the refinement, without premises ---------------- *)
  Theorem par_stack_refines_count_l size threads :
    t <> Nil ->
    exists res,
      s_par H size threads t = Some (res, []) /\
      map snd res = fst (par_runs size threads t) /\
      map fst res = par_chunks H size threads t.
  Proof.
    intros Hn.
    apply (par_stack_refines_count_partial_l H t size (Rrep t)).
    - apply split_agree.
    - intros s c [Hr Hu]. now apply next_agree.
    - apply fin_agree. exact Wt.
    - exact Hn.
    - split.
      + unfold Rrep, new_stask. cbn [tsub tanc tdone spath spend cstack]. repeat split; auto; try lia. apply ac_here.
      + unfold unfinished. cbn [tsub tdone]. apply Nat.ltb_lt.
        apply (leafy_tot t (wf_leafy _ _ Wt) Hn).
  Qed.
End Premises2.

(* ------------------------------------------------------------------ *)
(* 7. the empty tree, and the statement for every well-formed tree      *)
(* ------------------------------------------------------------------ *)
Lemma g_split_tasks_fix {T} (spl : T -> list T) tk threads n :
  spl tk = [tk] -> g_split_tasks spl threads n [tk] = [tk].
Proof.
  intros E. induction n as [|n IH]; [reflexivity|]. cbn [g_split_tasks g_split_pass length app].
  destruct (threads <=? 0 + 1); [reflexivity|]. rewrite E. cbn [g_split_pass app]. exact IH.
Qed.

Lemma s_par_nil H size threads : s_par H size threads Nil = Some ([(PNil, [])], []).
Proof.
  unfold s_par. cbn [contents length s_rounds new_stask].
  rewrite g_split_tasks_fix by reflexivity. cbn [map].
  assert (s_next_chunk H Nil size (new_stask Nil) = Some (PNil, [], mks [] [])) as ->.
  { unfold s_next_chunk, new_stask. cbn [spath spend fold_left rev app fst include tnodes].
    change (4 * 1 + 4) with (S 7). rewrite nc_loop_unfold. rewrite andb_false_r.
    unfold mstep. cbn [fst snd include nc_loop rev pbuild inc trim]. reflexivity. }
  cbn [opt_all map snd fst filter s_finished spend negb app]. reflexivity.
Qed.

Theorem stack_port_chunks_all H t size n :
  wf t -> exists res, s_par H size (S n) t = Some (res, []) /\ map fst res = chunks H size (S n) t /\
                      map snd res = fst (par_runs size (S n) t).
Proof.
  intros W. destruct t as [|k v|lbl lf l r] eqn:Et.
  - exists [(PNil, [])]. split; [apply s_par_nil|]. split; reflexivity.
  - rewrite <- Et in *. destruct (par_stack_refines_count_l H t W size (S n)) as (res & E & Er & Ec); [subst; discriminate|].
    exists res. repeat split; auto.
  - rewrite <- Et in *. destruct (par_stack_refines_count_l H t W size (S n)) as (res & E & Er & Ec); [subst; discriminate|].
    exists res. repeat split; auto.
Qed.
