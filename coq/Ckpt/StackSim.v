(* The port of the subtree{path,pending} stack machine (Ckpt/Stack.v) refines
   the count abstraction (Ckpt/Model.v): the three one-step facts (one
   nextChunk incl. trim, one split, hasNext) for the concrete representation
   relation. *)
From Verif Require Import Lib.Base Mkvs.Trie Mkvs.BitsProofs Mkvs.AlistProofs Mkvs.TrieProofs
  Ckpt.Model Ckpt.Proofs Ckpt.ParProofs Ckpt.Stack Ckpt.EstProofs.
From Coq Require Import Permutation.
Local Open Scope nat_scope.

(* ------------------------------------------------------------------ *)
(* 0. the nodes of a tree, as values                                    *)
(* ------------------------------------------------------------------ *)
Definition lfnode (lf : option entry) : list tree :=
  match lf with Some (k, v) => [Leaf k v] | None => [] end.
Fixpoint nodes (t : tree) : list tree :=
  match t with
  | Nil => []
  | Leaf _ _ => [t]
  | Node _ lf l r => t :: lfnode lf ++ nodes l ++ nodes r
  end.

Lemma nodes_self t : t <> Nil -> In t (nodes t).
Proof. destruct t; [congruence| |]; intros _; cbn; auto. Qed.

Lemma lfnode_contents lf m : In m (lfnode lf) -> exists k v, m = Leaf k v /\ lf = Some (k, v).
Proof. destruct lf as [[k v]|]; cbn; [intros [<-|[]]; eauto|tauto]. Qed.

Lemma nodes_facts t : forall p, wf_at p t -> forall n, In n (nodes t) ->
  n <> Nil /\ contents n <> [] /\ incl (contents n) (contents t) /\ tnodes n <= tnodes t /\ exists q, wf_at q n.
Proof.
  induction t as [|k v|lbl lf l IHl r IHr]; intros p W n Hin; cbn [nodes] in Hin.
  - destruct Hin.
  - destruct Hin as [<-|[]]. repeat split; try discriminate; try (intros e He; exact He); try lia. eauto.
  - pose proof W as W0. cbn [wf_at] in W. destruct W as (Hlf & Wl & Wr & _).
    destruct Hin as [<-|Hin].
    + repeat split; try discriminate; try (intros e He; exact He); try lia; eauto.
      pose proof (wf_node_len _ _ _ _ _ W0) as L. intros E. rewrite E in L. cbn in L. lia.
    + rewrite !in_app_iff in Hin. destruct Hin as [Hin|[Hin|Hin]].
      * apply lfnode_contents in Hin as (k & v & -> & ->). destruct Hlf as [Hv Hb].
        repeat split; try discriminate; cbn [tnodes contents]; try lia.
        -- intros e [<-|[]]. cbn. auto.
        -- exists (p ++ lbl). cbn. split; [assumption|]. rewrite Hb. apply is_prefix_refl.
      * destruct (IHl _ Wl _ Hin) as (H1 & H2 & H3 & H4 & H5). repeat split; auto.
        -- intros e He. cbn [contents]. rewrite !in_app_iff. auto.
        -- cbn [tnodes]. lia.
      * destruct (IHr _ Wr _ Hin) as (H1 & H2 & H3 & H4 & H5). repeat split; auto.
        -- intros e He. cbn [contents]. rewrite !in_app_iff. auto.
        -- cbn [tnodes]. lia.
Qed.

Lemma sorted_distinct a b : sorted (a ++ b) -> forall x, In x a -> In x b -> False.
Proof.
  intros S x Ha Hb. apply sorted_app_inv in S as (_ & _ & Hab). specialize (Hab x x Ha Hb).
  unfold key_lt in Hab. rewrite bytes_cmp_refl in Hab. discriminate.
Qed.

Lemma NoDup_app_intro {A} (a b : list A) :
  NoDup a -> NoDup b -> (forall x, In x a -> In x b -> False) -> NoDup (a ++ b).
Proof.
  induction a as [|x a IH]; intros Ha Hb Hd; cbn [app]; [assumption|].
  inversion Ha; subst. constructor.
  - rewrite in_app_iff. intros [?|?]; [auto|]. eapply Hd; [now left|eassumption].
  - apply IH; auto. intros y Hy. apply Hd. now right.
Qed.

Lemma NoDup_app_inv {A} (a b : list A) :
  NoDup (a ++ b) -> NoDup a /\ NoDup b /\ (forall x, In x a -> In x b -> False).
Proof.
  induction a as [|x a IH]; cbn [app]; intros Hn.
  - repeat split; [constructor|assumption|intros ? []].
  - inversion Hn; subst. destruct (IH H2) as (Ha & Hb & Hd). repeat split; [|assumption|].
    + constructor; [|assumption]. intros Hi. apply H1. apply in_or_app. now left.
    + intros y [<-|Hy] Hyb; [apply H1; apply in_or_app; now right|eauto].
Qed.

(* in a well-formed tree different positions hold different subtrees *)
Lemma nodes_nodup t : forall p, wf_at p t -> NoDup (nodes t).
Proof.
  induction t as [|k v|lbl lf l IHl r IHr]; intros p W; cbn [nodes].
  - constructor.
  - constructor; [intros []|constructor].
  - pose proof W as W0. pose proof (contents_sorted_at _ _ W0) as Srt. cbn [contents] in Srt.
    cbn [wf_at] in W. destruct W as (Hlf & Wl & Wr & _).
    assert (forall n, In n (nodes l) -> contents n <> [] /\ incl (contents n) (contents l) /\ tnodes n <= tnodes l) as Fl
      by (intros n Hn; destruct (nodes_facts _ _ Wl _ Hn) as (? & ? & ? & ? & ?); auto).
    assert (forall n, In n (nodes r) -> contents n <> [] /\ incl (contents n) (contents r) /\ tnodes n <= tnodes r) as Fr
      by (intros n Hn; destruct (nodes_facts _ _ Wr _ Hn) as (? & ? & ? & ? & ?); auto).
    constructor.
    + rewrite !in_app_iff. intros [Hin|[Hin|Hin]].
      * apply lfnode_contents in Hin as (k & v & E & _). discriminate.
      * destruct (Fl _ Hin) as (_ & _ & L). cbn [tnodes] in L. lia.
      * destruct (Fr _ Hin) as (_ & _ & L). cbn [tnodes] in L. lia.
    + apply NoDup_app_intro; [destruct lf as [[k v]|]; cbn; repeat constructor; intros []| |].
      * apply NoDup_app_intro; eauto. intros n Hl Hr.
        destruct (Fl _ Hl) as (Hne & Il & _). destruct (Fr _ Hr) as (_ & Ir & _).
        destruct (contents n) as [|e rest] eqn:Ec; [congruence|].
        apply sorted_app_inv in Srt as (_ & Srt & _).
        eapply (sorted_distinct _ _ Srt e); [apply Il|apply Ir]; now left.
      * intros n Hf Hlr. apply lfnode_contents in Hf as (k & v & -> & ->).
        rewrite in_app_iff in Hlr.
        assert (In (k, v) (contents l ++ contents r)) as Hin.
        { destruct Hlr as [Hn|Hn]; [destruct (Fl _ Hn) as (_ & Il & _)|destruct (Fr _ Hn) as (_ & Il & _)];
            apply in_or_app; [left|right]; apply Il; cbn; auto. }
        eapply (sorted_distinct _ _ Srt (k, v)); [cbn; auto|exact Hin].
Qed.

(* ------------------------------------------------------------------ *)
(* 1. one pop of the machine; the builder's accounting                  *)
(* ------------------------------------------------------------------ *)
Definition lfatom (lf : option entry) : list atom :=
  match lf with Some (k, v) => [(Leaf k v, VB)] | None => [] end.
Inductive ev := EvLeaf (e : entry) | EvOpen | EvOther.
Definition mstep (a : atom) (rest : list atom) : list atom * ev :=
  match fst a with
  | Nil => (rest, EvOther)
  | Leaf k v => (rest, EvLeaf (k, v))
  | Node lbl lf l r =>
      match snd a with
      | VB => (lfatom lf ++ (fst a, VA) :: rest, EvOpen)
      | VA => (push_child l ((fst a, VL) :: rest), EvOther)
      | VL => (push_child r ((fst a, VR) :: rest), EvOther)
      | VR => (rest, EvOther)
      end
  end.

Lemma nc_loop_unfold f size a rest pb ll vis :
  nc_loop (S f) size (a :: rest) pb ll vis =
  if (size <=? psize pb)%N && ll then Some (a :: rest, pb, rev vis)
  else match mstep a rest with
       | (stk', EvLeaf e) => nc_loop f size stk' (include (fst a) pb) true (e :: vis)
       | (stk', EvOpen) => nc_loop f size stk' (include (fst a) pb) false vis
       | (stk', EvOther) => nc_loop f size stk' (include (fst a) pb) ll vis
       end.
Proof.
  destruct a as [nd st]. cbn [nc_loop]. destruct ((size <=? psize pb)%N && ll); [reflexivity|].
  unfold mstep. cbn [fst snd]. destruct nd as [|k v|lbl lf l r]; try reflexivity.
  destruct st; try reflexivity. destruct lf as [[k v]|]; reflexivity.
Qed.

(* the nodes never included so far that the stack will still open *)
Definition todo_atom (a : atom) : list tree :=
  match snd a with
  | VB => nodes (fst a)
  | VA => match fst a with Node _ _ l r => nodes l ++ nodes r | _ => [] end
  | VL => match fst a with Node _ _ l r => nodes r | _ => [] end
  | VR => []
  end.
Fixpoint todo (stk : list atom) : list tree :=
  match stk with
  | [] => []
  | a :: rest => todo_atom a ++ todo rest
  end.

Definition good (stk : list atom) (pb : pbuilder) : Prop :=
  pb_ok pb /\ NoDup (inc pb ++ todo stk) /\
  (forall n st, In (n, st) stk -> n <> Nil /\ (st <> VB -> In n (inc pb))).

Lemma todo_push_child c stk : todo (push_child c stk) = nodes c ++ todo stk.
Proof. destruct c; reflexivity. Qed.

Lemma todo_app a b : todo (a ++ b) = todo a ++ todo b.
Proof. induction a as [|x a IH]; cbn [todo app]; [reflexivity|]. now rewrite IH, app_assoc. Qed.

Lemma push_child_in c stk n st : In (n, st) (push_child c stk) -> (n = c /\ st = VB /\ c <> Nil) \/ In (n, st) stk.
Proof. destruct c; cbn; auto; intros [[= <- <-]|?]; auto; left; repeat split; discriminate. Qed.

Lemma NoDup_move {A} (a : list A) x b : NoDup (a ++ x :: b) -> NoDup ((x :: a) ++ b).
Proof. intros Hn. eapply Permutation_NoDup; [|exact Hn]. apply Permutation_sym, Permutation_middle. Qed.

Lemma good_step a rest pb :
  good (a :: rest) pb ->
  good (fst (mstep a rest)) (include (fst a) pb) /\
  inc (include (fst a) pb) = (if match snd a with VB => true | _ => false end then fst a :: inc pb else inc pb) /\
  psize (include (fst a) pb) =
    (psize pb + if match snd a with VB => true | _ => false end then node_size (fst a) else 0)%N.
Proof.
  destruct a as [nd st]. intros (Hok & Hnd & Hst). cbn [fst snd].
  destruct (Hst nd st (or_introl eq_refl)) as [Hnn Hinc].
  assert (forall n0 st0, In (n0, st0) rest -> n0 <> Nil /\ (st0 <> VB -> In n0 (inc pb))) as Hrest
    by (intros; apply Hst; now right).
  destruct st.
  - (* VB: a node never seen before *)
    assert (~ In nd (inc pb)) as Hni.
    { cbn [todo todo_atom fst snd] in Hnd. apply NoDup_app_inv in Hnd as (_ & _ & Hd). intros Hi. apply (Hd nd Hi).
      apply in_or_app. left. now apply nodes_self. }
    assert (include nd pb = mkpb (nd :: inc pb) (psize pb + node_size nd)) as Einc.
    { unfold include. destruct nd; [congruence| |];
        (destruct (existsb _ (inc pb)) eqn:E; [apply mem_tree_in in E; contradiction|reflexivity]). }
    rewrite Einc. cbn [inc psize]. split; [|split; reflexivity].
    destruct (include_ok nd pb Hok) as [Hok' _]. rewrite Einc in Hok'.
    unfold mstep. cbn [fst snd]. destruct nd as [|k v|lbl lf l r]; [congruence| |]; cbn [fst].
    + split; [assumption|]. split.
      * cbn [todo todo_atom fst snd nodes inc app] in *. apply NoDup_move. exact Hnd.
      * intros n0 st0 Hin. destruct (Hrest _ _ Hin) as [? Hi]. split; [assumption|]. intros Hs. right. auto.
    + split; [assumption|]. split.
      * cbn [inc]. cbn [todo todo_atom fst snd nodes] in Hnd.
        assert (todo (lfatom lf ++ (Node lbl lf l r, VA) :: rest) = lfnode lf ++ (nodes l ++ nodes r) ++ todo rest) as ->
          by (destruct lf as [[k v]|]; reflexivity).
        apply NoDup_move. cbn [app] in Hnd. rewrite <- !app_assoc in Hnd. rewrite <- !app_assoc. exact Hnd.
      * intros n0 st0 Hin. rewrite in_app_iff in Hin. destruct Hin as [Hin|[[= <- <-]|Hin]].
        -- destruct lf as [[k v]|]; cbn in Hin; [|tauto]. destruct Hin as [[= <- <-]|[]].
           split; [discriminate|congruence].
        -- split; [discriminate|]. intros _. now left.
        -- destruct (Hrest _ _ Hin) as [? Hi]. split; [assumption|]. intros Hs. right. auto.
  - (* VA *)
    specialize (Hinc ltac:(discriminate)).
    assert (include nd pb = pb) as Einc.
    { unfold include. destruct nd; [reflexivity| |]; (destruct (existsb _ (inc pb)) eqn:E; [reflexivity|]);
        exfalso; apply mem_tree_in in Hinc; congruence. }
    rewrite Einc. split; [|split; [reflexivity|lia]].
    unfold mstep. cbn [fst snd]. destruct nd as [|k v|lbl lf l r]; [congruence| |]; cbn [fst].
    + split; [assumption|]. split; [exact Hnd|]. intros; apply Hrest; assumption.
    + split; [assumption|]. split.
      * rewrite todo_push_child. cbn [todo todo_atom fst snd] in *. rewrite <- ?app_assoc in *. exact Hnd.
      * intros n0 st0 Hin. apply push_child_in in Hin as [(-> & -> & Hc)|[[= <- <-]|Hin]].
        -- split; [assumption|congruence].
        -- split; [discriminate|auto].
        -- now apply Hrest.
  - (* VL *)
    specialize (Hinc ltac:(discriminate)).
    assert (include nd pb = pb) as Einc.
    { unfold include. destruct nd; [reflexivity| |]; (destruct (existsb _ (inc pb)) eqn:E; [reflexivity|]);
        exfalso; apply mem_tree_in in Hinc; congruence. }
    rewrite Einc. split; [|split; [reflexivity|lia]].
    unfold mstep. cbn [fst snd]. destruct nd as [|k v|lbl lf l r]; [congruence| |]; cbn [fst].
    + split; [assumption|]. split; [exact Hnd|]. intros; apply Hrest; assumption.
    + split; [assumption|]. split.
      * rewrite todo_push_child. cbn [todo todo_atom fst snd] in *. rewrite <- ?app_assoc in *. exact Hnd.
      * intros n0 st0 Hin. apply push_child_in in Hin as [(-> & -> & Hc)|[[= <- <-]|Hin]].
        -- split; [assumption|congruence].
        -- split; [discriminate|auto].
        -- now apply Hrest.
  - (* VR *)
    specialize (Hinc ltac:(discriminate)).
    assert (include nd pb = pb) as Einc.
    { unfold include. destruct nd; [reflexivity| |]; (destruct (existsb _ (inc pb)) eqn:E; [reflexivity|]);
        exfalso; apply mem_tree_in in Hinc; congruence. }
    rewrite Einc. split; [|split; [reflexivity|lia]].
    unfold mstep. cbn [fst snd]. destruct nd as [|k v|lbl lf l r]; [congruence| |]; cbn [fst].
    + split; [assumption|]. split; [exact Hnd|]. intros; apply Hrest; assumption.
    + split; [assumption|]. split; [cbn [todo todo_atom fst snd app] in Hnd; exact Hnd|]. intros; apply Hrest; assumption.
Qed.
