(* The sequential chunker over a node database whose reads can fail
   (chunk.go:55-135).  Reaching key number j costs database reads; [ok j] tells
   whether they succeed.  There are two fallible iterator advances: the loop
   that adds keys to a chunk, and the it.Next() that peeks the next offset once
   a chunk is closed by its size.  A failed read leaves the iterator invalid,
   Key() = nil, which reads as "end of the tree" unless it.Err() is looked at.
     [walk_f chk_loop chk_peek]: the walk with the error looked at (true) or
     dropped (false) at the two places.
   Whether the code looks at it.Err() at the two places is READ FROM THE SOURCE
   (Gen/CkptConsts.v: seq_err_checked_after_loop, seq_err_checked_after_peek;
   both true since the repair 1164f42 -- before it the peek check was missing). *)
From Verif Require Import Lib.Base Mkvs.Trie Mkvs.TrieProofs Gen.CkptConsts Ckpt.Model Ckpt.Proofs Ckpt.Examples.
Local Open Scope nat_scope.

Fixpoint walk_f (chk_loop chk_peek : bool) (ok : nat -> bool) (size : N) (j : nat)
         (cur : list entry) (acc : N) (l : list aent) : option (list (list entry)) :=
  match l with
  | [] => Some [rev cur]
  | (e, f, m) :: r =>
      if (acc <? size)%N then
        (* it.Next() in the loop: the next key joins the chunk *)
        if ok j then walk_f chk_loop chk_peek ok size (S j) (e :: cur) (acc + m)%N r
        else if chk_loop then None else Some [rev cur]
      else
        (* the chunk is closed; it.Next() peeks the next offset; the next chunk
           starts there with a fresh builder *)
        if ok j then option_map (cons (rev cur)) (walk_f chk_loop chk_peek ok size (S j) [e] f r)
        else if chk_peek then None else Some [rev cur]
  end.

(* Some runs = CreateCheckpoint returned metadata; None = it returned an error *)
Definition seq_create (chk_loop chk_peek : bool) (ok : nat -> bool) (size : N) (t : tree)
  : option (list (list entry)) :=
  match annot 0 t with
  | [] => Some [[]]
  | (e, f, _) :: r => if ok 0 then walk_f chk_loop chk_peek ok size 1 [e] f r else None   (* Seek: checked in both *)
  end.
Definition seq_create_code := seq_create seq_err_checked_after_loop seq_err_checked_after_peek.

(* with both errors looked at: success means the fault-free result *)
Lemma walk_checked ok size l : forall j cur acc runs,
  walk_f true true ok size j cur acc l = Some runs -> runs = runs_aux size cur acc l.
Proof.
  induction l as [|[[e f] m] r IH]; intros j cur acc runs E; cbn [walk_f runs_aux] in *.
  - now injection E as <-.
  - destruct (N.ltb acc size).
    + destruct (ok j); [eauto|discriminate].
    + destruct (ok j); [|discriminate].
      destruct (walk_f true true ok size (S j) [e] f r) as [rs|] eqn:E2; [|discriminate].
      injection E as <-. f_equal. eauto.
Qed.

Theorem create_success_covers_l ok size t runs :
  seq_create true true ok size t = Some runs -> runs = seq_runs size t /\ concat runs = contents t.
Proof.
  unfold seq_create. intros E. assert (runs = seq_runs size t) as ->.
  { unfold seq_runs. destruct (annot 0%N t) as [|[[e f] m] r]; [now injection E as <-|].
    destruct (ok 0); [|discriminate]. eapply walk_checked; eauto. }
  split; [reflexivity|apply seq_runs_concat].
Qed.

(* without faults every variant is the chunker of Ckpt/Model.v *)
Lemma walk_no_fault c1 c2 size l : forall j cur acc,
  walk_f c1 c2 (fun _ => true) size j cur acc l = Some (runs_aux size cur acc l).
Proof.
  induction l as [|[[e f] m] r IH]; intros j cur acc; cbn [walk_f runs_aux]; [reflexivity|].
  destruct (N.ltb acc size); [apply IH|]. now rewrite IH.
Qed.
Theorem create_no_fault_l c1 c2 size t : seq_create c1 c2 (fun _ => true) size t = Some (seq_runs size t).
Proof.
  unfold seq_create, seq_runs. destruct (annot 0%N t) as [|[[e f] m] r]; [reflexivity|]. apply walk_no_fault.
Qed.

(* THE CODE: a creation that reports success has produced exactly the
   fault-free chunks, which cover the tree (the two checks read from the source) *)
Theorem create_success_covers_code_l ok size t runs :
  seq_create_code ok size t = Some runs -> runs = seq_runs size t /\ concat runs = contents t.
Proof. apply create_success_covers_l. Qed.

(* the variant without the check after the peek (the code before the repair):
   success does NOT mean that the chunks cover the tree.  Witness: the 7-key
   tree, chunk size 70, the read that peeks the key after the first chunk fails *)
Theorem create_success_covers_without_peek_check_refuted_l :
  exists ok size t runs, wf t /\ seq_create true false ok size t = Some runs /\ concat runs <> contents t.
Proof.
  exists (fun j => negb (Nat.eqb j 2)), 70%N, t7. eexists. split; [exact t7_wf|].
  split; [vm_compute; reflexivity|]. vm_compute. discriminate.
Qed.

(* what the code still guarantees on success: the chunks cover a prefix of the keys, in order *)
Lemma walk_prefix c1 c2 ok size l : forall j cur acc runs,
  walk_f c1 c2 ok size j cur acc l = Some runs -> exists rest, rev cur ++ map aentry l = concat runs ++ rest.
Proof.
  induction l as [|[[e f] m] r IH]; intros j cur acc runs E; cbn [walk_f] in E.
  - injection E as <-. exists []. cbn. now rewrite !app_nil_r.
  - cbn [map]. destruct (N.ltb acc size).
    + destruct (ok j).
      * destruct (IH _ _ _ _ E) as [rest Hr]. exists rest. rewrite <- Hr. cbn [rev]. now rewrite <- app_assoc.
      * destruct c1; [discriminate|]. injection E as <-. exists (aentry (e, f, m) :: map aentry r). cbn. now rewrite app_nil_r.
    + destruct (ok j).
      * destruct (walk_f c1 c2 ok size (S j) [e] f r) as [rs|] eqn:E2; [|discriminate]. injection E as <-.
        destruct (IH _ _ _ _ E2) as [rest Hr]. exists rest. cbn [concat rev app] in *. rewrite <- app_assoc, <- Hr. reflexivity.
      * destruct c2; [discriminate|]. injection E as <-. exists (aentry (e, f, m) :: map aentry r). cbn. now rewrite app_nil_r.
Qed.

Theorem create_success_prefix_l c1 c2 ok size t runs :
  seq_create c1 c2 ok size t = Some runs -> exists rest, contents t = concat runs ++ rest.
Proof.
  unfold seq_create. rewrite <- (annot_entries t 0%N). destruct (annot 0%N t) as [|[[e f] m] r]; intros E.
  - injection E as <-. exists []. reflexivity.
  - destruct (ok 0); [|discriminate]. destruct (walk_prefix _ _ _ _ _ _ _ _ _ E) as [rest Hr]. exists rest.
    cbn [map rev app] in *. exact Hr.
Qed.

(* the variant that also drops the error inside the loop *)
Theorem create_success_covers_without_loop_check_refuted_l :
  exists ok size t runs, wf t /\ seq_create false false ok size t = Some runs /\ concat runs <> contents t.
Proof.
  exists (fun j => negb (Nat.eqb j 1)), 70%N, t7. eexists. split; [exact t7_wf|].
  split; [vm_compute; reflexivity|]. vm_compute. discriminate.
Qed.
