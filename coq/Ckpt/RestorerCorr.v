(* Correspondence interface for the restorer's bookkeeping
   (harness/cmd/ckpt -mode restorer): the model [rstep] of Ckpt/Model.v is
   instantiated with symbolic chunk files and evaluated on generated delivery
   schedules; the observable is the answer to every call.

   A chunk file is a token [kind; slot]:
     0 the genuine file of the slot          (decodes, verifies)
     1 the genuine file with a flipped bit   (snappy checksum fails: undecodable)
     2 the file of the same slot of ANOTHER tree's checkpoint (decodes, other root)
     3 not a snappy stream at all, with more bytes behind          (undecodable)
     4 a valid snappy prefix, then a reserved frame, then more bytes (undecodable part-way)
     5 valid snappy around bytes that are not CBOR                 (undecodable)
     6 valid snappy and CBOR around entries that are no proof of the root (decodes, does not verify)
   The digest function is the identity (so "the digest differs" = "the bytes
   differ").  A session may be started with FORGED metadata: the digest of one
   slot is that of a file of kind 1-6 (then only decoding / the proof check can
   refuse, and the answer must be the aborting one, never the retryable one). *)
From Verif Require Import Lib.Base Mkvs.Trie Ckpt.Model.

Definition tok (kind slot : N) : bytes := [kind; slot].
Definition c_Hd (b : bytes) : bytes := b.
Definition c_root : bytes := [7].
Definition c_decode (b : bytes) : option ptree :=
  match b with
  | [0; _] => Some (PHash [7])
  | [2; _] | [6; _] => Some (PHash [9])
  | _ => None
  end.
Definition c_digests (n : nat) (forged : option (N * N)) : list bytes :=
  map (fun i => match forged with
                | Some (j, k) => if N.of_nat i =? j then tok k j else tok 0 (N.of_nat i)
                | None => tok 0 (N.of_nat i)
                end) (seq 0 n).

Inductive cev :=
| CStart (forged : option (N * N))    (* StartRestore(metadata); forged: (slot, kind of the file whose digest it carries) *)
| CAbort                              (* AbortRestore *)
| CChunk (slot kind : N)              (* RestoreChunk(slot, file) *)
| CFinalize (right_root : bool).      (* NodeDB.Finalize *)

(* answers: 0 ok, 1 ok+done, 2 corrupted, 3 proof failed, 4 already restored,
   5 no restore in progress, 6 restore already in progress, 7 finalize failed *)
Definition code (r : rres) (done : bool) : N :=
  match r with
  | ROk => if done then 1 else 0
  | RCorrupted => 2 | RProofFail => 3 | RNotPending => 4 | RNoRestore => 5 | RInProgress => 6
  end.

(* runner state: restorer state, metadata of the current session, has any chunk been imported *)
Definition cstate := (rstate * option (N * N) * bool)%type.

Definition c_step (n : nat) (empty : bool) (st : cstate) (e : cev) : cstate * N :=
  let '(s, forged, imported) := st in
  let step ev dg := rstep H0 c_Hd c_decode c_root dg s ev in
  match e with
  | CStart f =>
      let '(s', r) := step EStart (c_digests n f) in
      ((s', (if active s then forged else f), imported), code r false)
  | CAbort => let '(s', r) := step EAbortR (c_digests n forged) in ((s', forged, imported), code r false)
  | CChunk i k =>
      let '(s', r) := step (EChunk (N.to_nat i) (tok k i)) (c_digests n forged) in
      let done := active s && negb (active s') in
      ((s', forged, imported || match r with ROk => true | _ => false end), code r done)
  | CFinalize rr =>
      (* the root node exists as soon as one chunk has been imported; the empty
         root needs no node at all *)
      (st, if rr && (imported || empty) then 0 else 7)
  end.

Fixpoint c_run (n : nat) (empty : bool) (st : cstate) (evs : list cev) : list N :=
  match evs with
  | [] => []
  | e :: r => let (st', c) := c_step n empty st e in c :: c_run n empty st' r
  end.

(* (number of chunks, is the checkpointed tree empty, the calls) *)
Definition run_restorer (i : N * bool * list cev) : list N :=
  let '(n, empty, evs) := i in
  c_run (N.to_nat n) empty (mkr false [] [], None, false) evs.
Definition codes_eqb (a b : list N) : bool := list_eqb N.eqb a b.
