(* Chunk file framing (chunk.go:237-247 writeChunk / :249-281 restoreChunk):
   a chunk file is snappy(stream of CBOR items), one item per proof entry: a
   nil entry is CBOR null (0xf6), any other entry a definite-length byte string
   (major type 2, shortest-form length as fxamacker/cbor writes it).  Snappy is
   kept abstract (a pair of functions with unsnap (snap x) = Some x); the CBOR
   stream layer and the serialization of proof entries are concrete.
   Executable definitions and their round-trip proofs. *)
From Verif Require Import Lib.Base Mkvs.Trie Mkvs.HashProofs Gen.CkptConsts Ckpt.Model.
Local Open Scope nat_scope.

(* big-endian, fixed width *)
Definition be_bytes (n : nat) (x : N) : bytes := rev (le_bytes n x).
Fixpoint le_val (b : bytes) : N := match b with [] => 0%N | x :: r => (x + 256 * le_val r)%N end.
Definition be_val (b : bytes) : N := le_val (rev b).

Lemma le_val_le_bytes n : forall x, (x < 256 ^ N.of_nat n)%N -> le_val (le_bytes n x) = x.
Proof.
  induction n as [|n IH]; intros x Hx.
  - cbn in *. lia.
  - cbn [le_bytes le_val]. rewrite IH.
    + pose proof (N.div_mod x 256 ltac:(lia)). lia.
    + rewrite Nat2N.inj_succ, N.pow_succ_r' in Hx. apply N.div_lt_upper_bound; lia.
Qed.
Lemma be_val_be_bytes n x : (x < 256 ^ N.of_nat n)%N -> be_val (be_bytes n x) = x.
Proof. intros Hx. unfold be_val, be_bytes. rewrite rev_involutive. now apply le_val_le_bytes. Qed.
Lemma be_bytes_len n x : length (be_bytes n x) = n.
Proof. unfold be_bytes. now rewrite rev_length, le_bytes_len. Qed.

(* ---------- CBOR stream of byte strings / nulls ---------- *)
Definition cbor_head (len : N) : bytes :=
  if (len <? 24)%N then [(64 + len)%N]
  else if (len <? 256)%N then [88%N; len]
  else if (len <? 65536)%N then 89%N :: be_bytes 2 len
  else if (len <? 4294967296)%N then 90%N :: be_bytes 4 len
  else 91%N :: be_bytes 8 len.
Definition cbor_item (e : option bytes) : bytes :=
  match e with None => [246%N] | Some b => cbor_head (N.of_nat (length b)) ++ b end.
Definition frame (es : list (option bytes)) : bytes := flat_map cbor_item es.

(* header of a byte string: (payload length, rest) *)
Definition read_head (b : bytes) : option (N * bytes) :=
  match b with
  | [] => None
  | t :: r =>
      if (64 <=? t)%N && (t <? 88)%N then Some ((t - 64)%N, r)
      else if (t =? 88)%N then match r with x :: r' => Some (x, r') | [] => None end
      else if (t =? 89)%N then if length r <? 2 then None else Some (be_val (firstn 2 r), skipn 2 r)
      else if (t =? 90)%N then if length r <? 4 then None else Some (be_val (firstn 4 r), skipn 4 r)
      else if (t =? 91)%N then if length r <? 8 then None else Some (be_val (firstn 8 r), skipn 8 r)
      else None
  end.
Fixpoint unframe (fuel : nat) (b : bytes) : option (list (option bytes)) :=
  match fuel with
  | O => None
  | S f =>
      match b with
      | [] => Some []
      | t :: r =>
          if (t =? 246)%N then option_map (cons None) (unframe f r)
          else match read_head b with
               | None => None
               | Some (len, r') =>
                   if length r' <? N.to_nat len then None
                   else option_map (cons (Some (firstn (N.to_nat len) r')))
                                   (unframe f (skipn (N.to_nat len) r'))
               end
      end
  end.

Lemma firstn_app_exact {A} (a b : list A) : firstn (length a) (a ++ b) = a.
Proof. induction a as [|x a IH]; cbn; [reflexivity|now rewrite IH]. Qed.
Lemma skipn_app_exact {A} (a b : list A) : skipn (length a) (a ++ b) = b.
Proof. induction a as [|x a IH]; cbn; auto. Qed.

Lemma read_head_ok len rest : (len < 2 ^ 64)%N -> read_head (cbor_head len ++ rest) = Some (len, rest).
Proof.
  intros Hl. unfold cbor_head.
  destruct (N.ltb_spec len 24).
  { cbn [app read_head]. destruct (N.leb_spec 64 (64 + len)); [|lia]. destruct (N.ltb_spec (64 + len) 88); [|lia].
    cbn [andb]. f_equal. f_equal. lia. }
  destruct (N.ltb_spec len 256).
  { cbn [app read_head]. reflexivity. }
  destruct (N.ltb_spec len 65536).
  { cbn [app read_head andb N.leb N.ltb N.eqb]. change (89 =? 88)%N with false. change (89 =? 89)%N with true.
    change ((64 <=? 89)%N && (89 <? 88)%N) with false. cbv iota.
    rewrite app_length, be_bytes_len. destruct (Nat.ltb_spec (2 + length rest) 2); [lia|].
    rewrite <- (be_bytes_len 2 len) at 1 3. rewrite firstn_app_exact, skipn_app_exact.
    rewrite be_val_be_bytes; [reflexivity|]. change (256 ^ N.of_nat 2)%N with 65536%N. lia. }
  destruct (N.ltb_spec len 4294967296).
  { cbn [app read_head]. change ((64 <=? 90)%N && (90 <? 88)%N) with false. change (90 =? 88)%N with false.
    change (90 =? 89)%N with false. change (90 =? 90)%N with true. cbv iota.
    rewrite app_length, be_bytes_len. destruct (Nat.ltb_spec (4 + length rest) 4); [lia|].
    rewrite <- (be_bytes_len 4 len) at 1 3. rewrite firstn_app_exact, skipn_app_exact.
    rewrite be_val_be_bytes; [reflexivity|]. change (256 ^ N.of_nat 4)%N with 4294967296%N. lia. }
  cbn [app read_head]. change ((64 <=? 91)%N && (91 <? 88)%N) with false. change (91 =? 88)%N with false.
  change (91 =? 89)%N with false. change (91 =? 90)%N with false. change (91 =? 91)%N with true. cbv iota.
  rewrite app_length, be_bytes_len. destruct (Nat.ltb_spec (8 + length rest) 8); [lia|].
  rewrite <- (be_bytes_len 8 len) at 1 3. rewrite firstn_app_exact, skipn_app_exact.
  rewrite be_val_be_bytes; [reflexivity|]. change (256 ^ N.of_nat 8)%N with (2 ^ 64)%N. lia.
Qed.

Lemma cbor_head_first len : exists t r, cbor_head len = t :: r /\ t <> 246%N.
Proof.
  unfold cbor_head. destruct (N.ltb_spec len 24); [eexists; eexists; split; [reflexivity|lia]|].
  destruct (len <? 256)%N; [eexists; eexists; split; [reflexivity|lia]|].
  destruct (len <? 65536)%N; [eexists; eexists; split; [reflexivity|lia]|].
  destruct (len <? 4294967296)%N; eexists; eexists; (split; [reflexivity|lia]).
Qed.

Lemma unframe_item f b rest :
  (N.of_nat (length b) < 2 ^ 64)%N ->
  unframe (S f) (cbor_head (N.of_nat (length b)) ++ b ++ rest) = option_map (cons (Some b)) (unframe f rest).
Proof.
  intros He. destruct (cbor_head_first (N.of_nat (length b))) as (t & r & Eh & Ht).
  pose proof (read_head_ok (N.of_nat (length b)) (b ++ rest) He) as Hr.
  rewrite Eh in *. cbn [app] in *. cbn [unframe]. destruct (N.eqb_spec t 246); [congruence|].
  rewrite Hr, Nat2N.id, app_length.
  destruct (Nat.ltb_spec (length b + length rest) (length b)); [lia|].
  now rewrite firstn_app_exact, skipn_app_exact.
Qed.

(* the stream parses back to exactly the entries that were written *)
Theorem unframe_frame_l es : forall fuel,
  length es < fuel ->
  Forall (fun e => match e with Some b => (N.of_nat (length b) < 2 ^ 64)%N | None => True end) es ->
  unframe fuel (frame es) = Some es.
Proof.
  induction es as [|e es IH]; intros fuel Hf Hb; (destruct fuel as [|fuel]; [cbn in Hf; lia|]).
  - reflexivity.
  - inversion Hb as [|? ? He Hb']; subst. cbn [length] in Hf. cbn [frame flat_map]. fold (frame es).
    destruct e as [b|].
    + cbn [cbor_item]. rewrite <- app_assoc, unframe_item by exact He.
      rewrite IH by (auto; lia). reflexivity.
    + cbn [cbor_item app unframe]. change (246 =? 246)%N with true. cbv iota. rewrite IH by (auto; lia). reflexivity.
Qed.

(* ---------- proof entries (version 0), proof.go:236-262, node.go:408-427, 633-647 ---------- *)
Definition leaf_bin (k v : bytes) : bytes :=
  [prefix_leaf] ++ le_bytes 2 (N.of_nat (length k)) ++ k ++ le_bytes 4 (N.of_nat (length v)) ++ v.
Definition node_bin (lbl : path) (lf : option entry) : bytes :=
  [prefix_internal] ++ le_bytes 2 (N.of_nat (length lbl)) ++ pack lbl ++
  match lf with None => [prefix_nil] | Some (k, v) => leaf_bin k v end.
(* entries of a proof in pre-order: nil, hash (0x02 ‖ h), full (0x01 ‖ node) *)
Fixpoint entries_of (p : ptree) : list (option bytes) :=
  match p with
  | PNil => [None]
  | PHash h => [Some (2%N :: h)]
  | PLeaf k v => [Some (1%N :: leaf_bin k v)]
  | PNode lbl lf l r => Some (1%N :: node_bin lbl lf) :: entries_of l ++ entries_of r
  end.

(* the uncompressed chunk stream, and the chunk file *)
Definition chunk_stream (p : ptree) : bytes := frame (entries_of p).

(* the proof builder's size estimate is the number of bytes of the full entries *)
Lemma leaf_entry_cost k v : N.of_nat (length (1%N :: leaf_bin k v)) = leaf_cost k v.
Proof.
  unfold leaf_bin, leaf_cost. cbn [length app]. rewrite !app_length, !le_bytes_len.
  change depth_size with 2%N. change value_length_size with 4%N. lia.
Qed.
Lemma node_entry_cost lbl lf : N.of_nat (length (1%N :: node_bin lbl lf)) = node_cost lbl lf.
Proof.
  unfold node_bin, node_cost. cbn [length app]. rewrite !app_length, le_bytes_len.
  change depth_size with 2%N. change value_length_size with 4%N.
  destruct lf as [[k v]|]; [|cbn; lia]. unfold leaf_bin. cbn [length app]. rewrite !app_length, !le_bytes_len. lia.
Qed.

(* ---------- chunk files, with snappy abstract ---------- *)
Section File.
  Variable snap : bytes -> bytes.
  Variable unsnap : bytes -> option bytes.
  Hypothesis unsnap_snap : forall x, unsnap (snap x) = Some x.

  Definition chunk_file (p : ptree) : bytes := snap (chunk_stream p).
  (* the entries a chunk file decodes to (restoreChunk's loop over dec.Decode) *)
  Definition file_entries (b : bytes) : option (list (option bytes)) :=
    match unsnap b with Some raw => unframe (S (length raw)) raw | None => None end.

  Fixpoint entries_bounded (es : list (option bytes)) : Prop :=
    match es with
    | [] => True
    | Some b :: r => (N.of_nat (length b) < 2 ^ 64)%N /\ entries_bounded r
    | None :: r => entries_bounded r
    end.

  Lemma frame_length_ge es : length es <= length (frame es).
  Proof.
    induction es as [|e es IH]; [cbn; lia|]. cbn [frame flat_map length]. fold (frame es). rewrite app_length.
    assert (1 <= length (cbor_item e)).
    { destruct e as [b|]; cbn [cbor_item]; [|cbn; lia]. destruct (cbor_head_first (N.of_nat (length b))) as (t & r & E & _).
      rewrite app_length, E. cbn. lia. }
    lia.
  Qed.

  (* reading a created chunk file back yields exactly its proof entries *)
  Theorem file_roundtrip_l p :
    entries_bounded (entries_of p) -> file_entries (chunk_file p) = Some (entries_of p).
  Proof.
    intros Hb. unfold file_entries, chunk_file. rewrite unsnap_snap. unfold chunk_stream.
    apply unframe_frame_l; [apply Nat.lt_succ_r, frame_length_ge|].
    induction (entries_of p) as [|[b|] es IH]; constructor; cbn [entries_bounded] in Hb; try tauto; apply IH; tauto.
  Qed.
End File.
