(* Non-vacuity examples and the refutation witness for deep trees. *)
From Verif Require Import Lib.Base Mkvs.Trie Mkvs.BitsProofs Mkvs.AlistProofs Mkvs.TrieProofs Mkvs.HashProofs
  Ckpt.Model Ckpt.Proofs Ckpt.ParProofs Ckpt.RestoreProofs.
Local Open Scope nat_scope.

Lemma build_wf_from es : forall t,
  Forall (fun e => valid_bytes (fst e)) es -> wf t ->
  wf (fold_left (fun t e => tinsert (fst e) (snd e) t) es t).
Proof.
  induction es as [|e es IH]; intros t Hv W; cbn [fold_left]; [assumption|].
  inversion Hv; subst. apply IH; [assumption|]. now apply insert_wf.
Qed.
Lemma build_wf es : Forall (fun e => valid_bytes (fst e)) es -> wf (build es).
Proof. intros Hv. apply build_wf_from; [assumption|exact I]. Qed.

Definition keys_valid (es : list entry) : bool :=
  forallb (fun e => forallb (fun x => N.ltb x 256) (fst e)) es.
Lemma keys_valid_ok es : keys_valid es = true -> Forall (fun e => valid_bytes (fst e)) es.
Proof.
  unfold keys_valid. rewrite forallb_forall. intros Hk. apply Forall_forall. intros e He.
  specialize (Hk e He). rewrite forallb_forall in Hk. apply Forall_forall. intros x Hx.
  apply N.ltb_lt. auto.
Qed.

(* ---- a 7-key tree; chunk size 70 forces 3 chunks ---- *)
Definition es7 : list entry :=
  [([97], [1]); ([97;98], [2;2]); ([97;98;99], [3]); ([98], [4;4;4]); ([98;97], [5]); ([107], [6]); ([120], [7;7])]%N.
Definition t7 : tree := build es7.

Example t7_wf : wf t7.
Proof. apply build_wf, keys_valid_ok. reflexivity. Qed.

Example t7_three_chunks :
  map (map fst) (seq_runs 70 t7) = [[[97]; [97;98]]; [[97;98;99]; [98]]; [[98;97]; [107]; [120]]]%N.
Proof. vm_compute. reflexivity. Qed.

(* what the three chunks carry: the second and third repeat the inline
   leaves of the ancestors of their first key *)
Example t7_chunk_leaves :
  map (fun c => map fst (pleaves c)) (chunks H0 70 0 t7) =
  [[[97]; [97;98]]; [[97]; [97;98]; [97;98;99]; [98]]; [[98]; [98;97]; [107]; [120]]]%N.
Proof. vm_compute. reflexivity. Qed.

(* two threads: lock-step rounds, 7 chunks of one visited key each at size 40 *)
Example t7_two_threads :
  map (map fst) (fst (par_runs 40 2 t7)) = [[[97]]; [[120]]; [[107]]; [[97;98]]; [[98]]; [[97;98;99]]; [[98;97]]]%N /\
  snd (par_runs 40 2 t7) = [].
Proof. vm_compute. auto. Qed.

Example t7_restore_reversed_with_duplicates :
  let cs := chunks H0 70 0 t7 in
  fold_left (fun s c => import c s) (rev cs ++ cs ++ rev cs) [] = contents t7.
Proof. vm_compute. reflexivity. Qed.

Example t7_depth_ok : tdepth t7 <= MAX_PROOF_DEPTH.
Proof. vm_compute. repeat constructor. Qed.

(* ---- a tree deeper than the verifier's limit ---- *)
(* 130 keys of 17 bytes: key i has exactly bit i set (1000.., 0100.., ...) *)
Definition bitkey (i : nat) : bytes := pack (repeat false i ++ [true] ++ repeat false (135 - i)).
Definition es_deep : list entry := map (fun i => (bitkey i, [N.of_nat i])) (seq 0 130).

(* number of internal nodes above the leaf that holds key [k] *)
Definition keq (k : bytes) (e : entry) : bool := bytes_eqb (fst e) k.
Fixpoint kdepth (k : bytes) (t : tree) : nat :=
  match t with
  | Node _ _ l r =>
      if existsb (keq k) (contents l) then S (kdepth k l)
      else if existsb (keq k) (contents r) then S (kdepth k r) else 0
  | _ => 0
  end.

Lemma keq_in k l : existsb (keq k) l = true -> exists v, In (k, v) l.
Proof.
  intros E. apply existsb_exists in E as ([k' v] & Hin & Hk). unfold keq in Hk. cbn in Hk.
  apply bytes_eqb_eq in Hk. subst k'. eauto.
Qed.

Lemma kdepth_chunk H S k t : S k = true -> kdepth k t <= pdepth (chunk_of H S t).
Proof.
  intros HS. induction t as [|k0 v0|lbl lf l IHl r IHr]; cbn [kdepth]; try lia.
  destruct (existsb (keq k) (contents l)) eqn:El.
  - apply keq_in in El as [v Hin].
    rewrite chunk_node by (exists k, v; split; [cbn [contents]; rewrite !in_app_iff; auto|exact HS]).
    cbn [pdepth]. lia.
  - destruct (existsb (keq k) (contents r)) eqn:Er; [|lia].
    apply keq_in in Er as [v Hin].
    rewrite chunk_node by (exists k, v; split; [cbn [contents]; rewrite !in_app_iff; auto|exact HS]).
    cbn [pdepth]. lia.
Qed.

(* the genuine chunk of a well-formed tree is REJECTED by the verifier model
   (depth 129 > 128): [chunks_verify] needs its depth hypothesis *)
Theorem deep_tree_chunk_rejected :
  exists es, Forall (fun e => valid_bytes (fst e)) es /\ wf (build es) /\
    forall H size, exists c, In c (chunks H size 0 (build es)) /\
                             verify H (root_hash H (build es)) c = false.
Proof.
  exists es_deep.
  assert (Forall (fun e => valid_bytes (fst e)) es_deep) as Hv by (apply keys_valid_ok; vm_compute; reflexivity).
  split; [exact Hv|]. split; [exact (build_wf _ Hv)|]. intros H size. clear Hv.
  set (t := build es_deep). set (k := bitkey 129).
  assert (existsb (keq k) (contents t) = true) as Hex by (vm_compute; reflexivity).
  apply keq_in in Hex as [v Hin].
  assert (kdepth k t = 129) as Hk by (vm_compute; reflexivity).
  clearbody t k.
  pose proof (seq_runs_concat size t) as Ec. rewrite <- Ec in Hin.
  apply in_concat in Hin as (run & Hr & He).
  exists (chunk_of H (inrun run) t). split.
  - unfold chunks, chunk_runs. exact (in_map (fun run0 => chunk_of H (inrun run0) t) _ _ Hr).
  - unfold verify. apply andb_false_iff. left. apply Nat.leb_gt.
    pose proof (kdepth_chunk H (inrun run) k t (inrun_self run _ _ He)) as Hd.
    assert (MAX_PROOF_DEPTH = 128) as -> by reflexivity. lia.
Qed.
