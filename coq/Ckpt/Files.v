(* The chunk files of a checkpoint directory (checkpoint/file.go:225-245
   fileProvider.next, :200-222 GetCheckpointChunk): a map from the chunk index
   to the bytes of the file.  The creator opens file [i] with os.Create
   (create-or-TRUNCATE), writes chunk [i] and closes it; GetCheckpointChunk
   serves the whole file.  The directory may hold anything before (an earlier
   interrupted attempt for the same root). *)
From Verif Require Import Lib.Base.
Local Open Scope nat_scope.

Definition fstore := list (N * bytes).

(* os.Create + Write + Close: the file holds exactly what was written *)
Definition fcreate (i : N) (b : bytes) (fs : fstore) : fstore := aset i b fs.
(* the variant without O_TRUNC: the new bytes overwrite the file in place, an
   existing longer file keeps its tail *)
Definition foverwrite (i : N) (b : bytes) (fs : fstore) : fstore :=
  match aget i fs with
  | Some old => aset i (b ++ skipn (length b) old) fs
  | None => aset i b fs
  end.

Fixpoint write_chunks (wr : N -> bytes -> fstore -> fstore) (i : N) (files : list bytes) (fs : fstore) : fstore :=
  match files with
  | [] => fs
  | b :: r => write_chunks wr (i + 1) r (wr i b fs)
  end.
Definition serve (fs : fstore) (i : N) : option bytes := aget i fs.

Lemma write_chunks_get wr : (forall i b fs j, j <> i -> aget j (wr i b fs) = aget j fs) ->
  forall files i fs j, (j < i)%N -> aget j (write_chunks wr i files fs) = aget j fs.
Proof.
  intros Hwr. induction files as [|b r IH]; intros i fs j Hj; cbn [write_chunks]; [reflexivity|].
  rewrite IH by lia. apply Hwr. lia.
Qed.

Lemma fcreate_other i b fs j : j <> i -> aget j (fcreate i b fs) = aget j fs.
Proof. intros Hn. unfold fcreate. now apply aget_aset_other. Qed.

(* whatever the directory held before: after the creator has written its
   chunks, the file of every index holds exactly the chunk written for it *)
Theorem served_is_written_l files : forall fs0 i0 k,
  k < length files ->
  serve (write_chunks fcreate i0 files fs0) (i0 + N.of_nat k) = nth_error files k.
Proof.
  induction files as [|b r IH]; intros fs0 i0 k Hk; [cbn in Hk; lia|].
  cbn [write_chunks]. destruct k as [|k].
  - cbn [nth_error]. unfold serve. rewrite (write_chunks_get fcreate fcreate_other) by lia.
    replace (i0 + N.of_nat 0)%N with i0 by lia. apply aget_aset_same.
  - cbn [nth_error length] in *. replace (i0 + N.of_nat (S k))%N with (i0 + 1 + N.of_nat k)%N by lia.
    apply IH. lia.
Qed.

(* without truncation this fails: a stale longer file keeps its tail *)
Theorem overwrite_in_place_refuted :
  exists fs0 files k, k < length files /\
    serve (write_chunks foverwrite 0 files fs0) (N.of_nat k) <> nth_error files k.
Proof. exists [(0%N, [1; 2; 3; 4; 5]%N)], [[9%N]], 0. split; [cbn; lia|]. vm_compute. discriminate. Qed.

(* ... while it is harmless when the stale file is not longer than the new chunk *)
Lemma foverwrite_short (i : N) (b : bytes) (fs : fstore) (old : bytes) : aget i fs = Some old -> length old <= length b ->
  aget i (foverwrite i b fs) = Some b.
Proof.
  intros E Hl. unfold foverwrite. rewrite E. rewrite skipn_all2 by assumption. rewrite app_nil_r. apply aget_aset_same.
Qed.
