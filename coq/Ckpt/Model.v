(* Model of MKVS checkpoints (go/storage/mkvs/checkpoint): the sequential and
   the parallel chunker, chunk verification and the restorer.
   Executable definitions only; proofs are in Ckpt/Proofs.v, Ckpt/ParProofs.v,
   Ckpt/RestoreProofs.v.

   A chunk is a version-0 Merkle proof anchored at the checkpoint root: a
   pruning of the tree in which every node on a root-to-leaf path of one of
   the keys "visited" by the chunker is present in full (an internal node
   carries its own leaf inline, node.go:408 CompactMarshalBinaryV0) and every
   other subtree is replaced by its hash (proof.go:236-262 build).

   Abstraction used for BOTH chunkers (argued below, validated entry for entry
   against the real chunkers by harness/cmd/ckpt):
   a chunk is determined by the run of consecutive keys visited while it was
   built; the run ends after the first key at which the proof builder's size
   estimate (proof.go:176  size += 1 + len(serialized), once per distinct node)
   has reached the chunk size, or with the last key of the task.
   - seqChunker.createChunk (chunk.go:87-128): Seek(offset) walks the path to
     the first key (offset is always an existing key, so the walk is straight
     down), the loop `it.Valid() && Size() < chunkSize; it.Next()` adds keys,
     every node dereferenced by the iterator is Included (iterator.go:259);
     nextOffset is the key after the run.
   - subtree.nextChunk (subtree.go:100-170): Includes path and pending stack
     (all ancestors of the first unvisited key), then pops in pre-order and
     breaks at the loop head when `Size() >= chunkSize && lastIsLeaf`; size
     only grows when an unvisited node is popped, so the break happens at the
     loop head directly after the leaf that made the estimate reach the size.
   The traversal state `subtree{path,pending}` is abstracted to
   (subtree root, number of its keys already visited): after trim (subtree.go:
   173-197) the pending stack is the chain of partially visited ancestors of
   the next key and is a function of that count; see [split]. *)
From Verif Require Import Lib.Base Mkvs.Trie Gen.CkptConsts.

Definition entry := (bytes * bytes)%type.

(* ------------------------------------------------------------------ *)
(* Proof builder size estimate                                          *)
(* ------------------------------------------------------------------ *)
(* leaf: 1 (entry tag) + 1 (prefix) + 2 (key length) + |k| + 4 (value length) + |v|
   (node.go:633-647, key.go:20-27, proof.go:176) *)
(* the field widths are read from the source: Gen/CkptConsts.v (depth_size = 2, value_length_size = 4) *)
Definition leaf_cost (k v : bytes) : N :=
  2 + depth_size + N.of_nat (length k) + value_length_size + N.of_nat (length v).
(* internal node, V0 compact form: 1 (entry tag) + 1 (prefix) + 2 (label bit
   length) + |label bytes| + (1 for a nil leaf | the marshalled leaf)
   (node.go:408-427) *)
Definition node_cost (lbl : path) (lf : option entry) : N :=
  2 + depth_size + N.of_nat (length (pack lbl)) +
  match lf with
  | None => 1
  | Some (k, v) => 1 + depth_size + N.of_nat (length k) + value_length_size + N.of_nat (length v)
  end.

(* annotated key list: (entry, full, marg)
   full = estimate after a fresh builder has included every ancestor of the key
          and the key's leaf node (the leaf of an internal node is counted in
          the node AND again when the iterator/chunker visits it separately:
          the double count documented at proof.go:190-199);
   marg = what visiting this key adds when the previous key of the tree was
          visited before it in the same chunk (the nodes opened in between). *)
Definition aent := (entry * N * N)%type.
Definition aentry (a : aent) : entry := fst (fst a).

Definition bump (c : N) (l : list aent) : list aent :=
  match l with
  | (e, f, m) :: r => (e, f, m + c) :: r
  | [] => []
  end.

Definition annot_lf (A : N) (lf : option entry) : list aent :=
  match lf with
  | Some (k, v) => [((k, v), A + leaf_cost k v, leaf_cost k v)]
  | None => []
  end.

Fixpoint annot (A : N) (t : tree) : list aent :=
  match t with
  | Nil => []
  | Leaf k v => [((k, v), A + leaf_cost k v, leaf_cost k v)]
  | Node lbl lf l r =>
      let c := node_cost lbl lf in
      bump c (annot_lf (A + c) lf ++ annot (A + c) l ++ annot (A + c) r)
  end.

(* the run built by one chunk from the remaining keys [l] of a traversal:
   the first key always (Seek / first leaf pop), further keys while the
   estimate is below the chunk size *)
Fixpoint take_more (size acc : N) (l : list aent) : list entry :=
  match l with
  | [] => []
  | (e, f, m) :: r => if acc <? size then e :: take_more size (acc + m) r else []
  end.
Definition next_run (size : N) (l : list aent) : list entry :=
  match l with
  | [] => []
  | (e, f, _) :: r => e :: take_more size f r
  end.

(* ------------------------------------------------------------------ *)
(* Sequential chunker (chunk.go:55-128)                                 *)
(* ------------------------------------------------------------------ *)
(* one pass over the key list; [cur] is the current run (reversed), [acc] its
   estimate.  A new chunk starts with a fresh builder: estimate = [full]. *)
Fixpoint runs_aux (size : N) (cur : list entry) (acc : N) (l : list aent) : list (list entry) :=
  match l with
  | [] => [rev cur]
  | (e, f, m) :: r =>
      if acc <? size then runs_aux size (e :: cur) (acc + m) r
      else rev cur :: runs_aux size [e] f r
  end.
(* an empty tree still yields one chunk (the proof [nil]), chunk.go:60-84 *)
Definition seq_runs (size : N) (t : tree) : list (list entry) :=
  match annot 0 t with
  | [] => [[]]
  | (e, f, _) :: r => runs_aux size [e] f r
  end.

(* ------------------------------------------------------------------ *)
(* Chunks as prunings                                                   *)
(* ------------------------------------------------------------------ *)
Inductive ptree :=
| PHash (h : bytes)                  (* proofEntryHash *)
| PNil                               (* nil entry *)
| PLeaf (k v : bytes)                (* proofEntryFull, leaf *)
| PNode (lbl : path) (lf : option entry) (l r : ptree).  (* proofEntryFull, internal (leaf inline) *)

Definition inrun (run : list entry) (k : bytes) : bool :=
  existsb (fun e => bytes_eqb (fst e) k) run.

Definition sel_lf (S : bytes -> bool) (lf : option entry) : bool :=
  match lf with Some (k, _) => S k | None => false end.

(* what the proof builder emits for a subtree none of whose nodes is included *)
Definition cut (H : bytes -> bytes) (t : tree) (o : option ptree) : ptree :=
  match o with
  | Some p => p
  | None => match t with Nil => PNil | _ => PHash (root_hash H t) end
  end.

(* [None]: no selected key below [t] *)
Fixpoint prune_opt (H : bytes -> bytes) (S : bytes -> bool) (t : tree) : option ptree :=
  match t with
  | Nil => None
  | Leaf k v => if S k then Some (PLeaf k v) else None
  | Node lbl lf l r =>
      let ol := prune_opt H S l in
      let or := prune_opt H S r in
      match ol, or, sel_lf S lf with
      | None, None, false => None
      | _, _, _ => Some (PNode lbl lf (cut H l ol) (cut H r or))
      end
  end.
Definition chunk_of (H : bytes -> bytes) (S : bytes -> bool) (t : tree) : ptree :=
  cut H t (prune_opt H S t).

Definition seq_chunks (H : bytes -> bytes) (size : N) (t : tree) : list ptree :=
  map (fun run => chunk_of H (inrun run) t) (seq_runs size t).

(* the key/value pairs carried by a chunk, in proof (pre-)order *)
Fixpoint pleaves (p : ptree) : list entry :=
  match p with
  | PHash _ | PNil => []
  | PLeaf k v => [(k, v)]
  | PNode _ lf l r => lf_contents lf ++ pleaves l ++ pleaves r
  end.

(* ------------------------------------------------------------------ *)
(* Parallel chunker (chunk.go:130-247, subtree.go)                      *)
(* ------------------------------------------------------------------ *)
(* a chunking task: the subtree it traverses, the estimate contributed by the
   nodes of its [path] (all ancestors of the subtree), the number of keys of
   the subtree (in order) that earlier chunks of the task already visited *)
Record task := mk { tsub : tree; tanc : N; tdone : nat }.

Definition remaining (tk : task) : list aent := skipn (tdone tk) (annot (tanc tk) (tsub tk)).
Definition unfinished (tk : task) : bool := (tdone tk <? length (contents (tsub tk)))%nat.
Definition task_run (size : N) (tk : task) : list entry := next_run size (remaining tk).
Definition advance (size : N) (tk : task) : task :=
  mk (tsub tk) (tanc tk) (tdone tk + length (task_run size tk)).

Definition child_tasks (a : N) (cs : list tree) : list task :=
  flat_map (fun c => match c with Nil => [] | _ => [mk c a 0] end) cs.

(* subtree.split, subtree.go:204-276.  pending[0] is the subtree root; its
   visit state as a function of [tdone]:
     visitBefore / visitAt : nothing, or only the node's own leaf, visited
     visitAtLeft, len(pending) > 1 : inside the left subtree
     visitAtLeft, len(pending) = 1 : left subtree complete, right untouched
     visitAtRight : inside the right subtree.
   Order of the result as in the code: for visitAtLeft the NEW right task comes
   first, the descended task after it (subtree.go:262-267). *)
Definition split (tk : task) : list task :=
  match tsub tk with
  | Node lbl lf l r =>
      let nlf := length (lf_contents lf) in
      let nl := length (contents l) in
      let a := tanc tk + node_cost lbl lf in
      let d := tdone tk in
      if (d <=? nlf)%nat then
        match l, r with
        | Nil, Nil => [tk]                           (* :248-250 *)
        | _, _ => child_tasks a [l; r]               (* :251-256 *)
        end
      else if (d <? nlf + nl)%nat then child_tasks a [r] ++ [mk l a (d - nlf)]  (* :261-267 *)
      else if (d =? nlf + nl)%nat then [tk]          (* :258-260 *)
      else [mk r a (d - nlf - nl)]                   (* :268-271 *)
  | _ => [tk]                                        (* :210-213 not an internal node *)
  end.

(* one pass of parallelChunker.splitTasks' inner loop (chunk.go:190-200):
   (tasks so far, input exhausted without reaching the thread count?) *)
Fixpoint split_pass (threads : nat) (acc tasks : list task) : list task * bool :=
  match tasks with
  | [] => (acc, false)
  | tk :: rest =>
      if (threads <=? length acc + length tasks)%nat then (acc ++ tasks, true)
      else split_pass threads (acc ++ split tk) rest
  end.
Fixpoint split_tasks (threads : nat) (n : nat) (tasks : list task) : list task :=
  match n with
  | O => tasks
  | S n' =>
      let (ts, stop) := split_pass threads [] tasks in
      if stop then ts else split_tasks threads n' ts
  end.
Definition SPLIT_ITERS : nat := N.to_nat split_iters.     (* chunk.go:188, read from the source *)

(* lock-step rounds (chunk.go:160-181): split, one chunk per task, drop the
   finished tasks.  Result: the runs in chunk-index order and the tasks left
   when the fuel ran out (always [] with the fuel of [par_runs], theorem
   [par_terminates]). *)
Fixpoint par_rounds (fuel : nat) (size : N) (threads : nat) (tasks : list task)
  : list (list entry) * list task :=
  match fuel with
  | O => ([], tasks)
  | S f =>
      match tasks with
      | [] => ([], [])
      | _ =>
          let ts := split_tasks threads SPLIT_ITERS tasks in
          let rs := map (task_run size) ts in
          let ts' := filter unfinished (map (advance size) ts) in
          let (more, left) := par_rounds f size threads ts' in
          (rs ++ more, left)
      end
  end.

Definition par_runs (size : N) (threads : nat) (t : tree) : list (list entry) * list task :=
  match t with
  | Nil => ([[]], [])          (* newSubtree of an empty root: one empty proof, subtree.go:66-70 *)
  | _ => par_rounds (S (length (contents t))) size threads [mk t 0 0]
  end.

Definition par_chunks (H : bytes -> bytes) (size : N) (threads : nat) (t : tree) : list ptree :=
  map (fun run => chunk_of H (inrun run) t) (fst (par_runs size threads t)).

(* CreateCheckpoint, file.go:36-93: threads = 0 selects the sequential chunker *)
Definition chunk_runs (size : N) (threads : nat) (t : tree) : list (list entry) :=
  match threads with
  | O => seq_runs size t
  | _ => fst (par_runs size threads t)
  end.
Definition chunks (H : bytes -> bytes) (size : N) (threads : nat) (t : tree) : list ptree :=
  map (fun run => chunk_of H (inrun run) t) (chunk_runs size threads t).

(* createChunks (chunk.go:205-235) runs the tasks of a round concurrently; the
   result slot and the task are addressed by index.  [sched] is the order in
   which the goroutines happen to run. *)
Fixpoint upd {A} (i : nat) (x : A) (l : list A) : list A :=
  match l, i with
  | [], _ => []
  | _ :: r, O => x :: r
  | y :: r, S i' => y :: upd i' x r
  end.
Definition round_state := (list task * list (list entry))%type.
Definition run_slot (size : N) (st : round_state) (i : nat) : round_state :=
  match nth_error (fst st) i with
  | Some tk => (upd i (advance size tk) (fst st), upd i (task_run size tk) (snd st))
  | None => st
  end.
Definition round_sched (size : N) (sched : list nat) (ts : list task) : round_state :=
  fold_left (run_slot size) sched (ts, map (fun _ => []) ts).

(* ------------------------------------------------------------------ *)
(* Restore (chunk.go:249-341, restorer.go)                              *)
(* ------------------------------------------------------------------ *)
Definition MAX_PROOF_DEPTH : nat := N.to_nat max_proof_depth.   (* proof.go:20, read from the source *)

(* recomputed hash of a proof (proof.go:344-428) *)
Fixpoint phash (H : bytes -> bytes) (p : ptree) : bytes :=
  match p with
  | PHash h => h
  | PNil => eval_hexpr H empty_hexpr
  | PLeaf k v => eval_hexpr H (leaf_hexpr k v)
  | PNode lbl lf l r =>
      H ([PREFIX_INTERNAL] ++ le_bytes 2 (N.of_nat (length lbl)) ++ pack lbl ++
         eval_hexpr H (opt_leaf_hexpr lf) ++ phash H l ++ phash H r)
  end.

(* largest depth at which verifyProof is entered (root entry = 0) *)
Fixpoint pdepth (p : ptree) : nat :=
  match p with
  | PNode _ _ l r => S (Nat.max (pdepth l) (pdepth r))
  | _ => O
  end.

(* VerifyProof: `depth > maxProofDepth` is an error (proof.go:349), then the
   recomputed root must equal the trusted root (proof.go:333) *)
Definition verify (H : bytes -> bytes) (root : bytes) (p : ptree) : bool :=
  (pdepth p <=? MAX_PROOF_DEPTH)%nat && bytes_eqb (phash H p) root.

(* the node database during a multipart restore, observed through what it
   will make readable: the set of imported key/value pairs *)
Definition store := list entry.
Definition import (p : ptree) (st : store) : store :=
  fold_left (fun s e => al_set (fst e) (snd e) s) (pleaves p) st.

Inductive rres := ROk | RCorrupted | RProofFail | RNotPending | RNoRestore | RInProgress.

Section Restore.
  Variable H : bytes -> bytes.            (* node hash *)
  Variable Hd : bytes -> bytes.           (* digest of the chunk file *)
  Variable decode : bytes -> option ptree.  (* snappy + CBOR framing + node decoding *)

  (* restoreChunk, chunk.go:249-341: digest first (:283), then decode errors
     (:292), then the proof (:298), only then the import batch *)
  Definition restore_chunk (root digest b : bytes) (st : store) : rres * store :=
    if negb (bytes_eqb (Hd b) digest) then (RCorrupted, st)
    else match decode b with
         | None => (RProofFail, st)
         | Some p => if verify H root p then (ROk, import p st) else (RProofFail, st)
         end.

  (* restorer + the caller's multipart management (restorer.go:26-110,
     worker/storage/committee/checkpoint_sync.go): [active] = a restore is in
     progress; [pend] = indices still pending *)
  Record rstate := mkr { active : bool; pend : list nat; db : store }.

  Inductive event :=
  | EChunk (idx : nat) (b : bytes)     (* RestoreChunk(idx, reader over b) *)
  | EAbort                             (* AbortRestore + AbortMultipartInsert *)
  | EAbortR                            (* AbortRestore alone: the multipart insert keeps its nodes *)
  | EStart.                            (* StartMultipartInsert + StartRestore *)

  Definition rm (i : nat) (l : list nat) : list nat := filter (fun j => negb (Nat.eqb j i)) l.

  Definition rstep (root : bytes) (digests : list bytes) (s : rstate) (e : event) : rstate * rres :=
    match e with
    | EStart =>
        if active s then (s, RInProgress)              (* ErrRestoreAlreadyInProgress *)
        else (mkr true (seq 0 (length digests)) (db s), ROk)
    | EAbort => (mkr false [] [], ROk)                 (* nodes of the multipart log removed *)
    | EAbortR => (mkr false [] (db s), ROk)            (* restorer.go:43-51 *)
    | EChunk i b =>
        if negb (active s) then (s, RNoRestore)        (* restorer.go:72 *)
        else if negb (existsb (Nat.eqb i) (pend s)) then (s, RNotPending)   (* :77 *)
        else match nth_error digests i with
             | None => (s, RNotPending)                (* GetChunkMetadata: ErrChunkNotFound *)
             | Some d =>
                 match restore_chunk root d b (db s) with
                 | (ROk, st') =>
                     let p' := rm i (pend s) in
                     (mkr (negb (Nat.eqb (length p') 0)) p' st', ROk)       (* :99-110 *)
                 | (RProofFail, _) => (mkr false [] (db s), RProofFail)     (* :88-93 restorer aborted *)
                 | (r, _) => (s, r)
                 end
             end
    end.

  (* NodeDB.Finalize of the restored version: the root must be the one whose
     chunks were imported; what becomes readable is what was imported *)
  Definition rfinalize (root r : bytes) (s : rstate) : option store :=
    if bytes_eqb r root then Some (db s) else None.

  Definition rrun (root : bytes) (digests : list bytes) (s : rstate) (evs : list event) : rstate :=
    fold_left (fun s e => fst (rstep root digests s e)) evs s.
End Restore.

(* ------------------------------------------------------------------ *)
(* Correspondence interface (harness/cmd/ckpt)                          *)
(* ------------------------------------------------------------------ *)
Definition build (es : list entry) : tree :=
  fold_left (fun t e => tinsert (fst e) (snd e) t) es Nil.
Definition H0 (_ : bytes) : bytes := [].
(* input: (entries in insertion order, chunk size, threads);
   output: the keys carried by every chunk, in proof order, each key named by
   its position in the sorted contents (long byte-string literals are costly
   to evaluate; positions are not).  For that the values of the tree are
   replaced by positions AFTER the runs have been computed on the real tree;
   [chunk_of] looks at keys only. *)
Fixpoint relabel (i : N) (t : tree) : tree * N :=
  match t with
  | Nil => (Nil, i)
  | Leaf k _ => (Leaf k [i], i + 1)
  | Node lbl lf l r =>
      let '(lf', i1) := match lf with Some (k, _) => (Some (k, [i]), i + 1) | None => (None, i) end in
      let '(l', i2) := relabel i1 l in
      let '(r', i3) := relabel i2 r in
      (Node lbl lf' l' r', i3)
  end.
Definition ck_in := (list entry * N * N)%type.
Definition ck_out := list (list N).
Definition ckpt_out (size threads : N) (t : tree) : ck_out :=
  let t' := fst (relabel 0 t) in
  map (fun run => map (fun e => hd 0 (snd e)) (pleaves (chunk_of H0 (inrun run) t')))
      (chunk_runs size (N.to_nat threads) t).
Definition run_ckpt (i : ck_in) : ck_out :=
  let '(es, size, threads) := i in ckpt_out size threads (build es).
Definition ck_eqb (a b : ck_out) : bool := list_eqb (list_eqb N.eqb) a b.
