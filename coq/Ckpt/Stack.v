(* Second model layer: a port of the parallel chunker's traversal state
   machine subtree{path,pending} (go/storage/mkvs/checkpoint/subtree.go) with
   the proof builder's included-node set and size estimate
   (go/storage/mkvs/syncer/proof.go:118-262).  Executable definitions only.

   Nodes are identified by their subtree value ([tree_eqb]): in a well-formed
   tree keys are unique, so two different non-empty positions never hold equal
   subtrees (the code identifies nodes by hash). *)
From Verif Require Import Lib.Base Mkvs.Trie Gen.CkptConsts Ckpt.Model.

Fixpoint path_eqb (a b : path) : bool :=
  match a, b with
  | [], [] => true
  | x :: a', y :: b' => Bool.eqb x y && path_eqb a' b'
  | _, _ => false
  end.
Definition lf_eqb (a b : option entry) : bool :=
  match a, b with
  | None, None => true
  | Some (k, v), Some (k', v') => bytes_eqb k k' && bytes_eqb v v'
  | _, _ => false
  end.
Fixpoint tree_eqb (a b : tree) : bool :=
  match a, b with
  | Nil, Nil => true
  | Leaf k v, Leaf k' v' => bytes_eqb k k' && bytes_eqb v v'
  | Node lb lf l r, Node lb' lf' l' r' =>
      path_eqb lb lb' && lf_eqb lf lf' && tree_eqb l l' && tree_eqb r r'
  | _, _ => false
  end.

(* ---------- proof builder ---------- *)
Record pbuilder := mkpb { inc : list tree; psize : N }.
Definition node_size (n : tree) : N :=
  match n with
  | Nil => 0
  | Leaf k v => leaf_cost k v
  | Node lbl lf _ _ => node_cost lbl lf
  end.
(* ProofBuilder.Include, proof.go:118-180: nil ignored, an already included
   node (same hash) ignored, otherwise size += 1 + len(serialized) *)
Definition include (n : tree) (pb : pbuilder) : pbuilder :=
  match n with
  | Nil => pb
  | _ => if existsb (tree_eqb n) (inc pb) then pb
         else mkpb (n :: inc pb) (psize pb + node_size n)
  end.
(* ProofBuilder.build, proof.go:236-262 (version 0: children = Left, Right) *)
Fixpoint pbuild (H : bytes -> bytes) (incl : list tree) (t : tree) : ptree :=
  match t with
  | Nil => PNil
  | Leaf k v => if existsb (tree_eqb t) incl then PLeaf k v else PHash (root_hash H t)
  | Node lbl lf l r =>
      if existsb (tree_eqb t) incl then PNode lbl lf (pbuild H incl l) (pbuild H incl r)
      else PHash (root_hash H t)
  end.

(* ---------- subtree{path,pending} ---------- *)
Inductive vstate := VB | VA | VL | VR.   (* visitBefore, visitAt, visitAtLeft, visitAtRight *)
Definition atom := (tree * vstate)%type.  (* nd = Nil: the nil node of an empty root *)
(* [spend] holds pending with the LAST element of the Go slice first (the top
   of the stack); pending[0] is [last spend] *)
Record stask := mks { spath : list tree; spend : list atom }.

(* visitNext, subtree.go:79-97 (a nil pointer pushes nothing) *)
Definition push_child (c : tree) (stk : list atom) : list atom :=
  match c with Nil => stk | _ => (c, VB) :: stk end.
(* newSubtree, subtree.go:56-76: an empty root still yields one (nil) atom *)
Definition new_stask (t : tree) : stask := mks [] [(t, VB)].

(* the loop of nextChunk, subtree.go:116-161; returns (pending, builder, visited leaves) *)
Fixpoint nc_loop (fuel : nat) (size : N) (stk : list atom) (pb : pbuilder) (lastleaf : bool)
         (vis : list entry) : option (list atom * pbuilder * list entry) :=
  match fuel with
  | O => None
  | S f =>
      match stk with
      | [] => Some (stk, pb, rev vis)                                  (* :117 *)
      | (nd, st) :: rest =>
          if (size <=? psize pb) && lastleaf then Some (stk, pb, rev vis)   (* :124 *)
          else
            let pb' := include nd pb in                                (* :131 *)
            match nd with
            | Nil => nc_loop f size rest pb' lastleaf vis              (* :134 *)
            | Leaf k v => nc_loop f size rest pb' true ((k, v) :: vis) (* :136 *)
            | Node lbl lf l r =>
                match st with
                | VB =>                                                (* :140-145 *)
                    let stk1 := (nd, VA) :: rest in
                    let stk2 := match lf with Some (k, v) => (Leaf k v, VB) :: stk1 | None => stk1 end in
                    nc_loop f size stk2 pb' false vis
                | VA => nc_loop f size (push_child l ((nd, VL) :: rest)) pb' lastleaf vis   (* :146-150 *)
                | VL => nc_loop f size (push_child r ((nd, VR) :: rest)) pb' lastleaf vis   (* :151-155 *)
                | VR => nc_loop f size rest pb' lastleaf vis           (* :156 *)
                end
            end
      end
  end.

(* trim, subtree.go:173-197 *)
Fixpoint trim (stk : list atom) : list atom :=
  match stk with
  | [] => []
  | (nd, st) :: rest =>
      match nd with
      | Nil => trim rest
      | Leaf _ _ => stk
      | Node _ _ l r =>
          match st with
          | VB => stk
          | VA => match l, r with Nil, Nil => trim rest | _, _ => stk end
          | VL => match r with Nil => trim rest | _ => stk end
          | VR => trim rest
          end
      end
  end.

Fixpoint tnodes (t : tree) : nat :=
  match t with
  | Node _ lf l r => S (S (tnodes l + tnodes r))
  | _ => 1
  end.

(* nextChunk, subtree.go:100-170: (chunk, visited leaves, task after trim) *)
Definition s_next_chunk (H : bytes -> bytes) (t : tree) (size : N) (tk : stask)
  : option (ptree * list entry * stask) :=
  let pb0 := fold_left (fun pb n => include n pb) (spath tk) (mkpb [] 0) in
  let pb1 := fold_left (fun pb a => include (fst a) pb) (rev (spend tk)) pb0 in
  match nc_loop (4 * tnodes t + 4) size (spend tk) pb1 false [] with
  | None => None
  | Some (stk, pb, vis) => Some (pbuild H (inc pb) t, vis, mks (spath tk) (trim stk))
  end.

Definition s_finished (tk : stask) : bool := match spend tk with [] => true | _ => false end.  (* hasNext (sic) *)

(* split, subtree.go:204-276 *)
Definition s_child (path : list tree) (parent c : tree) : list stask :=
  match c with Nil => [] | _ => [mks (path ++ [parent]) [(c, VB)]] end.
Definition s_split (tk : stask) : list stask :=
  match rev (spend tk) with
  | [] => []                                                          (* :205-207 *)
  | (nd, st) :: above =>                                              (* subroot = pending[0] *)
      match nd with
      | Node lbl lf l r =>
          match st with
          | VB | VA =>
              match l, r with
              | Nil, Nil => [tk]                                      (* :248-250 *)
              | _, _ => s_child (spath tk) nd l ++ s_child (spath tk) nd r
              end
          | VL =>
              match above with
              | [] => [tk]                                            (* :258-260 *)
              | _ => s_child (spath tk) nd r ++ [mks (spath tk ++ [nd]) (rev above)]
              end
          | VR => [mks (spath tk ++ [nd]) (rev above)]                (* :268-271 *)
          end
      | _ => [tk]                                                     (* :210-213 *)
      end
  end.

(* splitTasks, chunk.go:186-203, generic in the task type *)
Section GenSplit.
  Context {T : Type} (spl : T -> list T).
  Fixpoint g_split_pass (threads : nat) (acc tasks : list T) : list T * bool :=
    match tasks with
    | [] => (acc, false)
    | tk :: rest =>
        if (threads <=? length acc + length tasks)%nat then (acc ++ tasks, true)
        else g_split_pass threads (acc ++ spl tk) rest
    end.
  Fixpoint g_split_tasks (threads : nat) (n : nat) (tasks : list T) : list T :=
    match n with
    | O => tasks
    | S n' =>
        let (ts, stop) := g_split_pass threads [] tasks in
        if stop then ts else g_split_tasks threads n' ts
    end.
End GenSplit.

Fixpoint opt_all {A} (l : list (option A)) : option (list A) :=
  match l with
  | [] => Some []
  | None :: _ => None
  | Some x :: r => match opt_all r with Some xs => Some (x :: xs) | None => None end
  end.

(* chunk, chunk.go:145-184: Some (chunks with their visited leaves, tasks left at fuel end) *)
Fixpoint s_rounds (fuel : nat) (H : bytes -> bytes) (t : tree) (size : N) (threads : nat)
         (tasks : list stask) : option (list (ptree * list entry) * list stask) :=
  match fuel with
  | O => Some ([], tasks)
  | S f =>
      match tasks with
      | [] => Some ([], [])
      | _ =>
          let ts := g_split_tasks s_split threads SPLIT_ITERS tasks in
          match opt_all (map (s_next_chunk H t size) ts) with
          | None => None
          | Some res =>
              let ts' := filter (fun tk => negb (s_finished tk)) (map snd res) in
              match s_rounds f H t size threads ts' with
              | None => None
              | Some (more, lft) => Some (map fst res ++ more, lft)
              end
          end
      end
  end.

Definition s_par (H : bytes -> bytes) (size : N) (threads : nat) (t : tree)
  : option (list (ptree * list entry) * list stask) :=
  s_rounds (S (length (contents t))) H t size threads [new_stask t].

(* ---------- correspondence ---------- *)
Fixpoint index_of (k : bytes) (l : list entry) (i : N) : N :=
  match l with
  | [] => i
  | e :: r => if bytes_eqb (fst e) k then i else index_of k r (i + 1)
  end.

(* the tree of a case: built by the model's insert from the entries (small
   trees: end to end), or rebuilt from the shape dumped from the real database
   (the whole-tree proof of the real proof builder: labels as raw bit length +
   bytes), which avoids the cost of evaluating [insert] on large trees *)
Inductive dshape :=
| DNil
| DLeaf (k v : bytes)
| DNode (bits : N) (label : bytes) (lf : option entry) (l r : dshape).
Fixpoint tree_of (d : dshape) : tree :=
  match d with
  | DNil => Nil
  | DLeaf k v => Leaf k v
  | DNode bits label lf l r => Node (firstn (N.to_nat bits) (bits_of label)) lf (tree_of l) (tree_of r)
  end.
Inductive cksrc := ByEntries (es : list entry) | ByShape (d : dshape).
Definition src_tree (s : cksrc) : tree :=
  match s with ByEntries es => build es | ByShape d => tree_of d end.
(* (tree, chunk size, threads, evaluate the stack port too?) *)
Definition ck_in2 := (cksrc * N * N * bool)%type.

(* the keys carried by every chunk of the PORT (what pbuild emits for the
   included set), as positions in the sorted contents; and whether the leaves
   it visited are the runs of the count abstraction *)
Definition run_stack (size threads : N) (t : tree) : option (ck_out * bool) :=
  let cs0 := contents t in
  match s_par H0 size (N.to_nat threads) t with
  | Some (cs, []) =>
      Some (map (fun c => map (fun e => index_of (fst e) cs0 0) (pleaves (fst c))) cs,
            list_eqb (list_eqb (fun a b => bytes_eqb (fst a) (fst b)))
                     (map snd cs) (fst (par_runs size (N.to_nat threads) t)))
  | _ => None
  end.

(* both layers; a disagreement between the layers is reported as a marker *)
Definition run_both (i : ck_in2) : ck_out :=
  let '(src, size, threads, both) := i in
  let t := src_tree src in
  let a := ckpt_out size threads t in
  match threads, both with
  | 0, _ | _, false => a
  | _, true =>
      match run_stack size threads t with
      | Some (b, agree) => if ck_eqb a b && agree then a else [[12345678]]
      | None => [[87654321]]
      end
  end.
