(* The stack-machine port (Ckpt/Stack.v) against the count abstraction
   (Ckpt/Model.v): the compositional part of the refinement.  splitTasks (with
   its iteration bound and early return), the lock-step rounds and the
   filtering of finished tasks preserve ANY simulation relation between stack
   tasks and count tasks under which one nextChunk, one split and hasNext agree.
   PARTIAL: that the concrete representation relation (pending stack after
   trim = chain of partially visited ancestors of the next key) satisfies
   the three step premises is NOT proved here; it is checked by evaluation
   (Stack.run_both on every correspondence case: port = count model = real
   chunker). *)
From Verif Require Import Lib.Base Mkvs.Trie Ckpt.Model Ckpt.Proofs Ckpt.ParProofs Ckpt.Stack.
Local Open Scope nat_scope.

Lemma Forall2_length {A B} (P : A -> B -> Prop) l l' : Forall2 P l l' -> length l = length l'.
Proof. induction 1; cbn [length]; auto. Qed.

Section Sim.
  Variable H : bytes -> bytes.
  Variable t : tree.
  Variable size : N.
  Variable R : stask -> task -> Prop.
  (* tasks that enter a round are unfinished *)
  Definition RU (s : stask) (c : task) : Prop := R s c /\ unfinished c = true.
  Hypothesis Hsplit : forall s c, RU s c -> Forall2 RU (s_split s) (split c).
  Hypothesis Hnext : forall s c, RU s c ->
    exists s', s_next_chunk H t size s =
               Some (chunk_of H (inrun (task_run size c)) t, task_run size c, s') /\
               R s' (advance size c).
  Hypothesis Hfin : forall s c, R s c -> s_finished s = negb (unfinished c).

  Lemma split_pass_sim threads ts : forall tc acc acc',
    Forall2 RU acc acc' -> Forall2 RU ts tc ->
    Forall2 RU (fst (g_split_pass s_split threads acc ts)) (fst (split_pass threads acc' tc)) /\
    snd (g_split_pass s_split threads acc ts) = snd (split_pass threads acc' tc).
  Proof.
    induction ts as [|s ts IH]; intros tc acc acc' Ha Ht; inversion Ht; subst; cbn [g_split_pass split_pass fst snd].
    - auto.
    - rewrite (Forall2_length _ _ _ Ha). cbn [length]. rewrite (Forall2_length _ _ _ H4).
      destruct (threads <=? _); cbn [fst snd].
      + split; [|reflexivity]. apply Forall2_app; [assumption|]. constructor; assumption.
      + apply IH; [|assumption]. apply Forall2_app; [assumption|]. now apply Hsplit.
  Qed.

  Lemma split_tasks_sim threads n : forall ts tc,
    Forall2 RU ts tc -> Forall2 RU (g_split_tasks s_split threads n ts) (split_tasks threads n tc).
  Proof.
    induction n as [|n IH]; intros ts tc Ht; cbn [g_split_tasks split_tasks]; [assumption|].
    destruct (split_pass_sim threads ts tc [] [] (Forall2_nil _) Ht) as [F E].
    destruct (g_split_pass s_split threads [] ts) as [a b], (split_pass threads [] tc) as [a' b'].
    cbn [fst snd] in *. subst b'. destruct b; auto.
  Qed.

  Lemma next_all ts : forall tc, Forall2 RU ts tc ->
    exists res, opt_all (map (s_next_chunk H t size) ts) = Some res /\
      map fst res = map (fun c => (chunk_of H (inrun (task_run size c)) t, task_run size c)) tc /\
      Forall2 R (map snd res) (map (advance size) tc).
  Proof.
    induction ts as [|s ts IH]; intros tc Ht; inversion Ht; subst.
    - exists []. repeat split; constructor.
    - destruct (IH _ H4) as (res & E & Em & Er). destruct (Hnext _ _ H2) as (s' & En & Rs).
      eexists. cbn [map opt_all]. rewrite En, E. split; [reflexivity|].
      cbn [map fst snd]. split; [now rewrite Em|]. constructor; assumption.
  Qed.

  Lemma filter_sim l : forall l', Forall2 R l l' ->
    Forall2 RU (filter (fun tk => negb (s_finished tk)) l) (filter unfinished l').
  Proof.
    induction l as [|s l IH]; intros l' Hl; inversion Hl; subst; cbn [filter]; [constructor|].
    rewrite (Hfin _ _ H2), negb_involutive. destruct (unfinished y) eqn:Eu; [constructor; [split; assumption|]|]; auto.
  Qed.

  Lemma rounds_sim threads fuel : forall ts tc,
    Forall2 RU ts tc ->
    exists res lft,
      s_rounds fuel H t size threads ts = Some (res, lft) /\
      res = map (fun run => (chunk_of H (inrun run) t, run)) (fst (par_rounds fuel size threads tc)) /\
      Forall2 RU lft (snd (par_rounds fuel size threads tc)).
  Proof.
    induction fuel as [|fuel IH]; intros ts tc Ht; cbn [s_rounds par_rounds].
    - exists [], ts. auto.
    - inversion Ht; subst; [exists [], []; repeat split; constructor|].
      set (ts0 := x :: l) in *. set (tc0 := y :: l') in *.
      pose proof (split_tasks_sim threads SPLIT_ITERS ts0 tc0 Ht) as S2.
      destruct (next_all _ _ S2) as (res & E & Em & Er). rewrite E.
      destruct (IH _ _ (filter_sim _ _ Er)) as (more & lft & E2 & Em2 & Rl). rewrite E2.
      destruct (par_rounds fuel size threads (filter unfinished (map (advance size) (split_tasks threads SPLIT_ITERS tc0))))
        as [more' lft'] eqn:Ep. cbn [fst snd] in *.
      exists (map fst res ++ more), lft. split; [reflexivity|]. split; [|assumption].
      rewrite map_app, Em, Em2, map_map. reflexivity.
  Qed.

  (* the port produces exactly the chunks (and visits exactly the runs) of the
     count abstraction; hence chunks_cover, restore_any_order,
     metadata_deterministic, ... apply to the port's chunk list *)
  Theorem par_stack_refines_count_partial_l threads :
    t <> Nil -> RU (new_stask t) (mk t 0%N 0) ->
    exists res,
      s_par H size threads t = Some (res, []) /\
      map snd res = fst (par_runs size threads t) /\
      map fst res = par_chunks H size threads t.
  Proof.
    intros Hn R0. pose proof (par_terminates size threads t) as T.
    unfold s_par, par_chunks, par_runs in *.
    assert (par_rounds (S (length (contents t))) size threads [mk t 0%N 0] =
            match t with Nil => ([[]], []) | _ => par_rounds (S (length (contents t))) size threads [mk t 0%N 0] end) as Et
      by (destruct t; congruence).
    rewrite <- Et in *.
    destruct (rounds_sim threads (S (length (contents t))) [new_stask t] [mk t 0%N 0]) as (res & lft & E & Em & Rl);
      [constructor; [assumption|constructor]|].
    rewrite T in Rl. inversion Rl; subst lft. exists res. split; [exact E|].
    rewrite Em, !map_map. cbn [fst snd]. split; [now rewrite map_id|reflexivity].
  Qed.
End Sim.
