(* Map iteration order (C01).  Go's "for k := range m" yields the keys in an
   unspecified order which differs between replicas.  A block function that iterates a
   map with an order-sensitive effect (events, rounding, tie-breaks, cutoffs) is modelled
   as a function of the iteration order [iter] -- ANY duplicate-free permutation of the
   key set -- and sorts exactly where the code sorts.  Whether the code still sorts is
   read from the source by harness/cmd/gen muxsorts (coq/Gen/MuxSorts.v).

   Sites: roothash/api/block.go:25 RuntimesToFinalize; scheduler.go:637-666
   stakingAddressMapToSliceByStake (+ the MaxValidators cutoff of electValidators,
   scheduler.go:573-625); scheduler.go:719-724 distributeRewards;
   staking/state/state.go:556-576 EligibleEntities.

   Executable definitions only; proofs in MapOrderProofs.v. *)
From Verif Require Import Lib.Base Abci.Mux Gen.MuxSorts.

(* the keys collected from the map, after the (possibly missing / guarded) sort *)
Definition collect_sorted (site : sortsite) (guard : bool) (iter : list bytes) : list bytes :=
  match site with
  | SortUnconditional => sort_names iter
  | SortConditional => if guard then sort_names iter else iter
  | SortAbsent => iter
  end.

(* the scheduler's helper sortAddresses must itself still sort *)
Definition via_sort_addresses (site : sortsite) : sortsite :=
  match site_sort_addresses_impl with
  | SortUnconditional => site
  | _ => SortAbsent
  end.

(* roothash/api/block.go:25-38 *)
Definition runtimes_to_finalize (iter : list bytes) : list bytes :=
  collect_sorted site_runtimes_to_finalize false iter.

(* staking/state/state.go:556-576: iterate ByEntity, keep those over the threshold, sort *)
Definition eligible_entities (total num den : N) (iter : list (bytes * N)) : list bytes :=
  collect_sorted site_eligible_entities false
    (map fst (filter (fun e => negb (snd e * den <? total * num)) iter)).

(* scheduler.go:719-724 *)
Definition reward_order (iter : list bytes) : list bytes :=
  collect_sorted (via_sort_addresses site_distribute_rewards) false iter.

Section Election.
  (* rng.Shuffle driven by the beacon entropy: some fixed function of the slice *)
  Variable shuffle : list bytes -> list bytes.
  Variable balance : bytes -> N.

  (* sort.SliceStable by descending escrow balance (scheduler.go:674-680) *)
  Fixpoint insert_desc (x : bytes) (l : list bytes) : list bytes :=
    match l with
    | [] => [x]
    | y :: r => if balance y <=? balance x then x :: l else y :: insert_desc x r
    end.
  Definition stable_desc (l : list bytes) : list bytes := fold_right insert_desc [] l.

  (* scheduler.go:637-666; [bypass] = DebugBypassStake (the guard a conditional sort would use) *)
  Definition stake_slice (bypass : bool) (iter : list bytes) : list bytes :=
    let addrs := collect_sorted (via_sort_addresses site_stake_slice_presort) bypass iter in
    let sh := shuffle addrs in
    if bypass then sh else stable_desc sh.

  (* electValidators goes down the list until MaxValidators are elected (one node per entity) *)
  Definition elected (bypass : bool) (maxv : nat) (iter : list bytes) : list bytes :=
    firstn maxv (stake_slice bypass iter).
End Election.

(* ------------------------------------------------------------------ *)
(* A concrete deterministic ledger instance of the multiplexer signature, with a
   reward application whose BeginBlock iterates a "map" of rewardable entities. *)

Record lstate := mkL { l_bal : list (N * N); l_nonce : list (N * N); l_fees : N; l_pool : N }.
Record ltx := mkT { t_from : N; t_to : N; t_amt : N; t_nonce : N; t_fee : N; t_gas : N; t_meta : option (bytes * bytes) }.

Definition lget (k : N) (l : list (N * N)) : N := match aget k l with Some v => v | None => 0 end.

Definition ldecode (_ : lstate) (raw : bytes) : ltx + N :=
  match raw with
  | 255 :: n :: rest => inl (mkT 0 0 0 0 0 0 (Some (firstn (N.to_nat n) rest, skipn (N.to_nat n) rest)))
  | [f; t; a; n; fee; gas] => inl (mkT f t a n fee gas None)
  | _ => inr 9
  end.

Definition lsum (l : list (N * N)) : N := fold_right (fun kv acc => snd kv + acc) 0 l.

Definition ledger : msig := mkSig
  lstate ltx N N (bytes * N)
  ldecode
  t_meta
  (fun _ _ => true)
  (fun _ => false)
  (fun t => [t_from t])
  t_gas
  (fun t => if t_gas t =? 0 then 0 else t_fee t / t_gas t)
  (fun t s => if negb (lget (t_from t) (l_nonce s) =? t_nonce t) then Some 2
              else if lget (t_from t) (l_bal s) <? t_fee t then Some 3 else None)
  (fun t s => (mkL (aset (t_from t) (lget (t_from t) (l_bal s) - t_fee t) (l_bal s))
                   (aset (t_from t) (t_nonce t + 1) (l_nonce s))
                   (l_fees s + t_fee t) (l_pool s),
               if t_fee t =? 0 then [] else [1000 + t_from t]))
  (fun s raw t => if t_gas t <? N.of_nat (length raw) then Some 4 else None)
  (fun _ => 0)
  (fun _ _ => None)
  1 6 7 0
  (fun _ _ => 0)
  (fun s => [lsum (l_bal s) mod 256; lsum (l_nonce s) mod 256; l_fees s mod 256; l_pool s mod 256])
  (fun evs => [N.of_nat (length evs) mod 256; fold_right N.add 0 evs mod 256])
  (fun key sr er => 255 :: N.of_nat (length sr) :: sr ++ er)
  (fun hd s => Some (s, []))
  (fun hd s => Some (s, [])).

(* "staking": BeginBlock moves the accumulated fees to the common pool; ExecuteTx transfers *)
Definition ledger_app : app ledger := mkApp ledger [115] (fun _ => true) false
  (fun bi s => Some (mkL (l_bal s) (l_nonce s) 0 (l_pool s + l_fees s), if l_fees s =? 0 then [] else [l_fees s]))
  (fun m t s =>
     if lget (t_from t) (l_bal s) <? t_amt t then (s, [], Some 5)
     else
       let b1 := aset (t_from t) (lget (t_from t) (l_bal s) - t_amt t) (l_bal s) in
       let b2 := aset (t_to t) (lget (t_to t) b1 + t_amt t) b1 in
       (mkL b2 (l_nonce s) (l_fees s) (l_pool s), [2000 + t_to t], None))
  (fun s => Some (s, [], [])).

(* "scheduler": BeginBlock pays one unit from the pool to every rewardable entity, in the
   order given (an event per payment; the pool may run dry, so the order matters);
   EndBlock announces the first two as validators. *)
Definition pay_rewards (order : list bytes) (s : lstate) : lstate * list N :=
  fold_left (fun acc a =>
               let '(s, ev) := acc in
               let addr := hd 0 a in
               if l_pool s =? 0 then (s, ev)
               else (mkL (aset addr (lget addr (l_bal s) + 1) (l_bal s)) (l_nonce s) (l_fees s) (l_pool s - 1), ev ++ [3000 + addr]))
            order (s, []).
Definition rewards_app (order : list bytes) : app ledger := mkApp ledger [99] (fun _ => false) true
  (fun bi s => Some (pay_rewards order s))
  (fun m t s => (s, [], None))
  (fun s => Some (s, [], map (fun a => (a, lget (hd 0 a) (l_bal s))) (firstn 2 order))).

(* the node whose Go runtime happened to iterate the rewardable-entity map in order [iter] *)
Definition ledger_apps (iter : list bytes) : list (app ledger) := [ledger_app; rewards_app (reward_order iter)].
