(* Proofs about the generic multiplexer model (Verif.Abci.Mux). *)
From Coq Require Import Permutation Sorted.
From Verif Require Import Lib.Base Gen.MuxOrder Abci.Mux.

(* ------------------------------------------------------------------ *)
(* byte-wise order                                                     *)

Lemma bytes_eqb_refl a : bytes_eqb a a = true.
Proof. apply bytes_eqb_eq. reflexivity. Qed.

Lemma bytes_cmp_refl a : bytes_cmp a a = Eq.
Proof. induction a as [|x a IH]; cbn [bytes_cmp]; [reflexivity|]. rewrite N.compare_refl. exact IH. Qed.

Lemma bytes_cmp_eq a b : bytes_cmp a b = Eq -> a = b.
Proof.
  revert b. induction a as [|x a IH]; intros [|y b]; cbn [bytes_cmp]; try congruence.
  destruct (N.compare x y) eqn:E; try congruence.
  apply N.compare_eq in E. intros H. apply IH in H. congruence.
Qed.

Lemma bytes_cmp_antisym a b : bytes_cmp b a = CompOpp (bytes_cmp a b).
Proof.
  revert b. induction a as [|x a IH]; intros [|y b]; cbn [bytes_cmp CompOpp]; try reflexivity.
  rewrite (N.compare_antisym x y). destruct (N.compare x y); cbn [CompOpp]; try reflexivity. apply IH.
Qed.

Lemma bytes_cmp_lt_trans a b c : bytes_cmp a b = Lt -> bytes_cmp b c = Lt -> bytes_cmp a c = Lt.
Proof.
  revert b c. induction a as [|x a IH]; intros [|y b] [|z c]; cbn [bytes_cmp]; try congruence.
  destruct (N.compare x y) eqn:E1; destruct (N.compare y z) eqn:E2; try congruence; intros H1 H2.
  - apply N.compare_eq in E1, E2. subst. rewrite N.compare_refl. eapply IH; eassumption.
  - apply N.compare_eq in E1. subst. rewrite E2. reflexivity.
  - apply N.compare_eq in E2. subst. rewrite E1. reflexivity.
  - rewrite N.compare_lt_iff in E1, E2. assert (E : (x ?= z) = Lt) by (apply N.compare_lt_iff; lia).
    rewrite E. reflexivity.
Qed.

(* ------------------------------------------------------------------ *)
(* dispatch order is canonical                                         *)

Section SortProofs.
  Context {A : Type} (key : A -> bytes).
  Definition klt (a b : A) : Prop := bytes_cmp (key a) (key b) = Lt.

  Lemma klt_irrefl a : ~ klt a a.
  Proof. unfold klt. rewrite bytes_cmp_refl. discriminate. Qed.
  Lemma klt_trans a b c : klt a b -> klt b c -> klt a c.
  Proof. unfold klt. apply bytes_cmp_lt_trans. Qed.

  Lemma insert_by_perm x l : Permutation (insert_by key x l) (x :: l).
  Proof.
    induction l as [|y r IH]; cbn [insert_by]; [apply Permutation_refl|].
    destruct (key_leb key x y); [apply Permutation_refl|].
    eapply Permutation_trans; [apply perm_skip; exact IH|apply perm_swap].
  Qed.

  Lemma sort_by_perm l : Permutation (sort_by key l) l.
  Proof.
    induction l as [|x l IH]; cbn [sort_by fold_right]; [apply Permutation_refl|].
    eapply Permutation_trans; [apply insert_by_perm|apply perm_skip; exact IH].
  Qed.

  Lemma insert_by_sorted x l :
    StronglySorted klt l -> ~ In (key x) (map key l) -> StronglySorted klt (insert_by key x l).
  Proof.
    induction l as [|y r IH]; cbn [insert_by]; intros Hs Hn.
    - constructor; constructor.
    - inversion Hs as [|? ? Hs' Hall]; subst.
      unfold key_leb. destruct (bytes_cmp (key x) (key y)) eqn:E.
      + exfalso. apply Hn. left. symmetry. apply bytes_cmp_eq. exact E.
      + constructor; [exact Hs|]. constructor; [exact E|].
        rewrite Forall_forall in *. intros z Hz. eapply klt_trans; [exact E|apply Hall; exact Hz].
      + constructor.
        * apply IH; [exact Hs'|]. intros Hin. apply Hn. right. exact Hin.
        * rewrite Forall_forall in *. intros z Hz.
          apply (Permutation_in _ (insert_by_perm x r)) in Hz. destruct Hz as [<-|Hz].
          -- unfold klt. rewrite bytes_cmp_antisym, E. reflexivity.
          -- apply Hall. exact Hz.
  Qed.

  Lemma sort_by_sorted l : NoDup (map key l) -> StronglySorted klt (sort_by key l).
  Proof.
    induction l as [|x l IH]; cbn [sort_by fold_right map]; intros Hnd; [constructor|].
    inversion Hnd as [|? ? Hni Hnd']; subst.
    apply insert_by_sorted; [apply IH; exact Hnd'|].
    intros Hin. apply Hni. eapply Permutation_in; [|exact Hin].
    apply Permutation_map. apply sort_by_perm.
  Qed.

  Lemma sorted_perm_unique l1 : forall l2,
    StronglySorted klt l1 -> StronglySorted klt l2 -> Permutation l1 l2 -> l1 = l2.
  Proof.
    induction l1 as [|x r1 IH]; intros l2 H1 H2 Hp.
    - apply Permutation_nil in Hp. congruence.
    - destruct l2 as [|y r2]; [apply Permutation_sym, Permutation_nil in Hp; discriminate|].
      inversion H1 as [|? ? H1' A1]; inversion H2 as [|? ? H2' A2]; subst.
      rewrite Forall_forall in A1, A2.
      assert (Hx : In x (y :: r2)) by (eapply Permutation_in; [exact Hp|left; reflexivity]).
      assert (Hy : In y (x :: r1)) by (eapply Permutation_in; [apply Permutation_sym; exact Hp|left; reflexivity]).
      assert (E : x = y).
      { destruct Hx as [Hx|Hx]; [congruence|]. destruct Hy as [Hy|Hy]; [congruence|].
        exfalso. apply (klt_irrefl x). eapply klt_trans; [apply A1; exact Hy|apply A2; exact Hx]. }
      subst y. f_equal. apply IH; [exact H1'|exact H2'|]. eapply Permutation_cons_inv. exact Hp.
  Qed.

  (* The dispatch list depends only on the SET of registered applications. *)
  Theorem sort_by_canonical l1 l2 :
    NoDup (map key l1) -> Permutation l1 l2 -> sort_by key l1 = sort_by key l2.
  Proof.
    intros Hnd Hp. apply sorted_perm_unique.
    - apply sort_by_sorted. exact Hnd.
    - apply sort_by_sorted. eapply Permutation_NoDup; [apply Permutation_map; exact Hp|exact Hnd].
    - eapply Permutation_trans; [apply sort_by_perm|].
      eapply Permutation_trans; [exact Hp|apply Permutation_sym, sort_by_perm].
  Qed.
End SortProofs.

(* ------------------------------------------------------------------ *)
(* equality tests                                                      *)

Lemma list_eqb_eq {A} (eqb : A -> A -> bool) :
  (forall x y, eqb x y = true -> x = y) -> forall a b, list_eqb eqb a b = true -> a = b.
Proof.
  intros He. induction a as [|x a IH]; intros [|y b]; cbn [list_eqb]; try congruence.
  intros H. apply andb_true_iff in H as [H1 H2]. apply He in H1. apply IH in H2. congruence.
Qed.

Lemma header_eqb_eq a b : header_eqb a b = true -> a = b.
Proof.
  destruct a, b. unfold header_eqb. cbn. intros H.
  repeat (apply andb_true_iff in H as [H ?]).
  apply N.eqb_eq in H. repeat match goal with X : bytes_eqb _ _ = true |- _ => apply bytes_eqb_eq in X end.
  match goal with X : (_ =? _) = true |- _ => apply N.eqb_eq in X end. congruence.
Qed.

Lemma misb_eqb_eq a b : misb_eqb a b = true -> a = b.
Proof.
  destruct a, b. unfold misb_eqb. cbn. intros H.
  repeat (apply andb_true_iff in H as [H ?]).
  apply N.eqb_eq in H.
  repeat match goal with X : bytes_eqb _ _ = true |- _ => apply bytes_eqb_eq in X end.
  repeat match goal with X : (_ =? _) = true |- _ => apply N.eqb_eq in X end. congruence.
Qed.

(* isEqual accepts only the remembered header / txs / misbehavior (it says nothing
   about the commit info: proposal has no such field). *)
Lemma is_equal_sound p hd txs ms :
  is_equal p hd txs ms = true -> p_header p = Some hd /\ p_txs p = txs /\ p_misb p = ms.
Proof.
  unfold is_equal. destruct (p_header p) as [ph|]; [|discriminate].
  destruct (negb (bytes_eqb _ _)); [discriminate|].
  destruct (negb (_ =? _)); [discriminate|].
  destruct (negb (_ =? _)); [discriminate|].
  destruct (header_eqb hd ph) eqn:Eh; cbn [negb]; [|discriminate].
  destruct (list_eqb bytes_eqb txs (p_txs p)) eqn:Et; cbn [negb]; [|discriminate].
  intros Em. apply header_eqb_eq in Eh. apply (list_eqb_eq _ (fun x y => proj1 (bytes_eqb_eq x y))) in Et.
  apply (list_eqb_eq _ misb_eqb_eq) in Em. subst. auto.
Qed.

(* ------------------------------------------------------------------ *)
Section MuxProofs.
  Variable S : msig.
  Local Notation mapp := (Mux.app S).
  Local Notation node := (node S).
  Local Notation outputs := (outputs S).

  (* ---- local configuration is dead in delivery ---- *)
  Lemma auth_deliver_local c1 c2 t s : auth S Deliver c1 t s = auth S Deliver c2 t s.
  Proof. reflexivity. Qed.

  Lemma process_tx_deliver_local c1 c2 apps pr pg raw s sc :
    process_tx S Deliver c1 apps pr pg raw s sc = process_tx S Deliver c2 apps pr pg raw s sc.
  Proof. reflexivity. Qed.

  Lemma deliver_all_local c1 c2 apps pr pg txs : forall s sc acc,
    deliver_all S c1 apps pr pg txs s sc acc = deliver_all S c2 apps pr pg txs s sc acc.
  Proof.
    induction txs as [|raw r IH]; intros s sc acc; cbn [deliver_all]; [reflexivity|].
    rewrite (process_tx_deliver_local c1 c2).
    destruct (process_tx S Deliver c2 apps pr pg raw s sc) as [[[[s' ev] res] sc']|]; [apply IH|reflexivity].
  Qed.

  Theorem exec_block_local c1 c2 apps pg s b :
    exec_block S c1 apps pg s b = exec_block S c2 apps pg s b.
  Proof.
    unfold exec_block. destruct (sg_upgrade_begin S (b_header b) s) as [[s0 uev0]|]; [|reflexivity].
    destruct (begin_all S apps (binfo_of b) s0 uev0) as [[s1 bev]|]; [|reflexivity].
    rewrite (deliver_all_local c1 c2). reflexivity.
  Qed.

  (* ---- proposing vs. validating execution ---- *)
  Lemma process_tx_proposing cfg apps pr raw s sc r :
    process_tx S Deliver cfg apps pr true raw s sc = Some r ->
    process_tx S Deliver cfg apps pr false raw s sc = Some r /\ snd r = sc.
  Proof.
    unfold process_tx. destruct (sg_decode S s raw) as [t|e].
    - destruct (sg_is_meta S t) as [md|]; [discriminate|].
      destruct (find_app S apps t) as [a|]; [|intros H; inversion H; auto].
      destruct (if sg_is_critical S t then _ else _) as [[s1 ev1]|e]; [|intros H; inversion H; auto].
      destruct (sg_byte_gas S s1 raw t); [intros H; inversion H; auto|].
      destruct (_ && _ && _); [intros H; inversion H; auto|].
      destruct (a_exec S a Deliver t s1) as [[s2 ev2] [e|]]; [intros H; inversion H; auto|].
      destruct (sg_post_exec S t s2); intros H; inversion H; auto.
    - intros H; inversion H; auto.
  Qed.

  Lemma deliver_all_proposing cfg apps pr txs : forall s sc acc s' acc' sc',
    deliver_all S cfg apps pr true txs s sc acc = Some (s', acc', sc') ->
    deliver_all S cfg apps pr false txs s sc acc = Some (s', acc', sc') /\ sc' = sc.
  Proof.
    induction txs as [|raw r IH]; intros s sc acc s' acc' sc'; cbn [deliver_all].
    - intros H; inversion H; auto.
    - destruct (process_tx S Deliver cfg apps pr true raw s sc) as [[[[s1 ev] res] sc1]|] eqn:E; [|discriminate].
      apply process_tx_proposing in E as [E Esc]. cbn [snd] in Esc. subst sc1. rewrite E. apply IH.
  Qed.

  Lemma deliver_all_app cfg apps pr pg l1 l2 : forall s sc acc,
    deliver_all S cfg apps pr pg (l1 ++ l2) s sc acc =
    match deliver_all S cfg apps pr pg l1 s sc acc with
    | None => None
    | Some (s', acc', sc') => deliver_all S cfg apps pr pg l2 s' sc' acc'
    end.
  Proof.
    induction l1 as [|raw r IH]; intros s sc acc; cbn [deliver_all Datatypes.app]; [reflexivity|].
    destruct (process_tx S Deliver cfg apps pr pg raw s sc) as [[[[s1 ev] res] sc1]|]; [apply IH|reflexivity].
  Qed.

  (* The proposer's metadata transaction decodes to the metadata it encodes and is
     signed by the key the header names as proposer (an honest proposer; the tx is
     below the size limit by construction, system.go:44-50). *)
  Definition meta_wf (key proposer : bytes) : Prop :=
    forall s sr er, exists t,
      sg_decode S s (sg_meta_tx S key sr er) = inl t /\ sg_is_meta S t = Some (sr, er) /\ sg_meta_ok S proposer t = true.

  Definition with_meta (o : outputs) : outputs :=
    mkOut S (o_begin_events S o) (o_tx S o ++ [(sg_ok_meta S, [])]) (o_end_events S o) (o_valupd S o) (o_events_root S o).

  Lemma flat_map_snd_app (l : list (sg_txres S * list (sg_evt S))) x :
    flat_map snd (l ++ [(x, [])]) = flat_map snd l.
  Proof. rewrite flat_map_app. cbn. rewrite app_nil_r. reflexivity. Qed.

  (* What the proposer cached is what every validator computes for the block it built. *)
  Lemma prepared_block_reexecutes cfg cfg' apps key hd cands cm ms h s s' o :
    meta_wf key (h_proposer hd) ->
    exec_block S cfg apps true s (mkBlock hd cands cm ms []) = Some (s', o) ->
    exec_block S cfg' apps false s
      (mkBlock hd (cands ++ [sg_meta_tx S key (sg_root S s') (o_events_root S o)]) cm ms h) = Some (s', with_meta o).
  Proof.
    intros Hm. unfold exec_block. cbn [b_header b_txs b_commit b_misb binfo_of].
    unfold binfo_of. cbn [b_header b_commit b_misb].
    (* the fact read from mux.go: the upgrade handlers run before the system-tx validation *)
    change endblock_upgrade_before_validate with true. cbn iota.
    destruct (sg_upgrade_begin S hd s) as [[s0 uev0]|]; [|discriminate].
    destruct (begin_all S apps _ s0 uev0) as [[s1 bev]|]; [|discriminate].
    rewrite (deliver_all_local cfg' cfg).
    destruct (deliver_all S cfg apps (h_proposer hd) true cands s1 [] []) as [[[s2 txr] sc]|] eqn:Ed; [|discriminate].
    apply deliver_all_proposing in Ed as [Ed Esc]. subst sc.
    destruct (end_all S apps s2 [] []) as [[[s3 eev] vu]|] eqn:Ee; [|discriminate].
    destruct (sg_upgrade_end S hd s3) as [[s4 uev]|] eqn:Eu; [|discriminate].
    cbn [validate_system]. intros H. inversion H; subst s' o; clear H. cbn [o_events_root].
    rewrite deliver_all_app, Ed. cbn [deliver_all].
    destruct (Hm s2 (sg_root S s4) (sg_evroot S (all_events S (mkOut S bev txr (eev ++ uev) vu [])))) as (t & Hd & Hi & Hk).
    unfold process_tx. rewrite Hd, Hi, Hk. cbn [negb Datatypes.app]. rewrite Ee, Eu.
    unfold validate_system. unfold all_events. cbn [o_begin_events o_tx o_end_events].
    rewrite flat_map_snd_app. rewrite !bytes_eqb_refl. cbn [andb]. reflexivity.
  Qed.

  (* ---- the reference semantics of a block on a node ---- *)
  Definition reference (cfg : localcfg) (regs : list mapp) (s : sg_state S) (b : block) : option (node * outputs) :=
    match exec_block S cfg (sort_by (a_name S) regs) false s b with
    | None => None
    | Some (s', o) => Some (mkNode S s' None cfg regs, o)
    end.

  Lemma finalize_fresh n b : n_cache S n = None ->
    finalize S n b = reference (n_cfg S n) (n_apps S n) (n_committed S n) b.
  Proof.
    intros Hc. unfold finalize, working_tree, snapshot, reference, dispatch. rewrite Hc. cbn [option_map begin_reuses].
    destruct (exec_block S _ _ false _ b) as [[s' o]|]; reflexivity.
  Qed.

  Lemma process_then_finalize_fresh n b : n_cache S n = None ->
    match process_proposal S n b with None => None | Some n2 => finalize S n2 b end
    = reference (n_cfg S n) (n_apps S n) (n_committed S n) b.
  Proof.
    intros Hc. unfold process_proposal, snapshot, reference, dispatch. rewrite Hc. cbn [option_map process_reuses].
    destruct (exec_block S _ _ false _ b) as [[s' o]|]; [|reflexivity].
    unfold finalize, snapshot. cbn [n_cache option_map pc_id begin_reuses p_hash p_executed].
    rewrite bytes_eqb_refl. cbn [andb]. reflexivity.
  Qed.

  Definition path_ok (base : list mapp) (b : block) (p : path S) : Prop :=
    match p with
    | ProposeCached _ key _ => meta_wf key (h_proposer (b_header b))
    | RestartThenReplay _ _ regs | RestartThenProcess _ _ regs => Permutation base regs
    | _ => True
    end.

  (* configuration / registration order the node has after the path *)
  Definition path_cfg (p : path S) (n : node) : localcfg :=
    match p with RestartThenReplay _ c _ | RestartThenProcess _ c _ => c | _ => n_cfg S n end.
  Definition path_regs (p : path S) (n : node) : list mapp :=
    match p with RestartThenReplay _ _ r | RestartThenProcess _ _ r => r | _ => n_apps S n end.

  (* Every path computes the reference result (from a node at a block boundary). *)
  Theorem path_reference p n b base :
    n_cache S n = None -> path_ok base b p ->
    run_path S p n b = reference (path_cfg p n) (path_regs p n) (n_committed S n) b.
  Proof.
    intros Hc Hok. destruct p as [key cands| | |cfg regs|cfg regs]; cbn [run_path path_cfg path_regs].
    - (* propose + cached *)
      unfold prepare. destruct (exec_block S (n_cfg S n) (dispatch S n) true (n_committed S n) _) as [[s' o]|] eqn:Ep.
      + unfold process_proposal at 1. unfold snapshot at 1. cbn [n_cache option_map pc_id process_reuses p_executed andb].
        destruct (is_equal _ (b_header b) (b_txs b) (b_misb b)) eqn:Ei.
        * apply is_equal_sound in Ei as (_ & Et & _). cbn [p_txs] in Et.
          cbn [n_committed n_cfg n_apps].
          unfold finalize, snapshot. cbn [n_cache option_map pc_id set_hash begin_reuses p_hash p_executed pc_tree pc_out n_cfg n_apps].
          rewrite bytes_eqb_refl. cbn [andb].
          unfold reference.
          pose proof (prepared_block_reexecutes (n_cfg S n) (n_cfg S n) (dispatch S n) key (b_header b) cands (b_commit b) (b_misb b) (b_hash b) _ _ _ Hok Ep) as Hr.
          rewrite Et in Hr. destruct b as [hd txs cm ms h]. cbn [b_header b_txs b_commit b_misb b_hash] in *.
          unfold dispatch in Hr. rewrite Hr. reflexivity.
        * cbn [n_committed n_cfg n_apps dispatch].
          unfold reference, dispatch.
          destruct (exec_block S (n_cfg S n) _ false (n_committed S n) b) as [[s2 o2]|]; [|reflexivity].
          unfold finalize, snapshot. cbn [n_cache option_map pc_id begin_reuses p_hash p_executed].
          rewrite bytes_eqb_refl. cbn [andb]. reflexivity.
      + apply (process_then_finalize_fresh (mkNode S (n_committed S n) None (n_cfg S n) (n_apps S n)) b). reflexivity.
    - apply process_then_finalize_fresh. exact Hc.
    - apply finalize_fresh. exact Hc.
    - apply (finalize_fresh (restart S n cfg regs)). reflexivity.
    - apply (process_then_finalize_fresh (restart S n cfg regs)). reflexivity.
  Qed.

  Lemma reference_canonical base cfg1 cfg2 regs1 regs2 s b :
    NoDup (map (a_name S) base) -> Permutation base regs1 -> Permutation base regs2 ->
    option_map (fun r => (n_committed S (fst r), snd r)) (reference cfg1 regs1 s b)
    = option_map (fun r => (n_committed S (fst r), snd r)) (reference cfg2 regs2 s b).
  Proof.
    intros Hnd H1 H2. unfold reference.
    rewrite <- (sort_by_canonical (a_name S) base regs1 Hnd H1).
    rewrite <- (sort_by_canonical (a_name S) base regs2 Hnd H2).
    rewrite (exec_block_local cfg1 cfg2).
    destruct (exec_block S cfg2 _ false s b) as [[s' o]|]; reflexivity.
  Qed.

  (* Outputs and new committed state: equal for all local configurations,
     registration orders and execution paths. *)
  Theorem exec_block_deterministic base n1 n2 p1 p2 b :
    NoDup (map (a_name S) base) ->
    Permutation base (n_apps S n1) -> Permutation base (n_apps S n2) ->
    n_cache S n1 = None -> n_cache S n2 = None ->
    n_committed S n1 = n_committed S n2 ->
    path_ok base b p1 -> path_ok base b p2 ->
    option_map (fun r => (n_committed S (fst r), snd r)) (run_path S p1 n1 b)
    = option_map (fun r => (n_committed S (fst r), snd r)) (run_path S p2 n2 b).
  Proof.
    intros Hnd Hp1 Hp2 Hc1 Hc2 Hs Ho1 Ho2.
    rewrite (path_reference p1 n1 b base Hc1 Ho1), (path_reference p2 n2 b base Hc2 Ho2), Hs.
    apply (reference_canonical base); [exact Hnd| |].
    - destruct p1; cbn [path_regs path_ok] in *; assumption.
    - destruct p2; cbn [path_regs path_ok] in *; assumption.
  Qed.

  (* ---- histories ---- *)
  Definition spec_step (cfg0 : localcfg) (base : list mapp) (r : option (sg_state S * list outputs)) (b : block) :=
    match r with
    | None => None
    | Some (s, outs) =>
      match exec_block S cfg0 (sort_by (a_name S) base) false s b with
      | None => None
      | Some (s', o) => Some (s', outs ++ [o])
      end
    end.
  Definition spec_run cfg0 base (s : sg_state S) (bs : list block) (outs : list outputs) :=
    fold_left (spec_step cfg0 base) bs (Some (s, outs)).

  Fixpoint ops_ok (base : list mapp) (ops : list (op S)) : Prop :=
    match ops with
    | [] => True
    | OpBlock _ p b :: r => path_ok base b p /\ ops_ok base r
    | OpStale _ _ :: _ => False     (* histories with failed rounds: see [ops_ok_from] *)
    | _ :: r => ops_ok base r
    end.

  Definition observe (r : option (replica S * list outputs)) : option (sg_state S * list outputs) :=
    option_map (fun x => (n_committed S (fst (fst x)), snd x)) r.

  Lemma fold_step_none ops : fold_left (step S) ops None = None.
  Proof. induction ops as [|o r IH]; cbn [fold_left step]; [reflexivity|exact IH]. Qed.
  Lemma fold_spec_none cfg0 base bs : fold_left (spec_step cfg0 base) bs None = None.
  Proof. induction bs as [|o r IH]; cbn [fold_left spec_step]; [reflexivity|exact IH]. Qed.

  Lemma run_path_post p n b n' o : n_cache S n = None -> run_path S p n b = Some (n', o) ->
    forall base, path_ok base b p -> Permutation base (n_apps S n) ->
    n_cache S n' = None /\ Permutation base (n_apps S n').
  Proof.
    intros Hc Hr base Hok Hp. rewrite (path_reference p n b base Hc Hok) in Hr. unfold reference in Hr.
    destruct (exec_block S _ _ false _ b) as [[s' o']|]; [|discriminate]. inversion Hr; subst. cbn [n_cache n_apps].
    split; [reflexivity|]. destruct p; cbn [path_regs path_ok] in *; assumption.
  Qed.

  Lemma run_spec cfg0 base ops : NoDup (map (a_name S) base) -> forall n cs outs,
    n_cache S n = None -> Permutation base (n_apps S n) -> ops_ok base ops ->
    observe (fold_left (step S) ops (Some ((n, cs), outs)))
    = spec_run cfg0 base (n_committed S n) (blocks_of S ops) outs.
  Proof.
    intros Hnd. induction ops as [|o r IH]; intros n cs outs Hc Hp Hok.
    - reflexivity.
    - destruct o as [p b|raw|raw| |st]; cbn [fold_left step blocks_of ops_ok] in *; [| | | |contradiction].
      + destruct Hok as [Hok1 Hok]. unfold spec_run. cbn [fold_left spec_step].
        pose proof (path_reference p n b base Hc Hok1) as Hr.
        pose proof (reference_canonical base (path_cfg p n) cfg0 (path_regs p n) base (n_committed S n) b Hnd) as Hcan.
        assert (Hpr : Permutation base (path_regs p n)) by (destruct p; cbn [path_regs path_ok] in *; assumption).
        specialize (Hcan Hpr (Permutation_refl _)). rewrite <- Hr in Hcan.
        destruct (run_path S p n b) as [[n' o]|] eqn:Erun.
        * destruct (run_path_post p n b n' o Hc Erun base Hok1 Hp) as [Hc' Hp'].
          unfold reference in Hcan.
          destruct (exec_block S cfg0 (sort_by (a_name S) base) false (n_committed S n) b) as [[s' o']|]; [|discriminate].
          cbn in Hcan. inversion Hcan; subst.
          rewrite (IH n' (n_committed S n') (outs ++ [o']) Hc' Hp' Hok). reflexivity.
        * unfold reference in Hcan.
          destruct (exec_block S cfg0 (sort_by (a_name S) base) false (n_committed S n) b) as [[s' o']|]; [discriminate|].
          rewrite fold_step_none, fold_spec_none. reflexivity.
      + apply IH; assumption.
      + apply IH; assumption.
      + apply IH; assumption.
  Qed.

  (* Two replicas fed the same blocks -- whatever the paths, local configurations,
     registration orders, and interleaved mempool checks / simulations / pruning --
     produce the same outputs at every height and the same committed state. *)
  Theorem replicas_agree base n1 n2 ops1 ops2 :
    NoDup (map (a_name S) base) ->
    Permutation base (n_apps S n1) -> Permutation base (n_apps S n2) ->
    n_cache S n1 = None -> n_cache S n2 = None ->
    n_committed S n1 = n_committed S n2 ->
    ops_ok base ops1 -> ops_ok base ops2 ->
    blocks_of S ops1 = blocks_of S ops2 ->
    observe (run S n1 ops1) = observe (run S n2 ops2).
  Proof.
    intros Hnd Hp1 Hp2 Hc1 Hc2 Hs Ho1 Ho2 Hb. unfold run.
    rewrite (run_spec (n_cfg S n1) base ops1 Hnd n1 _ [] Hc1 Hp1 Ho1).
    rewrite (run_spec (n_cfg S n1) base ops2 Hnd n2 _ [] Hc2 Hp2 Ho2).
    rewrite Hs, Hb. reflexivity.
  Qed.

  (* Prefixes: agreement at EVERY height, not only at the end. *)
  Corollary replicas_agree_at_every_height base n1 n2 ops1 ops2 k1 k2 :
    NoDup (map (a_name S) base) ->
    Permutation base (n_apps S n1) -> Permutation base (n_apps S n2) ->
    n_cache S n1 = None -> n_cache S n2 = None ->
    n_committed S n1 = n_committed S n2 ->
    ops_ok base (firstn k1 ops1) -> ops_ok base (firstn k2 ops2) ->
    blocks_of S (firstn k1 ops1) = blocks_of S (firstn k2 ops2) ->
    observe (run S n1 (firstn k1 ops1)) = observe (run S n2 (firstn k2 ops2)).
  Proof. intros. apply (replicas_agree base); assumption. Qed.

  (* Mempool checks, simulations and pruning do not influence delivery: dropping
     them from a replica's life changes neither outputs nor committed state. *)
  Fixpoint only_blocks (ops : list (op S)) : list (op S) :=
    match ops with
    | [] => []
    | OpBlock _ p b :: r => OpBlock S p b :: only_blocks r
    | _ :: r => only_blocks r
    end.

  Lemma only_blocks_blocks ops : blocks_of S (only_blocks ops) = blocks_of S ops.
  Proof. induction ops as [|[p b|raw|raw| |st] r IH]; cbn [only_blocks blocks_of]; congruence. Qed.
  Lemma only_blocks_ok base ops : ops_ok base ops -> ops_ok base (only_blocks ops).
  Proof. induction ops as [|[p b|raw|raw| |st] r IH]; cbn [only_blocks ops_ok]; tauto. Qed.

  Theorem check_does_not_touch_delivery_state base n ops :
    NoDup (map (a_name S) base) -> Permutation base (n_apps S n) -> n_cache S n = None -> ops_ok base ops ->
    observe (run S n ops) = observe (run S n (only_blocks ops)).
  Proof.
    intros Hnd Hp Hc Hok. apply (replicas_agree base); try assumption; try reflexivity.
    - apply only_blocks_ok. exact Hok.
    - symmetry. apply only_blocks_blocks.
  Qed.

  (* A single check / simulation returns the node unchanged (typing-level fact made explicit). *)
  Theorem check_step_keeps_node n cs outs raw :
    exists cs', step S (Some ((n, cs), outs)) (OpCheck S raw) = Some ((n, cs'), outs).
  Proof. cbn [step]. eexists. reflexivity. Qed.
  Theorem simulate_step_keeps_replica n cs outs raw :
    step S (Some ((n, cs), outs)) (OpSimulate S raw) = Some ((n, cs), outs).
  Proof. reflexivity. Qed.

  (* ---- the cache, for an arbitrary incoming proposal ---- *)
  (* If ProcessProposal reuses a proposal prepared by this node, the cached tree and
     results equal re-execution from the committed state -- PROVIDED the incoming
     block carries the commit info the node was given in PrepareProposal (isEqual
     does not compare it; CometBFT guarantees it for the proposer's own block). *)
  Theorem cached_equals_reexecution n key hd cands cm ms b n1 txs :
    prepare S n key hd cands cm ms = (n1, txs) ->
    process_reuses (snapshot S n1) (b_header b) (b_txs b) (b_misb b) = true ->
    b_commit b = cm (* the named environment hypothesis *) ->
    meta_wf key (h_proposer hd) ->
    exists c, n_cache S n1 = Some c /\
      exec_block S (n_cfg S n) (dispatch S n) false (n_committed S n) b = Some (pc_tree S c, pc_out S c).
  Proof.
    unfold prepare. intros Hp Hr Hcm Hm.
    destruct (exec_block S (n_cfg S n) (dispatch S n) true (n_committed S n) _) as [[s' o]|] eqn:Ep.
    - inversion Hp; subst n1 txs; clear Hp. eexists. split; [reflexivity|]. cbn [pc_tree pc_out].
      unfold snapshot in Hr. cbn [n_cache option_map pc_id process_reuses p_executed andb] in Hr.
      apply is_equal_sound in Hr as (Hh & Ht & Hms). cbn [p_header p_txs p_misb] in *.
      inversion Hh; subst hd. destruct b as [bh btxs bcm bms bhash]. cbn [b_header b_txs b_commit b_misb] in *. subst.
      apply (prepared_block_reexecutes (n_cfg S n) (n_cfg S n)); assumption.
    - inversion Hp; subst n1. cbn in Hr. discriminate.
  Qed.

  (* ---- stale caches left by failed rounds ---- *)
  Definition collision : Prop := exists b1 b2 : block, b1 <> b2 /\ b_hash b1 = b_hash b2.

  Lemma bytes_eq_dec (a b : bytes) : {a = b} + {a <> b}.
  Proof. apply list_eq_dec. apply N.eq_dec. Qed.
  Lemma block_eq_dec (b1 b2 : block) : {b1 = b2} + {b1 <> b2}.
  Proof.
    assert (Hh : forall x y : header, {x = y} + {x <> y}) by (decide equality; try apply bytes_eq_dec; apply N.eq_dec).
    assert (Hv : forall x y : vote, {x = y} + {x <> y}) by (decide equality; try apply bytes_eq_dec; try apply N.eq_dec; apply Bool.bool_dec).
    assert (Hm : forall x y : misb, {x = y} + {x <> y}) by (decide equality; try apply bytes_eq_dec; apply N.eq_dec).
    decide equality; try apply bytes_eq_dec; try (apply list_eq_dec; assumption).
    apply list_eq_dec. apply bytes_eq_dec.
  Qed.

  Lemma exec_block_hash_irrelevant cfg apps pg s hd txs cm ms h1 h2 :
    exec_block S cfg apps pg s (mkBlock hd txs cm ms h1) = exec_block S cfg apps pg s (mkBlock hd txs cm ms h2).
  Proof. reflexivity. Qed.

  (* The cache holds the results of SOME block b0 executed on the committed state; if it
     was prepared here, b0 has the remembered header/txs/misbehavior and the commit info
     given to PrepareProposal; if it carries a hash, it is b0's hash. *)
  Definition cache_inv (n : node) : Prop :=
    forall c, n_cache S n = Some c ->
      p_executed (pc_id S c) = true /\
      exists b0,
        exec_block S (n_cfg S n) (dispatch S n) false (n_committed S n) b0 = Some (pc_tree S c, pc_out S c) /\
        (p_hash (pc_id S c) = [] \/ p_hash (pc_id S c) = b_hash b0) /\
        (forall hd, p_header (pc_id S c) = Some hd ->
           b_header b0 = hd /\ b_txs b0 = p_txs (pc_id S c) /\ b_misb b0 = p_misb (pc_id S c) /\ b_commit b0 = pc_commit S c).

  Definition same_base (n n' : node) : Prop :=
    n_committed S n' = n_committed S n /\ n_cfg S n' = n_cfg S n /\ n_apps S n' = n_apps S n.

  (* the named environment hypothesis, at a ProcessProposal step *)
  Definition commit_as_prepared (n : node) (b : block) : Prop :=
    forall c, n_cache S n = Some c ->
      process_reuses (Some (pc_id S c)) (b_header b) (b_txs b) (b_misb b) = true -> b_commit b = pc_commit S c.

  Lemma prepare_inv n key hd cands cm ms :
    meta_wf key (h_proposer hd) ->
    cache_inv (fst (prepare S n key hd cands cm ms)) /\ same_base n (fst (prepare S n key hd cands cm ms)).
  Proof.
    intros Hm. unfold prepare.
    destruct (exec_block S (n_cfg S n) (dispatch S n) true (n_committed S n) _) as [[s' o]|] eqn:Ep; cbn [fst].
    - split; [|repeat split]. intros c Hc. cbn [n_cache] in Hc. inversion Hc; subst c; clear Hc.
      cbn [pc_id p_executed p_hash p_header p_txs p_misb pc_commit pc_tree pc_out]. split; [reflexivity|].
      exists (mkBlock hd (cands ++ [sg_meta_tx S key (sg_root S s') (o_events_root S o)]) cm ms []).
      split; [|split; [left; reflexivity|]].
      + unfold dispatch. cbn [n_apps n_cfg n_committed].
        apply (prepared_block_reexecutes (n_cfg S n) (n_cfg S n)); assumption.
      + intros hd' Hh. inversion Hh; subst. cbn. auto.
    - split; [|repeat split]. intros c Hc. discriminate.
  Qed.

  Lemma process_proposal_inv n b n' :
    cache_inv n -> commit_as_prepared n b -> process_proposal S n b = Some n' ->
    cache_inv n' /\ same_base n n' /\
    exists c, n_cache S n' = Some c /\ p_hash (pc_id S c) = b_hash b /\
      exec_block S (n_cfg S n) (dispatch S n) false (n_committed S n) b = Some (pc_tree S c, pc_out S c).
  Proof.
    intros Hinv Hcm. unfold process_proposal, snapshot.
    destruct (n_cache S n) as [c|] eqn:Ec; cbn [option_map].
    - destruct (process_reuses (Some (pc_id S c)) (b_header b) (b_txs b) (b_misb b)) eqn:Er.
      + intros H; inversion H; subst n'; clear H.
        destruct (Hinv c Ec) as (Hex & b0 & He & Hh & Hhd).
        pose proof (Hcm c Ec Er) as Hcommit.
        cbn [process_reuses] in Er. apply andb_true_iff in Er as [_ Ei].
        apply is_equal_sound in Ei as (Hph & Hpt & Hpm).
        destruct (Hhd _ Hph) as (H1 & H2 & H3 & H4).
        assert (Eb : exec_block S (n_cfg S n) (dispatch S n) false (n_committed S n) b = Some (pc_tree S c, pc_out S c)).
        { rewrite <- He. destruct b as [bh bt bc bm bhash], b0 as [h0 t0 c0 m0 hash0].
          cbn [b_header b_txs b_commit b_misb] in *. subst. reflexivity. }
        split; [|split; [repeat split|]].
        * intros c' Hc'. cbn [n_cache] in Hc'. inversion Hc'; subst c'; clear Hc'.
          cbn [set_hash pc_id p_executed p_hash p_header p_txs p_misb pc_commit pc_tree pc_out].
          split; [exact Hex|]. exists b. split; [exact Eb|]. split; [right; reflexivity|].
          intros hd' Hh'. rewrite Hph in Hh'. inversion Hh'; subst hd'. auto.
        * eexists. split; [reflexivity|]. cbn [set_hash pc_id p_hash pc_tree pc_out]. split; [reflexivity|exact Eb].
      + destruct (exec_block S (n_cfg S n) (dispatch S n) false (n_committed S n) b) as [[s' o]|] eqn:Ee; [|discriminate].
        intros H; inversion H; subst n'; clear H.
        split; [|split; [repeat split|]].
        * intros c' Hc'. cbn [n_cache] in Hc'. inversion Hc'; subst c'; clear Hc'.
          cbn [pc_id p_executed p_hash p_header pc_tree pc_out]. split; [reflexivity|].
          exists b. split; [first [exact Ee|reflexivity]|]. split; [right; reflexivity|]. intros hd' Hh'. discriminate.
        * eexists. split; [reflexivity|]. cbn. split; [reflexivity|first [exact Ee|reflexivity]].
    - cbn [process_reuses].
      destruct (exec_block S (n_cfg S n) (dispatch S n) false (n_committed S n) b) as [[s' o]|] eqn:Ee; [|discriminate].
      intros H; inversion H; subst n'; clear H.
      split; [|split; [repeat split|]].
      + intros c' Hc'. cbn [n_cache] in Hc'. inversion Hc'; subst c'; clear Hc'.
        cbn [pc_id p_executed p_hash p_header pc_tree pc_out]. split; [reflexivity|].
        exists b. split; [first [exact Ee|reflexivity]|]. split; [right; reflexivity|]. intros hd' Hh'. discriminate.
      + eexists. split; [reflexivity|]. cbn. split; [reflexivity|first [exact Ee|reflexivity]].
  Qed.

  Lemma process_proposal_reject n b :
    cache_inv n -> commit_as_prepared n b -> process_proposal S n b = None ->
    exec_block S (n_cfg S n) (dispatch S n) false (n_committed S n) b = None.
  Proof.
    intros Hinv Hcm. unfold process_proposal, snapshot.
    destruct (n_cache S n) as [c|] eqn:Ec; cbn [option_map].
    - destruct (process_reuses (Some (pc_id S c)) _ _ _) eqn:Er; [discriminate|].
      destruct (exec_block S _ _ false _ b) as [[s' o]|]; [discriminate|reflexivity].
    - cbn [process_reuses]. destruct (exec_block S _ _ false _ b) as [[s' o]|]; [discriminate|reflexivity].
  Qed.

  Lemma finalize_inv n b :
    cache_inv n -> b_hash b <> [] ->
    finalize S n b = reference (n_cfg S n) (n_apps S n) (n_committed S n) b \/ collision.
  Proof.
    intros Hinv Hne. unfold finalize, snapshot, reference.
    destruct (n_cache S n) as [c|] eqn:Ec; cbn [option_map].
    - destruct (begin_reuses (Some (pc_id S c)) (b_hash b)) eqn:Er.
      + cbn [begin_reuses] in Er. apply andb_true_iff in Er as [Eh _]. apply bytes_eqb_eq in Eh.
        destruct (Hinv c Ec) as (_ & b0 & He & Hh & _).
        destruct Hh as [Hh|Hh]; [congruence|].
        destruct (block_eq_dec b0 b) as [->|Hd].
        * left. unfold dispatch in He. rewrite He. reflexivity.
        * right. exists b0, b. split; [exact Hd|congruence].
      + left. destruct (Hinv c Ec) as (Hexd & _).
        unfold working_tree. rewrite Ec, Hexd. cbn [negb]. rewrite andb_false_r.
        unfold dispatch. destruct (exec_block S _ _ false _ b) as [[s' o]|]; reflexivity.
    - left. cbn [begin_reuses]. unfold working_tree. rewrite Ec.
      unfold dispatch. destruct (exec_block S _ _ false _ b) as [[s' o]|]; reflexivity.
  Qed.

  Fixpoint stale_ok (n : node) (sts : list (stale S)) : Prop :=
    match sts with
    | [] => True
    | st :: r =>
      match st with
      | StalePrepared _ key hd _ _ _ => meta_wf key (h_proposer hd)
      | StaleProcessed _ b' => commit_as_prepared n b'
      | StaleAborted _ _ _ => True
      end /\ stale_ok (apply_stale S n st) r
    end.

  Lemma apply_stale_inv n st :
    cache_inv n ->
    match st with
    | StalePrepared _ key hd _ _ _ => meta_wf key (h_proposer hd)
    | StaleProcessed _ b' => commit_as_prepared n b'
    | StaleAborted _ _ _ => True
    end ->
    cache_inv (apply_stale S n st) /\ same_base n (apply_stale S n st).
  Proof.
    intros Hinv Hok. destruct st as [key hd cands cm ms|b'|b' dirty]; cbn [apply_stale].
    - apply prepare_inv. exact Hok.
    - destruct (process_proposal S n b') as [n'|] eqn:Ep.
      + destruct (process_proposal_inv n b' n' Hinv Hok Ep) as (H1 & H2 & _). split; assumption.
      + split; [intros c Hc; discriminate|repeat split].
    - (* the fact read from mux.go: the panic handler of ProcessProposal resets the proposal *)
      unfold abort_round. change process_panic_handler_resets with true. cbn iota.
      split; [intros c Hc; discriminate|repeat split].
  Qed.

  Lemma stale_rounds_inv sts : forall n,
    cache_inv n -> stale_ok n sts ->
    cache_inv (fold_left (apply_stale S) sts n) /\ same_base n (fold_left (apply_stale S) sts n).
  Proof.
    induction sts as [|st r IH]; intros n Hinv Hok; cbn [fold_left].
    - split; [exact Hinv|repeat split].
    - cbn [stale_ok] in Hok. destruct Hok as [Hst Hr].
      destruct (apply_stale_inv n st Hinv Hst) as [Hinv' (Ha & Hb & Hc)].
      destruct (IH _ Hinv' Hr) as [Hi (Ha' & Hb' & Hc')].
      split; [exact Hi|]. unfold same_base. rewrite Ha', Hb', Hc'. auto.
  Qed.

  Lemma run_path_cache_irrelevant p n b :
    match p with ProcessProposal _ | PlainReplay _ => False | _ => True end ->
    run_path S p n b = run_path S p (mkNode S (n_committed S n) None (n_cfg S n) (n_apps S n)) b.
  Proof. destruct p; cbn [run_path]; intros H; try contradiction; reflexivity. Qed.

  (* Whatever failed rounds came before (own proposals prepared, other proposals
     processed), every path still computes the reference result -- given the named
     commit-info hypothesis at each reuse, and unless two different blocks share a hash. *)
  Theorem stale_rounds_harmless base n sts p b :
    n_cache S n = None -> stale_ok n sts -> path_ok base b p -> b_hash b <> [] ->
    commit_as_prepared (fold_left (apply_stale S) sts n) b ->
    run_path S p (fold_left (apply_stale S) sts n) b
      = reference (path_cfg p n) (path_regs p n) (n_committed S n) b \/ collision.
  Proof.
    intros Hc Hst Hok Hne Hcm.
    assert (Hinv0 : cache_inv n) by (intros c Hc'; congruence).
    destruct (stale_rounds_inv sts n Hinv0 Hst) as [Hinv (Ha & Hb & Hcc)].
    set (m := fold_left (apply_stale S) sts n) in *.
    destruct p as [key cands| | |cfg regs|cfg regs].
    - left. rewrite run_path_cache_irrelevant by exact I.
      rewrite (path_reference (ProposeCached S key cands) (mkNode S (n_committed S m) None (n_cfg S m) (n_apps S m)) b base eq_refl Hok).
      cbn [path_cfg path_regs n_cfg n_apps n_committed]. rewrite Ha, Hb, Hcc. reflexivity.
    - cbn [run_path path_cfg path_regs]. rewrite <- Ha, <- Hb, <- Hcc.
      destruct (process_proposal S m b) as [m'|] eqn:Ep.
      + destruct (process_proposal_inv m b m' Hinv Hcm Ep) as (Hinv' & (Ha' & Hb' & Hc') & c & Hcache & Hhash & Hex).
        left. unfold finalize, snapshot, reference. rewrite Hcache. cbn [option_map begin_reuses].
        destruct (Hinv' c Hcache) as (Hexd & _). rewrite Hhash, bytes_eqb_refl, Hexd. cbn [andb].
        unfold dispatch in Hex. rewrite Hex. rewrite Hb', Hc'. reflexivity.
      + left. apply (process_proposal_reject m b Hinv Hcm) in Ep. unfold reference. unfold dispatch in Ep. rewrite Ep. reflexivity.
    - cbn [run_path path_cfg path_regs]. rewrite <- Ha, <- Hb, <- Hcc. apply finalize_inv; assumption.
    - left. rewrite run_path_cache_irrelevant by exact I.
      rewrite (path_reference (RestartThenReplay S cfg regs) (mkNode S (n_committed S m) None (n_cfg S m) (n_apps S m)) b base eq_refl Hok).
      cbn [path_cfg path_regs n_cfg n_apps n_committed]. rewrite Ha. reflexivity.
    - left. rewrite run_path_cache_irrelevant by exact I.
      rewrite (path_reference (RestartThenProcess S cfg regs) (mkNode S (n_committed S m) None (n_cfg S m) (n_apps S m)) b base eq_refl Hok).
      cbn [path_cfg path_regs n_cfg n_apps n_committed]. rewrite Ha. reflexivity.
  Qed.

  (* ---- system transactions and the upgrade hook, explicitly ---- *)
  Lemma process_tx_scratch cfg apps pr pg raw s sc r :
    process_tx S Deliver cfg apps pr pg raw s sc = Some r ->
    snd r = sc \/ exists t md, sg_decode S s raw = inl t /\ sg_is_meta S t = Some md /\ snd r = sc ++ [md].
  Proof.
    unfold process_tx. destruct (sg_decode S s raw) as [t|e]; [|intros H; inversion H; left; reflexivity].
    destruct (sg_is_meta S t) as [md|] eqn:Em.
    - destruct pg; [discriminate|]. destruct (negb (sg_meta_ok S pr t)); [discriminate|].
      intros H; inversion H. right. exists t, md. auto.
    - destruct (find_app S apps t) as [a|]; [|intros H; inversion H; left; reflexivity].
      destruct (if sg_is_critical S t then _ else _) as [[s1 ev1]|e]; [|intros H; inversion H; left; reflexivity].
      destruct (sg_byte_gas S s1 raw t); [intros H; inversion H; left; reflexivity|].
      destruct (_ && _ && _); [intros H; inversion H; left; reflexivity|].
      destruct (a_exec S a Deliver t s1) as [[s2 ev2] [e|]]; [intros H; inversion H; left; reflexivity|].
      destruct (sg_post_exec S t s2); intros H; inversion H; left; reflexivity.
  Qed.

  Definition meta_in (txs : list bytes) (md : bytes * bytes) : Prop :=
    exists raw s_mid t, In raw txs /\ sg_decode S s_mid raw = inl t /\ sg_is_meta S t = Some md.

  Lemma deliver_all_scratch cfg apps pr pg txs : forall s sc acc s' acc' sc',
    deliver_all S cfg apps pr pg txs s sc acc = Some (s', acc', sc') ->
    forall md, In md sc' -> In md sc \/ meta_in txs md.
  Proof.
    induction txs as [|raw r IH]; intros s sc acc s' acc' sc'; cbn [deliver_all].
    - intros H; inversion H; subst. intros md Hin. left. exact Hin.
    - destruct (process_tx S Deliver cfg apps pr pg raw s sc) as [[[[s1 ev] res] sc1]|] eqn:E; [|discriminate].
      intros H md Hin. destruct (IH _ _ _ _ _ _ H md Hin) as [Hin1|(raw' & sm & t & Hr & Hd & Hm)].
      + apply process_tx_scratch in E. cbn [snd] in E. destruct E as [->|(t & md' & Hd & Hm & ->)]; [left; exact Hin1|].
        apply in_app_or in Hin1 as [Hin1|[<-|[]]]; [left; exact Hin1|].
        right. exists raw, s, t. split; [left; reflexivity|split; assumption].
      + right. exists raw', sm, t. split; [right; exact Hr|split; assumption].
  Qed.

  (* A block that a validating / replaying node accepts: (a) carries a block-metadata
     transaction whose state root is the root of the state the node commits and whose events
     root is the root of all the block's events; (b) that state is the one AFTER the consensus
     upgrade handler's EndBlock writes, and the handler's events are part of the end events. *)
  Theorem accepted_block_binds_metadata_and_upgrade cfg apps s b s' o :
    exec_block S cfg apps false s b = Some (s', o) ->
    meta_in (b_txs b) (sg_root S s', o_events_root S o) /\
    o_events_root S o = sg_evroot S (all_events S o) /\
    exists s3 uev eev, sg_upgrade_end S (b_header b) s3 = Some (s', uev) /\ o_end_events S o = eev ++ uev.
  Proof.
    unfold exec_block. change endblock_upgrade_before_validate with true. cbn iota.
    destruct (sg_upgrade_begin S (b_header b) s) as [[s0 uev0]|]; [|discriminate].
    destruct (begin_all S apps (binfo_of b) s0 uev0) as [[s1 bev]|]; [|discriminate].
    destruct (deliver_all S cfg apps (h_proposer (b_header b)) false (b_txs b) s1 [] []) as [[[s2 txr] sc]|] eqn:Ed; [|discriminate].
    destruct (end_all S apps s2 [] []) as [[[s3 eev] vu]|]; [|discriminate].
    destruct (sg_upgrade_end S (b_header b) s3) as [[s4 uev]|] eqn:Eu; [|discriminate].
    unfold validate_system. destruct sc as [|[sr er] [|? ?]]; try discriminate.
    destruct (bytes_eqb sr (sg_root S s4) && bytes_eqb er _) eqn:Ev; [|discriminate].
    intros H; inversion H; subst s' o; clear H. cbn [o_events_root o_end_events].
    apply andb_true_iff in Ev as [E1 E2]. apply bytes_eqb_eq in E1, E2. subst sr er.
    split; [|split; [reflexivity|exists s3, uev, eev; split; [exact Eu|reflexivity]]].
    destruct (deliver_all_scratch _ _ _ _ _ _ _ _ _ _ _ Ed _ (or_introl eq_refl)) as [[]|Hm]. exact Hm.
  Qed.

  (* History level: whenever two replicas get through the same blocks (replicas_agree), the
     state each of them holds after the last block is the one bound by that block's metadata
     transaction, i.e. both hold the state the proposer announced. *)
  Lemma spec_run_last cfg0 base bs : forall s outs s' outs',
    spec_run cfg0 base s bs outs = Some (s', outs') ->
    (bs = [] /\ s' = s /\ outs' = outs) \/
    exists b s_prev o, last bs b = b /\ In b bs /\
      exec_block S cfg0 (sort_by (a_name S) base) false s_prev b = Some (s', o) /\ exists pre, outs' = pre ++ [o].
  Proof.
    induction bs as [|b r IH]; intros s outs s' outs'; unfold spec_run; cbn [fold_left].
    - intros H; inversion H. left. auto.
    - cbn [spec_step]. destruct (exec_block S cfg0 _ false s b) as [[s1 o1]|] eqn:E; [|rewrite fold_spec_none; discriminate].
      intros H. destruct (IH s1 (outs ++ [o1]) s' outs' H) as [(-> & -> & ->)|(b' & sp & o & Hl & Hin & He & pre & Hp)].
      + right. exists b, s, o1. cbn [last]. repeat split; [left; reflexivity|exact E|exists outs; reflexivity].
      + right. exists b', sp, o. split; [|split; [right; exact Hin|split; [exact He|exists pre; exact Hp]]].
        destruct r as [|x r']; [destruct Hin|]. cbn [last]. exact Hl.
  Qed.

  Theorem replicas_hold_the_announced_state base n ops n' cs outs :
    NoDup (map (a_name S) base) -> Permutation base (n_apps S n) -> n_cache S n = None -> ops_ok base ops ->
    run S n ops = Some ((n', cs), outs) -> blocks_of S ops <> [] ->
    exists b o, In b (blocks_of S ops) /\ last (blocks_of S ops) b = b /\
      meta_in (b_txs b) (sg_root S (n_committed S n'), o_events_root S o) /\
      o_events_root S o = sg_evroot S (all_events S o) /\
      (exists s3 uev eev, sg_upgrade_end S (b_header b) s3 = Some (n_committed S n', uev) /\ o_end_events S o = eev ++ uev) /\
      exists pre, outs = pre ++ [o].
  Proof.
    intros Hnd Hp Hc Hok Hrun Hne.
    pose proof (run_spec (n_cfg S n) base ops Hnd n (n_committed S n) [] Hc Hp Hok) as Hs.
    unfold run in Hrun. rewrite Hrun in Hs. cbn [observe option_map fst snd] in Hs. symmetry in Hs.
    destruct (spec_run_last _ _ _ _ _ _ _ Hs) as [(E & _)|(b & sp & o & Hl & Hin & He & pre & Hpre)]; [contradiction|].
    destruct (accepted_block_binds_metadata_and_upgrade _ _ _ _ _ _ He) as (Hm & Hr & Hu).
    exists b, o. repeat split; try assumption. exists pre. exact Hpre.
  Qed.

  (* ---- histories with failed rounds ---- *)
  (* one block on a node whose cache satisfies the invariant *)
  Lemma run_path_inv base p n b :
    cache_inv n -> path_ok base b p -> b_hash b <> [] -> commit_as_prepared n b ->
    run_path S p n b = reference (path_cfg p n) (path_regs p n) (n_committed S n) b \/ collision.
  Proof.
    intros Hinv Hok Hne Hcm.
    destruct p as [key cands| | |cfg regs|cfg regs].
    - left. rewrite run_path_cache_irrelevant by exact I.
      rewrite (path_reference (ProposeCached S key cands) (mkNode S (n_committed S n) None (n_cfg S n) (n_apps S n)) b base eq_refl Hok).
      reflexivity.
    - cbn [run_path path_cfg path_regs].
      destruct (process_proposal S n b) as [m'|] eqn:Ep.
      + destruct (process_proposal_inv n b m' Hinv Hcm Ep) as (Hinv' & (Ha' & Hb' & Hc') & c & Hcache & Hhash & Hex).
        left. unfold finalize, snapshot, reference. rewrite Hcache. cbn [option_map begin_reuses].
        destruct (Hinv' c Hcache) as (Hexd & _). rewrite Hhash, bytes_eqb_refl, Hexd. cbn [andb].
        unfold dispatch in Hex. rewrite Hex. rewrite Hb', Hc'. reflexivity.
      + left. apply (process_proposal_reject n b Hinv Hcm) in Ep. unfold reference. unfold dispatch in Ep. rewrite Ep. reflexivity.
    - cbn [run_path path_cfg path_regs]. apply finalize_inv; assumption.
    - left. rewrite run_path_cache_irrelevant by exact I.
      rewrite (path_reference (RestartThenReplay S cfg regs) (mkNode S (n_committed S n) None (n_cfg S n) (n_apps S n)) b base eq_refl Hok).
      reflexivity.
    - left. rewrite run_path_cache_irrelevant by exact I.
      rewrite (path_reference (RestartThenProcess S cfg regs) (mkNode S (n_committed S n) None (n_cfg S n) (n_apps S n)) b base eq_refl Hok).
      reflexivity.
  Qed.

  Definition st_ok (n : node) (st : stale S) : Prop :=
    match st with
    | StalePrepared _ key hd _ _ _ => meta_wf key (h_proposer hd)
    | StaleProcessed _ b' => commit_as_prepared n b'
    | StaleAborted _ _ _ => True
    end.

  (* Well-formed histories with failed rounds.  The conditions on a step refer to the node
     the step is applied to: honest metadata for own proposals, the commit-info
     hypothesis wherever a prepared proposal is reused, real (non-empty) block hashes. *)
  Fixpoint ops_ok_from (base : list mapp) (n : node) (ops : list (op S)) : Prop :=
    match ops with
    | [] => True
    | OpBlock _ p b :: r =>
      path_ok base b p /\ b_hash b <> [] /\ commit_as_prepared n b /\
      match run_path S p n b with
      | Some (n', _) => ops_ok_from base n' r
      | None => True
      end
    | OpStale _ st :: r => st_ok n st /\ ops_ok_from base (apply_stale S n st) r
    | _ :: r => ops_ok_from base n r
    end.

  Lemma run_spec_stale cfg0 base ops : NoDup (map (a_name S) base) -> forall n cs outs,
    cache_inv n -> Permutation base (n_apps S n) -> ops_ok_from base n ops ->
    observe (fold_left (step S) ops (Some ((n, cs), outs)))
    = spec_run cfg0 base (n_committed S n) (blocks_of S ops) outs \/ collision.
  Proof.
    intros Hnd. induction ops as [|o r IH]; intros n cs outs Hinv Hp Hok.
    - left. reflexivity.
    - destruct o as [p b|raw|raw| |st]; cbn [fold_left step blocks_of ops_ok_from] in *.
      + destruct Hok as (Hok1 & Hne & Hcm & Hrest).
        destruct (run_path_inv base p n b Hinv Hok1 Hne Hcm) as [Hr|Hcol]; [|right; exact Hcol].
        unfold spec_run. cbn [fold_left spec_step].
        assert (Hpr : Permutation base (path_regs p n)) by (destruct p; cbn [path_regs path_ok] in *; assumption).
        pose proof (reference_canonical base (path_cfg p n) cfg0 (path_regs p n) base (n_committed S n) b Hnd Hpr (Permutation_refl _)) as Hcan.
        rewrite <- Hr in Hcan.
        destruct (run_path S p n b) as [[n' o]|] eqn:Erun.
        * unfold reference in Hr, Hcan.
          destruct (exec_block S (path_cfg p n) (sort_by (a_name S) (path_regs p n)) false (n_committed S n) b) as [[s1 o1]|]; [|discriminate].
          inversion Hr; subst n' o; clear Hr.
          destruct (exec_block S cfg0 (sort_by (a_name S) base) false (n_committed S n) b) as [[s' o']|]; [|discriminate].
          cbn in Hcan. inversion Hcan; subst.
          apply (IH (mkNode S s' None (path_cfg p n) (path_regs p n)) s' (outs ++ [o'])).
          -- intros c Hc. discriminate.
          -- exact Hpr.
          -- exact Hrest.
        * left. unfold reference in Hcan.
          destruct (exec_block S cfg0 (sort_by (a_name S) base) false (n_committed S n) b) as [[s' o']|]; [discriminate|].
          rewrite fold_step_none, fold_spec_none. reflexivity.
      + apply IH; assumption.
      + apply IH; assumption.
      + apply IH; assumption.
      + destruct Hok as [Hst Hrest].
        destruct (apply_stale_inv n st Hinv Hst) as [Hinv' (Ha & Hb & Hc)].
        rewrite <- Ha. apply IH; [exact Hinv'| |exact Hrest]. rewrite Hc. exact Hp.
  Qed.

  (* [replicas_agree] for histories that also contain failed consensus rounds (proposals
     prepared or processed but never committed), each replica with its own. *)
  Theorem replicas_agree_with_failed_rounds base n1 n2 ops1 ops2 :
    NoDup (map (a_name S) base) ->
    Permutation base (n_apps S n1) -> Permutation base (n_apps S n2) ->
    n_cache S n1 = None -> n_cache S n2 = None ->
    n_committed S n1 = n_committed S n2 ->
    ops_ok_from base n1 ops1 -> ops_ok_from base n2 ops2 ->
    blocks_of S ops1 = blocks_of S ops2 ->
    observe (run S n1 ops1) = observe (run S n2 ops2) \/ collision.
  Proof.
    intros Hnd Hp1 Hp2 Hc1 Hc2 Hs Ho1 Ho2 Hb. unfold run.
    assert (Hi1 : cache_inv n1) by (intros c Hc; congruence).
    assert (Hi2 : cache_inv n2) by (intros c Hc; congruence).
    destruct (run_spec_stale (n_cfg S n1) base ops1 Hnd n1 (n_committed S n1) [] Hi1 Hp1 Ho1) as [E1|C]; [|right; exact C].
    destruct (run_spec_stale (n_cfg S n1) base ops2 Hnd n2 (n_committed S n2) [] Hi2 Hp2 Ho2) as [E2|C]; [|right; exact C].
    left. rewrite E1, E2, Hs, Hb. reflexivity.
  Qed.
  (* ---- rounds aborted by a recovered panic ---- *)
  (* After ProcessProposal panicked at an ARBITRARY point (whatever the working tree had become)
     and the deferred handler recovered (mux.go:483-507), the proposal cache is reset
     (resetProposal(), mux.go:505-506; read from the source by gen muxorder): nothing keyed by
     the aborted block's hash survives. *)
  Theorem aborted_round_resets_cache n b' dirty :
    n_cache S (apply_stale S n (StaleAborted S b' dirty)) = None /\
    same_base n (apply_stale S n (StaleAborted S b' dirty)).
  Proof.
    cbn [apply_stale]. unfold abort_round. change process_panic_handler_resets with true. cbn iota.
    split; [reflexivity|repeat split].
  Qed.

  (* Hence the block that was being processed when the fault hit -- or any other -- is executed
     from the committed state on every path, exactly as on a replica without the fault. *)
  Theorem aborted_round_harmless base n b' dirty p b :
    path_ok base b p ->
    run_path S p (apply_stale S n (StaleAborted S b' dirty)) b
    = reference (path_cfg p n) (path_regs p n) (n_committed S n) b.
  Proof.
    intros Hok. destruct (aborted_round_resets_cache n b' dirty) as [Hc (Ha & Hb & Hcc)].
    rewrite (path_reference p _ b base Hc Hok).
    destruct p; cbn [path_cfg path_regs]; rewrite ?Ha, ?Hb, ?Hcc; reflexivity.
  Qed.

  Lemma mux_panic_handlers_reset :
    process_panic_handler_resets = true /\ prepare_panic_handler_resets = true.
  Proof. split; reflexivity. Qed.

End MuxProofs.

(* ------------------------------------------------------------------ *)
(* A concrete instance: non-vacuity of the hypotheses, and what happens
   without the commit-info hypothesis.                                 *)

Definition toy_meta (t : bytes) : option (bytes * bytes) :=
  match t with
  | 255 :: n :: rest => Some (firstn (N.to_nat n) rest, skipn (N.to_nat n) rest)
  | _ => None
  end.

Definition toy : msig := mkSig
  N bytes N N (bytes * N)
  (fun _ raw => match raw with [] => inr 9 | _ => inl raw end)
  toy_meta
  (fun _ _ => true)
  (fun _ => false)
  (fun t => firstn 1 t)
  (fun _ => 10) (fun _ => 1)
  (fun t s => match t with 7 :: _ => Some 3 | _ => None end)
  (fun t s => (s + 1, [100]))
  (fun _ _ _ => None)
  (fun _ => 0)
  (fun _ _ => None)
  1 2 4 0
  (fun _ s => 0)
  (fun s => [s mod 256])
  (fun evs => [N.of_nat (length evs) mod 256])
  (fun key sr er => 255 :: N.of_nat (length sr) :: sr ++ er)
  (fun hd s => Some (s, []))
  (fun hd s => if h_height hd =? 2 then Some (s + 100, [777]) else Some (s, [])).

Lemma toy_meta_wf key pr : meta_wf toy key pr.
Proof.
  intros s sr er. exists (255 :: N.of_nat (length sr) :: sr ++ er). cbn [toy sg_decode sg_meta_tx sg_is_meta sg_meta_ok toy_meta].
  split; [reflexivity|]. split; [|reflexivity].
  rewrite Nnat.Nat2N.id. rewrite firstn_app, Nat.sub_diag, firstn_all, firstn_O, app_nil_r.
  rewrite skipn_app, Nat.sub_diag, skipn_all, skipn_O. reflexivity.
Qed.

Definition count_signed (l : list vote) : N := N.of_nat (length (filter v_signed l)).

(* "staking": pays per signed vote in BeginBlock, writes in ExecuteTx *)
Definition toy_staking : app toy := mkApp toy [115] (fun _ => true) false
  (fun bi s => Some (s + 5 * count_signed (bi_commit bi), [count_signed (bi_commit bi)]))
  (fun m t s => match t with
                | [_; 0] => (s, [], Some 6)            (* a failing transaction *)
                | _ => (s + 10, [200], None)
                end)
  (fun s => Some (s, [], [])).
(* "scheduler": the blessed app; emits a validator update derived from the state *)
Definition toy_sched : app toy := mkApp toy [99] (fun _ => false) true
  (fun bi s => Some (s, []))
  (fun m t s => (s, [], None))
  (fun s => Some (s + 1, [300], [([1], s)])).

Definition toy_cfg1 := mkLocal 0 [1] 0 0 false 0.
Definition toy_cfg2 := mkLocal 1000000 [2] 3 1 true 7.
Definition toy_base := [toy_staking; toy_sched].
Definition toy_n1 : node toy := mkNode toy 0 None toy_cfg1 [toy_staking; toy_sched].
Definition toy_n2 : node toy := mkNode toy 0 None toy_cfg2 [toy_sched; toy_staking].

Definition toy_hd := mkHeader 1 1000 [42] [].
Definition toy_votes := [mkVote [1] 10 true; mkVote [2] 10 false; mkVote [3] 5 true].
Definition toy_cands : list bytes := [[1; 1]; [2; 0]; [7; 1]; []].
Definition toy_txs : list bytes := snd (prepare toy toy_n1 [42] toy_hd toy_cands toy_votes []).
Definition toy_block := mkBlock toy_hd toy_txs toy_votes [] [9; 9].

Definition toy_obs (r : option (node toy * outputs toy)) := option_map (fun r => (n_committed toy (fst r), snd r)) r.

(* The hypotheses of [exec_block_deterministic] / [replicas_agree] are satisfiable,
   and the block really executes (a transfer-like tx, a failing tx, an auth failure,
   an undecodable tx, the metadata tx, a validator update). *)
Example toy_hypotheses :
  NoDup (map (a_name toy) toy_base) /\ Permutation toy_base (n_apps toy toy_n1) /\
  Permutation toy_base (n_apps toy toy_n2) /\
  path_ok toy toy_base toy_block (ProposeCached toy [42] toy_cands) /\
  toy_obs (run_path toy (ProposeCached toy [42] toy_cands) toy_n1 toy_block)
  = Some (23, mkOut toy [2] [(0, [100; 200]); (6, [100]); (3, []); (9, []); (0, [])] [300] [([1], 22)] [5]).
Proof.
  split; [repeat constructor; cbn; intuition discriminate|].
  split; [apply Permutation_refl|]. split; [apply perm_swap|].
  split; [apply toy_meta_wf|]. vm_compute. reflexivity.
Qed.

Example toy_paths_agree :
  let r := toy_obs (run_path toy (ProposeCached toy [42] toy_cands) toy_n1 toy_block) in
  toy_obs (run_path toy (ProcessProposal toy) toy_n2 toy_block) = r /\
  toy_obs (run_path toy (PlainReplay toy) toy_n2 toy_block) = r /\
  toy_obs (run_path toy (RestartThenReplay toy toy_cfg1 [toy_sched; toy_staking]) toy_n2 toy_block) = r /\
  toy_obs (run_path toy (RestartThenProcess toy toy_cfg2 toy_base) toy_n1 toy_block) = r /\
  r <> None.
Proof. vm_compute. repeat split; discriminate. Qed.

(* Without the commit-info hypothesis the statement of [cached_equals_reexecution] is
   false in the model: isEqual accepts a block that differs from the prepared one only
   in its commit info, and the cached result differs from re-execution (here the
   re-execution even fails the metadata check). *)
Definition toy_block_other_commit := mkBlock toy_hd toy_txs [mkVote [1] 10 true] [] [9; 9].
Theorem cached_differs_without_commit_hypothesis :
  exists (n : node toy) key hd cands cm ms b n1 txs c,
    prepare toy n key hd cands cm ms = (n1, txs) /\
    process_reuses (snapshot toy n1) (b_header b) (b_txs b) (b_misb b) = true /\
    meta_wf toy key (h_proposer hd) /\
    b_commit b <> cm /\
    n_cache toy n1 = Some c /\
    exec_block toy (n_cfg toy n) (dispatch toy n) false (n_committed toy n) b <> Some (pc_tree toy c, pc_out toy c).
Proof.
  exists toy_n1, [42], toy_hd, toy_cands, toy_votes, [], toy_block_other_commit.
  eexists. eexists. eexists.
  split; [vm_compute; reflexivity|]. split; [vm_compute; reflexivity|].
  split; [apply toy_meta_wf|]. split; [vm_compute; discriminate|].
  split; [vm_compute; reflexivity|]. vm_compute. discriminate.
Qed.

(* A two-height history on two replicas with different paths, configurations,
   registration orders and interleaved checks. *)
Definition toy_hd2 := mkHeader 2 2000 [42] [].
Definition toy_txs2 : list bytes :=
  match run_path toy (PlainReplay toy) toy_n1 toy_block with
  | Some (n, _) => snd (prepare toy n [42] toy_hd2 [[3; 3]] toy_votes [mkMisb 1 [2] 10 1 1000 25])
  | None => []
  end.
Definition toy_block2 := mkBlock toy_hd2 toy_txs2 toy_votes [mkMisb 1 [2] 10 1 1000 25] [8].
Definition toy_ops1 : list (op toy) :=
  [OpCheck toy [1; 1]; OpBlock toy (ProposeCached toy [42] toy_cands) toy_block; OpSimulate toy [2; 2];
   OpBlock toy (PlainReplay toy) toy_block2].
Definition toy_ops2 : list (op toy) :=
  [OpBlock toy (RestartThenProcess toy toy_cfg1 toy_base) toy_block; OpPrune toy; OpCheck toy [7; 7];
   OpBlock toy (ProposeCached toy [42] [[3; 3]]) toy_block2; OpCheck toy []].
Example toy_history_agrees :
  observe toy (run toy toy_n1 toy_ops1) = observe toy (run toy toy_n2 toy_ops2) /\
  option_map (fun x => length (snd x)) (observe toy (run toy toy_n1 toy_ops1)) = Some 2%nat.
Proof. vm_compute. split; reflexivity. Qed.

(* Non-vacuity of [stale_rounds_harmless]: a failed own round and a failed foreign round
   precede the block; hypotheses hold and the left disjunct is what happens. *)
Definition toy_stale : list (stale toy) :=
  [StalePrepared toy [42] toy_hd [[5; 5]] toy_votes [];
   StaleProcessed toy (mkBlock toy_hd toy_txs toy_votes [] [7; 7; 7])].
Example toy_stale_hypotheses :
  stale_ok toy toy_n1 toy_stale /\ b_hash toy_block <> [] /\
  commit_as_prepared toy (fold_left (apply_stale toy) toy_stale toy_n1) toy_block /\
  toy_obs (run_path toy (PlainReplay toy) (fold_left (apply_stale toy) toy_stale toy_n1) toy_block)
  = toy_obs (run_path toy (PlainReplay toy) toy_n1 toy_block) /\
  toy_obs (run_path toy (ProcessProposal toy) (fold_left (apply_stale toy) [StalePrepared toy [42] toy_hd [[5; 5]] toy_votes []] toy_n1) toy_block)
  = toy_obs (run_path toy (PlainReplay toy) toy_n1 toy_block).
Proof.
  split.
  { cbn [stale_ok toy_stale]. split; [apply toy_meta_wf|]. split; [|exact I].
    intros c Hc Hr. vm_compute in Hc. try discriminate. inversion Hc; subst c. vm_compute in Hr. discriminate. }
  split; [discriminate|]. split.
  { intros c Hc Hr. vm_compute in Hc. try discriminate. inversion Hc; subst c. vm_compute in Hr. discriminate. }
  split; vm_compute; reflexivity.
Qed.

(* Non-vacuity of [replicas_agree_with_failed_rounds]: replica 1 has a failed own round
   before height 1, replica 2 a failed foreign round; both then commit the same block. *)
Definition toy_ops_stale1 : list (op toy) :=
  [OpStale toy (StalePrepared toy [42] toy_hd [[5; 5]] toy_votes []); OpCheck toy [1; 1];
   OpBlock toy (ProcessProposal toy) toy_block].
Definition toy_ops_stale2 : list (op toy) :=
  [OpStale toy (StaleProcessed toy (mkBlock toy_hd toy_txs toy_votes [] [7; 7; 7]));
   OpBlock toy (PlainReplay toy) toy_block].
Example toy_failed_rounds_hypotheses :
  ops_ok_from toy toy_base toy_n1 toy_ops_stale1 /\ ops_ok_from toy toy_base toy_n2 toy_ops_stale2 /\
  blocks_of toy toy_ops_stale1 = blocks_of toy toy_ops_stale2 /\
  observe toy (run toy toy_n1 toy_ops_stale1) = observe toy (run toy toy_n2 toy_ops_stale2) /\
  observe toy (run toy toy_n1 toy_ops_stale1) <> None.
Proof.
  assert (Hcm : forall n, (forall c, n_cache toy n = Some c -> process_reuses (Some (pc_id toy c)) (b_header toy_block) (b_txs toy_block) (b_misb toy_block) = false) ->
                commit_as_prepared toy n toy_block).
  { intros n H c Hc Hr. rewrite (H c Hc) in Hr. discriminate. }
  split.
  { cbn [ops_ok_from toy_ops_stale1 st_ok]. split; [apply toy_meta_wf|]. split; [exact I|]. split; [discriminate|].
    split; [|vm_compute; exact I].
    apply Hcm. intros c Hc. vm_compute in Hc. inversion Hc; subst c. vm_compute. reflexivity. }
  split.
  { cbn [ops_ok_from toy_ops_stale2 st_ok]. split.
    - intros c Hc. discriminate.
    - split; [exact I|]. split; [discriminate|]. split; [|vm_compute; exact I].
      apply Hcm. intros c Hc. vm_compute in Hc. inversion Hc; subst c. vm_compute. reflexivity. }
  split; [reflexivity|]. vm_compute. split; [reflexivity|discriminate].
Qed.

(* The step orders of BeginBlock / EndBlock that exec_block relies on, as read from mux.go by
   harness/cmd/gen muxorder: the consensus-upgrade handlers (which write state) run before the
   block-metadata validation, after the applications' EndBlock; in BeginBlock they run before
   the applications.  [prepared_block_reexecutes] (hence cached_equals_reexecution and every
   ProposeCached case) is proved under the first fact. *)
Lemma mux_step_order :
  endblock_upgrade_before_validate = true /\ endblock_apps_before_validate = true /\
  beginblock_upgrade_before_apps = true.
Proof. repeat split; reflexivity. Qed.

(* the toy signature has a migration due at height 2 which writes state and emits an event in
   EndBlock: the block of height 2 in [toy_history_agrees] executes it on both replicas *)
Example toy_upgrade_block_executes :
  option_map (fun x => map (o_end_events toy) (snd x)) (observe toy (run toy toy_n1 toy_ops1))
  = Some [[300]; [300; 777]].
Proof. vm_compute. reflexivity. Qed.

(* Without the reset in the panic handler (seeded C01-5) the half-executed working tree stays
   keyed by the block's hash without results; when that block is decided, BeginBlock does not
   reset it (same hash) and executes on top of the dirty tree: the result differs from the
   reference (here the metadata check fails, i.e. this replica cannot finalize the block). *)
Theorem aborted_round_without_reset_refuted :
  exists (n : node toy) (b : block) (dirty : sg_state toy),
    n_cache toy n = None /\
    finalize toy (abort_round toy false n b dirty) b
    <> reference toy (n_cfg toy n) (n_apps toy n) (n_committed toy n) b /\
    finalize toy (abort_round toy true n b dirty) b
    = reference toy (n_cfg toy n) (n_apps toy n) (n_committed toy n) b /\
    reference toy (n_cfg toy n) (n_apps toy n) (n_committed toy n) b <> None.
Proof.
  exists toy_n1, toy_block, 7. split; [reflexivity|]. vm_compute. repeat split; discriminate.
Qed.
