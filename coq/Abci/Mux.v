(* Generic model of the ABCI multiplexer (go/consensus/cometbft/abci).

   Executable definitions only (proofs are in MuxProofs.v).

   What is ported
   - the dispatch order of the applications: sort of the registered names
     (mux.go:909-921 rebuildAppLexOrdering, sort.Strings = byte-wise order);
   - BeginBlock / DeliverTx / EndBlock over the sorted application list
     (mux.go:567-817), a fatal application error = panic = [None];
   - transaction processing order (transaction.go:17-156): decode -> system
     method -> method lookup -> auth handler unless critical -> per-byte gas ->
     consensus minimum gas price unless simulating -> application -> post-execute;
   - the only place where node-LOCAL configuration is read by the auth handler
     (staking/state/gas.go:93-106: only in CheckTx mode);
   - the block-metadata system transaction (system.go:20-158);
   - the proposal cache (state.go:42-123, 511-552) with isEqual / needsExecution /
     resetProposalIfChanged, and the entry points PrepareProposal, ProcessProposal,
     BeginBlock..Commit (mux.go:366-557, 819-846);
   - CheckTx / simulation contexts (state.go:178-224).

   What is abstract (Section variables): the state type, the applications, the
   transaction decoder, the auth handler core, state root / events root.  The
   real applications are exercised by the harness, not by this model. *)
From Verif Require Import Lib.Base Gen.MuxOrder.

(* ------------------------------------------------------------------ *)
(* Dispatch order: insertion sort by byte-wise name comparison.        *)

Section Sort.
  Context {A : Type} (key : A -> bytes).
  Definition key_leb (a b : A) : bool :=
    match bytes_cmp (key a) (key b) with Gt => false | _ => true end.
  Fixpoint insert_by (x : A) (l : list A) : list A :=
    match l with
    | [] => [x]
    | y :: r => if key_leb x y then x :: l else y :: insert_by x r
    end.
  Definition sort_by (l : list A) : list A := fold_right insert_by [] l.
End Sort.

Definition sort_names (l : list bytes) : list bytes := sort_by (fun x => x) l.

(* ------------------------------------------------------------------ *)
(* Proposal identity data (what isEqual looks at).                     *)

Record header := mkHeader { h_height : N; h_time : N; h_proposer : bytes; h_nvh : bytes }.
Record misb := mkMisb { m_type : N; m_addr : bytes; m_power : N; m_height : N; m_time : N; m_total : N }.

Definition header_eqb (a b : header) : bool :=
  (h_height a =? h_height b) && (h_time a =? h_time b) &&
  bytes_eqb (h_proposer a) (h_proposer b) && bytes_eqb (h_nvh a) (h_nvh b).
Definition misb_eqb (a b : misb) : bool :=
  (m_type a =? m_type b) && bytes_eqb (m_addr a) (m_addr b) && (m_power a =? m_power b) &&
  (m_height a =? m_height b) && (m_time a =? m_time b) && (m_total a =? m_total b).

(* Snapshot of proposalState as far as the reuse decisions read it:
   header (only set by PrepareProposal), txs, misbehavior, hash, and whether
   all three result fields are set ([needsExecution] = negb p_executed). *)
Record proposal := mkProposal {
  p_header : option header; p_txs : list bytes; p_misb : list misb; p_hash : bytes; p_executed : bool }.

(* state.go:64-96.  Check order kept. *)
Definition is_equal (p : proposal) (hd : header) (txs : list bytes) (ms : list misb) : bool :=
  match p_header p with
  | None => false
  | Some ph =>
    if negb (bytes_eqb (h_proposer hd) (h_proposer ph)) then false
    else if negb (N.of_nat (length txs) =? N.of_nat (length (p_txs p))) then false
    else if negb (N.of_nat (length ms) =? N.of_nat (length (p_misb p))) then false
    else if negb (header_eqb hd ph) then false
    else if negb (list_eqb bytes_eqb txs (p_txs p)) then false
    else list_eqb misb_eqb ms (p_misb p)
  end.

(* mux.go:473: ProcessProposal accepts without executing. *)
Definition process_reuses (c : option proposal) (hd : header) (txs : list bytes) (ms : list misb) : bool :=
  match c with
  | None => false
  | Some p => p_executed p && is_equal p hd txs ms
  end.

(* mux.go:569 + state.go:544-552: BeginBlock returns the cached results. *)
Definition begin_reuses (c : option proposal) (hash : bytes) : bool :=
  match c with
  | None => false
  | Some p => bytes_eqb (p_hash p) hash && p_executed p
  end.

(* Correspondence cases written by harness/cmd/mux. *)
Inductive cinput :=
| CProcess (c : option proposal) (hd : header) (txs : list bytes) (ms : list misb)
| CBegin (c : option proposal) (hash : bytes)
| COrder (registration : list bytes).
Inductive coutput := OBool (b : bool) | ONames (l : list bytes).

Definition run_case (i : cinput) : coutput :=
  match i with
  | CProcess c hd txs ms => OBool (process_reuses c hd txs ms)
  | CBegin c hash => OBool (begin_reuses c hash)
  | COrder reg => ONames (sort_names reg)
  end.
Definition coutput_eqb (a b : coutput) : bool :=
  match a, b with
  | OBool x, OBool y => Bool.eqb x y
  | ONames x, ONames y => list_eqb bytes_eqb x y
  | _, _ => false
  end.

(* ------------------------------------------------------------------ *)
(* The multiplexer over abstract applications.                         *)

Inductive mode := Deliver | Check | Simulate.

(* Node-local configuration (ApplicationConfig): never part of consensus. *)
Record localcfg := mkLocal {
  lc_min_gas_price : N; lc_own_signer : bytes; lc_prune_keep : N; lc_backend : N;
  lc_checkpointer : bool; lc_registration_seed : N }.

Record vote := mkVote { v_addr : bytes; v_power : N; v_signed : bool }.

(* What applications can read about the block (api.BlockInfo). *)
Record binfo := mkBinfo { bi_time : N; bi_proposer : bytes; bi_commit : list vote; bi_misb : list misb }.

(* The abstract pieces, bundled so that every definition takes one parameter. *)
Record msig := mkSig {
  sg_state : Type; sg_tx : Type; sg_txres : Type; sg_evt : Type; sg_valupd : Type;
  sg_decode : sg_state -> bytes -> sg_tx + sg_txres;          (* decodeTx: size limit, envelope, signature, sanity *)
  sg_is_meta : sg_tx -> option (bytes * bytes);               (* consensus.Meta system tx: (state root, events root) *)
  sg_meta_ok : bytes -> sg_tx -> bool;                        (* nonce 0, no fee, signed by the proposer (system.go:76-84) *)
  sg_is_critical : sg_tx -> bool;
  sg_tx_signer : sg_tx -> bytes;
  sg_tx_fee_gas : sg_tx -> N;
  sg_tx_gas_price : sg_tx -> N;
  sg_auth_check : sg_tx -> sg_state -> option sg_txres;       (* reserved address, nonce, balance *)
  sg_auth_apply : sg_tx -> sg_state -> sg_state * list sg_evt;(* move the fee, bump the nonce *)
  sg_byte_gas : sg_state -> bytes -> sg_tx -> option sg_txres;(* per-byte gas charge against the fee's gas *)
  sg_cons_min_gas_price : sg_state -> N;                      (* consensus parameter MinGasPrice *)
  sg_post_exec : sg_tx -> sg_state -> option sg_txres;
  sg_err_unknown_method : sg_txres;
  sg_err_gas_price : sg_txres;
  sg_err_system_in_check : sg_txres;
  sg_ok_meta : sg_txres;                                      (* code OK, data = CBOR null (system.go:53-56) *)
  sg_ok_res : sg_tx -> sg_state -> sg_txres;                  (* code OK + ctx.Data() *)
  sg_root : sg_state -> bytes;                                (* MKVS root: a function of the contents (C02) *)
  sg_evroot : list sg_evt -> bytes;                           (* Merkle root of the provable events *)
  sg_meta_tx : bytes -> bytes -> bytes -> bytes;              (* proposer key, state root, events root -> raw system tx *)
  (* upgrader.ConsensusUpgrade in BeginBlock / EndBlock context (mux.go:609-619, 786-798): a
     due migration may write state and emit events; None = error = panic.  The upgrade backend
     is NOT local configuration: a node with a different one is running different software. *)
  sg_upgrade_begin : header -> sg_state -> option (sg_state * list sg_evt);
  sg_upgrade_end : header -> sg_state -> option (sg_state * list sg_evt)
}.

Section Mux.
  Variable S : msig.
  Local Notation state := (sg_state S).
  Local Notation tx := (sg_tx S).
  Local Notation txres := (sg_txres S).
  Local Notation evt := (sg_evt S).
  Local Notation valupd := (sg_valupd S).
  Local Notation decode := (sg_decode S).
  Local Notation is_meta := (sg_is_meta S).
  Local Notation meta_ok := (sg_meta_ok S).
  Local Notation is_critical := (sg_is_critical S).
  Local Notation tx_signer := (sg_tx_signer S).
  Local Notation tx_fee_gas := (sg_tx_fee_gas S).
  Local Notation tx_gas_price := (sg_tx_gas_price S).
  Local Notation auth_check := (sg_auth_check S).
  Local Notation auth_apply := (sg_auth_apply S).
  Local Notation byte_gas := (sg_byte_gas S).
  Local Notation cons_min_gas_price := (sg_cons_min_gas_price S).
  Local Notation post_exec := (sg_post_exec S).
  Local Notation err_unknown_method := (sg_err_unknown_method S).
  Local Notation err_gas_price := (sg_err_gas_price S).
  Local Notation err_system_in_check := (sg_err_system_in_check S).
  Local Notation ok_meta := (sg_ok_meta S).
  Local Notation ok_res := (sg_ok_res S).
  Local Notation root := (sg_root S).
  Local Notation evroot := (sg_evroot S).
  Local Notation meta_tx := (sg_meta_tx S).


  (* An application.  [None] = the application returned an error from
     BeginBlock / EndBlock, which the multiplexer turns into a panic. *)
  Record app := mkApp {
    a_name : bytes;
    a_handles : tx -> bool;
    a_blessed : bool;
    a_begin : binfo -> state -> option (state * list evt);
    a_exec : mode -> tx -> state -> state * list evt * option txres; (* Some e = failed with e *)
    a_end : state -> option (state * list evt * list valupd) }.

  (* ---- the auth handler: gas.go:32-140 ---- *)
  Definition auth (m : mode) (cfg : localcfg) (t : tx) (s : state) : (state * list evt) + txres :=
    match m with
    | Simulate => inl (s, [])
    | _ =>
      match auth_check t s with
      | Some e => inr e
      | None =>
        match m with
        | Check =>
          (* gas.go:93-106: the ONLY read of node-local configuration *)
          if negb (bytes_eqb (lc_own_signer cfg) (tx_signer t)) && (0 <? tx_fee_gas t)
             && (tx_gas_price t <? lc_min_gas_price cfg)
          then inr err_gas_price else inl (s, [])
        | _ => inl (auth_apply t s)
        end
      end
    end.

  Fixpoint find_app (apps : list app) (t : tx) : option app :=
    match apps with
    | [] => None
    | a :: r => if a_handles a t then Some a else find_app r t
    end.

  (* per-block scratch (api.BlockContext): system transactions seen *)
  Definition scratch := list (bytes * bytes).

  (* transaction.go:60-156 + system.go:62-92.  Result: state to keep, events,
     result, scratch.  [None] = panic (malformed system tx). *)
  Definition process_tx (m : mode) (cfg : localcfg) (apps : list app) (proposer : bytes) (proposing : bool)
             (raw : bytes) (s : state) (sc : scratch) : option (state * list evt * txres * scratch) :=
    match decode s raw with
    | inr e => Some (s, [], e, sc)
    | inl t =>
      match is_meta t with
      | Some md =>
        match m with
        | Deliver =>
          if proposing then None                         (* system tx during the proposal phase *)
          else if negb (meta_ok proposer t) then None
          else Some (s, [], ok_meta, sc ++ [md])
        | _ => Some (s, [], err_system_in_check, sc)
        end
      | None =>
        match find_app apps t with
        | None => Some (s, [], err_unknown_method, sc)
        | Some a =>
          match (if is_critical t then inl (s, []) else auth m cfg t s) with
          | inr e => Some (s, [], e, sc)
          | inl (s1, ev1) =>
            match byte_gas s1 raw t with
            | Some e => Some (s1, ev1, e, sc)
            | None =>
              if (0 <? cons_min_gas_price s1) && negb (match m with Simulate => true | _ => false end)
                 && (tx_gas_price t <? cons_min_gas_price s1)
              then Some (s1, ev1, err_gas_price, sc)
              else
                let '(s2, ev2, r) := a_exec a m t s1 in
                match r with
                | Some e => Some (s2, ev1 ++ ev2, e, sc)
                | None =>
                  match post_exec t s2 with
                  | Some e => Some (s2, ev1 ++ ev2, e, sc)
                  | None => Some (s2, ev1 ++ ev2, ok_res t s2, sc)
                  end
                end
            end
          end
        end
      end
    end.

  (* ---- a block ---- *)
  Record block := mkBlock {
    b_header : header; b_txs : list bytes; b_commit : list vote; b_misb : list misb; b_hash : bytes }.
  Definition binfo_of (b : block) : binfo :=
    mkBinfo (h_time (b_header b)) (h_proposer (b_header b)) (b_commit b) (b_misb b).

  Record outputs := mkOut {
    o_begin_events : list evt; o_tx : list (txres * list evt); o_end_events : list evt;
    o_valupd : list valupd; o_events_root : bytes }.

  Fixpoint begin_all (apps : list app) (bi : binfo) (s : state) (acc : list evt) : option (state * list evt) :=
    match apps with
    | [] => Some (s, acc)
    | a :: r => match a_begin a bi s with
                | None => None
                | Some (s', ev) => begin_all r bi s' (acc ++ ev)
                end
    end.

  Fixpoint deliver_all (cfg : localcfg) (apps : list app) (proposer : bytes) (proposing : bool) (txs : list bytes)
           (s : state) (sc : scratch) (acc : list (txres * list evt)) : option (state * list (txres * list evt) * scratch) :=
    match txs with
    | [] => Some (s, acc, sc)
    | raw :: r =>
      match process_tx Deliver cfg apps proposer proposing raw s sc with
      | None => None
      | Some (s', ev, res, sc') => deliver_all cfg apps proposer proposing r s' sc' (acc ++ [(res, ev)])
      end
    end.

  Fixpoint end_all (apps : list app) (s : state) (acc : list evt) (vu : list valupd)
    : option (state * list evt * list valupd) :=
    match apps with
    | [] => Some (s, acc, vu)
    | a :: r => match a_end a s with
                | None => None
                | Some (s', ev, vu') => end_all r s' (acc ++ ev) (if a_blessed a then vu' else vu)
                end
    end.

  Definition all_events (o : outputs) : list evt :=
    o_begin_events o ++ flat_map snd (o_tx o) ++ o_end_events o.

  (* system.go:95-146 *)
  Definition validate_system (proposing : bool) (sc : scratch) (s : state) (evr : bytes) : bool :=
    if proposing then true
    else match sc with
         | [(sr, er)] => bytes_eqb sr (root s) && bytes_eqb er evr
         | _ => false
         end.

  (* executeProposal / BeginBlock..EndBlock on the working tree.  [apps] is the
     dispatch (sorted) list.  [proposing] = the hash is empty (PrepareProposal). *)
  Definition exec_block (cfg : localcfg) (apps : list app) (proposing : bool) (s : state) (b : block)
    : option (state * outputs) :=
    match sg_upgrade_begin S (b_header b) s with
    | None => None
    | Some (s0, uev0) =>
    match begin_all apps (binfo_of b) s0 uev0 with
    | None => None
    | Some (s1, bev) =>
      match deliver_all cfg apps (h_proposer (b_header b)) proposing (b_txs b) s1 [] [] with
      | None => None
      | Some (s2, txr, sc) =>
        match end_all apps s2 [] [] with
        | None => None
        | Some (s3, eev, vu) =>
          (* the order of the next two steps is read from mux.go by harness/cmd/gen muxorder *)
          if endblock_upgrade_before_validate then
            match sg_upgrade_end S (b_header b) s3 with
            | None => None
            | Some (s4, uev) =>
              let eev' := eev ++ uev in
              let evr := evroot (all_events (mkOut bev txr eev' vu [])) in
              if validate_system proposing sc s4 evr then Some (s4, mkOut bev txr eev' vu evr) else None
            end
          else
            (* validation first: it sees the state BEFORE the migration's EndBlock writes *)
            let evr := evroot (all_events (mkOut bev txr eev vu [])) in
            if validate_system proposing sc s3 evr then
              match sg_upgrade_end S (b_header b) s3 with
              | None => None
              | Some (s4, _) => Some (s4, mkOut bev txr eev vu evr)
              end
            else None
        end
      end
    end
    end.

  (* ---- the proposal cache with results ---- *)
  Record pcache := mkCache {
    pc_id : proposal;                     (* header/txs/misb/hash/executed as above *)
    pc_commit : list vote;                (* the commit info the results were computed with: NOT compared by isEqual *)
    pc_tree : state;
    pc_out : outputs }.

  Record node := mkNode { n_committed : state; n_cache : option pcache; n_cfg : localcfg; n_apps : list app (* registration order *) }.

  Definition dispatch (n : node) : list app := sort_by a_name (n_apps n).

  (* PrepareProposal (mux.go:366-456): execute the candidates with an empty hash,
     append the metadata tx, remember header/txs/misbehavior. *)
  Definition prepare (n : node) (key : bytes) (hd : header) (cands : list bytes) (cm : list vote) (ms : list misb)
    : node * list bytes :=
    let b0 := mkBlock hd cands cm ms [] in
    match exec_block (n_cfg n) (dispatch n) true (n_committed n) b0 with
    | None => (mkNode (n_committed n) None (n_cfg n) (n_apps n), [])   (* panic recovered: empty proposal, cache reset *)
    | Some (s', o) =>
      let txs := cands ++ [meta_tx key (root s') (o_events_root o)] in
      (* the fixed system tx result is appended to the cached DeliverTx results (mux.go:446-447) *)
      let o' := mkOut (o_begin_events o) (o_tx o ++ [(ok_meta, [])]) (o_end_events o) (o_valupd o) (o_events_root o) in
      (mkNode (n_committed n)
              (Some (mkCache (mkProposal (Some hd) txs ms [] true) cm s' o'))
              (n_cfg n) (n_apps n), txs)
    end.

  Definition snapshot (n : node) : option proposal := option_map pc_id (n_cache n).

  Definition set_hash (c : pcache) (h : bytes) : pcache :=
    mkCache (mkProposal (p_header (pc_id c)) (p_txs (pc_id c)) (p_misb (pc_id c)) h (p_executed (pc_id c)))
            (pc_commit c) (pc_tree c) (pc_out c).

  (* ProcessProposal (mux.go:458-521): [None] = REJECT. *)
  Definition process_proposal (n : node) (b : block) : option node :=
    if process_reuses (snapshot n) (b_header b) (b_txs b) (b_misb b) then
      match n_cache n with
      | Some c => Some (mkNode (n_committed n) (Some (set_hash c (b_hash b))) (n_cfg n) (n_apps n))
      | None => None
      end
    else
      match exec_block (n_cfg n) (dispatch n) false (n_committed n) b with
      | None => None
      | Some (s', o) =>
        Some (mkNode (n_committed n)
                     (Some (mkCache (mkProposal None [] [] (b_hash b) true) (b_commit b) s' o))
                     (n_cfg n) (n_apps n))
      end.

  (* BeginBlock .. Commit (mux.go:567-846, state.go:423-481): cached results if the
     hash matches, otherwise execute on the committed state; then the working tree
     becomes the committed state and the cache is dropped. *)
  (* The tree BeginBlock executes on when it does not return cached results (mux.go:569,
     state.go:544-552): resetProposalIfChanged(hash) resets the proposal -- a fresh overlay over
     the committed state -- only if the hash differs; with the SAME hash and no results
     (needsExecution) execution simply continues on the proposal's existing working tree. *)
  Definition working_tree (n : node) (b : block) : state :=
    match n_cache n with
    | Some c => if bytes_eqb (p_hash (pc_id c)) (b_hash b) && negb (p_executed (pc_id c)) then pc_tree c
                else n_committed n
    | None => n_committed n
    end.

  Definition finalize (n : node) (b : block) : option (node * outputs) :=
    if begin_reuses (snapshot n) (b_hash b) then
      match n_cache n with
      | Some c => Some (mkNode (pc_tree c) None (n_cfg n) (n_apps n), pc_out c)
      | None => None
      end
    else
      match exec_block (n_cfg n) (dispatch n) false (working_tree n b) b with
      | None => None
      | Some (s', o) => Some (mkNode s' None (n_cfg n) (n_apps n), o)
      end.

  (* Restart: only the committed state survives (reloaded from the node database),
     with possibly different local configuration and registration order. *)
  Definition restart (n : node) (cfg : localcfg) (apps : list app) : node :=
    mkNode (n_committed n) None cfg apps.

  Inductive path :=
  | ProposeCached (key : bytes) (cands : list bytes)   (* this node built the block *)
  | ProcessProposal
  | PlainReplay
  | RestartThenReplay (cfg : localcfg) (apps : list app)
  | RestartThenProcess (cfg : localcfg) (apps : list app).

  Definition run_path (p : path) (n : node) (b : block) : option (node * outputs) :=
    match p with
    | ProposeCached key cands =>
      let '(n1, _) := prepare n key (b_header b) cands (b_commit b) (b_misb b) in
      match process_proposal n1 b with None => None | Some n2 => finalize n2 b end
    | ProcessProposal =>
      match process_proposal n b with None => None | Some n2 => finalize n2 b end
    | PlainReplay => finalize n b
    | RestartThenReplay cfg apps => finalize (restart n cfg apps) b
    | RestartThenProcess cfg apps =>
      match process_proposal (restart n cfg apps) b with None => None | Some n2 => finalize n2 b end
    end.

  (* Consensus rounds that did not lead to a commit leave a cache behind: a proposal this
     node prepared (round failed), or somebody's proposal it processed (round failed). *)
  Inductive stale :=
  | StalePrepared (key : bytes) (hd : header) (cands : list bytes) (cm : list vote) (ms : list misb)
  | StaleProcessed (b' : block)
  (* ProcessProposal of b' panicked at an arbitrary point (a transient node-local fault, e.g.
     api.UnavailableStateError in DeliverTx) after the working tree had become [dirty]; the
     deferred handler turned the panic into REJECT (mux.go:483-507). *)
  | StaleAborted (b' : block) (dirty : state).

  (* what the recovered panic leaves behind: with the handler's resetProposal() (mux.go:505-506)
     a fresh proposal; without it the half-executed tree, keyed by b''s hash, without results *)
  Definition abort_round (resets : bool) (n : node) (b' : block) (dirty : state) : node :=
    if resets then mkNode (n_committed n) None (n_cfg n) (n_apps n)
    else mkNode (n_committed n)
                (Some (mkCache (mkProposal None [] [] (b_hash b') false) (b_commit b') dirty (mkOut [] [] [] [] [])))
                (n_cfg n) (n_apps n).

  Definition apply_stale (n : node) (st : stale) : node :=
    match st with
    | StaleAborted b' dirty => abort_round process_panic_handler_resets n b' dirty
    | StalePrepared key hd cands cm ms => fst (prepare n key hd cands cm ms)
    | StaleProcessed b' =>
      match process_proposal n b' with
      | Some n' => n'
      | None => mkNode (n_committed n) None (n_cfg n) (n_apps n)   (* REJECT: resetProposal *)
      end
    end.

  (* CheckTx and simulation: state.go:197-206.  They run on a copy ([checkState] /
     a fresh tree at the committed root) and return only a result; the type says
     that no node state comes back. *)
  Definition check_tx (n : node) (check_state : state) (raw : bytes) : state * txres :=
    match process_tx Check (n_cfg n) (dispatch n) [] false raw check_state [] with
    | Some (s', _, r, _) => (s', r)
    | None => (check_state, err_system_in_check)
    end.
  Definition simulate_tx (n : node) (raw : bytes) : txres :=
    match process_tx Simulate (n_cfg n) (dispatch n) [] false raw (n_committed n) [] with
    | Some (_, _, r, _) => r
    | None => err_system_in_check
    end.

  (* A node's life: blocks interleaved with mempool checks and simulations. *)
  Inductive op :=
  | OpBlock (p : path) (b : block)
  | OpCheck (raw : bytes)
  | OpSimulate (raw : bytes)
  | OpPrune
  | OpStale (st : stale).            (* a consensus round that fails after Prepare/ProcessProposal *)

  (* replica = node + its check state *)
  Definition replica := (node * state)%type.
  Definition step (r : option (replica * list outputs)) (o : op) : option (replica * list outputs) :=
    match r with
    | None => None
    | Some ((n, cs), outs) =>
      match o with
      | OpBlock p b =>
        match run_path p n b with
        | None => None
        | Some (n', out) => Some ((n', n_committed n'), outs ++ [out])   (* checkState := new committed state *)
        end
      | OpCheck raw => Some ((n, fst (check_tx n cs raw)), outs)
      | OpSimulate raw => let _ := simulate_tx n raw in Some ((n, cs), outs)
      | OpPrune => Some ((n, cs), outs)
      | OpStale st => Some ((apply_stale n st, cs), outs)
      end
    end.
  Definition run (n : node) (ops : list op) : option (replica * list outputs) :=
    fold_left step ops (Some ((n, n_committed n), [])).

  Fixpoint blocks_of (ops : list op) : list block :=
    match ops with
    | [] => []
    | OpBlock _ b :: r => b :: blocks_of r
    | _ :: r => blocks_of r
    end.
End Mux.
