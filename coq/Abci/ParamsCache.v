(* The cached consensus parameters (applicationState.blockParams, state.go:126-176, 484-497).

   decodeTx / processTx / BeginBlock read the consensus parameters (MaxTxSize, MaxBlockGas, gas
   costs, MinGasPrice) not from the working tree but from a cache that is refreshed by
   doCommitOrInitChainLocked(): at InitChain, at the end of doCommit (state.go:423-481) and when
   a node boots on an existing database (newApplicationState, state.go:760-766).  A running
   node therefore relies on the refresh happening AFTER the new state became the committed one;
   a restarted node always loads from the committed state.  Whether doCommit refreshes after
   advancing the state root is read from the source (Gen/MuxOrder.v).

   NOTE: in Abci/Mux.v the decoder reads its parameters from the state it is given; this file
   makes the cache explicit on its own small model (definitions first, then proofs). *)
From Verif Require Import Lib.Base Gen.MuxOrder.

Section ParamsCache.
  Variables state params : Type.
  Variable params_of : state -> params.            (* consensusState.ConsensusParameters(tree) *)

  Record pnode := mkP { p_committed : state; p_params : params }.

  (* doCommit with the new state s'; [after] = the refresh comes after the state root advanced *)
  Definition commit_with (after : bool) (n : pnode) (s' : state) : pnode :=
    if after then mkP s' (params_of s') else mkP s' (params_of (p_committed n)).
  Definition commit := commit_with commit_refreshes_params_after_commit.
  (* boot on the existing database *)
  Definition reboot (n : pnode) : pnode := mkP (p_committed n) (params_of (p_committed n)).
  Definition init (s : state) : pnode := mkP s (params_of s).

  Inductive pop := PCommit (s' : state) | PRestart.
  Definition pstep_with (after : bool) (n : pnode) (o : pop) : pnode :=
    match o with PCommit s' => commit_with after n s' | PRestart => reboot n end.
  Definition pstep := pstep_with commit_refreshes_params_after_commit.

  Definition cache_fresh (n : pnode) : Prop := p_params n = params_of (p_committed n).

  (* ---------------- proofs ---------------- *)
  Lemma pstep_fresh n o : cache_fresh (pstep n o).
  Proof.
    unfold pstep, pstep_with, commit_with. change commit_refreshes_params_after_commit with true.
    destruct o; reflexivity.
  Qed.

  (* After ANY history of commits and restarts the cache equals the parameters of the committed
     state. *)
  Theorem params_cache_is_function_of_committed_state s0 ops :
    cache_fresh (fold_left pstep ops (init s0)).
  Proof.
    assert (H : forall n, cache_fresh n -> cache_fresh (fold_left pstep ops n)).
    { induction ops as [|o r IH]; intros n Hn; cbn [fold_left]; [exact Hn|]. apply IH. apply pstep_fresh. }
    apply H. reflexivity.
  Qed.

  (* Two replicas with the same committed state -- one kept running, one restarted at arbitrary
     points -- hold the same parameters. *)
  Corollary replicas_hold_same_params s0 ops1 ops2 :
    p_committed (fold_left pstep ops1 (init s0)) = p_committed (fold_left pstep ops2 (init s0)) ->
    p_params (fold_left pstep ops1 (init s0)) = p_params (fold_left pstep ops2 (init s0)).
  Proof.
    intros H. rewrite (params_cache_is_function_of_committed_state s0 ops1), (params_cache_is_function_of_committed_state s0 ops2), H.
    reflexivity.
  Qed.

  Lemma commit_order_read_from_source : commit_refreshes_params_after_commit = true.
  Proof. reflexivity. Qed.
End ParamsCache.

(* With the refresh BEFORE the new state is committed (seeded C01-7) the running node lags one
   block behind: after the block whose migration raised MaxTxSize it still holds the old value,
   while a node restarted at that point holds the new one. *)
Theorem lagging_params_cache_refuted :
  exists (s0 s1 : N),
    let params_of := fun s : N => 32768 + 1000 * s in
    let running := fold_left (pstep_with N N params_of false) [PCommit N s1] (init N N params_of s0) in
    let restarted := fold_left (pstep_with N N params_of false) [PCommit N s1; PRestart N] (init N N params_of s0) in
    p_committed N N running = p_committed N N restarted /\ p_params N N running <> p_params N N restarted.
Proof. exists 0, 7. vm_compute. split; [reflexivity|discriminate]. Qed.
