(* Proofs: the block functions that iterate Go maps are independent of the iteration
   order, because (and only as long as) the code sorts where Gen/MuxSorts.v says it does. *)
From Coq Require Import Permutation.
From Verif Require Import Lib.Base Abci.Mux Abci.MuxProofs Gen.MuxSorts Abci.MapOrder.

Lemma sort_names_canonical l1 l2 : NoDup l1 -> Permutation l1 l2 -> sort_names l1 = sort_names l2.
Proof.
  intros Hnd Hp. unfold sort_names. apply sort_by_canonical; [|exact Hp]. rewrite map_id. exact Hnd.
Qed.

Lemma collect_sorted_canonical g l1 l2 :
  NoDup l1 -> Permutation l1 l2 ->
  collect_sorted SortUnconditional g l1 = collect_sorted SortUnconditional g l2.
Proof. intros. cbn [collect_sorted]. apply sort_names_canonical; assumption. Qed.

(* the facts read from the source: every site sorts unconditionally *)
Lemma sites_sort :
  site_runtimes_to_finalize = SortUnconditional /\
  via_sort_addresses site_stake_slice_presort = SortUnconditional /\
  via_sort_addresses site_distribute_rewards = SortUnconditional /\
  site_eligible_entities = SortUnconditional.
Proof. repeat split; reflexivity. Qed.

Lemma filter_perm {A} (f : A -> bool) l1 l2 : Permutation l1 l2 -> Permutation (filter f l1) (filter f l2).
Proof.
  induction 1 as [|x l l' _ IH|x y l|l l' l'' _ IH1 _ IH2]; cbn [filter].
  - constructor.
  - destruct (f x); [constructor|]; exact IH.
  - destruct (f x), (f y); first [apply perm_swap | apply Permutation_refl].
  - eapply Permutation_trans; eassumption.
Qed.

Lemma NoDup_map_filter {A B} (g : A -> B) (f : A -> bool) l : NoDup (map g l) -> NoDup (map g (filter f l)).
Proof.
  induction l as [|x l IH]; cbn [map filter]; intros H; [constructor|].
  inversion H as [|? ? Hn Hd]; subst. destruct (f x); cbn [map]; [|apply IH; exact Hd].
  constructor; [|apply IH; exact Hd]. intros Hin. apply Hn.
  apply in_map_iff in Hin as (y & Hy & Hin). apply filter_In in Hin as [Hin _].
  apply in_map_iff. exists y. split; assumption.
Qed.

Section Election.
  Variable shuffle : list bytes -> list bytes.
  Variable balance : bytes -> N.

  (* Every block function that iterates a Go map gives the same result for every
     iteration order of the map (keys are unique; [iter2] is any permutation). *)
  Theorem map_order_irrelevant :
    (forall iter1 iter2, NoDup iter1 -> Permutation iter1 iter2 ->
       runtimes_to_finalize iter1 = runtimes_to_finalize iter2) /\
    (forall bypass maxv iter1 iter2, NoDup iter1 -> Permutation iter1 iter2 ->
       stake_slice shuffle balance bypass iter1 = stake_slice shuffle balance bypass iter2 /\
       elected shuffle balance bypass maxv iter1 = elected shuffle balance bypass maxv iter2) /\
    (forall iter1 iter2, NoDup iter1 -> Permutation iter1 iter2 ->
       reward_order iter1 = reward_order iter2) /\
    (forall total num den (iter1 iter2 : list (bytes * N)), NoDup (map fst iter1) -> Permutation iter1 iter2 ->
       eligible_entities total num den iter1 = eligible_entities total num den iter2).
  Proof.
    destruct sites_sort as (H1 & H2 & H3 & H4).
    split; [|split; [|split]].
    - intros i1 i2 Hnd Hp. unfold runtimes_to_finalize. rewrite H1. apply collect_sorted_canonical; assumption.
    - intros bypass maxv i1 i2 Hnd Hp.
      assert (E : stake_slice shuffle balance bypass i1 = stake_slice shuffle balance bypass i2).
      { unfold stake_slice. rewrite H2. rewrite (collect_sorted_canonical bypass i1 i2 Hnd Hp). reflexivity. }
      split; [exact E|]. unfold elected. rewrite E. reflexivity.
    - intros i1 i2 Hnd Hp. unfold reward_order. rewrite H3. apply collect_sorted_canonical; assumption.
    - intros total num den i1 i2 Hnd Hp. unfold eligible_entities. rewrite H4.
      apply collect_sorted_canonical.
      + apply NoDup_map_filter. exact Hnd.
      + apply Permutation_map. apply filter_perm. exact Hp.
  Qed.
End Election.

(* Lifted to whole blocks of the concrete ledger instance: two nodes whose runtimes iterate
   the rewardable-entity map in different orders compute the same block. *)
Theorem map_order_irrelevant_block iter1 iter2 cfg1 cfg2 proposing s b :
  NoDup iter1 -> Permutation iter1 iter2 ->
  exec_block ledger cfg1 (sort_by (a_name ledger) (ledger_apps iter1)) proposing s b
  = exec_block ledger cfg2 (sort_by (a_name ledger) (ledger_apps iter2)) proposing s b.
Proof.
  intros Hnd Hp. unfold ledger_apps.
  destruct (map_order_irrelevant (fun l => l) (fun _ => 0)) as (_ & _ & Hr & _).
  rewrite (Hr iter1 iter2 Hnd Hp). apply exec_block_local.
Qed.

(* Non-vacuity: three entities, a pool of only two units (so the payment ORDER matters),
   a transfer, a failing transfer, a bad nonce; two nodes with opposite iteration orders. *)
Definition lg_state : lstate := mkL [(1, 100); (2, 50); (3, 7)] [] 0 2.
Definition lg_iter1 : list bytes := [[3]; [1]; [2]].
Definition lg_iter2 : list bytes := [[2]; [3]; [1]].
Definition lg_hd := mkHeader 1 1000 [42] [].
Definition lg_cands : list bytes := [[1; 2; 30; 0; 5; 10]; [2; 3; 999; 0; 1; 10]; [3; 1; 1; 5; 0; 10]].
Definition lg_n1 : node ledger := mkNode ledger lg_state None (mkLocal 0 [1] 0 0 false 0) (ledger_apps lg_iter1).
Definition lg_n2 : node ledger := mkNode ledger lg_state None (mkLocal 9 [2] 2 1 true 3) (rev (ledger_apps lg_iter2)).
Definition lg_txs : list bytes := snd (prepare ledger lg_n1 [42] lg_hd lg_cands [] []).
Definition lg_block := mkBlock lg_hd lg_txs [] [] [1].

Example ledger_example :
  NoDup lg_iter1 /\ Permutation lg_iter1 lg_iter2 /\
  option_map snd (run_path ledger (ProposeCached ledger [42] lg_cands) lg_n1 lg_block)
  = option_map snd (run_path ledger (PlainReplay ledger) lg_n2 lg_block) /\
  option_map (fun r => o_tx ledger (snd r)) (run_path ledger (PlainReplay ledger) lg_n2 lg_block)
  = Some [(0, [1001; 2002]); (5, [1002]); (2, []); (0, [])] /\
  option_map (fun r => o_begin_events ledger (snd r)) (run_path ledger (PlainReplay ledger) lg_n2 lg_block)
  = Some [3001; 3002].
Proof.
  split; [repeat constructor; cbn; intuition discriminate|].
  split; [|vm_compute; repeat split; reflexivity].
  apply Permutation_sym. apply (Permutation_cons_app [[3]; [1]] [] [2]). apply Permutation_refl.
Qed.

(* What a missing sort would mean (the seeded change in stakingAddressMapToSliceByStake made
   the sort conditional on DebugBypassStake): with an unsorted slice the statement is false. *)
Theorem unsorted_map_order_matters_refuted :
  exists (shuffle : list bytes -> list bytes) (balance : bytes -> N) iter1 iter2,
    NoDup iter1 /\ Permutation iter1 iter2 /\
    firstn 1 (let sh := shuffle (collect_sorted SortConditional false iter1) in stable_desc balance sh)
    <> firstn 1 (let sh := shuffle (collect_sorted SortConditional false iter2) in stable_desc balance sh).
Proof.
  exists (fun l => l), (fun _ => 5), [[1]; [2]], [[2]; [1]].
  split; [repeat constructor; cbn; intuition discriminate|].
  split; [apply perm_swap|]. vm_compute. discriminate.
Qed.
