(* The exhaustive enumeration of map iterations and other sources of replica-local
   nondeterminism (Gen/MuxMapSites.v, from harness/cmd/gen muxmapsites) and the generic
   facts each reviewed class relies on.

     SortedBeforeUse   sort canonicity             (MuxProofs.sort_by_canonical, MapOrderProofs)
     OrderInsensitive  fold of a commuting step over any permutation; per-key independent
                       writes; delete-by-predicate; universal/existential tests; strict-majority
                       arg-max                       (this file)
     ErrorOnly / NotInExecPath / LocalOnly / Deterministic / UnsafeDebugFlag
                       no lemma: justified in coq/Abci/mapsites_reviewed.json (reviewed by hand)

   Definitions first, then proofs (this file has no model of its own to keep runnable). *)
From Coq Require Import Permutation.
From Verif Require Import Lib.Base Gen.MuxMapSites.

Definition reviewed (s : site) : bool :=
  match s_class s with Unreviewed => false | _ => true end.
Definition class_count (c : siteclass -> bool) : nat := List.length (filter (fun s => c (s_class s)) sites).

(* every enumerated site is in the reviewed table with the statement text it was reviewed with *)
Lemma all_sites_reviewed : forallb reviewed sites = true.
Proof. vm_compute. reflexivity. Qed.

Lemma enumeration_not_empty : (50 <=? List.length sites)%nat = true /\ (40 <=? packages_loaded)%nat = true.
Proof. vm_compute. split; reflexivity. Qed.

(* ---------- OrderInsensitive: commuting folds ---------- *)
Section Fold.
  Context {A B : Type} (f : A -> B -> A).
  Hypothesis f_comm : forall a x y, f (f a x) y = f (f a y) x.

  Lemma fold_left_perm l1 l2 : Permutation l1 l2 -> forall a, fold_left f l1 a = fold_left f l2 a.
  Proof.
    induction 1 as [|x l l' _ IH|x y l|l l' l'' _ IH1 _ IH2]; intros a; cbn [fold_left].
    - reflexivity.
    - apply IH.
    - rewrite f_comm. reflexivity.
    - rewrite IH1. apply IH2.
  Qed.
End Fold.

(* the same up to an observation [R] of the accumulator, for steps that commute only for
   DIFFERENT entries (independent per-key writes into a map) *)
Section FoldRel.
  Context {A B : Type} (f : A -> B -> A) (R : A -> A -> Prop).
  Hypothesis R_refl : forall a, R a a.
  Hypothesis R_trans : forall a b c, R a b -> R b c -> R a c.
  Hypothesis f_proper : forall a b x, R a b -> R (f a x) (f b x).
  Variable indep : B -> B -> Prop.
  Hypothesis f_comm : forall a x y, indep x y -> R (f (f a x) y) (f (f a y) x).

  Lemma fold_left_proper l : forall a b, R a b -> R (fold_left f l a) (fold_left f l b).
  Proof. induction l as [|x l IH]; intros a b H; cbn [fold_left]; [exact H|]. apply IH. apply f_proper. exact H. Qed.

  Definition pairwise_indep (l : list B) : Prop := ForallOrdPairs indep l.

  Lemma fold_left_perm_rel l1 l2 :
    Permutation l1 l2 -> (forall x y, indep x y -> indep y x) ->
    pairwise_indep l1 -> forall a, R (fold_left f l1 a) (fold_left f l2 a).
  Proof.
    intros Hp Hsym. induction Hp as [|x l l' _ IH|x y l|l l' l'' Hp1 IH1 Hp2 IH2]; intros Hind a; cbn [fold_left].
    - apply R_refl.
    - inversion Hind; subst. apply IH. assumption.
    - inversion Hind as [|? ? Hy Hrest]; subst. inversion Hy; subst.
      apply fold_left_proper. apply f_comm. first [assumption|apply Hsym; assumption].
    - eapply R_trans; [apply IH1; exact Hind|]. apply IH2.
      clear - Hp1 Hind Hsym. unfold pairwise_indep in *.
      (* pairwise independence is preserved by permutation *)
      induction Hp1 as [|x l l' Hp IH|x y l|l l' l'' Hp1' IH1' Hp2' IH2'].
      + constructor.
      + inversion Hind; subst. constructor; [|apply IH; assumption].
        eapply Permutation_Forall; eassumption.
      + inversion Hind as [|? ? Hy Hrest]; subst. inversion Hy; subst. inversion Hrest; subst.
        constructor; [constructor; [apply Hsym; assumption|assumption]|]. constructor; assumption.
      + apply IH2'. apply IH1'. exact Hind.
  Qed.
End FoldRel.

(* instances used by the review *)
Lemma sum_perm l1 l2 : Permutation l1 l2 -> fold_left N.add l1 0 = fold_left N.add l2 0.
Proof. intros H. apply fold_left_perm; [intros; lia|exact H]. Qed.
Lemma max_perm l1 l2 : Permutation l1 l2 -> fold_left N.max l1 0 = fold_left N.max l2 0.
Proof. intros H. apply fold_left_perm; [intros; lia|exact H]. Qed.
Lemma count_perm {B} (p : B -> bool) l1 l2 :
  Permutation l1 l2 -> fold_left (fun n x => if p x then n + 1 else n) l1 0 = fold_left (fun n x => if p x then n + 1 else n) l2 0.
Proof. intros H. apply fold_left_perm; [|exact H]. intros a x y. destruct (p x), (p y); lia. Qed.
Lemma all_perm {B} (p : B -> bool) l1 l2 : Permutation l1 l2 -> forallb p l1 = forallb p l2.
Proof.
  induction 1 as [|x l l' _ IH|x y l|l l' l'' _ IH1 _ IH2]; cbn [forallb]; try congruence.
  destruct (p x), (p y); reflexivity.
Qed.
Lemma any_perm {B} (p : B -> bool) l1 l2 : Permutation l1 l2 -> existsb p l1 = existsb p l2.
Proof.
  induction 1 as [|x l l' _ IH|x y l|l l' l'' _ IH1 _ IH2]; cbn [existsb]; try congruence.
  destruct (p x), (p y); reflexivity.
Qed.

(* independent per-key writes: lookups in the resulting map do not depend on the order *)
Definition write_all {V} (l : list (N * V)) (m : list (N * V)) : list (N * V) :=
  fold_left (fun m kv => aset (fst kv) (snd kv) m) l m.

Lemma per_key_writes_perm {V} (l1 l2 : list (N * V)) m :
  Permutation l1 l2 -> NoDup (map fst l1) -> forall k, aget k (write_all l1 m) = aget k (write_all l2 m).
Proof.
  intros Hp Hnd k. unfold write_all.
  apply (fold_left_perm_rel (fun m kv => aset (fst kv) (snd kv) m) (fun a b => forall k, aget k a = aget k b)
                            (fun _ _ => eq_refl) (fun a b c H1 H2 k => eq_trans (H1 k) (H2 k)))
    with (indep := fun x y : N * V => fst x <> fst y); try assumption.
  - intros a b x H k0. destruct (N.eq_dec k0 (fst x)) as [->|Hne].
    + rewrite !aget_aset_same. reflexivity.
    + rewrite !aget_aset_other by exact Hne. apply H.
  - intros a x y Hxy k0.
    destruct (N.eq_dec k0 (fst y)) as [->|Hy].
    + rewrite aget_aset_same. rewrite aget_aset_other by (intros E; apply Hxy; congruence). rewrite aget_aset_same. reflexivity.
    + rewrite aget_aset_other by exact Hy.
      destruct (N.eq_dec k0 (fst x)) as [->|Hx].
      * rewrite !aget_aset_same. reflexivity.
      * rewrite !aget_aset_other by assumption. reflexivity.
  - intros x y H E. apply H. congruence.
  - clear - Hnd. induction l1 as [|x l IH]; [constructor|]. cbn [map] in Hnd. inversion Hnd as [|? ? Hn Hd]; subst.
    constructor; [|apply IH; exact Hd]. apply Forall_forall. intros y Hy E. apply Hn. rewrite E. apply in_map. exact Hy.
Qed.

(* delete-by-predicate (commitment pool, sites in pool.go): what survives is the filtered set *)
Lemma delete_by_predicate_perm {B} (keep : B -> bool) l1 l2 : Permutation l1 l2 -> Permutation (filter keep l1) (filter keep l2).
Proof.
  induction 1 as [|x l l' _ IH|x y l|l l' l'' _ IH1 _ IH2]; cbn [filter].
  - constructor.
  - destruct (keep x); [constructor|]; exact IH.
  - destruct (keep x), (keep y); first [apply perm_swap | apply Permutation_refl].
  - eapply Permutation_trans; eassumption.
Qed.

(* strict-majority arg-max (roothash/api/commitment/pool.go, discrepancy resolution): the loop
   "if v > best { hash = h; best = v }" over a map.  [best] is the maximum; [hash] depends on the
   iteration order only among entries with equal top votes -- and it is only used when
   best >= total/2+1, where the top entry is unique. *)
Definition argmax_step (acc : option N * N) (hv : N * N) : option N * N :=
  if snd acc <? snd hv then (Some (fst hv), snd hv) else acc.
Definition argmax (l : list (N * N)) : option N * N := fold_left argmax_step l (None, 0).
Definition vsum (l : list (N * N)) : N := fold_left (fun a hv => a + snd hv) l 0.

Lemma argmax_inv l : forall acc,
  (forall h, fst acc = Some h -> 0 < snd acc) ->
  snd acc <= snd (fold_left argmax_step l acc) /\
  (forall hv, In hv l -> snd hv <= snd (fold_left argmax_step l acc)) /\
  (fold_left argmax_step l acc = acc \/
   exists h, fst (fold_left argmax_step l acc) = Some h /\ In (h, snd (fold_left argmax_step l acc)) l) /\
  (forall h, fst (fold_left argmax_step l acc) = Some h -> 0 < snd (fold_left argmax_step l acc)).
Proof.
  induction l as [|[h v] l IH]; intros acc Hacc; cbn [fold_left].
  - split; [lia|]. split; [intros hv []|]. split; [left; reflexivity|exact Hacc].
  - unfold argmax_step at 2 4 6 8 10 12 14. cbn [snd fst]. destruct (snd acc <? v) eqn:E.
    + assert (Hpre : forall h0, fst (Some h, v) = Some h0 -> 0 < snd (Some h, v)) by (intros ? _; cbn [snd]; lia).
      destruct (IH (Some h, v) Hpre) as (H1 & H2 & H3 & H4). cbn [fst snd] in H1.
      split; [lia|]. split.
      { intros hv [<-|Hin]; [cbn [snd]; lia|apply H2; exact Hin]. }
      split; [|exact H4].
      right. destruct H3 as [E3|(h' & Hf & Hin)].
      * rewrite E3. exists h. split; [reflexivity|left; reflexivity].
      * exists h'. split; [exact Hf|right; exact Hin].
    + destruct (IH acc Hacc) as (H1 & H2 & H3 & H4).
      split; [lia|]. split.
      { intros hv [<-|Hin]; [cbn [snd]; lia|apply H2; exact Hin]. }
      split; [|exact H4].
      destruct H3 as [E3|(h' & Hf & Hin)]; [left; exact E3|right; exists h'; split; [exact Hf|right; exact Hin]].
Qed.

Lemma vsum_perm l1 l2 : Permutation l1 l2 -> vsum l1 = vsum l2.
Proof. intros H. unfold vsum. apply fold_left_perm; [intros; lia|exact H]. Qed.

Lemma vsum_two l h1 h2 v : NoDup (map fst l) -> In (h1, v) l -> In (h2, v) l -> h1 <> h2 -> 2 * v <= vsum l.
Proof.
  intros Hnd H1 H2 Hne.
  apply in_split in H1 as (la & lb & ->).
  assert (Hp : Permutation (la ++ (h1, v) :: lb) ((h1, v) :: la ++ lb)) by (apply Permutation_sym, Permutation_middle).
  rewrite (vsum_perm _ _ Hp).
  assert (H2' : In (h2, v) (la ++ lb)).
  { apply in_app_or in H2 as [H|[H|H]]; [apply in_or_app; left; exact H|congruence|apply in_or_app; right; exact H]. }
  apply in_split in H2' as (lc & ld & E). rewrite E.
  assert (Hp2 : Permutation ((h1, v) :: lc ++ (h2, v) :: ld) ((h1, v) :: (h2, v) :: lc ++ ld)) by (constructor; apply Permutation_sym, Permutation_middle).
  rewrite (vsum_perm _ _ Hp2). unfold vsum. cbn [fold_left snd].
  assert (Hge : forall (l : list (N * N)) a, a <= fold_left (fun a hv => a + snd hv) l a).
  { clear. induction l as [|x l IH]; intros a; cbn [fold_left]; [lia|]. specialize (IH (a + snd x)). lia. }
  specialize (Hge (lc ++ ld) (0 + v + v)). lia.
Qed.

Theorem majority_argmax_unique l1 l2 :
  NoDup (map fst l1) -> Permutation l1 l2 ->
  snd (argmax l1) = snd (argmax l2) /\
  (vsum l1 < 2 * snd (argmax l1) -> fst (argmax l1) = fst (argmax l2)).
Proof.
  intros Hnd Hp. unfold argmax.
  destruct (argmax_inv l1 (None, 0)) as (_ & M1 & W1 & P1); [intros ? H; discriminate|].
  destruct (argmax_inv l2 (None, 0)) as (_ & M2 & W2 & P2); [intros ? H; discriminate|].
  set (r1 := fold_left argmax_step l1 (None, 0)) in *. set (r2 := fold_left argmax_step l2 (None, 0)) in *.
  assert (Es : snd r1 = snd r2).
  { assert (snd r1 <= snd r2).
    { destruct W1 as [->|(h & _ & Hin)]; [cbn; lia|]. apply (Permutation_in _ Hp) in Hin. apply M2 in Hin. exact Hin. }
    assert (snd r2 <= snd r1).
    { destruct W2 as [->|(h & _ & Hin)]; [cbn; lia|]. apply (Permutation_in _ (Permutation_sym Hp)) in Hin. apply M1 in Hin. exact Hin. }
    lia. }
  split; [exact Es|]. intros Hmaj.
  destruct W1 as [E1|(h1 & F1 & I1)].
  { rewrite E1 in Hmaj. cbn in Hmaj. lia. }
  destruct W2 as [E2|(h2 & F2 & I2)].
  { rewrite E2 in Es. cbn in Es. lia. }
  rewrite F1, F2. f_equal.
  destruct (N.eq_dec h1 h2) as [E|Hne]; [exact E|exfalso].
  apply (Permutation_in _ (Permutation_sym Hp)) in I2. rewrite <- Es in I2.
  pose proof (vsum_two l1 h1 h2 (snd r1) Hnd I1 I2 Hne). lia.
Qed.
