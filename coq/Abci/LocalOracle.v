(* Node-local mutable stores consulted from inside block execution (C01).

   Real code: governance executeProposal tells the node-local upgrade manager about a passed
   upgrade (upgrader.SubmitDescriptor, governance.go:257-264) and about a cancelled one
   (CancelUpgrade, :283-290); completeStateSync re-submits pending upgrades (messages.go:23-35).
   The manager's store is persistent, survives restarts and is written even by executions that
   never commit, so its answers differ between replicas (ErrAlreadyPending on a node that
   executed the closing block before).  On the unchanged tree the answer is only logged.

   Model: the multiplexer's EndBlock loop instrumented with an ARBITRARY local store [L] and
   oracle; every application may put a query to it after its EndBlock; the answer goes to a
   log that is not part of the block's outputs.  Definitions first, proofs below. *)
From Verif Require Import Lib.Base Gen.MuxOrder Abci.Mux Abci.MuxProofs.

Section LocalOracle.
  Variable S : msig.
  Variables L Q Ans : Type.
  Variable oracle : L -> Q -> L * Ans.          (* arbitrary: may mutate the store, may answer anything *)

  Record oracle_app := mkOApp { oa_app : app S; oa_query : sg_state S -> option Q }.

  Fixpoint end_all_o (apps : list oracle_app) (s : sg_state S) (acc : list (sg_evt S)) (vu : list (sg_valupd S))
           (l : L) (log : list Ans) : option (sg_state S * list (sg_evt S) * list (sg_valupd S)) * L * list Ans :=
    match apps with
    | [] => (Some (s, acc, vu), l, log)
    | a :: r =>
      match a_end S (oa_app a) s with
      | None => (None, l, log)
      | Some (s', ev, vu') =>
        let '(l', log') :=
          match oa_query a s' with
          | None => (l, log)
          | Some q => let '(l1, ans) := oracle l q in (l1, log ++ [ans])   (* logged only *)
          end in
        end_all_o r s' (acc ++ ev) (if a_blessed S (oa_app a) then vu' else vu) l' log'
      end
    end.

  (* exec_block with the instrumented EndBlock loop: also returns the local store and the log *)
  Definition exec_block_o (cfg : localcfg) (apps : list oracle_app) (proposing : bool) (s : sg_state S) (b : block)
             (l : L) (log : list Ans) : option (sg_state S * outputs S) * L * list Ans :=
    let plain := map oa_app apps in
    match sg_upgrade_begin S (b_header b) s with
    | None => (None, l, log)
    | Some (s0, uev0) =>
    match begin_all S plain (binfo_of b) s0 uev0 with
    | None => (None, l, log)
    | Some (s1, bev) =>
      match deliver_all S cfg plain (h_proposer (b_header b)) proposing (b_txs b) s1 [] [] with
      | None => (None, l, log)
      | Some (s2, txr, sc) =>
        let '(r, l', log') := end_all_o apps s2 [] [] l log in
        (match r with
         | None => None
         | Some (s3, eev, vu) =>
           if endblock_upgrade_before_validate then
             match sg_upgrade_end S (b_header b) s3 with
             | None => None
             | Some (s4, uev) =>
               let eev' := eev ++ uev in
               let evr := sg_evroot S (all_events S (mkOut S bev txr eev' vu [])) in
               if validate_system S proposing sc s4 evr then Some (s4, mkOut S bev txr eev' vu evr) else None
             end
           else
             let evr := sg_evroot S (all_events S (mkOut S bev txr eev vu [])) in
             if validate_system S proposing sc s3 evr then
               match sg_upgrade_end S (b_header b) s3 with
               | None => None
               | Some (s4, _) => Some (s4, mkOut S bev txr eev vu evr)
               end
             else None
         end, l', log')
      end
    end
    end.

  (* the seeded C01-4 behaviour: the answer decides whether the application's EndBlock result
     is kept or replaced ([on_error]) *)
  Fixpoint end_all_leaky (is_err : Ans -> bool) (on_error : sg_state S -> sg_state S)
           (apps : list oracle_app) (s : sg_state S) (l : L) : sg_state S * L :=
    match apps with
    | [] => (s, l)
    | a :: r =>
      match a_end S (oa_app a) s with
      | None => (s, l)
      | Some (s', _, _) =>
        match oa_query a s' with
        | None => end_all_leaky is_err on_error r s' l
        | Some q => let '(l1, ans) := oracle l q in
                    end_all_leaky is_err on_error r (if is_err ans then on_error s' else s') l1
        end
      end
    end.

  (* ---------------- proofs ---------------- *)
  Lemma end_all_o_ignores apps : forall s acc vu l log,
    fst (fst (end_all_o apps s acc vu l log)) = end_all S (map oa_app apps) s acc vu.
  Proof.
    induction apps as [|a r IH]; intros s acc vu l log; cbn [end_all_o end_all map]; [reflexivity|].
    destruct (a_end S (oa_app a) s) as [[[s' ev] vu']|]; [|reflexivity].
    destruct (oa_query a s') as [q|].
    - destruct (oracle l q) as [l1 ans]. apply IH.
    - apply IH.
  Qed.

  (* Execution with an arbitrary local store whose answers are only logged equals execution
     without it: same committed state, same outputs, for every oracle, store and log. *)
  Theorem exec_block_ignores_local_oracle cfg apps proposing s b l log :
    fst (fst (exec_block_o cfg apps proposing s b l log)) = exec_block S cfg (map oa_app apps) proposing s b.
  Proof.
    unfold exec_block_o, exec_block.
    destruct (sg_upgrade_begin S (b_header b) s) as [[s0 uev0]|]; [|reflexivity].
    destruct (begin_all S _ (binfo_of b) s0 uev0) as [[s1 bev]|]; [|reflexivity].
    destruct (deliver_all S cfg _ _ proposing (b_txs b) s1 [] []) as [[[s2 txr] sc]|]; [|reflexivity].
    pose proof (end_all_o_ignores apps s2 [] [] l log) as H.
    destruct (end_all_o apps s2 [] [] l log) as [[r l'] log']. cbn [fst] in *. subst r. reflexivity.
  Qed.

  (* two replicas with DIFFERENT local stores (one executed the block before, the operator of
     another pre-submitted the descriptor, ...) compute the same block *)
  Corollary replicas_with_different_local_stores_agree cfg1 cfg2 apps proposing s b l1 l2 log1 log2 :
    fst (fst (exec_block_o cfg1 apps proposing s b l1 log1)) = fst (fst (exec_block_o cfg2 apps proposing s b l2 log2)).
  Proof. rewrite !exec_block_ignores_local_oracle. apply exec_block_local. Qed.
End LocalOracle.

(* What the seeded C01-4 change does, in the model: when the answer of the local store decides
   the application's result, two replicas that differ ONLY in their local store (here: whether
   the descriptor is already pending) end the block in different states. *)
Definition submit_descriptor (pending : bool) (_ : N) : bool * bool := (true, pending). (* answer = ErrAlreadyPending? *)
Definition toy_gov : oracle_app toy N := mkOApp toy N toy_sched (fun s => Some s).

Theorem local_answer_used_refuted :
  exists (l1 l2 : bool) (s : sg_state toy),
    fst (end_all_leaky toy bool N bool submit_descriptor (fun e => e) (fun s => s + 1000) [toy_gov] s l1)
    <> fst (end_all_leaky toy bool N bool submit_descriptor (fun e => e) (fun s => s + 1000) [toy_gov] s l2).
Proof. exists false, true, 5. vm_compute. discriminate. Qed.

(* ... while with the logged-only instrumentation the same two replicas agree (instance of the
   theorem above, by computation, as a non-vacuity check) *)
Example logged_only_example :
  fst (fst (exec_block_o toy bool N bool submit_descriptor toy_cfg1 [mkOApp toy N toy_staking (fun _ => None); toy_gov] false 0 toy_block false []))
  = fst (fst (exec_block_o toy bool N bool submit_descriptor toy_cfg2 [mkOApp toy N toy_staking (fun _ => None); toy_gov] false 0 toy_block true [true]))
  /\ snd (exec_block_o toy bool N bool submit_descriptor toy_cfg1 [mkOApp toy N toy_staking (fun _ => None); toy_gov] false 0 toy_block false []) = [false]
  /\ fst (fst (exec_block_o toy bool N bool submit_descriptor toy_cfg1 [mkOApp toy N toy_staking (fun _ => None); toy_gov] false 0 toy_block false [])) <> None.
Proof. vm_compute. repeat split; discriminate. Qed.
