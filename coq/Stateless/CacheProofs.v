(* Proofs about the stateful Core model (Stateless/Cache.v): over arbitrary
   histories of operations -- cache hits, evictions, changing provider
   responses -- every answer handed out is bound to light-client verified
   headers, and the latest block / latest height a client is told has a
   verified header. *)
From Verif Require Import Lib.Base Stateless.Merkle Stateless.Proofs Stateless.Bind Stateless.BindProofs Stateless.Cache.

Local Open Scope nat_scope.

Section LruFacts.
  Context {V : Type}.
  Lemma lru_find_In (k : Z) (l : list (Z * V)) v : lru_find k l = Some v -> In (k, v) l.
  Proof.
    induction l as [|[k' v'] r IH]; cbn; [discriminate|].
    destruct (Z.eqb_spec k' k) as [->|]; intros E.
    - injection E as ->. left; reflexivity.
    - right. apply IH. exact E.
  Qed.
  Lemma In_lru_remove (k : Z) (l : list (Z * V)) x : In x (lru_remove k l) -> In x l.
  Proof.
    induction l as [|[k' v'] r IH]; cbn; [tauto|].
    destruct (k' =? k)%Z; cbn; intros I; [right; apply IH; exact I|].
    destruct I as [I|I]; [left; exact I|right; apply IH; exact I].
  Qed.
  Lemma In_firstn_l {A} (n : nat) (l : list A) x : In x (firstn n l) -> In x l.
  Proof.
    revert l; induction n as [|n IH]; intros [|y l]; cbn; try tauto.
    intros [I|I]; [left; exact I|right; apply IH; exact I].
  Qed.
  Lemma lru_get_hit (k : Z) (l c' : list (Z * V)) v :
    lru_get k l = (Some v, c') -> In (k, v) l /\ forall x, In x c' -> In x l.
  Proof.
    unfold lru_get. destruct (lru_find k l) as [w|] eqn:F; [|discriminate].
    intros E. injection E as -> <-. apply lru_find_In in F. split; [exact F|].
    intros x [<-|I]; [exact F|eapply In_lru_remove; exact I].
  Qed.
  Lemma lru_get_miss (k : Z) (l c' : list (Z * V)) : lru_get k l = (None, c') -> c' = l.
  Proof. unfold lru_get. destruct (lru_find k l); [discriminate|]. intros E. injection E as <-. reflexivity. Qed.
  Lemma In_lru_put cap (k : Z) (v : V) l x : In x (lru_put cap k v l) -> x = (k, v) \/ In x l.
  Proof.
    unfold lru_put. intros [<-|I]; [left; reflexivity|right].
    eapply In_lru_remove, In_firstn_l; exact I.
  Qed.
  (* the capacity is respected *)
  Lemma lru_put_length cap (k : Z) (v : V) l : 1 <= cap -> length (lru_put cap k v l) <= cap.
  Proof. intros C. unfold lru_put. cbn [length]. rewrite firstn_length. lia. Qed.
End LruFacts.

Arguments lru_put {V} cap k v l : simpl never.
Arguments lru_get {V} k l : simpl never.

Section CacheProofs.
  Variable H : bytes -> bytes.
  Variable hlen : nat.
  Hypothesis H_len : forall x, length (H x) = hlen.
  Variable dec : bytes -> meta_tx.
  (* [V h l]: l is the light-client verified light block of height h.
     [R h rh]: rh is the LastResultsHash of the verified light block of height h+1. *)
  Variable V : Z -> light_block -> Prop.
  Variable R : Z -> option bytes -> Prop.

  Definition sr_bound (h : Z) (r : bytes) : Prop :=
    (exists n, V (h + 1) n /\ state_root_from_light_block n = SrOk r) \/
    (exists l txs, V h l /\ verify_transactions H txs l = BOk /\ state_root_from_block_txs dec txs = SrOk r).

  Definition op_wf (o : cop) : Prop :=
    match o with
    | OStateRoot h lb n _ => (forall l, lb = Some l -> V h l) /\ (forall x, n = Some x -> V (h + 1) x)
    | OBlockResults h lb _ nrh _ =>
        (forall l, lb = Some l -> V h l /\ lb_height l = h) /\ (forall rh, nrh = Some rh -> R h rh)
    | OTxResults h lb _ nrh _ _ _ =>
        (forall l, lb = Some l -> V h l /\ lb_height l = h) /\ (forall rh, nrh = Some rh -> R h rh)
    | OApi _ _ => True
    | ONewBlock lb b => forall l, lb = Some l -> V (b_height b) l
    | OWatch => True
    | OLatestHeight _ _ verify => forall h l, verify h = Some l -> V h l
    end.

  Definition inv (st : cstate) : Prop :=
    (forall h r, In (h, r) (sr_cache st) -> sr_bound h r) /\
    (forall h rh, In (h, rh) (rh_cache st) -> R h rh) /\
    (forall b, latest_block st = Some b -> exists l, V (b_height b) l /\ verify_block H b l = BOk).

  Definition answer_ok (o : cop) (a : canswer) : Prop :=
    match o, a with
    | OStateRoot h _ _ _, ARoot (SrOk r) => sr_bound h r
    | OBlockResults h (Some l) lt _ rs, AVerdict BOk =>
        (lb_height l < lt)%Z -> exists rh, R h rh /\ verify_block_results H rs rh l = BOk
    | OTxResults h (Some l) lt _ txs rs _, AVerdict BOk =>
        (* transactions and results of ONE call are bound to ONE verified header *)
        verify_transactions H txs l = BOk /\
        ((lb_height l < lt)%Z -> exists rh, R h rh /\ verify_block_results H rs rh l = BOk)
    | ONewBlock _ b, AVerdict BOk => exists l, V (b_height b) l /\ verify_block H b l = BOk
    | OLatestHeight _ _ _, AHeight (Some h) => exists hr l, V hr l /\ lb_height l = h
    | _, _ => True
    end.

  Lemma inv_init : inv cstate_init.
  Proof. repeat split; cbn; intros; try contradiction; discriminate. Qed.

  Lemma results_step_ok st l lt nrh rs st' v h :
    inv st -> lb_height l = h -> (forall rh, nrh = Some rh -> R h rh) ->
    results_step H st l lt nrh rs = (st', v) ->
    inv st' /\ (v = BOk -> (lb_height l < lt)%Z -> exists rh, R h rh /\ verify_block_results H rs rh l = BOk).
  Proof.
    intros (I1 & I2 & I3) Hl W2 E. unfold results_step in E.
    destruct (Z.leb_spec lt (lb_height l)) as [Le|Gt].
    - injection E as <- <-. split; [repeat split; assumption|]. intros _ C. lia.
    - destruct (lru_get (lb_height l) (rh_cache st)) as [[rh|] c'] eqn:G.
      + injection E as <- <-. apply lru_get_hit in G as [G1 G2].
        split; [repeat split; cbn [sr_cache rh_cache latest_block]; [exact I1|intros h' r' I; apply I2, G2; exact I|exact I3]|].
        intros VR _. exists rh. split; [rewrite <- Hl; apply I2; exact G1|exact VR].
      + destruct nrh as [rh|]; [|injection E as <- <-; split; [repeat split; assumption|discriminate]].
        injection E as <- <-. split.
        * repeat split; cbn [sr_cache rh_cache latest_block]; [exact I1| |exact I3].
          intros h' r' I. apply In_lru_put in I as [I|I]; [|apply I2; exact I].
          injection I as -> ->. rewrite Hl. apply W2. reflexivity.
        * intros VR _. exists rh. split; [apply W2; reflexivity|exact VR].
  Qed.

  Lemma cstep_ok st o st' a :
    inv st -> op_wf o -> cstep H dec st o = (st', a) -> inv st' /\ answer_ok o a.
  Proof.
    intros (I1 & I2 & I3) W E. destruct o as [h lb n txs|h lb lt nrh rs|h lb lt nrh txs rs conv_ok|lb c|lb b| |lt pl verify]; cbn [cstep] in E.
    - (* StateRoot *)
      destruct W as [W1 W2].
      destruct (lru_get h (sr_cache st)) as [[r|] c'] eqn:G.
      + injection E as <- <-. apply lru_get_hit in G as [G1 G2].
        split; [|cbn; apply I1; exact G1].
        repeat split; cbn; [intros h' r' I; apply I1, G2; exact I|exact I2|exact I3].
      + destruct (fetch_state_root_opt H dec lb n txs) as [r|e] eqn:F.
        * injection E as <- <-.
          assert (B : sr_bound h r).
          { unfold fetch_state_root_opt in F.
            destruct n as [x|].
            - destruct (state_root_from_light_block x) as [r'|e'] eqn:S.
              + injection F as <-. left. exists x. split; [apply W2; reflexivity|exact S].
              + destruct lb as [l|]; [|discriminate].
                destruct (verify_transactions H txs l) eqn:T; try discriminate.
                right. exists l, txs. repeat split; [apply W1; reflexivity|exact T|exact F].
            - destruct lb as [l|]; [|discriminate].
              destruct (verify_transactions H txs l) eqn:T; try discriminate.
              right. exists l, txs. repeat split; [apply W1; reflexivity|exact T|exact F]. }
          split; [|exact B].
          repeat split; cbn; [|exact I2|exact I3].
          intros h' r' I. apply In_lru_put in I as [I|I]; [injection I as -> ->; exact B|apply I1; exact I].
        * injection E as <- <-. split; [repeat split; assumption|exact Logic.I].
    - (* BlockResults *)
      destruct W as [W1 W2].
      destruct lb as [l|]; [|injection E as <- <-; split; [repeat split; assumption|exact Logic.I]].
      destruct (results_step H st l lt nrh rs) as [st1 v] eqn:RS. injection E as <- <-.
      destruct (W1 l eq_refl) as [Vl Hl].
      destruct (results_step_ok st l lt nrh rs st1 v h (conj I1 (conj I2 I3)) Hl W2 RS) as [Iv A].
      split; [exact Iv|]. cbn. destruct v; try exact Logic.I. intros C. apply A; [reflexivity|exact C].
    - (* TxResults *)
      destruct W as [W1 W2].
      destruct lb as [l|]; [|injection E as <- <-; split; [repeat split; assumption|exact Logic.I]].
      destruct (verify_transactions H txs l) eqn:T;
        try (injection E as <- <-; split; [repeat split; assumption|exact Logic.I]).
      destruct (results_step H st l lt nrh rs) as [st1 v] eqn:RS. injection E as <- <-.
      destruct (W1 l eq_refl) as [Vl Hl].
      destruct (results_step_ok st l lt nrh rs st1 v h (conj I1 (conj I2 I3)) Hl W2 RS) as [Iv A].
      split; [exact Iv|]. cbn. destruct v; try exact Logic.I. destruct conv_ok; [|exact Logic.I].
      split; [exact T|]. intros C. apply A; [reflexivity|exact C].
    - (* Api *)
      injection E as <- <-. split; [repeat split; assumption|]. cbn. destruct (core_api H lb c); exact Logic.I.
    - (* NewBlock *)
      destruct lb as [l|]; [|injection E as <- <-; split; [repeat split; assumption|exact Logic.I]].
      destruct (verify_block H b l) eqn:VB; injection E as <- <-;
        try (split; [repeat split; assumption|exact Logic.I]).
      assert (X : exists l0, V (b_height b) l0 /\ verify_block H b l0 = BOk) by (exists l; split; [apply W; reflexivity|exact VB]).
      split; [|exact X].
      repeat split; cbn; [exact I1|exact I2|]. intros b' E'. injection E' as <-. exact X.
    - injection E as <- <-. split; [repeat split; assumption|exact Logic.I].
    - (* LatestHeight *)
      destruct (resolve_latest (watching st) lt pl) as [h|]; [|injection E as <- <-; split; [repeat split; assumption|exact Logic.I]].
      destruct (verify h) as [l|] eqn:Vh; injection E as <- <-; (split; [repeat split; assumption|]); [|exact Logic.I].
      cbn. exists h, l. split; [apply (W h l Vh)|reflexivity].
  Qed.

  (* Over every history: the invariant holds at the end and every answer is bound. *)
  Theorem history_bound_l (ops : list cop) : forall st st' answers,
    inv st -> Forall op_wf ops -> crun H dec st ops = (st', answers) ->
    inv st' /\ Forall2 answer_ok ops answers.
  Proof.
    induction ops as [|o r IH]; intros st st' answers I W E; cbn [crun] in E.
    - injection E as <- <-. split; [exact I|constructor].
    - destruct (cstep H dec st o) as [st1 a] eqn:S.
      destruct (crun H dec st1 r) as [st2 l] eqn:C.
      injection E as <- <-.
      inversion W as [|? ? W1 W2]; subst.
      destruct (cstep_ok _ _ _ _ I W1 S) as [I1 A1].
      destruct (IH _ _ _ I1 W2 C) as [I2 A2].
      split; [exact I2|constructor; assumption].
  Qed.

  (* Two state roots handed out for the same height, at any two points of any
     history, are equal (or H collides), provided verified light blocks are
     unique per height and the chain is consistent: the next header's AppHash
     is the state root the metadata transaction of the verified transactions
     carries. *)
  Theorem state_root_unique_l (h : Z) (r1 r2 : bytes) :
    (forall k l1 l2, V k l1 -> V k l2 -> l1 = l2) ->
    (forall n l txs r, V (h + 1) n -> V h l -> verify_transactions H txs l = BOk ->
       state_root_from_block_txs dec txs = SrOk r -> state_root_from_light_block n = SrOk r) ->
    sr_bound h r1 -> sr_bound h r2 -> r1 = r2 \/ collision H.
  Proof.
    intros U C [(n1 & V1 & S1)|(l1 & t1 & V1 & T1 & S1)] [(n2 & V2 & S2)|(l2 & t2 & V2 & T2 & S2)].
    - left. rewrite (U _ _ _ V1 V2) in S1. congruence.
    - left. pose proof (C _ _ _ _ V1 V2 T2 S2). congruence.
    - left. pose proof (C _ _ _ _ V2 V1 T1 S1). congruence.
    - rewrite (U _ _ _ V1 V2) in T1.
      destruct (verify_transactions_binds_l H hlen H_len _ _ _ T1 T2) as [->|c]; [left; congruence|right; exact c].
  Qed.
End CacheProofs.

(* non-vacuity: a history with a miss, a hit with a changed provider answer,
   and a latest-height query *)
Example ex_history :
  let lb7 := ex_lb in
  snd (crun toyH (fun _ => MtTx true (Some [4; 2]%N)) cstate_init
         [OStateRoot 7 (Some lb7) None ex_txs;            (* miss: metadata transaction path *)
          OStateRoot 7 (Some lb7) None [[9]%N];            (* hit: the provider's garbage is not consulted *)
          OStateRoot 8 None None [[9]%N];                  (* nothing verifiable *)
          ONewBlock (Some lb7) ex_block;
          OLatestHeight None 7 (fun h => if (h =? 7)%Z then Some lb7 else None);
          OLatestHeight None 9 (fun h => if (h =? 7)%Z then Some lb7 else None)])
  = [ARoot (SrOk [4; 2]%N); ARoot (SrOk [4; 2]%N); ARoot (SrErr BOther); AVerdict BOk;
     AHeight (Some 7%Z); AHeight None].
Proof. vm_compute. reflexivity. Qed.
