(* Model of the CometBFT "simple" (RFC-6962 style) Merkle tree and its
   inclusion proofs, as used by oasis-core for transaction inclusion proofs.

   Ported from
     cometbft crypto/merkle/hash.go   (leafHash, innerHash, emptyHash)
     cometbft crypto/merkle/tree.go   (HashFromByteSlices, getSplitPoint)
     cometbft crypto/merkle/proof.go  (ProofsFromByteSlices, Proof.Verify,
                                       computeHashFromAunts)
     go/consensus/cometbft/crypto/merkle/merkle.go:13-63 (the tree is built over
       the SHA-256 hashes of the transactions, not over the transactions)

   Executable definitions only.  The hash function is a Section variable and
   is never assumed injective. *)
From Verif Require Import Lib.Base.

(* Result of a recursion that ran out of fuel.  Never produced by [root] /
   [aunts] (see Proofs.root_eq, Proofs.aunts_eq); 256 is not a byte. *)
Definition out_of_fuel : bytes := [256].

Section Merkle.
  Variable H : bytes -> bytes.

  (* hash.go:15-27 *)
  Definition empty_hash : bytes := H [].
  Definition leaf_hash (x : bytes) : bytes := H (0 :: x).
  Definition inner_hash (l r : bytes) : bytes := H (1 :: l ++ r).

  (* tree.go:95-106 getSplitPoint: the largest power of two strictly less than
     [n] (for n >= 2; bits.Len(n)-1 = log2 n). *)
  Definition split_point (n : N) : N :=
    let k := 2 ^ (N.log2 n) in
    if k =? n then k / 2 else k.
  Definition split_nat (n : nat) : nat := N.to_nat (split_point (N.of_nat n)).

  (* tree.go:9-21 HashFromByteSlices.  The recursion on items[:k] / items[k:]
     is made structural with fuel; [root] supplies enough. *)
  Fixpoint root_fuel (fuel : nat) (items : list bytes) : bytes :=
    match fuel with
    | O => out_of_fuel
    | S f =>
        match items with
        | [] => empty_hash
        | [x] => leaf_hash x
        | _ =>
            let k := split_nat (length items) in
            inner_hash (root_fuel f (firstn k items)) (root_fuel f (skipn k items))
        end
    end.
  Definition root (items : list bytes) : bytes := root_fuel (S (length items)) items.

  (* merkle.go:55-63, 65-76: RootHashOfTransactions hashes every transaction
     first. *)
  Definition tx_root (txs : list bytes) : bytes := root (map H txs).

  (* proof.go:27-32 *)
  Record proof := mkProof {
    p_total : Z;            (* int64 *)
    p_index : Z;            (* int64 *)
    p_leaf_hash : bytes;
    p_aunts : list bytes;   (* from the leaf's sibling up to the root's child *)
  }.

  (* proof.go:34-49 + 206-253: trailsFromByteSlices / FlattenAunts build a
     pointer structure; the aunts of leaf [i] are, bottom-up, the hashes of the
     sibling subtrees on the path to the root. *)
  Fixpoint aunts_fuel (fuel : nat) (items : list bytes) (i : nat) : list bytes :=
    match fuel with
    | O => [out_of_fuel]
    | S f =>
        match items with
        | [] => []
        | [_] => []
        | _ =>
            let k := split_nat (length items) in
            if Nat.ltb i k
            then aunts_fuel f (firstn k items) i ++ [root (skipn k items)]
            else aunts_fuel f (skipn k items) (i - k) ++ [root (firstn k items)]
        end
    end.
  Definition aunts (items : list bytes) (i : nat) : list bytes :=
    aunts_fuel (S (length items)) items i.

  Definition proof_for (items : list bytes) (i : nat) : proof :=
    mkProof (Z.of_nat (length items)) (Z.of_nat i) (leaf_hash (nth i items [])) (aunts items i).
  Definition proofs_for (items : list bytes) : list proof :=
    map (proof_for items) (seq 0 (length items)).
  (* merkle.go:22-30 ProofsForTransactions *)
  Definition proofs_for_txs (txs : list bytes) : bytes * list proof :=
    (tx_root txs, proofs_for (map H txs)).

  (* proof.go:163-196 computeHashFromAunts.  [raunts] is the aunt list
     REVERSED (the Go code consumes innerHashes from the end), so that the
     recursion is structural. *)
  Fixpoint compute_from_raunts (index total : Z) (leaf : bytes) (raunts : list bytes) : option bytes :=
    if ((index >=? total) || (index <? 0) || (total <=? 0))%Z then None
    else if (total =? 1)%Z then
      match raunts with
      | [] => Some leaf
      | _ => None                       (* "unexpected inner hashes" *)
      end
    else
      match raunts with
      | [] => None                      (* "expected at least one inner hash" *)
      | a :: rest =>
          let k := Z.of_N (split_point (Z.to_N total)) in
          if (index <? k)%Z then
            match compute_from_raunts index k leaf rest with
            | Some l => Some (inner_hash l a)
            | None => None
            end
          else
            match compute_from_raunts (index - k) (total - k) leaf rest with
            | Some r => Some (inner_hash a r)
            | None => None
            end
      end.
  Definition compute_root_hash (p : proof) : option bytes :=
    compute_from_raunts (p_index p) (p_total p) (p_leaf_hash p) (rev (p_aunts p)).

  Inductive mverdict :=
  | MOk
  | MDecode        (* merkle.go:35-38: the CBOR proof does not decode *)
  | MNilRoot       (* proof.go:54 *)
  | MTotalNeg      (* proof.go:57 *)
  | MIndexNeg      (* proof.go:60 *)
  | MLeafHash      (* proof.go:64 *)
  | MCompute       (* proof.go:68 *)
  | MRoot.         (* proof.go:71 *)

  (* proof.go:51-75 Proof.Verify; [root_hash = None] is a nil slice. *)
  Definition verify (root_hash : option bytes) (p : proof) (leaf : bytes) : mverdict :=
    match root_hash with
    | None => MNilRoot
    | Some rh =>
        if (p_total p <? 0)%Z then MTotalNeg
        else if (p_index p <? 0)%Z then MIndexNeg
        else if negb (bytes_eqb (p_leaf_hash p) (leaf_hash leaf)) then MLeafHash
        else match compute_root_hash p with
             | None => MCompute
             | Some c => if bytes_eqb c rh then MOk else MRoot
             end
    end.

  (* merkle.go:34-50 Verify / VerifyTransaction; [p = None]: decodeProof failed *)
  Definition verify_item (p : option proof) (root_hash : option bytes) (item : bytes) : mverdict :=
    match p with
    | None => MDecode
    | Some p => verify root_hash p item
    end.
  Definition verify_tx (p : option proof) (root_hash : option bytes) (tx : bytes) : mverdict :=
    verify_item p root_hash (H tx).
End Merkle.

Definition mverdict_eqb (a b : mverdict) : bool :=
  match a, b with
  | MOk, MOk | MDecode, MDecode | MNilRoot, MNilRoot | MTotalNeg, MTotalNeg
  | MIndexNeg, MIndexNeg | MLeafHash, MLeafHash | MCompute, MCompute | MRoot, MRoot => true
  | _, _ => false
  end.

(* ---------- evaluation with a finite hash table (correspondence cases) ------
   The harness computes with the real SHA-256 every digest the model needs for
   one case and ships the (preimage, digest) pairs; a missing entry yields
   [hash_missing], which can never equal a real digest (256 is not a byte). *)
Definition hash_missing : bytes := [256; 256].
Fixpoint tbl_hash (t : list (bytes * bytes)) (x : bytes) : bytes :=
  match t with
  | [] => hash_missing
  | (p, d) :: r => if bytes_eqb p x then d else tbl_hash r x
  end.

Definition proof_eqb (a b : proof) : bool :=
  (p_total a =? p_total b)%Z && (p_index a =? p_index b)%Z &&
  bytes_eqb (p_leaf_hash a) (p_leaf_hash b) && list_eqb bytes_eqb (p_aunts a) (p_aunts b).

(* One merkle correspondence case: a transaction list, and queries
   (proof, root, tx) against VerifyTransaction. *)
Definition mquery := (option proof * option bytes * bytes)%type.
Definition mcase := (list (bytes * bytes) * list bytes * bool * list mquery)%type.
Definition mout := (bytes * list proof * list mverdict)%type.
Definition run_mcase (c : mcase) : mout :=
  let '(tbl, txs, want_proofs, qs) := c in
  let Hh := tbl_hash tbl in
  let '(r, ps) := proofs_for_txs Hh txs in
  (r, (if want_proofs then ps else []), map (fun q : mquery => let '(p, rh, tx) := q in verify_tx Hh p rh tx) qs).
Definition mout_eqb (a b : mout) : bool :=
  let '(r1, p1, v1) := a in
  let '(r2, p2, v2) := b in
  bytes_eqb r1 r2 && list_eqb proof_eqb p1 p2 && list_eqb mverdict_eqb v1 v2.
