(* Coverage of the provider-backed functions of
   go/consensus/cometbft/stateless by the C19 model.  The list of functions
   that call the untrusted provider directly, the provider methods and the
   package functions they call is REGENERATED from the source
   (Gen/StatelessApi.v, harness/cmd/gen statelessapi); this file states what it
   is expected to be and which model function covers each entry.  A new
   provider-backed query, a removed guard or a new provider call changes the
   generated table and breaks [stateless_api_covered]. *)
From Coq Require Import String List.
Import ListNotations.
From Verif Require Import Gen.StatelessApi.
Open Scope string_scope.

Inductive cover :=
| Guarded (model : string)       (* the model function (Bind.v / Cache.v) that ports the guard *)
| Passthrough (why : string).    (* handed through unverified, on purpose *)

Definition expected_provider_backed : list (string * (list string * list string)) := [
  ("Core.EstimateGas", (["EstimateGas"], []));
  ("Core.GetBlock", (["GetBlock"], ["lightBlock"; "verifyBlock"]));
  ("Core.GetBlockResults", (["GetBlockResults"], ["lightBlock"; "verifyBlockResults"]));
  ("Core.GetParameters", (["GetParameters"], ["lightBlock"; "verifyParameters"]));
  ("Core.GetTransactions", (["GetTransactions"], ["lightBlock"; "verifyTransactions"]));
  ("Core.GetTransactionsWithResults", (["GetBlockResults"], ["GetTransactions"; "lightBlock"; "verifyBlockResults"]));
  ("Core.GetUnconfirmedTransactions", (["GetUnconfirmedTransactions"], []));
  ("Core.GetValidators", (["GetValidators"], ["lightBlock"; "verifyNextValidators"]));
  ("Core.State", (["State"], []));
  ("Core.SubmitEvidence", (["SubmitEvidence"], []));
  ("Core.SubmitTx", (["SubmitTx"], []));
  ("Core.SubmitTxNoWait", (["SubmitTxNoWait"], []));
  ("Core.SubmitTxWithProof", (["SubmitTxWithProof"], ["lightBlock"; "verifyTransactionProof"]));
  ("Core.resolveHeight", (["GetLatestHeight"], []));
  ("Core.watchBlocks", (["WatchBlocks"], ["handleNewBlock"]));
  ("NewServices", (["State"], ["NewCore"]))
].

Definition api_coverage : list (string * cover) := [
  ("Core.EstimateGas", Passthrough "core.go:100-103: the estimate cannot be verified without simulating; callers must bound it");
  ("Core.GetBlock", Guarded "core_get_block");
  ("Core.GetBlockResults", Guarded "core_verify_block_results / cstep OBlockResults");
  ("Core.GetParameters", Guarded "core_get_parameters");
  ("Core.GetTransactions", Guarded "core_get_transactions");
  ("Core.GetTransactionsWithResults", Guarded "core_get_transactions_with_results");
  ("Core.GetUnconfirmedTransactions", Passthrough "core.go:381: unconfirmed transactions cannot be verified");
  ("Core.GetValidators", Guarded "core_get_validators");
  ("Core.State", Passthrough "raw read syncer; every read is verified by the mkvs remote tree against Core.StateRoot (cstep OStateRoot)");
  ("Core.SubmitEvidence", Passthrough "write path: nothing is returned to the caller");
  ("Core.SubmitTx", Passthrough "write path: nothing is returned to the caller");
  ("Core.SubmitTxNoWait", Passthrough "write path: nothing is returned to the caller");
  ("Core.SubmitTxWithProof", Guarded "core_submit_tx_with_proof");
  ("Core.resolveHeight", Guarded "resolve_latest / cstep OLatestHeight: the claimed height is only used after the light client verified it");
  ("Core.watchBlocks", Guarded "cstep ONewBlock (handleNewBlock)");
  ("NewServices", Passthrough "hands provider.State() to the light query factories, which read through mkvs trees rooted at Core.StateRoot")
].

Lemma stateless_api_covered_l :
  stateless_provider_backed = expected_provider_backed /\
  map fst api_coverage = map fst stateless_provider_backed.
Proof. split; reflexivity. Qed.
