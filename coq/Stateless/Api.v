(* Coverage of the provider-backed functions of
   go/consensus/cometbft/stateless by the C19 model.  The list of functions
   that call the untrusted provider directly, the provider methods and the
   package functions they call is REGENERATED from the source
   (Gen/StatelessApi.v, harness/cmd/gen statelessapi); this file states what it
   is expected to be and which model function covers each entry.  A new
   provider-backed query, a removed guard or a new provider call changes the
   generated table and breaks [stateless_api_covered]. *)
From Coq Require Import String List.
Import ListNotations.
From Verif Require Import Gen.StatelessApi.
Open Scope string_scope.

Inductive cover :=
| Guarded (model : string)       (* the model function (Bind.v / Cache.v) that ports the guard *)
| Passthrough (why : string).    (* handed through unverified, on purpose *)

Definition expected_provider_backed : list (string * (list string * list string)) := [
  ("Core.EstimateGas", (["EstimateGas"], []));
  ("Core.GetBlock", (["GetBlock"], ["lightBlock"; "verifyBlock"]));
  ("Core.GetBlockResults", (["GetBlockResults"], ["lightBlock"; "verifyBlockResults"]));
  ("Core.GetParameters", (["GetParameters"], ["lightBlock"; "verifyParameters"]));
  ("Core.GetTransactions", (["GetTransactions"], ["lightBlock"; "verifyTransactions"]));
  ("Core.GetTransactionsWithResults", (["GetBlockResults"], ["GetTransactions"; "lightBlock"; "verifyBlockResults"]));
  ("Core.GetUnconfirmedTransactions", (["GetUnconfirmedTransactions"], []));
  ("Core.GetValidators", (["GetValidators"], ["lightBlock"; "verifyNextValidators"]));
  ("Core.State", (["State"], []));
  ("Core.SubmitEvidence", (["SubmitEvidence"], []));
  ("Core.SubmitTx", (["SubmitTx"], []));
  ("Core.SubmitTxNoWait", (["SubmitTxNoWait"], []));
  ("Core.SubmitTxWithProof", (["SubmitTxWithProof"], ["lightBlock"; "verifyTransactionProof"]));
  ("Core.resolveHeight", (["GetLatestHeight"], []));
  ("Core.watchBlocks", (["WatchBlocks"], ["handleNewBlock"]));
  ("NewServices", (["State"], ["NewCore"]))
].

Definition api_coverage : list (string * cover) := [
  ("Core.EstimateGas", Passthrough "core.go:100-103: the estimate cannot be verified without simulating; callers must bound it");
  ("Core.GetBlock", Guarded "core_get_block");
  ("Core.GetBlockResults", Guarded "core_verify_block_results / cstep OBlockResults");
  ("Core.GetParameters", Guarded "core_get_parameters");
  ("Core.GetTransactions", Guarded "core_get_transactions");
  ("Core.GetTransactionsWithResults", Guarded "core_get_transactions_with_results");
  ("Core.GetUnconfirmedTransactions", Passthrough "core.go:381: unconfirmed transactions cannot be verified");
  ("Core.GetValidators", Guarded "core_get_validators");
  ("Core.State", Passthrough "raw read syncer; every read is verified by the mkvs remote tree against Core.StateRoot (cstep OStateRoot)");
  ("Core.SubmitEvidence", Passthrough "write path: nothing is returned to the caller");
  ("Core.SubmitTx", Passthrough "write path: nothing is returned to the caller");
  ("Core.SubmitTxNoWait", Passthrough "write path: nothing is returned to the caller");
  ("Core.SubmitTxWithProof", Guarded "core_submit_tx_with_proof");
  ("Core.resolveHeight", Guarded "resolve_latest / cstep OLatestHeight: the claimed height is only used after the light client verified it");
  ("Core.watchBlocks", Guarded "cstep ONewBlock (handleNewBlock)");
  ("NewServices", Passthrough "hands provider.State() to the light query factories, which read through mkvs trees rooted at Core.StateRoot")
].

(* Everything on the path from the provider's bytes to the compared hashes
   (the guards, the decoders they call in go/consensus/cometbft/{api,light,
   crypto/merkle,full}, the state-root / results-hash / latest-height helpers),
   pinned by the SHA-256 of the printed declaration, plus the CometBFT module
   version the hash functions come from.  A change to the decoding or
   normalisation on the verification path (e.g. light.DecodeValidators
   re-ordering the decoded set) breaks [stateless_api_covered]; the entry is
   updated here only after the model was checked against the new code. *)
Definition expected_verification_path : list (string * string) := [
  ("consensus/cometbft/api.NewBlockResultsMeta", "e7c0a639dee28c4cce91338debac08f5d71057b31f28fb91ae562010cd597f41");
  ("consensus/cometbft/crypto/merkle.Proofs", "40fb4b437fb33983c2dfcf9e1e52d89cae0de0bd47a94d7f3705507628df80c8");
  ("consensus/cometbft/crypto/merkle.ProofsForTransactions", "445b543268d5f9cd7c52933c38ca9523eb2ddc4804c10756ce5b474e36fb694e");
  ("consensus/cometbft/crypto/merkle.Verify", "7e136509908b64a80b47e31e077c052be77520b272bf6734361674fc25505cfd");
  ("consensus/cometbft/crypto/merkle.VerifyTransaction", "8f32fe366c58d88c87b4e277f4a5550a3bddcdfe995a594fd09b5832c6890882");
  ("consensus/cometbft/crypto/merkle.decodeProof", "bc59c3194fdcee4d044a2415ebe457caabb6c4bacfc54ddf1cece2497a981a6c");
  ("consensus/cometbft/crypto/merkle.encodeProof", "cdda2507cf4f389dac0edb52e708a0d4be80f3aba767baa6c05265512ef38d9a");
  ("consensus/cometbft/crypto/merkle.encodeProofs", "85381b3cfcd75223c4fc357ec0043ee02f1aa0624252a6846021631ac70b4730");
  ("consensus/cometbft/crypto/merkle.hashTransaction", "50fcb69ccedbe71886e433e388b7801f32c8bc09b6cf75d93c0e8502f55fbb5d");
  ("consensus/cometbft/crypto/merkle.hashTransactions", "038002941d426ea7fbf9bb2ae09be99edadf89786f5a2b0abe37d9ea217a9ce2");
  ("consensus/cometbft/full.TransactionResultsFromCometBFT", "d4240457783f4ba1677635e8b2cb5ad38e6795725d6416d99241ed3ce6d5a82b");
  ("consensus/cometbft/light.DecodeValidators", "79023658b95853a66e0f4d4de52733688a62d73a276a44dc173f9d75041e043d");
  ("consensus/cometbft/light.EncodeLightBlock", "836a78964df5356b0716236b4735c8bbf96de21ac949cd68461cec41eb70251a");
  ("consensus/cometbft/light.EncodeValidators", "6a2cd1a126aa0e4138dba0306d9b8d26816294fec0100aee7b63b6927f33530f");
  ("consensus/cometbft/light.lightBlockToProto", "019fb5bb6ab6f73937ae8442c35aa60c202af3be5ad015c81ade3aba5a5902a0");
  ("consensus/cometbft/stateless.Core.EstimateGas", "749f241f82a42326edbd7d4a1141c067ad4a699601bbd46074e498bcbb1f131b");
  ("consensus/cometbft/stateless.Core.GetBlock", "3c4aa0b588110748ba8ced3e38c13935ce4db2cf9aefb72413164cd7b0cdad69");
  ("consensus/cometbft/stateless.Core.GetBlockResults", "46715aad6a2f946553444645b98d86bb357dd75ffe204215a2206713f27f4359");
  ("consensus/cometbft/stateless.Core.GetLatestHeight", "ca49140d1e9808d61e31e1d1d5187dfdd956e236097ec511b9fc506fd1a3acdd");
  ("consensus/cometbft/stateless.Core.GetLightBlock", "ae56ebe5f329e763c15ed90a8ecd8119975b2e7bcf56e1a317bb0ad63f9476b6");
  ("consensus/cometbft/stateless.Core.GetNextBlockState", "81abe62b8d7684336117f024074958757f7f92f2b455b1b17095b5ecf2bf0ad0");
  ("consensus/cometbft/stateless.Core.GetParameters", "757b32368424d5d69d517b4c132d9bbfaead089fdda55f16912f9859484ecde1");
  ("consensus/cometbft/stateless.Core.GetTransactions", "7d227f8d61e216c5a33e34cc57a6f00e26e3185bb4b56a1f2f1c6a738ef038b7");
  ("consensus/cometbft/stateless.Core.GetTransactionsWithProofs", "dee6bfedc4aeff78941e6fb5c79980ce35b84f5e09124da3f809bc27de55fb68");
  ("consensus/cometbft/stateless.Core.GetTransactionsWithResults", "42aa9b72fe97c2e9cd856da4202e870b0f6597f0379d977c325ea406ee8d71ed");
  ("consensus/cometbft/stateless.Core.GetUnconfirmedTransactions", "d83b6a32379a0debc2a65dd12459ad9d44244aef40f4a1b7b6410d8ffdaedac8");
  ("consensus/cometbft/stateless.Core.GetValidators", "789b21057a00cc0fbe965811f7aafe23699a6dd36d2c6ec9b53350c9e65c3044");
  ("consensus/cometbft/stateless.Core.Serve", "1c136ea8d5da539ecf7c107bb3e59bfc066fe3a06ae6cc5e2015dafe28b08646");
  ("consensus/cometbft/stateless.Core.State", "81af22bfbfa2fb4f76d8d9b60487f5b4f44c15ab0e608de96369762ea805f4a1");
  ("consensus/cometbft/stateless.Core.StateRoot", "a9784d3909fedb95d9377e74107328c6663bb8010914e29659602ac6206a4bc4");
  ("consensus/cometbft/stateless.Core.SubmitEvidence", "03323d7a402ffb2473c91171d5b4282582644ccf02ccd381f21293adde073f0c");
  ("consensus/cometbft/stateless.Core.SubmitTx", "d81ef302ad37c5a1305ac3a53771c280bf9985f6f5582caad965883b67a5cd5e");
  ("consensus/cometbft/stateless.Core.SubmitTxNoWait", "d74cf2b2cd0c9ff0d89df1cb6085177998740232f4183316c92202c9df94c1ad");
  ("consensus/cometbft/stateless.Core.SubmitTxWithProof", "c502a693fd3b739cabdecc2c97c493bb5a3a4218d13d6be8773ef2dcfbb151c2");
  ("consensus/cometbft/stateless.Core.fetchResultsHash", "3302a4e7e92ec8c2d8bdfb7b06083da84455e73c0ec7322166254d70ac4365ed");
  ("consensus/cometbft/stateless.Core.fetchResultsHashFromLightBlock", "d916d195bfc75574254269fafe0f23ac04ac8e9605dbea1d7de170534c2eb365");
  ("consensus/cometbft/stateless.Core.fetchStateRoot", "da974a0ba872e8ac70133e24ee1993dad94f485aa98a3e86b2faf0b680a0192a");
  ("consensus/cometbft/stateless.Core.fetchStateRootFromLightBlock", "2f68b75168e7ad5249da7b21391c006ffe7a79fa3cb466894878137754db4329");
  ("consensus/cometbft/stateless.Core.fetchStateRootFromMetaTx", "9afd2ed18db902e7e5fdaa199ca804ddbb1d590743cc14cbc423cea2ec63cb57");
  ("consensus/cometbft/stateless.Core.handleNewBlock", "3d6bea613d98cb3a3bd26e1501fb1a17da5047123c4170f33594438f68592fad");
  ("consensus/cometbft/stateless.Core.lightBlock", "c79da4a6915aea3786b372c37e7baa406e0d8347122439ff24e1b2e6ef9df779");
  ("consensus/cometbft/stateless.Core.resolveHeight", "744676076fb9da96a93ccc23f313f8c1e2b1839ee987971b35288a8369ee491c");
  ("consensus/cometbft/stateless.Core.resultsHash", "deab351c660401c450bf956ebeb2f725feb5ca5839683c6a615982c429742945");
  ("consensus/cometbft/stateless.Core.retryLightBlock", "a39a64296350156c42d1e52c3176d9393f72d138a1f46265ae71ae6ebc4487db");
  ("consensus/cometbft/stateless.Core.serve", "ced9126c67bfaa95d84cc1c11994da09cc2820d54eb418185dcb493d95267c71");
  ("consensus/cometbft/stateless.Core.stateRoot", "bbb49f2757c2e640d0217f250242cae7664ae670fe94bc3fc9c847952029e91b");
  ("consensus/cometbft/stateless.Core.verifyBlockResults", "d30c8430b52a061c6ee031dd8a2f1b38ebb01e234f9e5988e23a89340299429d");
  ("consensus/cometbft/stateless.Core.verifyNextValidators", "27c6ef5c623e6980ddc387569f2b507df731b39285fd35229cb892c7a17af4aa");
  ("consensus/cometbft/stateless.Core.verifyParameters", "e6dce65333712f76fc0f27817436f28a98bcb272dcd272a91b255c8997c8246c");
  ("consensus/cometbft/stateless.Core.watchBlocks", "a0fd449513638da7a9d3881e7890ff3f746a7fd5d9acdf0b66862b1e3e66e650");
  ("consensus/cometbft/stateless.stateRootFromBlockTxs", "78c216f6d4e60bccb1f8068b66ec2f05059798183a1d47beb7574d24fb72fd3b");
  ("consensus/cometbft/stateless.stateRootFromMetaTx", "6853903a1ed3c0214fc6c3ecaf273c86c89dace8a4c83de49ebe9ec641e74933");
  ("consensus/cometbft/stateless.transactionsWithProofs", "860e7b84258e88d35951aee09d591d3c5a1c3f13f859b3fecaa3321d4e2a3994");
  ("consensus/cometbft/stateless.verifyBlock", "00d03e1376e729274ae475e039e1e756bbca62664cf182e41eb16962dc5577ba");
  ("consensus/cometbft/stateless.verifyBlockResults", "aa45f5700887e170a7dcf3e611d11eabdba47a309be7a1cee50968d0b005beed");
  ("consensus/cometbft/stateless.verifyTransactionProof", "5610a46c1b632cb6dab6353f288254688a290c875b58bc7e92d478087edbf195");
  ("consensus/cometbft/stateless.verifyTransactions", "21a79b13286940fa9d3ca821aa31e2f32e97c8bec868df707ce0e895d2d50866");
  ("go.mod cometbft", "github.com/oasisprotocol/cometbft v0.37.18-oasis3")
].

Lemma stateless_api_covered_l :
  stateless_provider_backed = expected_provider_backed /\
  map fst api_coverage = map fst stateless_provider_backed /\
  stateless_verification_path = expected_verification_path.
Proof. repeat split; reflexivity. Qed.
