(* Proofs about the simple Merkle tree model (Stateless/Merkle.v).
   The hash [H] is arbitrary; the only thing assumed about it is that its
   output has a fixed length [hlen] (true of SHA-256, hlen = 32).  This is
   needed because innerHash hashes the plain concatenation l ++ r: without a
   fixed digest length the split between l and r would be ambiguous.
   Injectivity is never assumed: conclusions are "... \/ collision". *)
From Verif Require Import Lib.Base Stateless.Merkle.

Local Open Scope nat_scope.

Definition bytes_dec : forall a b : bytes, {a = b} + {a <> b} := list_eq_dec N.eq_dec.

Lemma bytes_eqb_refl (a : bytes) : bytes_eqb a a = true.
Proof. apply bytes_eqb_eq. reflexivity. Qed.

Lemma app_eq_len {A} (l1 l2 r1 r2 : list A) :
  length l1 = length l2 -> l1 ++ r1 = l2 ++ r2 -> l1 = l2 /\ r1 = r2.
Proof.
  revert l2; induction l1 as [|a l1 IH]; intros [|b l2] Hl E; cbn in *; try discriminate.
  - split; [reflexivity|exact E].
  - injection E as -> E. destruct (IH l2) as [-> ->]; [lia|exact E|]. split; reflexivity.
Qed.

Lemma nth_app_firstn {A} (l : list A) k i d :
  i < k -> k <= length l -> nth i (firstn k l) d = nth i l d.
Proof.
  intros Hi Hk. rewrite <- (firstn_skipn k l) at 2.
  rewrite app_nth1; [reflexivity|]. rewrite firstn_length. lia.
Qed.
Lemma nth_app_skipn {A} (l : list A) k i d :
  k <= i -> k <= length l -> nth (i - k) (skipn k l) d = nth i l d.
Proof.
  intros Hi Hk. rewrite <- (firstn_skipn k l) at 2.
  rewrite app_nth2; rewrite firstn_length; [|lia].
  replace (Nat.min k (length l)) with k by lia. reflexivity.
Qed.

(* ---------- split point ---------- *)
Lemma split_point_bounds (n : N) : (2 <= n)%N -> (1 <= split_point n /\ split_point n < n)%N.
Proof.
  intros Hn. unfold split_point.
  destruct (N.log2_spec n) as [Hlo Hhi]; [lia|].
  assert (Hpos : (1 <= 2 ^ N.log2 n)%N).
  { assert (2 ^ N.log2 n <> 0)%N by (apply N.pow_nonzero; lia). lia. }
  set (k := (2 ^ N.log2 n)%N) in *.
  destruct (N.eqb_spec k n) as [E|E].
  - assert (k / 2 < k)%N by (apply N.div_lt; lia).
    assert (1 <= k / 2)%N.
    { assert (1 * 2 <= k)%N by lia. apply N.div_le_lower_bound in H0; lia. }
    lia.
  - lia.
Qed.

Lemma split_nat_bounds (n : nat) : 2 <= n -> 1 <= split_nat n /\ split_nat n < n.
Proof.
  intros Hn. unfold split_nat.
  destruct (split_point_bounds (N.of_nat n)) as [A B]; lia.
Qed.

Lemma split_Z_nat (n : nat) : Z.of_N (split_point (Z.to_N (Z.of_nat n))) = Z.of_nat (split_nat n).
Proof.
  unfold split_nat. replace (Z.to_N (Z.of_nat n)) with (N.of_nat n) by lia. lia.
Qed.

Section MerkleProofs.
  Variable H : bytes -> bytes.
  Variable hlen : nat.
  Hypothesis H_len : forall x, length (H x) = hlen.

  Definition collision : Prop := exists x y : bytes, x <> y /\ H x = H y.

  Notation root := (root H).
  Notation leaf_hash := (leaf_hash H).
  Notation inner_hash := (inner_hash H).
  Notation empty_hash := (empty_hash H).

  Lemma hash_eq_dec (x y : bytes) : H x = H y -> x = y \/ collision.
  Proof.
    intros E. destruct (bytes_dec x y) as [e|ne]; [left; exact e|right; exists x, y; split; assumption].
  Qed.

  (* ---------- fuel irrelevance and unfolding equations ---------- *)
  Lemma root_fuel_irrel f1 : forall f2 items,
    length items < f1 -> length items < f2 -> root_fuel H f1 items = root_fuel H f2 items.
  Proof.
    induction f1 as [|f1 IH]; intros [|f2] items L1 L2; try lia.
    destruct items as [|x [|y r]]; [reflexivity|reflexivity|].
    cbn [root_fuel].
    destruct (split_nat_bounds (length (x :: y :: r))) as [A B]; [cbn; lia|].
    f_equal; apply IH; rewrite ?firstn_length, ?skipn_length; lia.
  Qed.

  Lemma root_nil : root [] = empty_hash. Proof. reflexivity. Qed.
  Lemma root_one x : root [x] = leaf_hash x. Proof. reflexivity. Qed.
  Lemma root_eq items : 2 <= length items ->
    root items = inner_hash (root (firstn (split_nat (length items)) items))
                            (root (skipn (split_nat (length items)) items)).
  Proof.
    intros L. destruct items as [|x [|y r]]; [cbn in L; lia|cbn in L; lia|].
    destruct (split_nat_bounds (length (x :: y :: r))) as [A B]; [exact L|].
    unfold Merkle.root at 1. cbn [root_fuel].
    f_equal; apply root_fuel_irrel; rewrite ?firstn_length, ?skipn_length; lia.
  Qed.

  Lemma root_len items : length (root items) = hlen.
  Proof.
    destruct items as [|x [|y r]]; [apply H_len|apply H_len|].
    rewrite root_eq by (cbn; lia). apply H_len.
  Qed.

  Lemma aunts_fuel_irrel f1 : forall f2 items i,
    length items < f1 -> length items < f2 -> aunts_fuel H f1 items i = aunts_fuel H f2 items i.
  Proof.
    induction f1 as [|f1 IH]; intros [|f2] items i L1 L2; try lia.
    destruct items as [|x [|y r]]; [reflexivity|reflexivity|].
    cbn [aunts_fuel].
    destruct (split_nat_bounds (length (x :: y :: r))) as [A B]; [cbn; lia|].
    destruct (Nat.ltb i _); f_equal; apply IH; rewrite ?firstn_length, ?skipn_length; lia.
  Qed.

  Lemma aunts_eq items i : 2 <= length items ->
    aunts H items i =
      let k := split_nat (length items) in
      if Nat.ltb i k then aunts H (firstn k items) i ++ [root (skipn k items)]
      else aunts H (skipn k items) (i - k) ++ [root (firstn k items)].
  Proof.
    intros L. destruct items as [|x [|y r]]; [cbn in L; lia|cbn in L; lia|].
    destruct (split_nat_bounds (length (x :: y :: r))) as [A B]; [exact L|].
    unfold aunts at 1. cbn [aunts_fuel]. cbv zeta.
    destruct (Nat.ltb i _); f_equal; apply aunts_fuel_irrel; rewrite ?firstn_length, ?skipn_length; lia.
  Qed.

  (* ---------- completeness ---------- *)
  Lemma cfr_complete n : forall items i,
    length items < n -> i < length items ->
    compute_from_raunts H (Z.of_nat i) (Z.of_nat (length items))
      (leaf_hash (nth i items [])) (rev (aunts H items i)) = Some (root items).
  Proof.
    induction n as [|n IH]; intros items i Ln Li; [lia|].
    destruct (le_lt_dec 2 (length items)) as [L2|L2].
    2:{ destruct items as [|x [|y r]]; [cbn in Li; lia| |cbn in L2; lia].
        cbn in Li. assert (i = 0) by lia. subst i. reflexivity. }
    - destruct (split_nat_bounds (length items) L2) as [A B].
      rewrite aunts_eq by exact L2. cbv zeta.
      rewrite (root_eq items L2). unfold bytes in *.
      set (k := split_nat (length items)) in *.
      destruct (Nat.ltb_spec i k) as [Hik|Hik]; rewrite rev_unit; cbn [compute_from_raunts].
      + replace ((Z.of_nat i >=? Z.of_nat (length items))%Z) with false by lia.
        replace ((Z.of_nat i <? 0)%Z) with false by lia.
        replace ((Z.of_nat (length items) <=? 0)%Z) with false by lia.
        replace ((Z.of_nat (length items) =? 1)%Z) with false by lia.
        cbn [orb]. rewrite split_Z_nat. fold k.
        replace ((Z.of_nat i <? Z.of_nat k)%Z) with true by lia.
        assert (Lf : length (firstn k items) = k) by (rewrite firstn_length; lia).
        specialize (IH (firstn k items) i). rewrite Lf in IH.
        rewrite nth_app_firstn in IH by lia.
        rewrite IH by lia. reflexivity.
      + replace ((Z.of_nat i >=? Z.of_nat (length items))%Z) with false by lia.
        replace ((Z.of_nat i <? 0)%Z) with false by lia.
        replace ((Z.of_nat (length items) <=? 0)%Z) with false by lia.
        replace ((Z.of_nat (length items) =? 1)%Z) with false by lia.
        cbn [orb]. rewrite split_Z_nat. fold k.
        replace ((Z.of_nat i <? Z.of_nat k)%Z) with false by lia.
        assert (Ls : length (skipn k items) = length items - k) by (rewrite skipn_length; lia).
        specialize (IH (skipn k items) (i - k)). rewrite Ls in IH.
        rewrite nth_app_skipn in IH by lia.
        replace (Z.of_nat i - Z.of_nat k)%Z with (Z.of_nat (i - k)) by lia.
        replace (Z.of_nat (length items) - Z.of_nat k)%Z with (Z.of_nat (length items - k)) by lia.
        rewrite IH by lia. reflexivity.
  Qed.

  Lemma proofs_for_nth items i :
    i < length items -> nth_error (proofs_for H items) i = Some (proof_for H items i).
  Proof.
    intros Li. unfold proofs_for.
    rewrite nth_error_map. rewrite (nth_error_nth' _ 0) by (rewrite seq_length; exact Li).
    rewrite seq_nth by exact Li. reflexivity.
  Qed.
  Lemma proofs_for_length items : length (proofs_for H items) = length items.
  Proof. unfold proofs_for. rewrite map_length, seq_length. reflexivity. Qed.

  Lemma verify_proof_for items i :
    i < length items ->
    verify H (Some (root items)) (proof_for H items i) (nth i items []) = MOk.
  Proof.
    intros Li. unfold verify, proof_for, compute_root_hash. cbn [p_total p_index p_leaf_hash p_aunts].
    replace ((Z.of_nat (length items) <? 0)%Z) with false by lia.
    replace ((Z.of_nat i <? 0)%Z) with false by lia.
    rewrite bytes_eqb_refl. cbn [negb].
    rewrite (cfr_complete (S (length items))); [|apply Nat.lt_succ_diag_r|exact Li].
    rewrite bytes_eqb_refl. reflexivity.
  Qed.

  (* proof_complete: every proof that ProofsForTransactions produces verifies,
     with VerifyTransaction, for the transaction it was issued for. *)
  Theorem proof_complete_l (txs : list bytes) (i : nat) (p : proof) :
    length (snd (proofs_for_txs H txs)) = length txs /\
    (nth_error (snd (proofs_for_txs H txs)) i = Some p ->
     verify_tx H (Some p) (Some (fst (proofs_for_txs H txs))) (nth i txs []) = MOk).
  Proof.
    unfold proofs_for_txs. cbn [fst snd]. split.
    - rewrite proofs_for_length, map_length. reflexivity.
    - intros E.
      assert (Li : i < length (proofs_for H (map H txs))).
      { apply nth_error_Some. rewrite E. discriminate. }
      rewrite proofs_for_length in Li.
      rewrite proofs_for_nth in E by exact Li. injection E as <-.
      unfold verify_tx, verify_item, tx_root.
      rewrite map_length in Li.
      replace (H (nth i txs [])) with (nth i (map H txs) []).
      + apply verify_proof_for. rewrite map_length. exact Li.
      + rewrite (nth_indep _ [] (H [])) by (rewrite map_length; exact Li). apply map_nth.
  Qed.

  (* ---------- soundness ---------- *)
  Lemma inner_hash_inj l1 r1 l2 r2 :
    length l1 = length l2 \/ length r1 = length r2 -> inner_hash l1 r1 = inner_hash l2 r2 ->
    (l1 = l2 /\ r1 = r2) \/ collision.
  Proof.
    intros L E. unfold Merkle.inner_hash in E.
    destruct (hash_eq_dec _ _ E) as [e|c]; [|right; exact c].
    injection e as e. left. apply app_eq_len; [|exact e].
    destruct L as [L|L]; [exact L|].
    apply (f_equal (@length N)) in e. rewrite !app_length in e. lia.
  Qed.

  Lemma cfr_len raunts : forall i t lh l,
    length lh = hlen -> compute_from_raunts H i t lh raunts = Some l -> length l = hlen.
  Proof.
    destruct raunts as [|a rest]; intros i t lh l Ll E; cbn [compute_from_raunts] in E.
    - destruct (_ || _ || _)%bool; [discriminate|]. destruct (t =? 1)%Z; [|discriminate].
      injection E as <-. exact Ll.
    - destruct (_ || _ || _)%bool; [discriminate|]. destruct (t =? 1)%Z; [discriminate|].
      destruct (i <? _)%Z.
      + destruct (compute_from_raunts _ _ _ _ _); [|discriminate]. injection E as <-. apply H_len.
      + destruct (compute_from_raunts _ _ _ _ _); [|discriminate]. injection E as <-. apply H_len.
  Qed.


  Lemma items_cases (items : list bytes) :
    items = [] \/ (exists x, items = [x]) \/ 2 <= length items.
  Proof.
    destruct items as [|x [|y r]]; [left; reflexivity|right; left; eexists; reflexivity|].
    right; right; cbn; lia.
  Qed.

  (* Membership: whatever total/index/aunts the proof carries, if the computed
     hash equals the root of [items] then the proven leaf is one of the items. *)
  Lemma cfr_member raunts : forall items i t y l,
    compute_from_raunts H i t (leaf_hash y) raunts = Some l -> l = root items ->
    In y items \/ collision.
  Proof.
    induction raunts as [|a rest IH]; intros items i t y l E R; cbn [compute_from_raunts] in E.
    - destruct (_ || _ || _)%bool; [discriminate|]. destruct (t =? 1)%Z; [|discriminate].
      injection E as <-.
      destruct (items_cases items) as [->|[[x ->]|L2]].
      + rewrite root_nil in R. unfold Merkle.leaf_hash, Merkle.empty_hash in R.
        right. eexists _, _. split; [|exact R]. discriminate.
      + rewrite root_one in R. unfold Merkle.leaf_hash in R.
        destruct (hash_eq_dec _ _ R) as [e|c]; [|right; exact c].
        injection e as ->. left. left. reflexivity.
      + rewrite root_eq in R by exact L2. unfold Merkle.leaf_hash, Merkle.inner_hash in R.
        right. eexists _, _. split; [|exact R]. discriminate.
    - destruct (_ || _ || _)%bool; [discriminate|]. destruct (t =? 1)%Z; [discriminate|].
      assert (E2 : exists l1 r1, l = inner_hash l1 r1 /\
                 ((exists i' t', compute_from_raunts H i' t' (leaf_hash y) rest = Some l1) \/
                  (exists i' t', compute_from_raunts H i' t' (leaf_hash y) rest = Some r1))).
      { destruct (i <? _)%Z.
        - destruct (compute_from_raunts H i _ _ rest) as [l'|] eqn:E'; [|discriminate].
          injection E as <-. exists l', a. split; [reflexivity|]. left. eauto.
        - destruct (compute_from_raunts H _ _ _ rest) as [r'|] eqn:E'; [|discriminate].
          injection E as <-. exists a, r'. split; [reflexivity|]. right. eauto. }
      clear E. destruct E2 as (l1 & r1 & -> & E2).
      destruct (items_cases items) as [->|[[x ->]|L2]].
      + rewrite root_nil in R. unfold Merkle.inner_hash, Merkle.empty_hash in R.
        right. eexists _, _. split; [|exact R]. discriminate.
      + rewrite root_one in R. unfold Merkle.inner_hash, Merkle.leaf_hash in R.
        right. eexists _, _. split; [|exact R]. discriminate.
      + rewrite root_eq in R by exact L2.
        set (k := split_nat (length items)) in *.
        destruct E2 as [(i' & t' & E')|(i' & t' & E')].
        * apply inner_hash_inj in R.
          2:{ left. rewrite root_len. eapply cfr_len; [|exact E']. apply H_len. }
          destruct R as [[R1 _]|c]; [|right; exact c].
          destruct (IH _ _ _ _ _ E' R1) as [I|c]; [|right; exact c].
          left. rewrite <- (firstn_skipn k items). apply in_or_app. left. exact I.
        * apply inner_hash_inj in R.
          2:{ right. rewrite root_len. eapply cfr_len; [|exact E']. apply H_len. }
          destruct R as [[_ R2]|c]; [|right; exact c].
          destruct (IH _ _ _ _ _ E' R2) as [I|c]; [|right; exact c].
          left. rewrite <- (firstn_skipn k items). apply in_or_app. right. exact I.
  Qed.

  (* Position: if additionally the proof's total is the length of the list,
     the index is the position of the leaf. *)
  Lemma cfr_index raunts : forall items i y l,
    compute_from_raunts H i (Z.of_nat (length items)) (leaf_hash y) raunts = Some l ->
    l = root items ->
    ((0 <= i < Z.of_nat (length items))%Z /\ nth_error items (Z.to_nat i) = Some y) \/ collision.
  Proof.
    induction raunts as [|a rest IH]; intros items i y l E R; cbn [compute_from_raunts] in E.
    - destruct (_ || _ || _)%bool eqn:Bad; [discriminate|].
      destruct (Z.of_nat (length items) =? 1)%Z eqn:T1; [|discriminate].
      injection E as <-.
      destruct (items_cases items) as [->|[[x ->]|L2]]; [cbn in T1; lia| |lia].
      rewrite root_one in R. unfold Merkle.leaf_hash in R.
      destruct (hash_eq_dec _ _ R) as [e|c]; [|right; exact c].
      injection e as ->. left. cbn [length] in *. split; [lia|].
      replace (Z.to_nat i) with 0 by lia. reflexivity.
    - destruct (_ || _ || _)%bool eqn:Bad; [discriminate|].
      destruct (Z.of_nat (length items) =? 1)%Z eqn:T1; [discriminate|].
      assert (L2 : 2 <= length items) by lia.
      destruct (split_nat_bounds (length items) L2) as [A B].
      rewrite root_eq in R by exact L2. rewrite split_Z_nat in E.
      set (k := split_nat (length items)) in *.
      assert (Lf : length (firstn k items) = k) by (rewrite firstn_length; lia).
      assert (Ls : length (skipn k items) = length items - k) by (rewrite skipn_length; lia).
      destruct (Z.ltb_spec i (Z.of_nat k)) as [Hik|Hik].
      + destruct (compute_from_raunts H i _ _ rest) as [l'|] eqn:E'; [|discriminate].
        injection E as <-.
        apply inner_hash_inj in R.
        2:{ left. rewrite root_len. eapply cfr_len; [|exact E']. apply H_len. }
        destruct R as [[R1 _]|c]; [|right; exact c].
        rewrite <- Lf in E' at 1.
        destruct (IH _ _ _ _ E' R1) as [[Rg I]|c]; [|right; exact c].
        left. split; [lia|].
        rewrite <- (firstn_skipn k items). rewrite nth_error_app1 by lia. exact I.
      + destruct (compute_from_raunts H _ _ _ rest) as [r'|] eqn:E'; [|discriminate].
        injection E as <-.
        apply inner_hash_inj in R.
        2:{ right. rewrite root_len. eapply cfr_len; [|exact E']. apply H_len. }
        destruct R as [[_ R2]|c]; [|right; exact c].
        replace (Z.of_nat (length items) - Z.of_nat k)%Z with (Z.of_nat (length (skipn k items))) in E' by lia.
        destruct (IH _ _ _ _ E' R2) as [[Rg I]|c]; [|right; exact c].
        left. split; [lia|].
        rewrite <- (firstn_skipn k items). rewrite nth_error_app2 by lia.
        rewrite Lf. replace (Z.to_nat i - k) with (Z.to_nat (i - Z.of_nat k)) by lia. exact I.
  Qed.

  Lemma verify_ok_inv rh p leaf :
    verify H (Some rh) p leaf = MOk ->
    p_leaf_hash p = leaf_hash leaf /\
    compute_from_raunts H (p_index p) (p_total p) (leaf_hash leaf) (rev (p_aunts p)) = Some rh.
  Proof.
    unfold verify, compute_root_hash. intros V.
    destruct (p_total p <? 0)%Z; [discriminate|]. destruct (p_index p <? 0)%Z; [discriminate|].
    destruct (bytes_eqb (p_leaf_hash p) (leaf_hash leaf)) eqn:LE; [|discriminate].
    apply bytes_eqb_eq in LE. rewrite LE in V. cbn [negb] in V.
    destruct (compute_from_raunts _ _ _ _ _) as [c|]; [|discriminate].
    destruct (bytes_eqb c rh) eqn:CE; [|discriminate]. apply bytes_eqb_eq in CE. subst c.
    split; [exact LE|reflexivity].
  Qed.

  Lemma map_H_inj (a : list bytes) : forall b, map H a = map H b -> a = b \/ collision.
  Proof.
    induction a as [|x a IH]; intros [|y b] E; cbn in E; try discriminate; [left; reflexivity|].
    injection E as E1 E2.
    destruct (hash_eq_dec _ _ E1) as [->|c]; [|right; exact c].
    destruct (IH _ E2) as [->|c]; [left; reflexivity|right; exact c].
  Qed.

  Lemma In_map_H (tx : bytes) (txs : list bytes) : In (H tx) (map H txs) -> In tx txs \/ collision.
  Proof.
    intros I. apply in_map_iff in I as (x & E & I).
    destruct (hash_eq_dec _ _ E) as [->|c]; [left; exact I|right; exact c].
  Qed.

  (* proof_sound (membership, nothing assumed about total/index): a proof that
     VerifyTransaction accepts against the transaction root of [txs] is for a
     transaction of [txs]. *)
  Theorem proof_sound_member_l (txs : list bytes) (p : option proof) (tx : bytes) :
    verify_tx H p (Some (tx_root H txs)) tx = MOk -> In tx txs \/ collision.
  Proof.
    unfold verify_tx, verify_item. destruct p as [p|]; [|discriminate]. intros V.
    apply verify_ok_inv in V as [_ C].
    destruct (cfr_member _ _ _ _ _ _ C eq_refl) as [I|c]; [|right; exact c].
    apply In_map_H. exact I.
  Qed.

  (* proof_sound (position): if moreover the proof's total is the number of
     transactions, its index is the position of the transaction. *)
  Theorem proof_sound_l (txs : list bytes) (p : proof) (tx : bytes) :
    verify_tx H (Some p) (Some (tx_root H txs)) tx = MOk ->
    p_total p = Z.of_nat (length txs) ->
    ((0 <= p_index p < Z.of_nat (length txs))%Z /\ nth_error txs (Z.to_nat (p_index p)) = Some tx)
    \/ collision.
  Proof.
    unfold verify_tx, verify_item. intros V T.
    apply verify_ok_inv in V as [_ C]. rewrite T in C.
    rewrite <- (map_length H txs) in C.
    destruct (cfr_index _ _ _ _ _ C eq_refl) as [[Rg I]|c]; [|right; exact c].
    rewrite map_length in Rg. rewrite nth_error_map in I.
    destruct (nth_error txs (Z.to_nat (p_index p))) as [t|] eqn:N; [|discriminate].
    cbn in I. injection I as I.
    destruct (hash_eq_dec _ _ I) as [->|c]; [left; split; [exact Rg|reflexivity]|right; exact c].
  Qed.

  (* Without the premise on total the index is NOT bound (the Go comment says
     "Check sp.Index/sp.Total manually if needed"): in a 3-leaf tree the third
     leaf also verifies as index 1 of 2. Holds for every H. *)
  Theorem index_not_bound_without_total_l (a b c : bytes) :
    verify H (Some (root [a; b; c]))
      (mkProof 2 1 (leaf_hash c) [inner_hash (leaf_hash a) (leaf_hash b)]) c = MOk.
  Proof.
    unfold verify, compute_root_hash. cbn [p_total p_index p_leaf_hash p_aunts rev app].
    rewrite bytes_eqb_refl.
    change (compute_from_raunts H 1 2 (leaf_hash c) [inner_hash (leaf_hash a) (leaf_hash b)])
      with (Some (inner_hash (inner_hash (leaf_hash a) (leaf_hash b)) (leaf_hash c))).
    change (root [a; b; c]) with (inner_hash (inner_hash (leaf_hash a) (leaf_hash b)) (leaf_hash c)).
    cbv iota beta. rewrite bytes_eqb_refl. reflexivity.
  Qed.

  (* ---------- the root binds the list, including its length ---------- *)
  Lemma root_inj_n n : forall xs ys,
    length xs < n -> root xs = root ys -> xs = ys \/ collision.
  Proof.
    induction n as [|n IH]; intros xs ys Ln R; [lia|].
    destruct (items_cases xs) as [->|[[x ->]|Lx]]; destruct (items_cases ys) as [->|[[y ->]|Ly]];
      rewrite ?root_nil, ?root_one in R;
      try rewrite (root_eq xs) in R by exact Lx; try rewrite (root_eq ys) in R by exact Ly;
      unfold Merkle.empty_hash, Merkle.leaf_hash in R.
    - left; reflexivity.
    - right. eexists _, _. split; [|exact R]. discriminate.
    - unfold Merkle.inner_hash in R. right. eexists _, _. split; [|exact R]. discriminate.
    - right. eexists _, _. split; [|exact R]. discriminate.
    - destruct (hash_eq_dec _ _ R) as [e|c]; [|right; exact c]. injection e as ->. left; reflexivity.
    - unfold Merkle.inner_hash in R. right. eexists _, _. split; [|exact R]. discriminate.
    - unfold Merkle.inner_hash in R. right. eexists _, _. split; [|exact R]. discriminate.
    - unfold Merkle.inner_hash in R. right. eexists _, _. split; [|exact R]. discriminate.
    - apply inner_hash_inj in R; [|left; rewrite !root_len; reflexivity].
      destruct R as [[R1 R2]|c]; [|right; exact c].
      destruct (split_nat_bounds (length xs) Lx) as [A B].
      apply IH in R1; [|rewrite firstn_length; lia].
      apply IH in R2; [|rewrite skipn_length; lia].
      destruct R1 as [R1|c]; [|right; exact c]. destruct R2 as [R2|c]; [|right; exact c].
      left. rewrite <- (firstn_skipn (split_nat (length xs)) xs), R1, R2. apply firstn_skipn.
  Qed.

  (* merkle_root_injective: equal roots -> equal lists (the LENGTH is bound
     too, through the 0x00 / 0x01 / empty-string domain separation: no premise
     on the lengths is needed) or a collision of H is exhibited. *)
  Theorem merkle_root_injective_l (xs ys : list bytes) : root xs = root ys -> xs = ys \/ collision.
  Proof. apply (root_inj_n (S (length xs))). lia. Qed.

  Theorem tx_root_injective_l (txs1 txs2 : list bytes) :
    tx_root H txs1 = tx_root H txs2 -> txs1 = txs2 \/ collision.
  Proof.
    unfold tx_root. intros R. apply merkle_root_injective_l in R as [E|c]; [|right; exact c].
    apply map_H_inj. exact E.
  Qed.
End MerkleProofs.
