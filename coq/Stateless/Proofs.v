(* Proofs about the simple Merkle tree model (Stateless/Merkle.v).
   The hash [H] is arbitrary; the only thing assumed about it is that its
   output has a fixed length [hlen] (true of SHA-256, hlen = 32).  This is
   needed because innerHash hashes the plain concatenation l ++ r: without a
   fixed digest length the split between l and r would be ambiguous.
   Injectivity is never assumed: conclusions are "... \/ collision". *)
From Verif Require Import Lib.Base Stateless.Merkle.

Local Open Scope nat_scope.

Definition bytes_dec : forall a b : bytes, {a = b} + {a <> b} := list_eq_dec N.eq_dec.

Lemma bytes_eqb_refl (a : bytes) : bytes_eqb a a = true.
Proof. apply bytes_eqb_eq. reflexivity. Qed.

Lemma app_eq_len {A} (l1 l2 r1 r2 : list A) :
  length l1 = length l2 -> l1 ++ r1 = l2 ++ r2 -> l1 = l2 /\ r1 = r2.
Proof.
  revert l2; induction l1 as [|a l1 IH]; intros [|b l2] Hl E; cbn in *; try discriminate.
  - split; [reflexivity|exact E].
  - injection E as -> E. destruct (IH l2) as [-> ->]; [lia|exact E|]. split; reflexivity.
Qed.

Lemma nth_app_firstn {A} (l : list A) k i d :
  i < k -> k <= length l -> nth i (firstn k l) d = nth i l d.
Proof.
  intros Hi Hk. rewrite <- (firstn_skipn k l) at 2.
  rewrite app_nth1; [reflexivity|]. rewrite firstn_length. lia.
Qed.
Lemma nth_app_skipn {A} (l : list A) k i d :
  k <= i -> k <= length l -> nth (i - k) (skipn k l) d = nth i l d.
Proof.
  intros Hi Hk. rewrite <- (firstn_skipn k l) at 2.
  rewrite app_nth2; rewrite firstn_length; [|lia].
  replace (Nat.min k (length l)) with k by lia. reflexivity.
Qed.

(* ---------- split point ---------- *)
Lemma split_point_bounds (n : N) : (2 <= n)%N -> (1 <= split_point n /\ split_point n < n)%N.
Proof.
  intros Hn. unfold split_point.
  destruct (N.log2_spec n) as [Hlo Hhi]; [lia|].
  assert (Hpos : (1 <= 2 ^ N.log2 n)%N).
  { assert (2 ^ N.log2 n <> 0)%N by (apply N.pow_nonzero; lia). lia. }
  set (k := (2 ^ N.log2 n)%N) in *.
  destruct (N.eqb_spec k n) as [E|E].
  - assert (k / 2 < k)%N by (apply N.div_lt; lia).
    assert (1 <= k / 2)%N.
    { assert (1 * 2 <= k)%N by lia. apply N.div_le_lower_bound in H0; lia. }
    lia.
  - lia.
Qed.

Lemma split_nat_bounds (n : nat) : 2 <= n -> 1 <= split_nat n /\ split_nat n < n.
Proof.
  intros Hn. unfold split_nat.
  destruct (split_point_bounds (N.of_nat n)) as [A B]; lia.
Qed.

Lemma split_Z_nat (n : nat) : Z.of_N (split_point (Z.to_N (Z.of_nat n))) = Z.of_nat (split_nat n).
Proof.
  unfold split_nat. replace (Z.to_N (Z.of_nat n)) with (N.of_nat n) by lia. lia.
Qed.

Section MerkleProofs.
  Variable H : bytes -> bytes.
  Variable hlen : nat.
  Hypothesis H_len : forall x, length (H x) = hlen.

  Definition collision : Prop := exists x y : bytes, x <> y /\ H x = H y.

  Notation root := (root H).
  Notation leaf_hash := (leaf_hash H).
  Notation inner_hash := (inner_hash H).
  Notation empty_hash := (empty_hash H).

  Lemma hash_eq_dec (x y : bytes) : H x = H y -> x = y \/ collision.
  Proof.
    intros E. destruct (bytes_dec x y) as [e|ne]; [left; exact e|right; exists x, y; split; assumption].
  Qed.

  (* ---------- fuel irrelevance and unfolding equations ---------- *)
  Lemma root_fuel_irrel f1 : forall f2 items,
    length items < f1 -> length items < f2 -> root_fuel H f1 items = root_fuel H f2 items.
  Proof.
    induction f1 as [|f1 IH]; intros [|f2] items L1 L2; try lia.
    destruct items as [|x [|y r]]; [reflexivity|reflexivity|].
    cbn [root_fuel].
    destruct (split_nat_bounds (length (x :: y :: r))) as [A B]; [cbn; lia|].
    f_equal; apply IH; rewrite ?firstn_length, ?skipn_length; lia.
  Qed.

  Lemma root_nil : root [] = empty_hash. Proof. reflexivity. Qed.
  Lemma root_one x : root [x] = leaf_hash x. Proof. reflexivity. Qed.
  Lemma root_eq items : 2 <= length items ->
    root items = inner_hash (root (firstn (split_nat (length items)) items))
                            (root (skipn (split_nat (length items)) items)).
  Proof.
    intros L. destruct items as [|x [|y r]]; [cbn in L; lia|cbn in L; lia|].
    destruct (split_nat_bounds (length (x :: y :: r))) as [A B]; [exact L|].
    unfold Merkle.root at 1. cbn [root_fuel].
    f_equal; apply root_fuel_irrel; rewrite ?firstn_length, ?skipn_length; lia.
  Qed.

  Lemma root_len items : length (root items) = hlen.
  Proof.
    destruct items as [|x [|y r]]; [apply H_len|apply H_len|].
    rewrite root_eq by (cbn; lia). apply H_len.
  Qed.

  Lemma aunts_fuel_irrel f1 : forall f2 items i,
    length items < f1 -> length items < f2 -> aunts_fuel H f1 items i = aunts_fuel H f2 items i.
  Proof.
    induction f1 as [|f1 IH]; intros [|f2] items i L1 L2; try lia.
    destruct items as [|x [|y r]]; [reflexivity|reflexivity|].
    cbn [aunts_fuel].
    destruct (split_nat_bounds (length (x :: y :: r))) as [A B]; [cbn; lia|].
    destruct (Nat.ltb i _); f_equal; apply IH; rewrite ?firstn_length, ?skipn_length; lia.
  Qed.

  Lemma aunts_eq items i : 2 <= length items ->
    aunts H items i =
      let k := split_nat (length items) in
      if Nat.ltb i k then aunts H (firstn k items) i ++ [root (skipn k items)]
      else aunts H (skipn k items) (i - k) ++ [root (firstn k items)].
  Proof.
    intros L. destruct items as [|x [|y r]]; [cbn in L; lia|cbn in L; lia|].
    destruct (split_nat_bounds (length (x :: y :: r))) as [A B]; [exact L|].
    unfold aunts at 1. cbn [aunts_fuel]. cbv zeta.
    destruct (Nat.ltb i _); f_equal; apply aunts_fuel_irrel; rewrite ?firstn_length, ?skipn_length; lia.
  Qed.

  (* ---------- completeness ---------- *)
  Lemma cfr_complete n : forall items i,
    length items < n -> i < length items ->
    compute_from_raunts H (Z.of_nat i) (Z.of_nat (length items))
      (leaf_hash (nth i items [])) (rev (aunts H items i)) = Some (root items).
  Proof.
    induction n as [|n IH]; intros items i Ln Li; [lia|].
    destruct (le_lt_dec 2 (length items)) as [L2|L2].
    2:{ destruct items as [|x [|y r]]; [cbn in Li; lia| |cbn in L2; lia].
        cbn in Li. assert (i = 0) by lia. subst i. reflexivity. }
    - destruct (split_nat_bounds (length items) L2) as [A B].
      rewrite aunts_eq by exact L2. cbv zeta.
      rewrite (root_eq items L2). unfold bytes in *.
      set (k := split_nat (length items)) in *.
      destruct (Nat.ltb_spec i k) as [Hik|Hik]; rewrite rev_unit; cbn [compute_from_raunts].
      + replace ((Z.of_nat i >=? Z.of_nat (length items))%Z) with false by lia.
        replace ((Z.of_nat i <? 0)%Z) with false by lia.
        replace ((Z.of_nat (length items) <=? 0)%Z) with false by lia.
        replace ((Z.of_nat (length items) =? 1)%Z) with false by lia.
        cbn [orb]. rewrite split_Z_nat. fold k.
        replace ((Z.of_nat i <? Z.of_nat k)%Z) with true by lia.
        assert (Lf : length (firstn k items) = k) by (rewrite firstn_length; lia).
        specialize (IH (firstn k items) i). rewrite Lf in IH.
        rewrite nth_app_firstn in IH by lia.
        rewrite IH by lia. reflexivity.
      + replace ((Z.of_nat i >=? Z.of_nat (length items))%Z) with false by lia.
        replace ((Z.of_nat i <? 0)%Z) with false by lia.
        replace ((Z.of_nat (length items) <=? 0)%Z) with false by lia.
        replace ((Z.of_nat (length items) =? 1)%Z) with false by lia.
        cbn [orb]. rewrite split_Z_nat. fold k.
        replace ((Z.of_nat i <? Z.of_nat k)%Z) with false by lia.
        assert (Ls : length (skipn k items) = length items - k) by (rewrite skipn_length; lia).
        specialize (IH (skipn k items) (i - k)). rewrite Ls in IH.
        rewrite nth_app_skipn in IH by lia.
        replace (Z.of_nat i - Z.of_nat k)%Z with (Z.of_nat (i - k)) by lia.
        replace (Z.of_nat (length items) - Z.of_nat k)%Z with (Z.of_nat (length items - k)) by lia.
        rewrite IH by lia. reflexivity.
  Qed.

  Lemma proofs_for_nth items i :
    i < length items -> nth_error (proofs_for H items) i = Some (proof_for H items i).
  Proof.
    intros Li. unfold proofs_for.
    rewrite nth_error_map. rewrite (nth_error_nth' _ 0) by (rewrite seq_length; exact Li).
    rewrite seq_nth by exact Li. reflexivity.
  Qed.
  Lemma proofs_for_length items : length (proofs_for H items) = length items.
  Proof. unfold proofs_for. rewrite map_length, seq_length. reflexivity. Qed.

  Lemma verify_proof_for items i :
    i < length items ->
    verify H (Some (root items)) (proof_for H items i) (nth i items []) = MOk.
  Proof.
    intros Li. unfold verify, proof_for, compute_root_hash. cbn [p_total p_index p_leaf_hash p_aunts].
    replace ((Z.of_nat (length items) <? 0)%Z) with false by lia.
    replace ((Z.of_nat i <? 0)%Z) with false by lia.
    rewrite bytes_eqb_refl. cbn [negb].
    rewrite (cfr_complete (S (length items))); [|apply Nat.lt_succ_diag_r|exact Li].
    rewrite bytes_eqb_refl. reflexivity.
  Qed.

  (* proof_complete: every proof that ProofsForTransactions produces verifies,
     with VerifyTransaction, for the transaction it was issued for. *)
  Theorem proof_complete_l (txs : list bytes) (i : nat) (p : proof) :
    length (snd (proofs_for_txs H txs)) = length txs /\
    (nth_error (snd (proofs_for_txs H txs)) i = Some p ->
     verify_tx H (Some p) (Some (fst (proofs_for_txs H txs))) (nth i txs []) = MOk).
  Proof.
    unfold proofs_for_txs. cbn [fst snd]. split.
    - rewrite proofs_for_length, map_length. reflexivity.
    - intros E.
      assert (Li : i < length (proofs_for H (map H txs))).
      { apply nth_error_Some. rewrite E. discriminate. }
      rewrite proofs_for_length in Li.
      rewrite proofs_for_nth in E by exact Li. injection E as <-.
      unfold verify_tx, verify_item, tx_root.
      rewrite map_length in Li.
      replace (H (nth i txs [])) with (nth i (map H txs) []).
      + apply verify_proof_for. rewrite map_length. exact Li.
      + rewrite (nth_indep _ [] (H [])) by (rewrite map_length; exact Li). apply map_nth.
  Qed.

  (* ---------- soundness ---------- *)
  Lemma inner_hash_inj l1 r1 l2 r2 :
    length l1 = length l2 \/ length r1 = length r2 -> inner_hash l1 r1 = inner_hash l2 r2 ->
    (l1 = l2 /\ r1 = r2) \/ collision.
  Proof.
    intros L E. unfold Merkle.inner_hash in E.
    destruct (hash_eq_dec _ _ E) as [e|c]; [|right; exact c].
    injection e as e. left. apply app_eq_len; [|exact e].
    destruct L as [L|L]; [exact L|].
    apply (f_equal (@length N)) in e. rewrite !app_length in e. lia.
  Qed.

  Lemma cfr_len raunts : forall i t lh l,
    length lh = hlen -> compute_from_raunts H i t lh raunts = Some l -> length l = hlen.
  Proof.
    destruct raunts as [|a rest]; intros i t lh l Ll E; cbn [compute_from_raunts] in E.
    - destruct (_ || _ || _)%bool; [discriminate|]. destruct (t =? 1)%Z; [|discriminate].
      injection E as <-. exact Ll.
    - destruct (_ || _ || _)%bool; [discriminate|]. destruct (t =? 1)%Z; [discriminate|].
      destruct (i <? _)%Z.
      + destruct (compute_from_raunts _ _ _ _ _); [|discriminate]. injection E as <-. apply H_len.
      + destruct (compute_from_raunts _ _ _ _ _); [|discriminate]. injection E as <-. apply H_len.
  Qed.

End MerkleProofs.
