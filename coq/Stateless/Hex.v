(* Byte-string literals for the correspondence case files of the stateless
   harness: [hb len [w0; w1; ...]%uint63] is the byte string of length [len]
   whose bytes are the big-endian bytes of the words, 7 bytes per word (the
   last word holds the remaining len mod 7 bytes, or 7).
   Base.bs takes one big N numeral; coqc needs ~3 ms to interpret a 256-bit
   numeral, which is too slow for tens of thousands of digests, while
   primitive-integer literals are read natively.  Used only in case files
   (evaluation with vm_compute), never in a theorem. *)
From Coq Require Import Uint63.
From Verif Require Import Lib.Base.

Definition bit_of (w : int) (k : int) : N :=
  if Uint63.eqb (Uint63.land (Uint63.lsr w k) 1%uint63) 0%uint63 then 0 else 1.
Definition byte_of (w : int) : N :=
  bit_of w 0%uint63 + 2 * (bit_of w 1%uint63 + 2 * (bit_of w 2%uint63 + 2 * (bit_of w 3%uint63 +
  2 * (bit_of w 4%uint63 + 2 * (bit_of w 5%uint63 + 2 * (bit_of w 6%uint63 + 2 * bit_of w 7%uint63)))))).
Fixpoint word_bytes (nb : nat) (w : int) (acc : bytes) : bytes :=
  match nb with
  | O => acc
  | S m => word_bytes m (Uint63.lsr w 8%uint63) (byte_of w :: acc)
  end.
Fixpoint hb_nat (len : nat) (ws : list int) : bytes :=
  match ws with
  | [] => []
  | w :: r => let nb := Nat.min 7 len in word_bytes nb w [] ++ hb_nat (len - nb) r
  end.
Definition hb (len : N) (ws : list int) : bytes := hb_nat (N.to_nat len) ws.
