(* Model of the field-binding checks of the stateless consensus backend,
   go/consensus/cometbft/stateless/core.go:
     verifyBlock            546-597
     verifyBlockResults     599-642 (the Core method and the plain function)
     verifyParameters       644-678
     verifyTransactions     680-691
     verifyTransactionProof 702-707
     verifyNextValidators   709-724
     stateRoot derivation   790-862

   Provider responses and the light block are records of abstract fields.
   Decoders (CBOR / protobuf) are abstract: a response carries the decoded
   value, or None when the code's decoder fails.  What the CometBFT hash
   functions cover is modelled exactly (they are Merkle roots / hashes of
   projections), and the part of each decoded structure that the hash does not
   cover is carried in separate "_rest" fields so that the bound / unbound
   partition is explicit.  Executable definitions only. *)
From Verif Require Import Lib.Base Stateless.Merkle.

Definition wrap64 (z : Z) : N := Z.to_N (z mod 2 ^ 64).          (* uint64(int64) *)
Definition wrap_i64 (z : Z) : Z := ((z + 2 ^ 63) mod 2 ^ 64 - 2 ^ 63)%Z.  (* int64 overflow *)

(* cmttypes.LightBlock, the fields the code reads; all of them come from the
   light-client verified signed header. *)
Record light_block := mkLB {
  lb_height : Z;
  lb_hash : bytes;                 (* hash.LoadFromHexBytes(lb.Header.Hash()) *)
  lb_time_s : Z; lb_time_ns : Z;   (* lb.Header.Time: unix seconds, nanoseconds in [0,1e9) *)
  lb_app_hash : bytes;
  lb_header_bytes : bytes;         (* lb.Header.ToProto().Marshal() *)
  lb_last_commit_hash : bytes;
  lb_data_hash : option bytes;     (* None: nil slice *)
  lb_next_validators_hash : bytes;
  lb_consensus_hash : bytes;
}.

(* cmttypes.Commit decoded from BlockMeta.LastCommit. Commit.Hash()
   (cometbft types/block.go:909-927) is the Merkle root of the marshalled
   CommitSigs only. *)
Record commit := mkCommit {
  c_sigs : list bytes;             (* CommitSig.ToProto().Marshal() of every signature *)
  c_height : Z; c_round : Z; c_block_id : bytes;   (* NOT covered by Commit.Hash() *)
}.
Record block_meta := mkMeta {
  m_header : bytes;
  m_last_commit : option commit;   (* None: proto Unmarshal or CommitFromProto failed *)
}.
(* consensusAPI.Block *)
Record block := mkBlock {
  b_height : Z;
  b_hash : bytes;
  b_time_s : Z; b_time_ns : Z;
  b_sr_ns : bytes; b_sr_version : N; b_sr_type : N; b_sr_hash : bytes;
  b_size : N;
  b_meta : option block_meta;      (* None: cbor.Unmarshal(blk.Meta) failed *)
}.

Inductive bverdict :=
| BOk
| BHeight | BHash | BTime | BSrNamespace | BSrVersion | BSrType | BSrHash
| BMetaMalformed | BMetaHeader | BLastCommitMalformed | BLastCommit
| BResultsMalformed | BResultsHash
| BParamsMalformed | BParamsInvalid | BParamsHash | BParamsQuery | BParamsMismatch
| BTxsHash | BTxProof
| BValidatorsMalformed | BValidatorsHash
| BEmptyTxs | BMetaTxMalformed | BMetaTxMethod | BAppHash
| BOther.

Definition bverdict_eqb (a b : bverdict) : bool :=
  match a, b with
  | BOk, BOk | BHeight, BHeight | BHash, BHash | BTime, BTime | BSrNamespace, BSrNamespace
  | BSrVersion, BSrVersion | BSrType, BSrType | BSrHash, BSrHash
  | BMetaMalformed, BMetaMalformed | BMetaHeader, BMetaHeader
  | BLastCommitMalformed, BLastCommitMalformed | BLastCommit, BLastCommit
  | BResultsMalformed, BResultsMalformed | BResultsHash, BResultsHash
  | BParamsMalformed, BParamsMalformed | BParamsInvalid, BParamsInvalid | BParamsHash, BParamsHash
  | BParamsQuery, BParamsQuery | BParamsMismatch, BParamsMismatch
  | BTxsHash, BTxsHash | BTxProof, BTxProof
  | BValidatorsMalformed, BValidatorsMalformed | BValidatorsHash, BValidatorsHash
  | BEmptyTxs, BEmptyTxs | BMetaTxMalformed, BMetaTxMalformed
  | BMetaTxMethod, BMetaTxMethod | BAppHash, BAppHash
  | BOther, BOther => true
  | _, _ => false
  end.

Definition zero_namespace : bytes := repeat 0 32.
Definition root_type_state : N := 1.          (* mkvs/node RootTypeState *)

Definition opt_bytes_eqb (a : bytes) (b : option bytes) : bool :=
  match b with
  | Some b => bytes_eqb a b
  | None => match a with [] => true | _ => false end   (* bytes.Equal(x, nil) *)
  end.

Section Bind.
  Variable H : bytes -> bytes.

  (* core.go:546-597 *)
  Definition verify_block (b : block) (lb : light_block) : bverdict :=
    if negb (b_height b =? lb_height lb)%Z then BHeight
    else if negb (bytes_eqb (b_hash b) (lb_hash lb)) then BHash
    else if negb ((b_time_s b =? lb_time_s lb)%Z && (b_time_ns b =? 0)%Z) then BTime
    else if negb (bytes_eqb (b_sr_ns b) zero_namespace) then BSrNamespace
    else if negb (b_sr_version b =? (wrap64 (lb_height lb) + 2 ^ 64 - 1) mod 2 ^ 64) then BSrVersion
    else if negb (b_sr_type b =? root_type_state) then BSrType
    else if negb (bytes_eqb (b_sr_hash b) (lb_app_hash lb)) then BSrHash
    (* 569: "Block size cannot be verified." *)
    else match b_meta b with
    | None => BMetaMalformed
    | Some m =>
        if negb (bytes_eqb (m_header m) (lb_header_bytes lb)) then BMetaHeader
        else match m_last_commit m with
        | None => BLastCommitMalformed
        | Some c =>
            if negb (bytes_eqb (root H (c_sigs c)) (lb_last_commit_hash lb)) then BLastCommit
            else BOk
        end
    end.

  (* ---- block results: api.BlockResultsMeta decoded from results.Meta;
     cmttypes.NewResults(...).Hash() is the Merkle root of the marshalled
     deterministic projection (Code, Data, GasWanted, GasUsed) of every
     ResponseDeliverTx (cometbft types/results.go:11-60). ---- *)
  Record tx_result := mkTxResult {
    r_det : bytes;      (* deterministicResponseDeliverTx(r).Marshal() *)
    r_rest : bytes;     (* Log, Info, Events, Codespace: NOT covered *)
  }.
  Record results := mkResults {
    rs_height : Z;
    rs_meta : option (list tx_result * bytes);   (* None: malformed; snd = begin/end block events: NOT covered *)
  }.
  (* core.go:623-642 *)
  Definition verify_block_results (rs : results) (results_hash : option bytes) (lb : light_block) : bverdict :=
    if negb (rs_height rs =? lb_height lb)%Z then BHeight
    else match rs_meta rs with
    | None => BResultsMalformed
    | Some (txr, _) =>
        if negb (opt_bytes_eqb (root H (map r_det txr)) results_hash) then BResultsHash else BOk
    end.
  (* core.go:599-621, the Core method: [last_trusted] = lightClient.LastTrustedHeight(),
     [next_results_hash] = LastResultsHash of the verified light block at height+1
     (None: it could not be fetched -> error).  Not driven by the harness
     (needs a light client); modelled from the source. *)
  Definition core_verify_block_results (last_trusted : Z) (rs : results)
             (next_results_hash : option (option bytes)) (lb : light_block) : bverdict :=
    if (last_trusted <=? lb_height lb)%Z then
      (* 606-613: verification skipped for the latest height *)
      if negb (rs_height rs =? lb_height lb)%Z then BHeight
      else match rs_meta rs with None => BResultsMalformed | Some _ => BOk end
    else match next_results_hash with
    | None => BOther
    | Some rh => verify_block_results rs rh lb
    end.

  (* core.go:347-377 GetTransactionsWithResults: verified transactions, then the
     Core-level results check, then the conversion of the results
     (full.TransactionResultsFromCometBFT, abstract: [conv_ok]). *)
  Definition core_get_transactions_with_results (verify_txs : bverdict) (last_trusted : Z) (rs : results)
             (next_results_hash : option (option bytes)) (conv_ok : bool) (lb : light_block) : bverdict :=
    match verify_txs with
    | BOk =>
        match core_verify_block_results last_trusted rs next_results_hash lb with
        | BOk => if conv_ok then BOk else BOther
        | e => e
        end
    | e => e
    end.

  (* ---- transactions ---- *)
  (* core.go:680-691; Data.Hash() = merkle root over the transaction hashes *)
  Definition verify_transactions (txs : list bytes) (lb : light_block) : bverdict :=
    if opt_bytes_eqb (tx_root H txs) (lb_data_hash lb) then BOk else BTxsHash.
  (* core.go:702-707 *)
  Definition verify_transaction_proof (p : option proof) (tx : bytes) (lb : light_block) : bverdict :=
    match verify_tx H p (lb_data_hash lb) tx with
    | MOk => BOk
    | _ => BTxProof
    end.

  (* ---- next validators: ValidatorSet.Hash() is the Merkle root of
     Validator.Bytes() = marshalled (PubKey, VotingPower). ---- *)
  Record validator := mkValidator {
    v_bytes : bytes;     (* SimpleValidator{PubKey, VotingPower}.Marshal() *)
    v_rest : bytes;      (* ProposerPriority (Address is re-derived from PubKey by ValidateBasic) *)
  }.
  Record validators := mkValidators {
    vs_height : Z;
    vs_set : option (list validator * bytes);   (* None: malformed; the entries of the RETURNED bytes, in the order they
                                                   have there (no sorting, no normalisation: the caller receives exactly
                                                   these bytes); snd = Proposer, TotalVotingPower: NOT covered *)
  }.
  (* core.go:709-724 *)
  Definition verify_next_validators (vs : validators) (lb : light_block) : bverdict :=
    if negb (vs_height vs =? wrap_i64 (lb_height lb + 1))%Z then BHeight
    else match vs_set vs with
    | None => BValidatorsMalformed
    | Some (vl, _) =>
        if negb (bytes_eqb (root H (map v_bytes vl)) (lb_next_validators_hash lb)) then BValidatorsHash
        else BOk
    end.

  (* ---- parameters: ConsensusParams.Hash() = H(HashedParams{Block.MaxBytes,
     Block.MaxGas}.Marshal()) (cometbft types/params.go:173-191). ---- *)
  Record cmt_params := mkCmtParams {
    cp_hashed : bytes;     (* HashedParams.Marshal() *)
    cp_valid : bool;       (* ValidateBasic() == nil *)
    cp_rest : bytes;       (* Evidence, Validator, Version parameters, time_iota: NOT covered *)
  }.
  Record parameters := mkParams {
    pm_height : Z;
    pm_meta : option cmt_params;   (* None: proto Unmarshal failed, or one of the four sub-messages (Block,
                                      Evidence, Validator, Version) is omitted (core.go:653-656; before that
                                      check was added the code dereferenced a nil pointer there: finding
                                      C19:verifyParameters-panics-on-omitted-submessage, fixed) *)
    pm_params_cbor : bytes;        (* cbor.Marshal(params.Parameters) *)
  }.
  (* core.go:644-678; [state_params] = cbor.Marshal of the consensus parameters
     read from (verified) state at lb.Height, None when the query fails. *)
  Definition verify_parameters (pm : parameters) (state_params : option bytes) (lb : light_block) : bverdict :=
    if negb (pm_height pm =? lb_height lb)%Z then BHeight
    else match pm_meta pm with
    | None => BParamsMalformed
    | Some cp =>
        if negb (cp_valid cp) then BParamsInvalid
        else if negb (bytes_eqb (H (cp_hashed cp)) (lb_consensus_hash lb)) then BParamsHash
        else match state_params with
        | None => BParamsQuery
        | Some sp => if bytes_eqb sp (pm_params_cbor pm) then BOk else BParamsMismatch
        end
    end.

  (* ---- state root ---- *)
  (* core.go:845-862: the three CBOR layers of the block metadata transaction *)
  Inductive meta_tx :=
  | MtBadSigned                 (* not a SignedTransaction *)
  | MtBadTx                     (* blob is not a Transaction *)
  | MtTx (method_is_meta : bool) (body : option bytes).   (* body: BlockMetadata.StateRoot, None: malformed *)
  Inductive sr_result := SrOk (h : bytes) | SrErr (e : bverdict).
  Definition state_root_from_meta_tx (m : meta_tx) : sr_result :=
    match m with
    (* the three decoding failures carry the same error text in the code *)
    | MtBadSigned => SrErr BMetaTxMalformed
    | MtBadTx => SrErr BMetaTxMalformed
    | MtTx false _ => SrErr BMetaTxMethod
    | MtTx true None => SrErr BMetaTxMalformed
    | MtTx true (Some h) => SrOk h
    end.
  Variable decode_meta_tx : bytes -> meta_tx.
  (* core.go:837-843: the LAST transaction of the block *)
  Definition state_root_from_block_txs (txs : list bytes) : sr_result :=
    match rev txs with
    | [] => SrErr BEmptyTxs
    | t :: _ => state_root_from_meta_tx (decode_meta_tx t)
    end.
  (* core.go:815-827: state root of height h from the verified light block h+1 *)
  Definition state_root_from_light_block (lb_next : light_block) : sr_result :=
    if (N.of_nat (length (lb_app_hash lb_next)) =? 32) then SrOk (lb_app_hash lb_next) else SrErr BAppHash.
  (* core.go:804-835 fetchStateRoot: light block h+1 if it verifies, otherwise
     the metadata transaction of the (verified) transactions of height h. *)
  Definition fetch_state_root (lb_next : option light_block) (lb : light_block) (txs : list bytes) : sr_result :=
    match match lb_next with Some n => state_root_from_light_block n | None => SrErr BOther end with
    | SrOk h => SrOk h
    | SrErr _ =>
        match verify_transactions txs lb with
        | BOk => state_root_from_block_txs txs
        | e => SrErr e
        end
    end.
  (* ---------- the public Core API (core.go:106-440): which verification
     function guards which method.  [lbo] is the light block that
     Core.lightBlock obtains from the light client for the height in
     question, None when the light client cannot verify that height (the
     method then fails before the provider's data is looked at or returned). *)
  Inductive api_call :=
  | ApiGetBlock (b : block)                                  (* 107-123 *)
  | ApiGetTransactions (txs : list bytes)                    (* 318-334 *)
  | ApiGetTransactionsWithProofs (txs : list bytes) (returned : list proof)   (* 337-344 *)
  | ApiGetParameters (pm : parameters) (state_params : option bytes)          (* 259-275 *)
  | ApiGetValidators (height : Z) (lb_prev : option light_block) (vs : validators)   (* 182-212 *)
  | ApiSubmitTxWithProof (p : option proof) (tx : bytes).    (* 425-440; lbo: light block at proof.Height *)

  Definition core_get_block (lbo : option light_block) (b : block) : bverdict :=
    match lbo with None => BOther | Some lb => verify_block b lb end.
  Definition core_get_transactions (lbo : option light_block) (txs : list bytes) : bverdict :=
    match lbo with None => BOther | Some lb => verify_transactions txs lb end.
  (* the proofs are computed locally from the verified transactions; the
     implementation's output [returned] is validated against the model's *)
  Definition core_get_transactions_with_proofs (lbo : option light_block) (txs : list bytes)
             (returned : list proof) : bverdict :=
    match core_get_transactions lbo txs with
    | BOk => if list_eqb proof_eqb returned (snd (proofs_for_txs H txs)) then BOk else BOther
    | e => e
    end.
  Definition core_get_parameters (lbo : option light_block) (pm : parameters) (sp : option bytes) : bverdict :=
    match lbo with None => BOther | Some lb => verify_parameters pm sp lb end.
  (* GetValidators: a height the light client can verify is answered from the
     verified light block itself (the provider is not consulted: BOk whatever
     [vs] is, and [vs] is not what is returned); otherwise the provider's set
     for [height] is checked against NextValidatorsHash of the verified light
     block at height-1. *)
  Definition core_get_validators (lbo : option light_block) (height : Z) (lb_prev : option light_block)
             (vs : validators) : bverdict :=
    match lbo with
    | Some _ => BOk
    | None =>
        if (height <? 2)%Z then BOther
        else match lb_prev with None => BOther | Some p => verify_next_validators vs p end
    end.
  Definition core_submit_tx_with_proof (lbo : option light_block) (p : option proof) (tx : bytes) : bverdict :=
    match lbo with None => BOther | Some lb => verify_transaction_proof p tx lb end.

  Definition core_api (lbo : option light_block) (c : api_call) : bverdict :=
    match c with
    | ApiGetBlock b => core_get_block lbo b
    | ApiGetTransactions txs => core_get_transactions lbo txs
    | ApiGetTransactionsWithProofs txs ret => core_get_transactions_with_proofs lbo txs ret
    | ApiGetParameters pm sp => core_get_parameters lbo pm sp
    | ApiGetValidators h p vs => core_get_validators lbo h p vs
    | ApiSubmitTxWithProof p tx => core_submit_tx_with_proof lbo p tx
    end.
End Bind.

Arguments mkTxResult : clear implicits.
Arguments mkResults : clear implicits.
Arguments mkValidator : clear implicits.
Arguments mkValidators : clear implicits.
Arguments mkCmtParams : clear implicits.
Arguments mkParams : clear implicits.

Definition sr_result_eqb (a b : sr_result) : bool :=
  match a, b with
  | SrOk x, SrOk y => bytes_eqb x y
  | SrErr x, SrErr y => bverdict_eqb x y
  | _, _ => false
  end.

(* ---------- correspondence cases ---------- *)
Inductive bquery :=
| QBlock (b : block)
| QResults (rs : results) (results_hash : option bytes)
| QTxs (txs : list bytes)
| QTxProof (p : option proof) (tx : bytes)
| QValidators (vs : validators)
| QParams (pm : parameters) (state_params : option bytes)
| QStateRoot (txs : list bytes) (m : meta_tx)      (* m: decoding of the last tx *)
(* the public Core methods over a light client with a preloaded trusted store *)
| QCoreResults (last_trusted : Z) (rs : results) (next_results_hash : option (option bytes))
| QCoreTxResults (last_trusted : Z) (txs : list bytes) (rs : results)
                 (next_results_hash : option (option bytes)) (conv_ok : bool)
| QCoreStateRoot (lb_next : option light_block) (txs : list bytes) (m : meta_tx)
| QApi (have_lb : bool) (c : api_call).

Definition bcase := (list (bytes * bytes) * light_block * bquery)%type.
Definition run_bcase (c : bcase) : sr_result :=
  let '(tbl, lb, q) := c in
  let Hh := tbl_hash tbl in
  match q with
  | QBlock b => SrErr (verify_block Hh b lb)
  | QResults rs rh => SrErr (verify_block_results Hh rs rh lb)
  | QTxs txs => SrErr (verify_transactions Hh txs lb)
  | QTxProof p tx => SrErr (verify_transaction_proof Hh p tx lb)
  | QValidators vs => SrErr (verify_next_validators Hh vs lb)
  | QParams pm sp => SrErr (verify_parameters Hh pm sp lb)
  | QStateRoot txs m => state_root_from_block_txs (fun _ => m) txs
  | QCoreResults lt rs nrh => SrErr (core_verify_block_results Hh lt rs nrh lb)
  | QCoreTxResults lt txs rs nrh ok =>
      SrErr (core_get_transactions_with_results Hh (verify_transactions Hh txs lb) lt rs nrh ok lb)
  | QCoreStateRoot n txs m => fetch_state_root Hh (fun _ => m) n lb txs
  | QApi have c => SrErr (core_api Hh (if have then Some lb else None) c)
  end.
