(* Proofs about the field-binding checks (Stateless/Bind.v): what acceptance
   by each verify function implies, which fields are NOT bound, and that an
   altered height is always rejected. *)
From Verif Require Import Lib.Base Stateless.Merkle Stateless.Proofs Stateless.Bind.

Local Open Scope nat_scope.

(* the unbound fields of a block, as an update *)
Definition set_commit_unbound (c : commit) (h r : Z) (bid : bytes) : commit :=
  mkCommit (c_sigs c) h r bid.
Definition set_block_unbound (b : block) (size : N) (h r : Z) (bid : bytes) : block :=
  mkBlock (b_height b) (b_hash b) (b_time_s b) (b_time_ns b) (b_sr_ns b) (b_sr_version b)
    (b_sr_type b) (b_sr_hash b) size
    (match b_meta b with
     | None => None
     | Some m => Some (mkMeta (m_header m)
                   (match m_last_commit m with None => None | Some c => Some (set_commit_unbound c h r bid) end))
     end).
Definition set_block_height (b : block) (h : Z) : block :=
  mkBlock h (b_hash b) (b_time_s b) (b_time_ns b) (b_sr_ns b) (b_sr_version b)
    (b_sr_type b) (b_sr_hash b) (b_size b) (b_meta b).

(* everything verifyBlock compares, as one value *)
Definition block_bound (b : block) :=
  (b_height b, b_hash b, (b_time_s b, b_time_ns b), (b_sr_ns b, b_sr_version b, b_sr_type b, b_sr_hash b),
   match b_meta b with
   | None => None
   | Some m => Some (m_header m, match m_last_commit m with None => None | Some c => Some (c_sigs c) end)
   end).

Lemma negb_false_true b : negb b = false -> b = true.
Proof. destruct b; [reflexivity|discriminate]. Qed.

Lemma opt_bytes_eqb_same a b o : opt_bytes_eqb a o = true -> opt_bytes_eqb b o = true -> a = b.
Proof.
  destruct o as [x|]; cbn.
  - intros A B. apply bytes_eqb_eq in A, B. congruence.
  - destruct a, b; try discriminate. reflexivity.
Qed.

Section BindProofs.
  Variable H : bytes -> bytes.
  Variable hlen : nat.
  Hypothesis H_len : forall x, length (H x) = hlen.
  Notation collision := (collision H).

  (* ---------- verifyBlock ---------- *)
  Theorem verify_block_binds_l (b : block) (lb : light_block) :
    verify_block H b lb = BOk ->
    b_height b = lb_height lb /\
    b_hash b = lb_hash lb /\
    (b_time_s b = lb_time_s lb /\ b_time_ns b = 0%Z) /\
    (b_sr_ns b = zero_namespace /\
     b_sr_version b = ((wrap64 (lb_height lb) + 2 ^ 64 - 1) mod 2 ^ 64)%N /\
     b_sr_type b = root_type_state /\
     b_sr_hash b = lb_app_hash lb) /\
    exists m c, b_meta b = Some m /\ m_header m = lb_header_bytes lb /\
                m_last_commit m = Some c /\ root H (c_sigs c) = lb_last_commit_hash lb.
  Proof.
    unfold verify_block. intros V.
    destruct (negb (b_height b =? lb_height lb)%Z) eqn:E1; [discriminate|]. apply negb_false_true in E1.
    destruct (negb (bytes_eqb (b_hash b) (lb_hash lb))) eqn:E2; [discriminate|]. apply negb_false_true, bytes_eqb_eq in E2.
    destruct (negb _) eqn:E3 in V; [discriminate|]. apply negb_false_true, andb_true_iff in E3 as [E3a E3b].
    destruct (negb (bytes_eqb (b_sr_ns b) zero_namespace)) eqn:E4; [discriminate|]. apply negb_false_true, bytes_eqb_eq in E4.
    destruct (negb (b_sr_version b =? _)%N) eqn:E5; [discriminate|]. apply negb_false_true in E5.
    destruct (negb (b_sr_type b =? _)%N) eqn:E6; [discriminate|]. apply negb_false_true in E6.
    destruct (negb (bytes_eqb (b_sr_hash b) _)) eqn:E7; [discriminate|]. apply negb_false_true, bytes_eqb_eq in E7.
    destruct (b_meta b) as [m|]; [|discriminate].
    destruct (negb (bytes_eqb (m_header m) _)) eqn:E8; [discriminate|]. apply negb_false_true, bytes_eqb_eq in E8.
    destruct (m_last_commit m) as [c|] eqn:E9; [|discriminate].
    destruct (negb (bytes_eqb (root H (c_sigs c)) _)) eqn:E10; [discriminate|]. apply negb_false_true, bytes_eqb_eq in E10.
    repeat split; try lia; try assumption.
    exists m, c. repeat split; assumption.
  Qed.

  (* Two responses accepted against the same verified light block agree on
     every compared field, the commit signatures included (or H collides). *)
  Theorem verify_block_agree_l (b1 b2 : block) (lb : light_block) :
    verify_block H b1 lb = BOk -> verify_block H b2 lb = BOk ->
    block_bound b1 = block_bound b2 \/ collision.
  Proof.
    intros V1 V2.
    apply verify_block_binds_l in V1 as (A1 & A2 & [A3 A3'] & (A4 & A5 & A6 & A7) & (m1 & c1 & M1 & Hd1 & C1 & R1)).
    apply verify_block_binds_l in V2 as (B1 & B2 & [B3 B3'] & (B4 & B5 & B6 & B7) & (m2 & c2 & M2 & Hd2 & C2 & R2)).
    assert (R : root H (c_sigs c1) = root H (c_sigs c2)) by congruence.
    apply (merkle_root_injective_l H hlen H_len) in R as [S|c]; [|right; exact c].
    left. unfold block_bound. rewrite M1, M2, C1, C2, S.
    rewrite A1, A2, A3, A3', A4, A5, A6, A7, B1, B2, B3, B3', B4, B5, B6, B7, Hd1, Hd2. reflexivity.
  Qed.

  (* The fields that are NOT bound: Block.Size ("Block size cannot be
     verified", core.go:569) and the last commit's own Height, Round and
     BlockID (Commit.Hash() covers the signatures only). Changing them never
     changes the verdict. *)
  Theorem block_unbound_fields_l (b : block) (lb : light_block) (size : N) (h r : Z) (bid : bytes) :
    verify_block H (set_block_unbound b size h r bid) lb = verify_block H b lb.
  Proof.
    unfold verify_block, set_block_unbound. cbn [b_height b_hash b_time_s b_time_ns b_sr_ns b_sr_version b_sr_type b_sr_hash b_meta].
    destruct (b_meta b) as [m|]; [|reflexivity]. cbn [m_header m_last_commit].
    destruct (m_last_commit m) as [c|]; reflexivity.
  Qed.

  (* ---------- heights ---------- *)
  Theorem altered_height_rejected_l (lb : light_block) :
    (forall b, b_height b <> lb_height lb -> verify_block H b lb = BHeight) /\
    (forall rs rh, rs_height rs <> lb_height lb -> verify_block_results H rs rh lb = BHeight) /\
    (forall lt rs nrh, rs_height rs <> lb_height lb ->
       core_verify_block_results H lt rs nrh lb = BHeight \/ core_verify_block_results H lt rs nrh lb = BOther) /\
    (forall pm sp, pm_height pm <> lb_height lb -> verify_parameters H pm sp lb = BHeight) /\
    (forall vs, vs_height vs <> wrap_i64 (lb_height lb + 1) -> verify_next_validators H vs lb = BHeight).
  Proof.
    repeat split.
    - intros b N. unfold verify_block. destruct (Z.eqb_spec (b_height b) (lb_height lb)); [contradiction|reflexivity].
    - intros rs rh N. unfold verify_block_results. destruct (Z.eqb_spec (rs_height rs) (lb_height lb)); [contradiction|reflexivity].
    - intros lt rs nrh N. unfold core_verify_block_results, verify_block_results.
      destruct (Z.eqb_spec (rs_height rs) (lb_height lb)); [contradiction|]. cbn [negb].
      destruct (lt <=? lb_height lb)%Z; [left; reflexivity|]. destruct nrh; [left|right]; reflexivity.
    - intros pm sp N. unfold verify_parameters. destruct (Z.eqb_spec (pm_height pm) (lb_height lb)); [contradiction|reflexivity].
    - intros vs N. unfold verify_next_validators. destruct (Z.eqb_spec (vs_height vs) (wrap_i64 (lb_height lb + 1))); [contradiction|reflexivity].
  Qed.

  (* ---------- block results ---------- *)
  Theorem verify_results_binds_l (rs1 rs2 : results) (rh : option bytes) (lb : light_block) :
    verify_block_results H rs1 rh lb = BOk -> verify_block_results H rs2 rh lb = BOk ->
    rs_height rs1 = lb_height lb /\ rs_height rs2 = lb_height lb /\
    exists t1 e1 t2 e2, rs_meta rs1 = Some (t1, e1) /\ rs_meta rs2 = Some (t2, e2) /\
      (map r_det t1 = map r_det t2 \/ collision).
  Proof.
    unfold verify_block_results. intros V1 V2.
    destruct (Z.eqb_spec (rs_height rs1) (lb_height lb)) as [E1|]; [|discriminate].
    destruct (Z.eqb_spec (rs_height rs2) (lb_height lb)) as [E2|]; [|discriminate].
    cbn [negb] in *.
    destruct (rs_meta rs1) as [[t1 e1]|]; [|discriminate]. destruct (rs_meta rs2) as [[t2 e2]|]; [|discriminate].
    destruct (opt_bytes_eqb (root H (map r_det t1)) rh) eqn:R1; [|discriminate].
    destruct (opt_bytes_eqb (root H (map r_det t2)) rh) eqn:R2; [|discriminate].
    repeat split; try assumption. exists t1, e1, t2, e2. repeat split.
    apply (merkle_root_injective_l H hlen H_len). eapply opt_bytes_eqb_same; eassumption.
  Qed.

  (* NOT bound in results: Log, Info, Events, Codespace of every result and the
     begin/end block events (core.go:638 TODO, #6210). *)
  Theorem results_unbound_fields_l (h : Z) (txr : list tx_result) (ev ev' : bytes) (rest' : list bytes)
          (rh : option bytes) (lb : light_block) :
    length rest' = length txr ->
    verify_block_results H (mkResults h (Some (map (fun p => mkTxResult (r_det (fst p)) (snd p)) (combine txr rest'), ev'))) rh lb
    = verify_block_results H (mkResults h (Some (txr, ev))) rh lb.
  Proof.
    intros L. unfold verify_block_results. cbn [rs_height rs_meta].
    replace (map r_det (map (fun p => mkTxResult (r_det (fst p)) (snd p)) (combine txr rest'))) with (map r_det txr); [reflexivity|].
    rewrite map_map. cbn [r_det]. revert rest' L. induction txr as [|x l IH]; intros [|y r'] L; cbn in *; try lia; [reflexivity|].
    f_equal. apply IH. lia.
  Qed.

  (* The Core method: below the latest trusted height acceptance is acceptance
     by verifyBlockResults against the next verified header's LastResultsHash;
     AT the latest trusted height (or above) nothing but the height and the
     decodability is checked (core.go:600-613: "skipping verification"). *)
  Theorem core_results_below_latest_l (lt : Z) (rs : results) (nrh : option (option bytes)) (lb : light_block) :
    (lb_height lb < lt)%Z -> core_verify_block_results H lt rs nrh lb = BOk ->
    exists rh, nrh = Some rh /\ verify_block_results H rs rh lb = BOk.
  Proof.
    unfold core_verify_block_results. intros L V.
    destruct (Z.leb_spec lt (lb_height lb)); [lia|].
    destruct nrh as [rh|]; [|discriminate]. exists rh. split; [reflexivity|exact V].
  Qed.
  Theorem core_results_latest_not_verified_l (lt : Z) (rs : results) (nrh : option (option bytes)) (lb : light_block) m :
    (lt <= lb_height lb)%Z -> rs_height rs = lb_height lb -> rs_meta rs = Some m ->
    core_verify_block_results H lt rs nrh lb = BOk.
  Proof.
    unfold core_verify_block_results. intros L E M.
    destruct (Z.leb_spec lt (lb_height lb)); [|lia].
    rewrite E, Z.eqb_refl, M. reflexivity.
  Qed.

  (* GetTransactionsWithResults hands out (txs, results) only if both the
     transaction check and the Core-level results check accepted. *)
  Theorem core_tx_results_binds_l (lt : Z) (txs : list bytes) (rs : results)
          (nrh : option (option bytes)) (ok : bool) (lb : light_block) :
    core_get_transactions_with_results H (verify_transactions H txs lb) lt rs nrh ok lb = BOk ->
    verify_transactions H txs lb = BOk /\ core_verify_block_results H lt rs nrh lb = BOk.
  Proof.
    unfold core_get_transactions_with_results.
    destruct (verify_transactions H txs lb); try discriminate.
    destruct (core_verify_block_results H lt rs nrh lb); try discriminate.
    intros _. split; reflexivity.
  Qed.

  (* ---------- transactions ---------- *)
  Theorem verify_transactions_binds_l (txs1 txs2 : list bytes) (lb : light_block) :
    verify_transactions H txs1 lb = BOk -> verify_transactions H txs2 lb = BOk ->
    txs1 = txs2 \/ collision.
  Proof.
    unfold verify_transactions. intros V1 V2.
    destruct (opt_bytes_eqb (tx_root H txs1) _) eqn:R1; [|discriminate].
    destruct (opt_bytes_eqb (tx_root H txs2) _) eqn:R2; [|discriminate].
    apply (tx_root_injective_l H hlen H_len). eapply opt_bytes_eqb_same; eassumption.
  Qed.

  Theorem verify_transaction_proof_binds_l (p : option proof) (tx : bytes) (txs : list bytes) (lb : light_block) :
    verify_transaction_proof H p tx lb = BOk -> verify_transactions H txs lb = BOk ->
    In tx txs \/ collision.
  Proof.
    unfold verify_transaction_proof, verify_transactions. intros V T.
    destruct (verify_tx H p (lb_data_hash lb) tx) eqn:E; try discriminate.
    destruct (opt_bytes_eqb (tx_root H txs) (lb_data_hash lb)) eqn:R; [|discriminate].
    destruct (lb_data_hash lb) as [rh|].
    - cbn in R. apply bytes_eqb_eq in R. subst rh.
      apply (proof_sound_member_l H hlen H_len _ _ _ E).
    - unfold verify_tx, verify_item in E. destruct p; discriminate.
  Qed.

  (* ---------- next validators ---------- *)
  Theorem verify_next_validators_binds_l (v1 v2 : validators) (lb : light_block) :
    verify_next_validators H v1 lb = BOk -> verify_next_validators H v2 lb = BOk ->
    vs_height v1 = wrap_i64 (lb_height lb + 1) /\ vs_height v2 = wrap_i64 (lb_height lb + 1) /\
    exists l1 s1 l2 s2, vs_set v1 = Some (l1, s1) /\ vs_set v2 = Some (l2, s2) /\
      (map v_bytes l1 = map v_bytes l2 \/ collision).
  Proof.
    unfold verify_next_validators. intros V1 V2.
    destruct (Z.eqb_spec (vs_height v1) (wrap_i64 (lb_height lb + 1))) as [E1|]; [|discriminate].
    destruct (Z.eqb_spec (vs_height v2) (wrap_i64 (lb_height lb + 1))) as [E2|]; [|discriminate].
    cbn [negb] in *.
    destruct (vs_set v1) as [[l1 s1]|]; [|discriminate]. destruct (vs_set v2) as [[l2 s2]|]; [|discriminate].
    destruct (bytes_eqb (root H (map v_bytes l1)) _) eqn:R1; [|discriminate].
    destruct (bytes_eqb (root H (map v_bytes l2)) _) eqn:R2; [|discriminate].
    apply bytes_eqb_eq in R1, R2.
    repeat split; try assumption. exists l1, s1, l2, s2. repeat split.
    apply (merkle_root_injective_l H hlen H_len). congruence.
  Qed.

  (* The binding rule is on the RETURNED answer itself: the Merkle root over
     its entries, in the order they have in the returned bytes, is the hash the
     verified header commits to. *)
  Theorem verify_next_validators_hash_l (vs : validators) (lb : light_block) :
    verify_next_validators H vs lb = BOk ->
    vs_height vs = wrap_i64 (lb_height lb + 1) /\
    exists l s, vs_set vs = Some (l, s) /\ root H (map v_bytes l) = lb_next_validators_hash lb.
  Proof.
    unfold verify_next_validators. intros V.
    destruct (Z.eqb_spec (vs_height vs) (wrap_i64 (lb_height lb + 1))) as [E|]; [|discriminate]. cbn [negb] in V.
    destruct (vs_set vs) as [[l s]|]; [|discriminate].
    destruct (bytes_eqb (root H (map v_bytes l)) _) eqn:R; [|discriminate]. apply bytes_eqb_eq in R.
    split; [exact E|]. exists l, s. split; [reflexivity|exact R].
  Qed.

  (* ---------- parameters ---------- *)
  Theorem verify_parameters_binds_l (p1 p2 : parameters) (sp : option bytes) (lb : light_block) :
    verify_parameters H p1 sp lb = BOk -> verify_parameters H p2 sp lb = BOk ->
    pm_height p1 = lb_height lb /\ pm_height p2 = lb_height lb /\
    pm_params_cbor p1 = pm_params_cbor p2 /\ sp = Some (pm_params_cbor p1) /\
    exists c1 c2, pm_meta p1 = Some c1 /\ pm_meta p2 = Some c2 /\
      (cp_hashed c1 = cp_hashed c2 \/ collision).
  Proof.
    unfold verify_parameters. intros V1 V2.
    destruct (Z.eqb_spec (pm_height p1) (lb_height lb)) as [E1|]; [|discriminate].
    destruct (Z.eqb_spec (pm_height p2) (lb_height lb)) as [E2|]; [|discriminate].
    cbn [negb] in *.
    destruct (pm_meta p1) as [c1|]; [|discriminate]. destruct (pm_meta p2) as [c2|]; [|discriminate].
    destruct (cp_valid c1); [|discriminate]. destruct (cp_valid c2); [|discriminate]. cbn [negb] in *.
    destruct (bytes_eqb (H (cp_hashed c1)) _) eqn:R1; [|discriminate].
    destruct (bytes_eqb (H (cp_hashed c2)) _) eqn:R2; [|discriminate].
    apply bytes_eqb_eq in R1, R2. cbn [negb] in *.
    destruct sp as [s|]; [|discriminate].
    destruct (bytes_eqb s (pm_params_cbor p1)) eqn:S1; [|discriminate].
    destruct (bytes_eqb s (pm_params_cbor p2)) eqn:S2; [|discriminate].
    apply bytes_eqb_eq in S1, S2.
    repeat split; try assumption; try congruence.
    exists c1, c2. repeat split. apply (hash_eq_dec H). congruence.
  Qed.

  (* ---------- the public Core API: each method hands out provider data only
     after its verification function accepted it against a light block the
     light client verified ---------- *)
  Theorem core_get_block_binds_l (lbo : option light_block) (b : block) :
    core_get_block H lbo b = BOk -> exists lb, lbo = Some lb /\ verify_block H b lb = BOk.
  Proof. destruct lbo as [lb|]; cbn; [eauto|discriminate]. Qed.

  Theorem core_get_transactions_binds_l (lbo : option light_block) (txs : list bytes) :
    core_get_transactions H lbo txs = BOk -> exists lb, lbo = Some lb /\ verify_transactions H txs lb = BOk.
  Proof. destruct lbo as [lb|]; cbn; [eauto|discriminate]. Qed.

  Lemma list_eqb_proof_eq (a : list proof) : forall b, list_eqb proof_eqb a b = true -> a = b.
  Proof.
    induction a as [|x a IH]; intros [|y b] E; cbn in E; try discriminate; [reflexivity|].
    apply andb_true_iff in E as [E1 E2]. apply IH in E2. subst b. f_equal.
    unfold proof_eqb in E1. destruct x, y; cbn in *.
    repeat (apply andb_true_iff in E1 as [E1 ?]).
    assert (list_eqb bytes_eqb p_aunts p_aunts0 = true -> p_aunts = p_aunts0).
    { clear. revert p_aunts0. induction p_aunts as [|u l IHl]; intros [|v m] E; cbn in E; try discriminate; [reflexivity|].
      apply andb_true_iff in E as [A B]. apply bytes_eqb_eq in A. apply IHl in B. congruence. }
    apply bytes_eqb_eq in H1. f_equal; try lia; auto.
  Qed.

  (* GetTransactionsWithProofs: the transactions are the verified ones and
     every returned proof verifies, for the transaction at its position,
     against the verified header's data hash. *)
  Theorem core_get_transactions_with_proofs_binds_l (lbo : option light_block) (txs : list bytes) (ret : list proof) :
    core_get_transactions_with_proofs H lbo txs ret = BOk ->
    exists lb, lbo = Some lb /\ verify_transactions H txs lb = BOk /\ length ret = length txs /\
      forall d, lb_data_hash lb = Some d ->
      forall i p, nth_error ret i = Some p -> verify_transaction_proof H (Some p) (nth i txs []) lb = BOk.
  Proof.
    unfold core_get_transactions_with_proofs. intros V.
    destruct (core_get_transactions H lbo txs) eqn:G; try discriminate.
    apply core_get_transactions_binds_l in G as (lb & -> & T).
    destruct (list_eqb proof_eqb ret _) eqn:E; [|discriminate]. apply list_eqb_proof_eq in E.
    exists lb. split; [reflexivity|]. split; [exact T|].
    destruct (proof_complete_l H hlen H_len txs 0 (mkProof 0 0 [] [])) as [L _].
    split; [rewrite E; exact L|].
    intros d D i p N. unfold verify_transaction_proof. rewrite D.
    unfold verify_transactions in T. rewrite D in T. cbn [opt_bytes_eqb] in T.
    destruct (bytes_eqb (tx_root H txs) d) eqn:R; [|discriminate]. apply bytes_eqb_eq in R. subst d.
    rewrite E in N. destruct (proof_complete_l H hlen H_len txs i p) as [_ C].
    unfold proofs_for_txs in C. cbn [fst snd] in C. unfold proofs_for_txs in N. cbn [snd] in N.
    rewrite (C N). reflexivity.
  Qed.

  Theorem core_get_parameters_binds_l (lbo : option light_block) (pm : parameters) (sp : option bytes) :
    core_get_parameters H lbo pm sp = BOk -> exists lb, lbo = Some lb /\ verify_parameters H pm sp lb = BOk.
  Proof. destruct lbo as [lb|]; cbn; [eauto|discriminate]. Qed.

  (* GetValidators: provider data is returned only for a height the light
     client cannot verify itself, and then only when it matches
     NextValidatorsHash of the verified light block of the previous height. *)
  Theorem core_get_validators_binds_l (lbo : option light_block) (height : Z) (lbp : option light_block) (vs : validators) :
    core_get_validators H lbo height lbp vs = BOk ->
    (exists lb, lbo = Some lb) \/
    (lbo = None /\ (2 <= height)%Z /\ exists p, lbp = Some p /\ verify_next_validators H vs p = BOk).
  Proof.
    unfold core_get_validators. destruct lbo as [lb|]; [left; eauto|]. intros V. right.
    destruct (Z.ltb_spec height 2); [discriminate|]. destruct lbp as [p|]; [|discriminate].
    repeat split; try lia. eauto.
  Qed.

  (* core_validators_binds: on the fallback branch (the height is one above
     what the light client can verify) an accepted provider answer -- the very
     value GetValidators returns -- hashes, entry by entry in its own order, to
     NextValidatorsHash of the verified light block below; two accepted
     answers therefore carry the same entry list (or H collides). *)
  Theorem core_validators_binds_l (height : Z) (lbp : option light_block) (vs : validators) :
    core_get_validators H None height lbp vs = BOk ->
    (2 <= height)%Z /\
    exists p l s, lbp = Some p /\ vs_set vs = Some (l, s) /\ vs_height vs = wrap_i64 (lb_height p + 1) /\
      root H (map v_bytes l) = lb_next_validators_hash p.
  Proof.
    intros V. apply core_get_validators_binds_l in V as [[lb E]|(_ & Hh & p & -> & V)]; [discriminate|].
    apply verify_next_validators_hash_l in V as (E & l & s & S & R).
    split; [exact Hh|]. exists p, l, s. repeat split; assumption.
  Qed.

  Theorem core_submit_tx_with_proof_binds_l (lbo : option light_block) (p : option proof) (tx : bytes) (txs : list bytes) :
    core_submit_tx_with_proof H lbo p tx = BOk ->
    exists lb, lbo = Some lb /\ verify_transaction_proof H p tx lb = BOk /\
      (verify_transactions H txs lb = BOk -> In tx txs \/ collision).
  Proof.
    destruct lbo as [lb|]; cbn; [|discriminate]. intros V. exists lb. repeat split; [exact V|].
    intros T. eapply verify_transaction_proof_binds_l; eassumption.
  Qed.

  (* ---------- state root ---------- *)
  Variable decode_meta_tx : bytes -> meta_tx.

  (* Whatever transactions the provider returns, a state root that
     fetchStateRoot hands out is a function of the verified light blocks only. *)
  Theorem state_root_bound_l (lb_next : option light_block) (lb : light_block) (txs1 txs2 : list bytes) h1 h2 :
    fetch_state_root H decode_meta_tx lb_next lb txs1 = SrOk h1 ->
    fetch_state_root H decode_meta_tx lb_next lb txs2 = SrOk h2 ->
    h1 = h2 \/ collision.
  Proof.
    unfold fetch_state_root. intros F1 F2.
    destruct (match lb_next with Some n => state_root_from_light_block n | None => SrErr BOther end) as [h|e].
    - left. congruence.
    - destruct (verify_transactions H txs1 lb) eqn:V1; try discriminate.
      destruct (verify_transactions H txs2 lb) eqn:V2; try discriminate.
      destruct (verify_transactions_binds_l _ _ _ V1 V2) as [->|c]; [|right; exact c].
      left. congruence.
  Qed.
End BindProofs.

(* ---------- non-vacuity: a toy hash with a fixed output length ---------- *)
Definition toyH (x : bytes) : bytes := [fold_left (fun a b => (a * 31 + b + 7) mod 251)%N x 3%N].
Lemma toyH_len x : length (toyH x) = 1.
Proof. reflexivity. Qed.

Definition ex_txs : list bytes := [[1]; [2; 2]; [3]; [4; 4; 4]; [5]]%N.
Example ex_five_tx_block_proofs :
  let '(r, ps) := proofs_for_txs toyH ex_txs in
  verify_tx toyH (nth_error ps 0) (Some r) [1]%N = MOk /\
  verify_tx toyH (nth_error ps 3) (Some r) [4; 4; 4]%N = MOk /\
  verify_tx toyH (nth_error ps 4) (Some r) [5]%N = MOk /\
  verify_tx toyH (nth_error ps 3) (Some r) [5]%N = MLeafHash /\
  length ps = 5.
Proof. vm_compute. repeat split. Qed.

Definition ex_commit := mkCommit [[9; 9]; [8]]%N 6 0 [1; 2]%N.
Definition ex_lb : light_block :=
  mkLB 7 [7; 7]%N 1000 5 [4; 4]%N [1; 2; 3]%N (root toyH (c_sigs ex_commit)) (Some (tx_root toyH ex_txs))
       (root toyH [[5]; [6]]%N) (toyH [3; 3]%N).
Definition ex_block : block :=
  mkBlock 7 [7; 7]%N 1000 0 zero_namespace 6 1 [4; 4]%N 1234 (Some (mkMeta [1; 2; 3]%N (Some ex_commit))).
Example ex_block_accepted : verify_block toyH ex_block ex_lb = BOk.
Proof. vm_compute. reflexivity. Qed.
Example ex_block_height_rejected : verify_block toyH (set_block_height ex_block 8) ex_lb = BHeight.
Proof. vm_compute. reflexivity. Qed.
Example ex_txs_accepted : verify_transactions toyH ex_txs ex_lb = BOk.
Proof. vm_compute. reflexivity. Qed.
Example ex_results_accepted :
  verify_block_results toyH (mkResults 7 (Some ([mkTxResult [1]%N [2]%N], [3]%N))) (Some (root toyH [[1]%N])) ex_lb = BOk.
Proof. vm_compute. reflexivity. Qed.
Example ex_validators_accepted :
  verify_next_validators toyH (mkValidators 8 (Some ([mkValidator [5]%N [0]%N; mkValidator [6]%N [1]%N], []))) ex_lb = BOk.
Proof. vm_compute. reflexivity. Qed.
Example ex_params_accepted :
  verify_parameters toyH (mkParams 7 (Some (mkCmtParams [3; 3]%N true [9]%N)) [8]%N) (Some [8]%N) ex_lb = BOk.
Proof. vm_compute. reflexivity. Qed.
Example ex_state_root :
  fetch_state_root toyH (fun _ => MtTx true (Some [4; 2]%N)) None ex_lb ex_txs = SrOk [4; 2]%N.
Proof. vm_compute. reflexivity. Qed.
