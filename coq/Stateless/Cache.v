(* Model of the stateful part of the stateless consensus backend
   (go/consensus/cometbft/stateless/core.go): the two LRU caches
   (stateRootCache / resultsHashCache, 38-44, 59-60, 790-802, 864-876, with
   go/common/cache/lru semantics), the latest block kept by handleNewBlock
   (525-544), and the resolution of "latest" heights (163-170, 726-753).

   One Core is a state machine over operations.  Each operation carries what
   the environment answers during that call: the light client's verified light
   blocks for the heights the code asks for (None: cannot be verified) and the
   untrusted provider's response.  Executable definitions only. *)
From Verif Require Import Lib.Base Stateless.Merkle Stateless.Bind.

(* ---------- go/common/cache/lru with a capacity in entries ---------- *)
Section Lru.
  Context {V : Type}.
  Fixpoint lru_remove (k : Z) (l : list (Z * V)) : list (Z * V) :=
    match l with
    | [] => []
    | (k', v) :: r => if (k' =? k)%Z then lru_remove k r else (k', v) :: lru_remove k r
    end.
  Fixpoint lru_find (k : Z) (l : list (Z * V)) : option V :=
    match l with
    | [] => None
    | (k', v) :: r => if (k' =? k)%Z then Some v else lru_find k r
    end.
  (* lru.go:86-90,143-156 Get: a hit moves the entry to the front *)
  Definition lru_get (k : Z) (l : list (Z * V)) : option V * list (Z * V) :=
    match lru_find k l with
    | Some v => (Some v, (k, v) :: lru_remove k l)
    | None => (None, l)
    end.
  (* lru.go:47-83 Put: an existing key is dropped first, the least recently
     used entries are evicted from the back until the new one fits *)
  Definition lru_put (cap : nat) (k : Z) (v : V) (l : list (Z * V)) : list (Z * V) :=
    (k, v) :: firstn (cap - 1) (lru_remove k l).
End Lru.

Definition cache_capacity : nat := 128.     (* core.go:38-44 *)

Record cstate := mkCState {
  sr_cache : list (Z * bytes);             (* stateRootCache: height -> verified state root *)
  rh_cache : list (Z * option bytes);      (* resultsHashCache: height -> LastResultsHash of the verified header height+1 *)
  latest_block : option block;             (* latestBlock (GetStatus reports it) *)
  watching : bool;                         (* startWatchingBlocksCh closed *)
}.
Definition cstate_init : cstate := mkCState [] [] None false.

Inductive cop :=
(* StateRoot(height) (455-472) for an explicit height: [lb] / [lb_next] are the
   light client's answers for height / height+1, [txs] the provider's
   transactions for the height *)
| OStateRoot (h : Z) (lb lb_next : option light_block) (txs : list bytes)
(* GetBlockResults(height) (126-142): [next_rh] = LastResultsHash of the
   verified light block height+1 (None: not available) *)
| OBlockResults (h : Z) (lb : option light_block) (last_trusted : Z)
                (next_rh : option (option bytes)) (rs : results)
(* GetTransactionsWithResults(height) (347-377): verified transactions, the same
   results check as GetBlockResults (it shares the results-hash cache), then the
   conversion of the results (abstract: [conv_ok]) *)
| OTxResults (h : Z) (lb : option light_block) (last_trusted : Z)
             (next_rh : option (option bytes)) (txs : list bytes) (rs : results) (conv_ok : bool)
(* a stateless public method (GetBlock, GetTransactions, GetTransactionsWithProofs,
   GetParameters, GetValidators, SubmitTxWithProof): Bind.core_api *)
| OApi (lb : option light_block) (c : api_call)
(* handleNewBlock(blk) (525-544); [lb]: retryLightBlock(blk.Height), None when
   it gives up (context cancelled) *)
| ONewBlock (lb : option light_block) (b : block)
(* WatchBlocks() (443-453): from now on "latest" is the light client's *)
| OWatch
(* GetLatestHeight() (164-170): [last_trusted] = lightClient.LastTrustedHeight()
   (None: error), [provider_latest] = provider.GetLatestHeight(),
   [verify] = the light client's answer for the resolved height *)
| OLatestHeight (last_trusted : option Z) (provider_latest : Z) (verify : Z -> option light_block).

Inductive canswer :=
| ARoot (r : sr_result)
| AVerdict (v : bverdict)
| AHeight (h : option Z)
| ANone.

Section Core.
  Variable H : bytes -> bytes.
  Variable decode_meta_tx : bytes -> meta_tx.

  (* core.go:804-835 with the light blocks as options *)
  Definition fetch_state_root_opt (lb lb_next : option light_block) (txs : list bytes) : sr_result :=
    match match lb_next with Some n => state_root_from_light_block n | None => SrErr BOther end with
    | SrOk r => SrOk r
    | SrErr _ =>
        match lb with
        | None => SrErr BOther
        | Some l =>
            match verify_transactions H txs l with
            | BOk => state_root_from_block_txs decode_meta_tx txs
            | e => SrErr e
            end
        end
    end.

  (* core.go:726-753 resolveHeight(HeightLatest) *)
  Definition resolve_latest (w : bool) (last_trusted : option Z) (provider_latest : Z) : option Z :=
    match (if w then last_trusted else None) with
    | Some h => Some h
    | None => if (provider_latest <? 1)%Z then None else Some provider_latest
    end.

  (* core.go:599-621 + 864-876: the Core method verifyBlockResults with the results-hash cache *)
  Definition results_step (st : cstate) (l : light_block) (last_trusted : Z)
             (next_rh : option (option bytes)) (rs : results) : cstate * bverdict :=
    if (last_trusted <=? lb_height l)%Z then
      (st, core_verify_block_results H last_trusted rs next_rh l)
    else
      match lru_get (lb_height l) (rh_cache st) with
      | (Some rh, c') => (mkCState (sr_cache st) c' (latest_block st) (watching st), verify_block_results H rs rh l)
      | (None, _) =>
          match next_rh with
          | None => (st, BOther)
          | Some rh => (mkCState (sr_cache st) (lru_put cache_capacity (lb_height l) rh (rh_cache st)) (latest_block st) (watching st),
                        verify_block_results H rs rh l)
          end
      end.

  Definition cstep (st : cstate) (o : cop) : cstate * canswer :=
    match o with
    | OStateRoot h lb lb_next txs =>
        (* 790-802 *)
        match lru_get h (sr_cache st) with
        | (Some r, c') => (mkCState c' (rh_cache st) (latest_block st) (watching st), ARoot (SrOk r))
        | (None, _) =>
            match fetch_state_root_opt lb lb_next txs with
            | SrOk r => (mkCState (lru_put cache_capacity h r (sr_cache st)) (rh_cache st) (latest_block st) (watching st),
                         ARoot (SrOk r))
            | SrErr e => (st, ARoot (SrErr e))
            end
        end
    | OBlockResults h lb last_trusted next_rh rs =>
        match lb with
        | None => (st, AVerdict BOther)
        | Some l => let '(st', v) := results_step st l last_trusted next_rh rs in (st', AVerdict v)
        end
    | OTxResults h lb last_trusted next_rh txs rs conv_ok =>
        match lb with
        | None => (st, AVerdict BOther)
        | Some l =>
            match verify_transactions H txs l with
            | BOk =>
                let '(st', v) := results_step st l last_trusted next_rh rs in
                (st', AVerdict (match v with BOk => if conv_ok then BOk else BOther | e => e end))
            | e => (st, AVerdict e)
            end
        end
    | OApi lb c => (st, AVerdict (core_api H lb c))
    | ONewBlock lb b =>
        match lb with
        | None => (st, AVerdict BOther)
        | Some l =>
            match verify_block H b l with
            | BOk => (mkCState (sr_cache st) (rh_cache st) (Some b) (watching st), AVerdict BOk)
            | e => (st, AVerdict e)
            end
        end
    | OWatch => (mkCState (sr_cache st) (rh_cache st) (latest_block st) true, ANone)
    | OLatestHeight lt pl verify =>
        match resolve_latest (watching st) lt pl with
        | None => (st, AHeight None)
        | Some h =>
            match verify h with
            | None => (st, AHeight None)
            | Some l => (st, AHeight (Some (lb_height l)))
            end
        end
    end.

  Fixpoint crun (st : cstate) (ops : list cop) : cstate * list canswer :=
    match ops with
    | [] => (st, [])
    | o :: r =>
        let '(st1, a) := cstep st o in
        let '(st2, l) := crun st1 r in
        (st2, a :: l)
    end.
End Core.

Definition canswer_eqb (a b : canswer) : bool :=
  match a, b with
  | ARoot x, ARoot y => sr_result_eqb x y
  | AVerdict x, AVerdict y => bverdict_eqb x y
  | AHeight None, AHeight None => true
  | AHeight (Some x), AHeight (Some y) => (x =? y)%Z
  | ANone, ANone => true
  (* a call that fails before any data is looked at has the same shape for every method *)
  | AVerdict BOther, ARoot (SrErr BOther) | ARoot (SrErr BOther), AVerdict BOther => true
  | _, _ => false
  end.

(* ---------- correspondence cases: one Core, a history of operations.
   The harness gives the meta-transaction decoder as a table over the last
   transactions that occur, and for OLatestHeight the light client's answers as
   a table height -> light block. ---------- *)
Inductive hop :=
| HStateRoot (h : Z) (lb lb_next : option light_block) (txs : list bytes)
| HBlockResults (h : Z) (lb : option light_block) (last_trusted : Z) (next_rh : option (option bytes)) (rs : results)
| HNewBlock (lb : option light_block) (b : block)
| HWatch
| HLatestHeight (last_trusted : option Z) (provider_latest : Z) (verify : list (Z * light_block))
| HLatestBlock     (* observation: height of the latest block, not an operation of the Core *)
| HTxResults (h : Z) (lb : option light_block) (last_trusted : Z) (next_rh : option (option bytes))
             (txs : list bytes) (rs : results) (conv_ok : bool)
| HApi (lb : option light_block) (c : api_call)
(* a query for HeightLatest: the provider answers its consecutive GetLatestHeight
   requests with [answers]; "latest" is resolved ONCE (resolve_latest on the first
   answer) and the whole call then is the call at that height: [alts] gives, for
   every height the provider may name, what the call at that height is (with the
   provider's data for that height). *)
| HAtLatest (last_trusted : option Z) (answers : list Z) (alts : list (Z * hop)).

Fixpoint dec_tbl (t : list (bytes * meta_tx)) (x : bytes) : meta_tx :=
  match t with
  | [] => MtBadSigned
  | (k, m) :: r => if bytes_eqb k x then m else dec_tbl r x
  end.
Fixpoint lb_tbl (t : list (Z * light_block)) (h : Z) : option light_block :=
  match t with
  | [] => None
  | (k, l) :: r => if (k =? h)%Z then Some l else lb_tbl r h
  end.

Definition hcase := (list (bytes * bytes) * list (bytes * meta_tx) * list hop)%type.
Fixpoint alt_find (h : Z) (alts : list (Z * hop)) : option hop :=
  match alts with
  | [] => None
  | (k, o) :: r => if (k =? h)%Z then Some o else alt_find h r
  end.
(* None: not an operation of the Core *)
Definition hop_cop (o : hop) : option cop :=
  match o with
  | HStateRoot h lb n txs => Some (OStateRoot h lb n txs)
  | HBlockResults h lb lt nrh rs => Some (OBlockResults h lb lt nrh rs)
  | HNewBlock lb b => Some (ONewBlock lb b)
  | HWatch => Some OWatch
  | HLatestHeight lt pl t => Some (OLatestHeight lt pl (lb_tbl t))
  | HTxResults h lb lt nrh txs rs ok => Some (OTxResults h lb lt nrh txs rs ok)
  | HApi lb c => Some (OApi lb c)
  | HLatestBlock | HAtLatest _ _ _ => None
  end.
Fixpoint hrun (H : bytes -> bytes) (dec : bytes -> meta_tx) (st : cstate) (ops : list hop) : list canswer :=
  match ops with
  | [] => []
  | o :: r =>
      match o with
      | HLatestBlock =>
          AHeight (match latest_block st with Some b => Some (b_height b) | None => None end) :: hrun H dec st r
      | HAtLatest lt answers alts =>
          (* core.go:726-753: one resolution; an unresolvable or unknown height fails the call *)
          match resolve_latest (watching st) lt (hd 0%Z answers) with
          | None => AVerdict BOther :: hrun H dec st r
          | Some h =>
              match match alt_find h alts with Some o' => hop_cop o' | None => None end with
              | Some c => let '(st1, a) := cstep H dec st c in a :: hrun H dec st1 r
              | None => AVerdict BOther :: hrun H dec st r
              end
          end
      | _ =>
          match hop_cop o with
          | Some c => let '(st1, a) := cstep H dec st c in a :: hrun H dec st1 r
          | None => hrun H dec st r
          end
      end
  end.
Definition run_hcase (c : hcase) : list canswer :=
  let '(tbl, dt, ops) := c in hrun (tbl_hash tbl) (dec_tbl dt) cstate_init ops.
