(* C18 — proofs about Verif.Pcs.Model.  The primitives (SHA-256, ECDSA, X.509,
   JSON, TupleHash) and the process-wide switches are Section variables: every
   theorem holds for all of them. *)
From Verif Require Import Lib.Base Pcs.Model.
From Coq Require Import ZArith Lia.

Lemma bind_ok {A B} (x : Res A) (f : A -> Res B) b :
  bind x f = Ok b -> exists a, x = Ok a /\ f a = Ok b.
Proof. destruct x as [a|r]; cbn [bind]; [eauto|discriminate]. Qed.

Lemma bytes_eqb_refl_true x : bytes_eqb x x = true.
Proof. apply bytes_eqb_eq. reflexivity. Qed.

(* peel one check / stage off a hypothesis [H : ... = Ok _] *)
Ltac crush_ok H :=
  repeat match type of H with
  | bind (check ?b ?r) _ = Ok _ =>
      let E := fresh "E" in destruct b eqn:E; cbn [check bind] in H; [|discriminate H]
  | bind ?x _ = Ok _ =>
      let E := fresh "S" in destruct x eqn:E; cbn [bind] in H; [|discriminate H]
  | check ?b _ = Ok _ =>
      let E := fresh "E" in destruct b eqn:E; cbn [check] in H; [|discriminate H]
  | match ?x with _ => _ end = Ok _ =>
      let E := fresh "M" in destruct x eqn:E; try discriminate H
  | Rej _ = Ok _ => discriminate H
  end.

Ltac use_eqs :=
  repeat match goal with
  | E : ?b = true |- context [check ?b _] => rewrite E; cbn [check bind]
  | E : ?x = Ok _ |- context [bind ?x _] => rewrite E; cbn [bind]
  | E : ?x = _ |- context [match ?x with _ => _ end] => rewrite E
  end.

Section Pcs.
  Variable P : Prims.
  Variable env : Env.

  (* ------------------------------------------------------------------ *)
  (* named checks *)

  Definition in_window (period : N) (issue ts : Z) : Prop :=
    (issue <= ts /\ ts - issue <= Z.of_N period * day_ns)%Z.

  Definition fmspc_policy_ok (pol : Policy) (f : bytes) : Prop :=
    (p_whitelist pol = [] \/ mem_bytes f (p_whitelist pol) = true) /\ mem_bytes f (p_blacklist pol) = false.

  (* QE identity matches the QE report (tcb.go:643-737) *)
  Definition qe_identity_matches (qi : QeId) (rep : bytes) : Prop :=
    exists ms misc miscm at_ atm lv,
      hex_of_len (qi_mrsigner qi) 32 = Some ms /\ ms = sgx_mrsigner rep /\
      qi_prodid qi = sgx_prodid rep /\
      hex_of_len (qi_miscselect qi) 4 = Some misc /\ hex_of_len (qi_miscmask qi) 4 = Some miscm /\
      N.land (sgx_miscselect rep) (le_val miscm) = le_val misc /\
      hex_of_len (qi_attrs qi) 16 = Some at_ /\ hex_of_len (qi_attrmask qi) 16 = Some atm /\
      N.land (sgx_flags rep) (le 0 8 atm) = le 0 8 at_ /\
      N.land (sgx_xfrm rep) (le 8 8 atm) = le 8 8 at_ /\
      find_enclave_level (sgx_isvsvn rep) (qi_levels qi) = Some lv /\ el_status lv = ST_UpToDate.

  Record AllChecks (pol : Policy) (ts : Z) (q : Quote) (c : Collateral) (out : Output) : Prop := {
    ac_enabled : p_disabled pol = false;
    ac_tee : q_tee q = TEE_TDX ->
             exists mods, p_tdx pol = Some mods /\ tdx_module_allowed mods (q_body q) = true;
    ac_debug : e_allow_debug env = (if q_tee q =? TEE_TDX then td_debug (q_body q) else sgx_debug (q_body q));
    ac_mrsigner : q_tee q <> TEE_TDX -> mem_bytes (sgx_mrsigner (q_body q)) (e_mrsigner_blacklist env) = false;
    ac_rest : exists pck tpk qi ti qissue tissue f lv,
      (* PCK chain valid at ts up to the trust root, leaf information *)
      q_cert_type q = 5 /\ pck_count P (q_cert_data q) = 3 /\
      pck_chain_ok P ts (q_cert_data q) = true /\ pck_info P (q_cert_data q) = PckOk pck /\
      (* QE report signed by the PCK key *)
      ecdsa_ok P (pk_key pck) (sha256 P (q_qe_report q)) (q_qe_sig q) = true /\
      (* QE report data binds the attestation key and the authentication data *)
      slice 0 32 (sgx_report_data (q_qe_report q)) = sha256 P (q_attkey q ++ q_auth q) /\
      slice 32 32 (sgx_report_data (q_qe_report q)) = zeros 32 /\
      (* header and report body signed by the attestation key *)
      att_key_valid P (q_attkey q) = true /\
      ecdsa_ok P (q_attkey q) (sha256 P (q_header q ++ q_body q)) (q_sig q) = true /\
      (* TCB bundle: chain valid at ts, both bodies signed by its key *)
      tcb_certs P (c_certs c) = Some (Some tpk) /\ tcb_chain_ok P ts (c_certs c) = true /\
      tcb_sig_ok P tpk (c_qeid c) (c_qeid_sig c) = true /\
      tcb_sig_ok P tpk (c_tcbinfo c) (c_tcbinfo_sig c) = true /\
      parse_qeid P (c_qeid c) = Some qi /\ parse_tcbinfo P (c_tcbinfo c) = Some ti /\
      (* identifiers and versions *)
      qi_id qi = (if q_tee q =? TEE_TDX then s_TD_QE else s_QE) /\ qi_version qi = 2%Z /\
      ti_id ti = (if q_tee q =? TEE_TDX then s_TDX else s_SGX) /\ ti_version ti = 3%Z /\
      (* validity windows (the code's rule: issueDate <= ts <= issueDate + period days) *)
      qi_issue qi = Some qissue /\ qi_next qi <> None /\ in_window (p_period pol) qissue ts /\
      ti_issue ti = Some tissue /\ ti_next ti <> None /\ in_window (p_period pol) tissue ts /\
      (* evaluation data numbers *)
      p_min_eval pol <= qi_eval qi /\ p_min_eval pol <= ti_eval ti /\
      (* FMSPC *)
      fmspc_policy_ok pol (ti_fmspc ti) /\ hexdecode (ti_fmspc ti) = Some f /\ f = pk_fmspc pck /\
      (* TCB level and status *)
      get_tcb_level ti (pk_compsvn pck) (tdx_svn_of q) (pk_pcesvn pck) = Ok lv /\
      status_allowed (e_lax env) (tl_status lv) = true /\
      (* QE identity *)
      qe_identity_matches qi (q_qe_report q) /\
      (* the output *)
      out = output_of P (q_tee q) (q_body q)
  }.

  (* ------------------------------------------------------------------ *)
  (* stage specifications *)

  Lemma pre_checks_spec pol q :
    pre_checks env pol q = Ok tt ->
    p_disabled pol = false /\
    (q_tee q = TEE_TDX -> exists mods, p_tdx pol = Some mods /\ tdx_module_allowed mods (q_body q) = true) /\
    e_allow_debug env = (if q_tee q =? TEE_TDX then td_debug (q_body q) else sgx_debug (q_body q)) /\
    (q_tee q <> TEE_TDX -> mem_bytes (sgx_mrsigner (q_body q)) (e_mrsigner_blacklist env) = false).
  Proof.
    unfold pre_checks. intros H.
    destruct (negb (p_disabled pol)) eqn:E0; cbn [check bind] in H; [|discriminate H].
    apply negb_true_iff in E0.
    destruct (q_tee q =? TEE_TDX) eqn:ET.
    - apply N.eqb_eq in ET.
      destruct (Bool.eqb (e_allow_debug env) (td_debug (q_body q))) eqn:E1; cbn [check bind] in H; [|discriminate H].
      apply eqb_prop in E1.
      destruct (p_tdx pol) as [mods|] eqn:E2; [|discriminate H].
      destruct (tdx_module_allowed mods (q_body q)) eqn:E3; [|discriminate H].
      repeat split; auto.
      + intros _. exists mods. auto.
      + intros Hn. congruence.
    - apply N.eqb_neq in ET.
      destruct (negb (mem_bytes (sgx_mrsigner (q_body q)) (e_mrsigner_blacklist env))) eqn:E1; cbn [check bind] in H; [|discriminate H].
      apply negb_true_iff in E1.
      destruct (Bool.eqb (e_allow_debug env) (sgx_debug (q_body q))) eqn:E2; [|discriminate H].
      apply eqb_prop in E2.
      repeat split; auto. intros Hn. congruence.
  Qed.

  Lemma pck_stage_spec ts q pck :
    pck_stage P ts q = Ok pck ->
    q_cert_type q = 5 /\ pck_count P (q_cert_data q) = 3 /\
    pck_chain_ok P ts (q_cert_data q) = true /\ pck_info P (q_cert_data q) = PckOk pck.
  Proof.
    unfold pck_stage. intros H. crush_ok H.
    apply N.eqb_eq in E, E0. injection H as <-. auto.
  Qed.

  Lemma qe_binding_spec pck q u :
    qe_binding P pck q = Ok u ->
    ecdsa_ok P (pk_key pck) (sha256 P (q_qe_report q)) (q_qe_sig q) = true /\
    slice 0 32 (sgx_report_data (q_qe_report q)) = sha256 P (q_attkey q ++ q_auth q) /\
    slice 32 32 (sgx_report_data (q_qe_report q)) = zeros 32.
  Proof.
    unfold qe_binding. intros H. crush_ok H.
    apply bytes_eqb_eq in E0, E1. auto.
  Qed.

  Lemma tcb_key_stage_spec ts c tpk :
    tcb_key_stage P ts c = Ok tpk ->
    tcb_certs P (c_certs c) = Some (Some tpk) /\ tcb_chain_ok P ts (c_certs c) = true.
  Proof.
    unfold tcb_key_stage. intros H. crush_ok H. injection H as <-. auto.
  Qed.

  Lemma window_of_checks period issue ts :
    not_future issue ts = true -> not_expired period issue ts = true -> in_window period issue ts.
  Proof.
    unfold not_future, not_expired, in_window. intros H1 H2.
    apply Z.leb_le in H1, H2. auto.
  Qed.

  Lemma qeid_validate_spec pol tee ts qi u :
    qeid_validate pol tee ts qi = Ok u ->
    qi_id qi = (if tee =? TEE_TDX then s_TD_QE else s_QE) /\ qi_version qi = 2%Z /\
    exists issue, qi_issue qi = Some issue /\ qi_next qi <> None /\ in_window (p_period pol) issue ts /\
    p_min_eval pol <= qi_eval qi.
  Proof.
    unfold qeid_validate. intros H. crush_ok H.
    apply bytes_eqb_eq in E. apply Z.eqb_eq in E0. apply N.leb_le in E3.
    repeat split; auto. exists z. repeat split; auto using window_of_checks; try congruence;
      apply (window_of_checks _ _ _ E1 E2).
  Qed.

  Lemma qeid_verify_spec qi rep u :
    qeid_verify qi rep = Ok u -> qe_identity_matches qi rep.
  Proof.
    unfold qeid_verify, qe_identity_matches. intros H. crush_ok H.
    apply bytes_eqb_eq in E. apply N.eqb_eq in E0, E1, E2, E3, E4.
    do 6 eexists. repeat split; eauto.
  Qed.

  Lemma qeid_stage_spec pol tee ts tpk c rep u :
    qeid_stage P pol tee ts tpk c rep = Ok u ->
    tcb_sig_ok P tpk (c_qeid c) (c_qeid_sig c) = true /\
    exists qi, parse_qeid P (c_qeid c) = Some qi /\ qeid_validate pol tee ts qi = Ok tt /\ qeid_verify qi rep = Ok tt.
  Proof.
    unfold qeid_stage. intros H. crush_ok H. destruct a, u. split; auto. exists q. auto.
  Qed.

  Lemma tcbinfo_validate_spec pol tee ts ti u :
    tcbinfo_validate pol tee ts ti = Ok u ->
    ti_id ti = (if tee =? TEE_TDX then s_TDX else s_SGX) /\ ti_version ti = 3%Z /\
    exists issue, ti_issue ti = Some issue /\ ti_next ti <> None /\ in_window (p_period pol) issue ts /\
    p_min_eval pol <= ti_eval ti /\ fmspc_policy_ok pol (ti_fmspc ti).
  Proof.
    unfold tcbinfo_validate. intros H. crush_ok H.
    apply bytes_eqb_eq in E. apply Z.eqb_eq in E0. apply N.leb_le in E3. apply negb_true_iff in E5.
    repeat split; auto. exists z. repeat split; try congruence; auto.
    - apply (window_of_checks _ _ _ E1 E2).
    - apply (window_of_checks _ _ _ E1 E2).
    - apply orb_true_iff in E4 as [E4|E4]; [left|right; exact E4].
      destruct (p_whitelist pol); [reflexivity|discriminate].
  Qed.

  Lemma tcbinfo_stage_spec pol tee ts tpk c pck tdx u :
    tcbinfo_stage P env pol tee ts tpk c pck tdx = Ok u ->
    tcb_sig_ok P tpk (c_tcbinfo c) (c_tcbinfo_sig c) = true /\
    exists ti f lv, parse_tcbinfo P (c_tcbinfo c) = Some ti /\ tcbinfo_validate pol tee ts ti = Ok tt /\
      hexdecode (ti_fmspc ti) = Some f /\ f = pk_fmspc pck /\
      get_tcb_level ti (pk_compsvn pck) tdx (pk_pcesvn pck) = Ok lv /\
      status_allowed (e_lax env) (tl_status lv) = true.
  Proof.
    unfold tcbinfo_stage. intros H. crush_ok H. destruct a.
    apply bytes_eqb_eq in E0. split; auto. exists t, b, a0. repeat split; auto.
  Qed.

  Lemma quote_sig_stage_spec q u :
    quote_sig_stage P q = Ok u ->
    att_key_valid P (q_attkey q) = true /\
    ecdsa_ok P (q_attkey q) (sha256 P (q_header q ++ q_body q)) (q_sig q) = true.
  Proof. unfold quote_sig_stage. intros H. crush_ok H. auto. Qed.

  (* ------------------------------------------------------------------ *)
  (* accept_implies_all_checks *)

  Lemma verify_parsed_stages pol ts q c out :
    verify_parsed P env pol ts q c = Ok out ->
    exists pck tpk,
      pre_checks env pol q = Ok tt /\ pck_stage P ts q = Ok pck /\ qe_binding P pck q = Ok tt /\
      tcb_key_stage P ts c = Ok tpk /\ qeid_stage P pol (q_tee q) ts tpk c (q_qe_report q) = Ok tt /\
      tcbinfo_stage P env pol (q_tee q) ts tpk c pck (tdx_svn_of q) = Ok tt /\
      quote_sig_stage P q = Ok tt /\ out = output_of P (q_tee q) (q_body q).
  Proof.
    unfold verify_parsed. intros H. crush_ok H.
    repeat match goal with u : unit |- _ => destruct u end.
    injection H as <-. exists a0, a2. repeat split; auto.
  Qed.

  Lemma accept_parsed_implies_all_checks pol ts q c out :
    verify_parsed P env pol ts q c = Ok out -> AllChecks pol ts q c out.
  Proof.
    intros H. apply verify_parsed_stages in H as (pck & tpk & H0 & H1 & H2 & H3 & H4 & H5 & H6 & ->).
    apply pre_checks_spec in H0 as (A0 & A1 & A2 & A3).
    apply pck_stage_spec in H1 as (B0 & B1 & B2 & B3).
    apply qe_binding_spec in H2 as (C0 & C1 & C2).
    apply tcb_key_stage_spec in H3 as (D0 & D1).
    apply qeid_stage_spec in H4 as (F0 & qi & F1 & F2 & F3).
    apply qeid_validate_spec in F2 as (G0 & G1 & qissue & G2 & G3 & G4 & G5).
    apply qeid_verify_spec in F3.
    apply tcbinfo_stage_spec in H5 as (I0 & ti & f & lv & I1 & I2 & I3 & I4 & I5 & I6).
    apply tcbinfo_validate_spec in I2 as (J0 & J1 & tissue & J2 & J3 & J4 & J5 & J6).
    apply quote_sig_stage_spec in H6 as (K0 & K1).
    constructor; auto.
    exists pck, tpk, qi, ti, qissue, tissue, f, lv.
    repeat match goal with |- _ /\ _ => split end; auto.
  Qed.

  (* on the raw input: acceptance implies that the quote parses and all checks hold *)
  Lemma accept_implies_all_checks_l pol ts raw c out :
    verify P env pol ts raw c = Ok out ->
    exists q, parse_quote P raw = inl q /\ AllChecks pol ts q c out.
  Proof.
    unfold verify. destruct (parse_quote P raw) as [q|e] eqn:E; [|discriminate].
    intros H. exists q. split; [reflexivity|]. apply accept_parsed_implies_all_checks; exact H.
  Qed.

  (* ------------------------------------------------------------------ *)
  (* where the signed regions are in the raw quote *)

  Lemma parse_qe_fields version tee header body sig attkey d q :
    parse_qe P version tee header body sig attkey d = inl q ->
    q_tee q = tee /\ q_header q = header /\ q_body q = body /\ q_sig q = sig /\ q_attkey q = attkey.
  Proof.
    unfold parse_qe. intros H.
    repeat match type of H with
    | (if ?b then _ else _) = inl _ => destruct b; try discriminate H
    | (let _ := _ in _) = inl _ => cbv zeta in H
    end; injection H as <-; cbn; auto.
  Qed.

  Lemma parse_sig_fields version tee header body sd q :
    parse_sig P version tee header body sd = inl q ->
    q_tee q = tee /\ q_header q = header /\ q_body q = body.
  Proof.
    unfold parse_sig. intros H.
    repeat match type of H with
    | (if ?b then _ else _) = inl _ => destruct b; try discriminate H
    | (let _ := _ in _) = inl _ => cbv zeta in H
    end; apply parse_qe_fields in H; tauto.
  Qed.

  (* the signed header is bytes 0..47 of the raw quote, the signed report body the next 384 (SGX) or 584 (TDX) *)
  Lemma parse_quote_regions raw q :
    parse_quote P raw = inl q ->
    q_header q = slice 0 48 raw /\
    q_body q = slice 48 (if q_tee q =? TEE_TDX then 584 else 384) raw /\
    (q_tee q = TEE_SGX \/ q_tee q = TEE_TDX).
  Proof.
    unfold parse_quote. intros H. cbv zeta in H.
    destruct (blen raw <? 436); [discriminate H|].
    match type of H with match ?h with _ => _ end = _ => destruct h as [tee|e] eqn:Eh; [|discriminate H] end.
    assert (Htee : tee = TEE_SGX \/ tee = TEE_TDX).
    { destruct (le 0 2 raw =? 3).
      - destruct (le 4 4 raw =? 0); [injection Eh as <-; auto|discriminate Eh].
      - destruct (le 0 2 raw =? 4); [|discriminate Eh].
        destruct ((le 4 4 raw =? TEE_SGX) || (le 4 4 raw =? TEE_TDX)) eqn:Et; cbn [negb] in Eh; [|discriminate Eh].
        destruct (negb ((le 8 2 raw =? 0) && (le 10 2 raw =? 0))); [discriminate Eh|].
        injection Eh as <-. apply orb_true_iff in Et as [Et|Et]; apply N.eqb_eq in Et; auto. }
    destruct (negb (bytes_eqb (slice 12 16 raw) intel_vendor)); [discriminate H|].
    destruct (tee =? TEE_TDX) eqn:Et.
    - destruct (blen raw <? 636); [discriminate H|].
      destruct (negb (N.ldiff (le 168 8 raw) td_attr_allowed =? 0)); [discriminate H|].
      repeat match type of H with
      | (if ?b then _ else _) = inl _ => destruct b; try discriminate H
      end.
      apply parse_sig_fields in H as (T & Hh & Hb). rewrite T, Et. auto.
    - repeat match type of H with
      | (if ?b then _ else _) = inl _ => destruct b; try discriminate H
      end.
      apply parse_sig_fields in H as (T & Hh & Hb). rewrite T, Et. auto.
  Qed.

  (* ------------------------------------------------------------------ *)
  (* output_covered_by_signature *)

  (* the signed region of a parsed quote *)
  Definition signed_region (q : Quote) : bytes := q_header q ++ q_body q.

  Lemma output_is_function_of_signed_body pol ts q c out :
    verify_parsed P env pol ts q c = Ok out ->
    out = output_of P (q_tee q) (q_body q) /\
    ecdsa_ok P (q_attkey q) (sha256 P (signed_region q)) (q_sig q) = true.
  Proof.
    intros H. apply accept_parsed_implies_all_checks in H.
    destruct H as [_ _ _ _ (pck & tpk & qi & ti & qissue & tissue & f & lv & R)].
    unfold signed_region. intuition.
  Qed.

  Lemma app_eq_len {A} (a b c d : list A) : length a = length c -> a ++ b = c ++ d -> a = c /\ b = d.
  Proof.
    revert c. induction a as [|x a IH]; intros [|y c] L E; cbn in *; try discriminate; auto.
    injection E as -> E. injection L as L. destruct (IH c L E) as [-> ->]. auto.
  Qed.

  Lemma slice_len48 raw : 436 <= blen raw -> length (slice 0 48 raw) = 48%nat.
  Proof.
    unfold slice, blen. intros H. rewrite firstn_length. cbn [skipn]. lia.
  Qed.

  Lemma le_4_4_header raw : le 4 4 (slice 0 48 raw) = le 4 4 raw.
  Proof.
    unfold le, slice. cbn [skipn]. f_equal.
    do 8 (destruct raw as [|? raw]; [reflexivity|]). reflexivity.
  Qed.
  Lemma le_0_2_header raw : le 0 2 (slice 0 48 raw) = le 0 2 raw.
  Proof.
    unfold le, slice. cbn [skipn]. f_equal.
    do 2 (destruct raw as [|? raw]; [reflexivity|]). reflexivity.
  Qed.

  (* two accepted inputs (any collateral, time, policy) whose signed regions
     are equal and which carry the same TEE type return the same identity and report data *)
  Lemma equal_signed_regions_equal_outputs pol1 pol2 ts1 ts2 q1 q2 c1 c2 o1 o2 :
    verify_parsed P env pol1 ts1 q1 c1 = Ok o1 ->
    verify_parsed P env pol2 ts2 q2 c2 = Ok o2 ->
    q_tee q1 = q_tee q2 -> length (q_header q1) = length (q_header q2) ->
    signed_region q1 = signed_region q2 -> o1 = o2.
  Proof.
    intros H1 H2 Ht Hl Hs.
    apply output_is_function_of_signed_body in H1 as [-> _].
    apply output_is_function_of_signed_body in H2 as [-> _].
    apply app_eq_len in Hs as [_ Hb]; [|exact Hl]. rewrite Ht, Hb. reflexivity.
  Qed.

  (* ... and on raw quotes the TEE type and the header length are themselves determined by the signed bytes *)
  Lemma parse_quote_tee raw q :
    parse_quote P raw = inl q -> q_tee q = (if le 0 2 raw =? 3 then TEE_SGX else le 4 4 raw) /\ 436 <= blen raw.
  Proof.
    unfold parse_quote. intros H. cbv zeta in H.
    destruct (blen raw <? 436) eqn:EL; [discriminate H|]. apply N.ltb_ge in EL. split; [|exact EL].
    match type of H with match ?h with _ => _ end = _ => destruct h as [tee|e] eqn:Eh; [|discriminate H] end.
    assert (T : q_tee q = tee).
    { destruct (negb (bytes_eqb (slice 12 16 raw) intel_vendor)); [discriminate H|].
      match type of H with match ?h with _ => _ end = _ => destruct h as [bl|e]; [|discriminate H] end.
      repeat match type of H with
      | (if ?b then _ else _) = inl _ => destruct b; try discriminate H
      end.
      apply parse_sig_fields in H. tauto. }
    rewrite T. destruct (le 0 2 raw =? 3).
    - destruct (le 4 4 raw =? 0); [injection Eh as <-; reflexivity|discriminate Eh].
    - destruct (le 0 2 raw =? 4); [|discriminate Eh].
      destruct (negb _); [discriminate Eh|]. destruct (negb _); [discriminate Eh|]. injection Eh as <-. reflexivity.
  Qed.

  Lemma output_covered_by_signature_l pol1 pol2 ts1 ts2 raw1 raw2 c1 c2 o1 o2 :
    verify P env pol1 ts1 raw1 c1 = Ok o1 ->
    verify P env pol2 ts2 raw2 c2 = Ok o2 ->
    (forall q1 q2, parse_quote P raw1 = inl q1 -> parse_quote P raw2 = inl q2 -> signed_region q1 = signed_region q2) ->
    o1 = o2.
  Proof.
    unfold verify. intros H1 H2 Hs.
    destruct (parse_quote P raw1) as [q1|] eqn:E1; [|discriminate].
    destruct (parse_quote P raw2) as [q2|] eqn:E2; [|discriminate].
    specialize (Hs q1 q2 eq_refl eq_refl).
    destruct (parse_quote_regions _ _ E1) as (Hh1 & _ & _).
    destruct (parse_quote_regions _ _ E2) as (Hh2 & _ & _).
    destruct (parse_quote_tee _ _ E1) as (T1 & L1).
    destruct (parse_quote_tee _ _ E2) as (T2 & L2).
    assert (Hl : length (q_header q1) = length (q_header q2)).
    { rewrite Hh1, Hh2, !slice_len48 by assumption. reflexivity. }
    assert (Hhe : q_header q1 = q_header q2).
    { unfold signed_region in Hs. apply app_eq_len in Hs; tauto. }
    assert (Ht : q_tee q1 = q_tee q2).
    { rewrite T1, T2, <- (le_0_2_header raw1), <- (le_0_2_header raw2), <- (le_4_4_header raw1), <- (le_4_4_header raw2).
      rewrite <- Hh1, <- Hh2, Hhe. reflexivity. }
    eapply equal_signed_regions_equal_outputs; eauto.
  Qed.

  (* components that are outside every signed region and not read by any check:
     the slack after the certification data.  Verdict and output do not depend on it. *)
  Definition set_slack (q : Quote) (s : bytes) : Quote :=
    mkQuote (q_version q) (q_tee q) (q_header q) (q_body q) (q_sig q) (q_attkey q) (q_qe_report q)
            (q_qe_sig q) (q_auth q) (q_cert_type q) (q_cert_data q) s.

  Lemma unread_components_irrelevant pol ts q c s :
    verify_parsed P env pol ts (set_slack q s) c = verify_parsed P env pol ts q c.
  Proof. reflexivity. Qed.

  (* frame: the verdict is a function of the listed components only (version, TEE type and slack excluded
     as far as they are not determined by the header) *)
  Lemma verdict_frame pol ts q q' c :
    q_tee q = q_tee q' -> q_body q = q_body q' -> q_header q = q_header q' -> q_sig q = q_sig q' ->
    q_attkey q = q_attkey q' -> q_qe_report q = q_qe_report q' -> q_qe_sig q = q_qe_sig q' ->
    q_auth q = q_auth q' -> q_cert_type q = q_cert_type q' -> q_cert_data q = q_cert_data q' ->
    verify_parsed P env pol ts q c = verify_parsed P env pol ts q' c.
  Proof.
    intros. unfold verify_parsed, pre_checks, pck_stage, qe_binding, qeid_stage, tcbinfo_stage, quote_sig_stage, tdx_svn_of.
    repeat match goal with E : _ q = _ q' |- _ => rewrite E; clear E end. reflexivity.
  Qed.

  Lemma unsigned_unread_components_irrelevant_l pol ts q q' c s :
    (verify_parsed P env pol ts (set_slack q s) c = verify_parsed P env pol ts q c) /\
    (q_tee q = q_tee q' -> q_body q = q_body q' -> q_header q = q_header q' -> q_sig q = q_sig q' ->
     q_attkey q = q_attkey q' -> q_qe_report q = q_qe_report q' -> q_qe_sig q = q_qe_sig q' ->
     q_auth q = q_auth q' -> q_cert_type q = q_cert_type q' -> q_cert_data q = q_cert_data q' ->
     verify_parsed P env pol ts q c = verify_parsed P env pol ts q' c).
  Proof. split; [apply unread_components_irrelevant | apply verdict_frame]. Qed.

  (* ------------------------------------------------------------------ *)
  (* corollaries *)

  Lemma expired_never_accepted_l pol ts raw c :
    (forall qi issue, parse_qeid P (c_qeid c) = Some qi -> qi_issue qi = Some issue ->
                      ~ in_window (p_period pol) issue ts)
    \/ (forall ti issue, parse_tcbinfo P (c_tcbinfo c) = Some ti -> ti_issue ti = Some issue ->
                      ~ in_window (p_period pol) issue ts)
    \/ pck_chain_ok P ts (match parse_quote P raw with inl q => q_cert_data q | inr _ => [] end) = false
    \/ tcb_chain_ok P ts (c_certs c) = false ->
    forall out, verify P env pol ts raw c <> Ok out.
  Proof.
    intros Hx out H. apply accept_implies_all_checks_l in H as (q & Ep & [_ _ _ _ R]).
    destruct R as (pck & tpk & qi & ti & qissue & tissue & f & lv & R).
    rewrite Ep in Hx.
    destruct Hx as [Hx|[Hx|[Hx|Hx]]].
    - apply (Hx qi qissue); intuition.
    - apply (Hx ti tissue); intuition.
    - intuition congruence.
    - intuition congruence.
  Qed.

  Lemma disallowed_status_never_accepted_l pol ts raw c out :
    verify P env pol ts raw c = Ok out ->
    exists q pck ti lv, parse_quote P raw = inl q /\ pck_info P (q_cert_data q) = PckOk pck /\
      parse_tcbinfo P (c_tcbinfo c) = Some ti /\
      get_tcb_level ti (pk_compsvn pck) (tdx_svn_of q) (pk_pcesvn pck) = Ok lv /\
      (tl_status lv = ST_UpToDate \/ tl_status lv = ST_SWHardeningNeeded \/
       e_lax env = true /\ (tl_status lv = ST_OutOfDate \/ tl_status lv = ST_ConfigurationNeeded \/
                            tl_status lv = ST_OutOfDateConfigurationNeeded)).
  Proof.
    intros H. apply accept_implies_all_checks_l in H as (q & Ep & [_ _ _ _ R]).
    destruct R as (pck & tpk & qi & ti & qissue & tissue & f & lv & R).
    exists q, pck, ti, lv. repeat split; try tauto.
    assert (S : status_allowed (e_lax env) (tl_status lv) = true) by tauto.
    unfold status_allowed in S.
    repeat (apply orb_true_iff in S as [S|S]); try (apply N.eqb_eq in S; tauto).
    apply andb_true_iff in S as [L S].
    repeat (apply orb_true_iff in S as [S|S]); apply N.eqb_eq in S; tauto.
  Qed.

  Lemma foreign_fmspc_never_accepted_l pol ts raw c :
    (forall q pck ti, parse_quote P raw = inl q -> pck_info P (q_cert_data q) = PckOk pck ->
                      parse_tcbinfo P (c_tcbinfo c) = Some ti ->
                      hexdecode (ti_fmspc ti) <> Some (pk_fmspc pck)
                      \/ mem_bytes (ti_fmspc ti) (p_blacklist pol) = true
                      \/ (p_whitelist pol <> [] /\ mem_bytes (ti_fmspc ti) (p_whitelist pol) = false)
                      \/ ti_id ti <> (if q_tee q =? TEE_TDX then s_TDX else s_SGX)) ->
    forall out, verify P env pol ts raw c <> Ok out.
  Proof.
    intros Hx out H. apply accept_implies_all_checks_l in H as (q & Ep & [_ _ _ _ R]).
    destruct R as (pck & tpk & qi & ti & qissue & tissue & f & lv & R).
    destruct (Hx q pck ti) as [Hy|[Hy|[Hy|Hy]]]; try tauto.
    - apply Hy. intuition congruence.
    - unfold fmspc_policy_ok in R. intuition congruence.
    - unfold fmspc_policy_ok in R. intuition congruence.
  Qed.

  (* ------------------------------------------------------------------ *)
  (* the selected TCB level is the FIRST matching one of the signed TCB info *)

  Lemma find_first {A} (f : A -> bool) l x :
    find f l = Some x ->
    exists pre post, l = pre ++ x :: post /\ f x = true /\ forall y, In y pre -> f y = false.
  Proof.
    induction l as [|a l IH]; cbn [find]; [discriminate|].
    destruct (f a) eqn:E.
    - intros H. injection H as <-. exists [], l. repeat split; auto. intros y [].
    - intros H. destruct (IH H) as (pre & post & -> & Hx & Hp).
      exists (a :: pre), post. repeat split; auto.
      intros y [<-|Hy]; auto.
  Qed.

  Lemma find_enclave_level_first isvsvn l x :
    find_enclave_level isvsvn l = Some x ->
    exists pre post, l = pre ++ x :: post /\ el_isvsvn x <= isvsvn /\
                     forall y, In y pre -> isvsvn < el_isvsvn y.
  Proof.
    induction l as [|a l IH]; cbn [find_enclave_level]; [discriminate|].
    destruct (el_isvsvn a <=? isvsvn) eqn:E.
    - intros H. injection H as <-. exists [], l. apply N.leb_le in E. repeat split; auto. intros y [].
    - intros H. destruct (IH H) as (pre & post & -> & Hx & Hp).
      exists (a :: pre), post. repeat split; auto.
      intros y [<-|Hy]; auto. apply N.leb_gt in E. exact E.
  Qed.

  Definition first_matching_level (ti : TcbInfo) (sgxsvn : list Z) (tdxsvn : option bytes) (pcesvn : N) (lv : TcbLevel) : Prop :=
    exists pre post, ti_levels ti = pre ++ lv :: post /\
      level_matches sgxsvn tdxsvn pcesvn lv = true /\
      (forall l, In l pre -> level_matches sgxsvn tdxsvn pcesvn l = false).

  (* for a TDX TCB info with TEE TCB SVN[1] >= 1 the module identity "TDX_<SVN[1]>" must exist and its first level
     with isvsvn <= SVN[0] must be UpToDate (tcb.go:351-394) *)
  Definition tdx_module_ok (ti : TcbInfo) (tdxsvn : option bytes) : Prop :=
    ti_id ti = s_TDX ->
    exists t, tdxsvn = Some t /\
      (1 <= nth 1 t 0 ->
       exists m ml pre post, find_module (tdx_module_id (nth 1 t 0)) (ti_modids ti) = Some m /\
         tm_levels m = pre ++ ml :: post /\ el_isvsvn ml <= nth 0 t 0 /\
         (forall y, In y pre -> nth 0 t 0 < el_isvsvn y) /\ el_status ml = ST_UpToDate).

  Lemma get_tcb_level_spec ti sgxsvn tdxsvn pcesvn lv :
    get_tcb_level ti sgxsvn tdxsvn pcesvn = Ok lv ->
    first_matching_level ti sgxsvn tdxsvn pcesvn lv /\ tl_status lv <> ST_MISSING /\ tdx_module_ok ti tdxsvn.
  Proof.
    unfold get_tcb_level. intros H.
    destruct (find (level_matches sgxsvn tdxsvn pcesvn) (ti_levels ti)) as [l|] eqn:EF; [|discriminate H].
    destruct (negb (tl_status l =? ST_MISSING)) eqn:EM; cbn [check bind] in H; [|discriminate H].
    apply negb_true_iff in EM. apply N.eqb_neq in EM.
    assert (HF : first_matching_level ti sgxsvn tdxsvn pcesvn l).
    { destruct (find_first _ _ _ EF) as (pre & post & A & B & C). exists pre, post. auto. }
    destruct (bytes_eqb (ti_id ti) s_TDX) eqn:EI.
    - destruct tdxsvn as [t|]; [|discriminate H].
      destruct (1 <=? nth 1 t 0) eqn:EV.
      + destruct (find_module (tdx_module_id (nth 1 t 0)) (ti_modids ti)) as [m|] eqn:EMo; [|discriminate H].
        destruct (find_enclave_level (nth 0 t 0) (tm_levels m)) as [ml|] eqn:EL; [|discriminate H].
        destruct (el_status ml =? ST_UpToDate) eqn:ES; cbn [check bind] in H; [|discriminate H].
        injection H as <-. repeat split; auto.
        intros _. exists t. split; [reflexivity|]. intros _.
        destruct (find_enclave_level_first _ _ _ EL) as (pre & post & A & B & C).
        exists m, ml, pre, post. apply N.eqb_eq in ES. auto.
      + injection H as <-. repeat split; auto. intros _. exists t. split; [reflexivity|].
        intros Hge. apply N.leb_gt in EV. lia.
    - injection H as <-. repeat split; auto. intros Hid. rewrite Hid, bytes_eqb_refl_true in EI. discriminate.
  Qed.

  (* The statement asked for in one piece: what acceptance of a raw quote + collateral establishes,
     clause by clause, exactly as the code enforces it. *)
  (* TdxQuotePolicy.Verify / TdxModulePolicy.Matches (policy.go:37-87): an entry matches iff EVERY field it sets
     matches -- the pinned MRSEAM (if any) AND the MRSIGNERSEAM; an empty list admits exactly the all-zero (Intel) signer *)
  Definition entry_matches (body : bytes) (m : TdxModulePolicy) : Prop :=
    (forall s, mp_mrseam m = Some s -> s = td_mrseam body) /\ mp_mrsigner m = td_mrsignerseam body.
  Definition tdx_policy_admits (mods : list TdxModulePolicy) (body : bytes) : Prop :=
    (exists m, In m mods /\ entry_matches body m) \/ (mods = [] /\ td_mrsignerseam body = zeros 48).

  Lemma module_matches_spec body m : module_matches body m = true <-> entry_matches body m.
  Proof.
    unfold module_matches, entry_matches. split.
    - intros H. apply andb_true_iff in H as [A B]. apply bytes_eqb_eq in B. split; [|exact B].
      intros s Hs. rewrite Hs in A. apply bytes_eqb_eq in A. exact A.
    - intros [A B]. apply andb_true_iff. split; [|apply bytes_eqb_eq; exact B].
      destruct (mp_mrseam m) as [s|]; [|reflexivity]. apply bytes_eqb_eq. apply A. reflexivity.
  Qed.

  Lemma tdx_module_allowed_spec mods body : tdx_module_allowed mods body = true <-> tdx_policy_admits mods body.
  Proof.
    unfold tdx_module_allowed, tdx_policy_admits. split.
    - intros H. apply orb_true_iff in H as [H|H].
      + apply existsb_exists in H as (m & Hin & Hm). left. exists m. split; [exact Hin|]. apply module_matches_spec; exact Hm.
      + apply andb_true_iff in H as [A B]. right. destruct mods; [|discriminate A].
        apply bytes_eqb_eq in B. auto.
    - intros [(m & Hin & Hm)|[-> B]]; apply orb_true_iff.
      + left. apply existsb_exists. exists m. split; [exact Hin|]. apply module_matches_spec; exact Hm.
      + right. cbn. apply bytes_eqb_eq. exact B.
  Qed.

  Record ChainAndTcb (pol : Policy) (ts : Z) (q : Quote) (c : Collateral) (out : Output) : Prop := {
    (* 0. policy: not disabled; a TDX quote needs a TDX policy that admits the module of the (signed) TD report;
          the debug attribute of the report equals the process mode *)
    ct_policy : p_disabled pol = false /\
                (q_tee q = TEE_TDX -> exists mods, p_tdx pol = Some mods /\ tdx_policy_admits mods (q_body q)) /\
                e_allow_debug env = (if q_tee q =? TEE_TDX then td_debug (q_body q) else sgx_debug (q_body q));
    (* 1. PCK chain: three certificates, path-valid at ts up to the pinned root (abstract X.509) *)
    ct_pck_chain : q_cert_type q = 5 /\ pck_count P (q_cert_data q) = 3 /\ pck_chain_ok P ts (q_cert_data q) = true;
    ct_links : exists pck tpk ti qi tissue qissue lv,
      pck_info P (q_cert_data q) = PckOk pck /\
      (* 2. QE report signed by the PCK leaf key *)
      ecdsa_ok P (pk_key pck) (sha256 P (q_qe_report q)) (q_qe_sig q) = true /\
      (* 3. QE report data = SHA-256(attestation key || authentication data) || 0^32 *)
      sgx_report_data (q_qe_report q) = sha256 P (q_attkey q ++ q_auth q) ++ zeros 32 /\
      (* 4. header || report body signed by that attestation key *)
      ecdsa_ok P (q_attkey q) (sha256 P (q_header q ++ q_body q)) (q_sig q) = true /\
      (* 5. TCB signing chain path-valid at ts; TCB info and QE identity bodies signed by its key *)
      tcb_certs P (c_certs c) = Some (Some tpk) /\ tcb_chain_ok P ts (c_certs c) = true /\
      tcb_sig_ok P tpk (c_tcbinfo c) (c_tcbinfo_sig c) = true /\ tcb_sig_ok P tpk (c_qeid c) (c_qeid_sig c) = true /\
      parse_tcbinfo P (c_tcbinfo c) = Some ti /\ parse_qeid P (c_qeid c) = Some qi /\
      (* 6. the platform TCB level used is the first level of the signed TCB info not above the platform's SVNs *)
      first_matching_level ti (pk_compsvn pck) (tdx_svn_of q) (pk_pcesvn pck) lv /\
      tdx_module_ok ti (tdx_svn_of q) /\
      (* 7. its status is admitted: UpToDate / SWHardeningNeeded, or (lax switch) OutOfDate / ConfigurationNeeded / both *)
      status_allowed (e_lax env) (tl_status lv) = true /\
      (* 8. evaluation data numbers of both bodies >= policy minimum *)
      p_min_eval pol <= ti_eval ti /\ p_min_eval pol <= qi_eval qi /\
      (* 9. not expired / not from the future at ts -- by the code's rule issueDate <= ts <= issueDate + period days *)
      ti_issue ti = Some tissue /\ in_window (p_period pol) tissue ts /\
      qi_issue qi = Some qissue /\ in_window (p_period pol) qissue ts /\
      (* 10. the platform binding and the QE identity *)
      hexdecode (ti_fmspc ti) = Some (pk_fmspc pck) /\ qe_identity_matches qi (q_qe_report q) /\
      (* 11. what is returned *)
      out = output_of P (q_tee q) (q_body q)
  }.

  Lemma slice_length off len (b : bytes) : (off + len <= length b)%nat -> length (slice off len b) = len.
  Proof. unfold slice. intros H. rewrite firstn_length, skipn_length. lia. Qed.

  Lemma slice_split_64 (r a : bytes) :
    length r = 64%nat -> slice 0 32 r = a -> slice 32 32 r = zeros 32 -> r = a ++ zeros 32.
  Proof.
    unfold slice. change (skipn 0 r) with r. intros L A B.
    rewrite <- (firstn_skipn 32 r) at 1. rewrite A. f_equal.
    rewrite <- B. symmetry. apply firstn_all2. rewrite skipn_length. lia.
  Qed.

  Lemma accept_chain_and_tcb_parsed pol ts q c out :
    length (sgx_report_data (q_qe_report q)) = 64%nat ->
    verify_parsed P env pol ts q c = Ok out -> ChainAndTcb pol ts q c out.
  Proof.
    intros L H. apply accept_parsed_implies_all_checks in H.
    destruct H as [P0 P1 P2 _ (pck & tpk & qi & ti & qissue & tissue & f & lv & R)].
    decompose [and] R. clear R.
    match goal with G : get_tcb_level _ _ _ _ = Ok lv |- _ => destruct (get_tcb_level_spec _ _ _ _ _ G) as (F1 & F2 & F3) end.
    constructor; [|auto|].
    { split; [exact P0|]. split; [|exact P2].
      intros Ht. destruct (P1 Ht) as (mods & A & B). exists mods. split; [exact A|]. apply tdx_module_allowed_spec; exact B. }
    exists pck, tpk, ti, qi, tissue, qissue, lv.
    repeat match goal with |- _ /\ _ => split end; auto.
    - apply slice_split_64; auto.
    - subst f. assumption.
  Qed.

  (* the QE report inside a parsed quote is 384 bytes, hence its report data 64 *)
  Lemma parse_qe_report_len version tee header body sig attkey d q :
    parse_qe P version tee header body sig attkey d = inl q -> length (sgx_report_data (q_qe_report q)) = 64%nat.
  Proof.
    unfold parse_qe. intros H. cbv zeta in H.
    destruct (blen d <? 384) eqn:E0; [discriminate H|].
    assert (Hl : (384 <= length d)%nat) by (apply N.ltb_ge in E0; unfold blen in E0; lia).
    assert (Hq : length (sgx_report_data (slice 0 384 d)) = 64%nat).
    { unfold sgx_report_data. rewrite slice_length; [reflexivity|]. rewrite slice_length; lia. }
    repeat match type of H with
    | (if ?b then _ else _) = inl _ => destruct b; try discriminate H
    end; injection H as <-; exact Hq.
  Qed.

  Lemma parse_quote_qe_report_len raw q :
    parse_quote P raw = inl q -> length (sgx_report_data (q_qe_report q)) = 64%nat.
  Proof.
    unfold parse_quote. intros H. cbv zeta in H.
    destruct (blen raw <? 436); [discriminate H|].
    match type of H with match ?h with _ => _ end = _ => destruct h as [tee|e]; [|discriminate H] end.
    destruct (negb (bytes_eqb (slice 12 16 raw) intel_vendor)); [discriminate H|].
    match type of H with match ?h with _ => _ end = _ => destruct h as [bl|e]; [|discriminate H] end.
    repeat match type of H with
    | (if ?b then _ else _) = inl _ => destruct b; try discriminate H
    end.
    unfold parse_sig in H. cbv zeta in H.
    repeat match type of H with
    | (if ?b then _ else _) = inl _ => destruct b; try discriminate H
    end; eapply parse_qe_report_len; exact H.
  Qed.

  Lemma accept_chain_and_tcb_l pol ts raw c out :
    verify P env pol ts raw c = Ok out ->
    exists q, parse_quote P raw = inl q /\ ChainAndTcb pol ts q c out.
  Proof.
    unfold verify. destruct (parse_quote P raw) as [q|e] eqn:E; [|discriminate].
    intros H. exists q. split; [reflexivity|].
    apply accept_chain_and_tcb_parsed; [|exact H]. eapply parse_quote_qe_report_len; exact E.
  Qed.

  (* ------------------------------------------------------------------ *)
  (* validity_window_interval *)

  Definition interval_shaped (ok : Z -> bytes -> bool) : Prop :=
    forall x t1 t2 t3, (t1 <= t2 <= t3)%Z -> ok t1 x = true -> ok t3 x = true -> ok t2 x = true.

  Hypothesis pck_chain_interval : interval_shaped (pck_chain_ok P).
  Hypothesis tcb_chain_interval : interval_shaped (tcb_chain_ok P).

  Lemma window_interval period issue t1 t2 t3 :
    (t1 <= t2 <= t3)%Z -> in_window period issue t1 -> in_window period issue t3 -> in_window period issue t2.
  Proof. unfold in_window. lia. Qed.

  Lemma pck_stage_interval t1 t2 t3 q a b :
    (t1 <= t2 <= t3)%Z -> pck_stage P t1 q = Ok a -> pck_stage P t3 q = Ok b -> pck_stage P t2 q = Ok a.
  Proof.
    intros Ht H1 H3.
    pose proof (pck_stage_spec _ _ _ H1) as (A0 & A1 & A2 & A3).
    pose proof (pck_stage_spec _ _ _ H3) as (_ & _ & B2 & _).
    unfold pck_stage. rewrite A0, A1, (pck_chain_interval _ _ _ _ Ht A2 B2), A3. reflexivity.
  Qed.

  Lemma tcb_key_stage_interval t1 t2 t3 c a b :
    (t1 <= t2 <= t3)%Z -> tcb_key_stage P t1 c = Ok a -> tcb_key_stage P t3 c = Ok b -> tcb_key_stage P t2 c = Ok a.
  Proof.
    intros Ht H1 H3.
    pose proof (tcb_key_stage_spec _ _ _ H1) as (A0 & A1).
    pose proof (tcb_key_stage_spec _ _ _ H3) as (_ & B1).
    unfold tcb_key_stage. rewrite A0, (tcb_chain_interval _ _ _ _ Ht A1 B1). reflexivity.
  Qed.

  Lemma checks_of_window period issue ts :
    in_window period issue ts -> not_future issue ts = true /\ not_expired period issue ts = true.
  Proof. unfold in_window, not_future, not_expired. intros [A B]. split; apply Z.leb_le; assumption. Qed.

  Lemma qeid_validate_interval pol tee t1 t2 t3 qi :
    (t1 <= t2 <= t3)%Z -> qeid_validate pol tee t1 qi = Ok tt -> qeid_validate pol tee t3 qi = Ok tt ->
    qeid_validate pol tee t2 qi = Ok tt.
  Proof.
    intros Ht H1 H3.
    pose proof (qeid_validate_spec _ _ _ _ _ H1) as (A0 & A1 & i1 & A2 & A3 & A4 & A5).
    pose proof (qeid_validate_spec _ _ _ _ _ H3) as (_ & _ & i3 & B2 & _ & B4 & _).
    assert (i3 = i1) by congruence. subst i3.
    destruct (checks_of_window _ _ _ (window_interval _ _ _ _ _ Ht A4 B4)) as [W1 W2].
    unfold qeid_validate. rewrite A0, A1, A2. rewrite bytes_eqb_refl_true.
    destruct (qi_next qi); [|congruence].
    cbn [Z.eqb check bind]. rewrite W1, W2. cbn [check bind].
    apply N.leb_le in A5. rewrite A5. reflexivity.
  Qed.

  Lemma tcbinfo_validate_interval pol tee t1 t2 t3 ti :
    (t1 <= t2 <= t3)%Z -> tcbinfo_validate pol tee t1 ti = Ok tt -> tcbinfo_validate pol tee t3 ti = Ok tt ->
    tcbinfo_validate pol tee t2 ti = Ok tt.
  Proof.
    intros Ht H1 H3.
    pose proof (tcbinfo_validate_spec _ _ _ _ _ H1) as (A0 & A1 & i1 & A2 & A3 & A4 & A5 & A6).
    pose proof (tcbinfo_validate_spec _ _ _ _ _ H3) as (_ & _ & i3 & B2 & _ & B4 & _).
    assert (i3 = i1) by congruence. subst i3.
    destruct (checks_of_window _ _ _ (window_interval _ _ _ _ _ Ht A4 B4)) as [W1 W2].
    revert H1. unfold tcbinfo_validate. rewrite A2. destruct (ti_next ti); [|congruence].
    intros H1. crush_ok H1. rewrite W1, W2. cbn [check bind]. reflexivity.
  Qed.

  Lemma validity_window_interval_parsed pol t1 t2 t3 q c o1 o3 :
    (t1 <= t2 <= t3)%Z ->
    verify_parsed P env pol t1 q c = Ok o1 -> verify_parsed P env pol t3 q c = Ok o3 ->
    verify_parsed P env pol t2 q c = Ok o1.
  Proof.
    intros Ht H1 H3.
    apply verify_parsed_stages in H1 as (pck & tpk & A0 & A1 & A2 & A3 & A4 & A5 & A6 & ->).
    apply verify_parsed_stages in H3 as (pck' & tpk' & B0 & B1 & B2 & B3 & B4 & B5 & B6 & ->).
    pose proof (pck_stage_interval _ _ _ _ _ _ Ht A1 B1) as C1.
    pose proof (tcb_key_stage_interval _ _ _ _ _ _ Ht A3 B3) as C3.
    assert (pck' = pck).
    { apply pck_stage_spec in A1, B1. destruct A1 as (_ & _ & _ & X), B1 as (_ & _ & _ & Y). congruence. }
    assert (tpk' = tpk).
    { apply tcb_key_stage_spec in A3, B3. destruct A3 as (X & _), B3 as (Y & _). congruence. }
    subst pck' tpk'.
    assert (C4 : qeid_stage P pol (q_tee q) t2 tpk c (q_qe_report q) = Ok tt).
    { pose proof (qeid_stage_spec _ _ _ _ _ _ _ A4) as (S & qi & E & V1 & W).
      pose proof (qeid_stage_spec _ _ _ _ _ _ _ B4) as (_ & qi' & E' & V3 & _).
      assert (qi' = qi) by congruence. subst qi'.
      unfold qeid_stage. rewrite S, E. cbn [check bind].
      rewrite (qeid_validate_interval _ _ _ _ _ _ Ht V1 V3). cbn [bind]. exact W. }
    assert (C5 : tcbinfo_stage P env pol (q_tee q) t2 tpk c pck (tdx_svn_of q) = Ok tt).
    { pose proof (tcbinfo_stage_spec _ _ _ _ _ _ _ _ A5) as (S & ti & f & lv & E & V1 & F1 & F2 & F3 & F4).
      pose proof (tcbinfo_stage_spec _ _ _ _ _ _ _ _ B5) as (_ & ti' & _ & _ & E' & V3 & _).
      assert (ti' = ti) by congruence. subst ti'.
      unfold tcbinfo_stage. rewrite S, E. cbn [check bind].
      rewrite (tcbinfo_validate_interval _ _ _ _ _ _ Ht V1 V3). cbn [bind].
      rewrite F1. subst f. rewrite bytes_eqb_refl_true. cbn [check bind]. rewrite F3. cbn [bind].
      rewrite F4. reflexivity. }
    unfold verify_parsed. rewrite A0. cbn [bind]. rewrite C1. cbn [bind]. rewrite A2. cbn [bind].
    rewrite C3. cbn [bind]. rewrite C4. cbn [bind]. rewrite C5. cbn [bind]. rewrite A6. reflexivity.
  Qed.

  Lemma validity_window_interval_l pol t1 t2 t3 raw c o1 o3 :
    (t1 <= t2 <= t3)%Z ->
    verify P env pol t1 raw c = Ok o1 -> verify P env pol t3 raw c = Ok o3 ->
    verify P env pol t2 raw c = Ok o1.
  Proof.
    unfold verify. destruct (parse_quote P raw); [|discriminate].
    apply validity_window_interval_parsed.
  Qed.

End Pcs.

(* ---------------------------------------------------------------------- *)
(* Non-vacuity: a concrete instantiation on which the pipeline accepts, and
   refutation witnesses for two statements the faithful model falsifies.  *)

Definition toy_sha (x : bytes) : bytes := firstn 32 (x ++ zeros 32).
Definition toy_window (ts : Z) (_ : bytes) : bool := ((10 <=? ts) && (ts <=? 100000))%Z.
Definition toy_ti (id fmspc : bytes) (next : Z) (status : N) : TcbInfo :=
  mkTI id 3 (Some 20%Z) (Some next) fmspc 13 [mkTM (tdx_module_id 1) [mkEL 0 ST_UpToDate]]
       [mkTL (repeat 6%Z 16) 11 (repeat 1%Z 16) ST_OutOfDate; mkTL (repeat 5%Z 16) 10 [] status]
       (repeat 48 96) (repeat 48 16) (repeat 70 16).
Definition toy_qi (id : bytes) : QeId :=
  mkQI id 2 (Some 15%Z) (Some 40%Z) 12 (repeat 48 8) (repeat 48 8) (repeat 48 32) (repeat 48 32) (repeat 48 64) 0
       [mkEL 3 ST_Revoked; mkEL 0 ST_UpToDate].
Definition toyP (ti : TcbInfo) (qi : QeId) : Prims :=
  mkPrims toy_sha (fun _ _ _ => true) (fun _ => true) (fun _ => true) (fun _ => 3) toy_window
          (fun _ => PckOk (mkPck [1] [0xAB] (repeat 5%Z 16) 10))
          (fun _ => Some (Some [2])) toy_window (fun _ => Some ti) (fun _ => Some qi) (fun x => firstn 32 x).
Definition toy_env : Env := mkEnv false false [].
Definition toy_coll : Collateral := mkColl [123] (repeat 48 128) [125] (repeat 48 128) [45].
Definition toy_tail : bytes :=   (* signature field: sig, key, QE report, QE sig, auth size 0, type 5, size 1, data *)
  zeros 64 ++ zeros 64 ++ zeros 384 ++ zeros 64 ++ [0; 0] ++ [5; 0] ++ [1; 0; 0; 0] ++ [7].
Definition toy_sgx_raw : bytes :=
  [3; 0; 2; 0; 0; 0; 0; 0; 9; 0; 13; 0] ++ intel_vendor ++ zeros 20
  ++ (zeros 64 ++ repeat 0xEE 32 ++ zeros 32 ++ repeat 0x51 32 ++ zeros 160 ++ repeat 0xDA 64)
  ++ [0x49; 2; 0; 0] ++ toy_tail.
Definition toy_tdx_raw : bytes :=
  [4; 0; 2; 0; 0x81; 0; 0; 0; 0; 0; 0; 0] ++ intel_vendor ++ zeros 20
  ++ ([0; 1] ++ zeros 14 ++ repeat 0x5E 48 ++ zeros 520)
  ++ [0x4F; 2; 0; 0] ++ zeros 64 ++ zeros 64 ++ [6; 0; 0xC9; 1; 0; 0] ++ skipn 128 toy_tail.

Definition sgxP := toyP (toy_ti s_SGX [65; 66] 30 ST_SWHardeningNeeded) (toy_qi s_QE).
Definition tdxP := toyP (toy_ti s_TDX [65; 66] 30 ST_UpToDate) (toy_qi s_TD_QE).
Definition tdx_policy : Policy := mkPolicy false 30 12 [] [] (Some [mkMP (Some (repeat 0x5E 48)) (zeros 48)]).

Example ex_sgx_accepted :
  verify sgxP toy_env default_policy 50 toy_sgx_raw toy_coll = Ok (repeat 0xEE 32, repeat 0x51 32, repeat 0xDA 64).
Proof. vm_compute. reflexivity. Qed.

Example ex_tdx_accepted :
  verify tdxP toy_env tdx_policy 50 toy_tdx_raw toy_coll = Ok (zeros 32, zeros 32, zeros 64).
Proof. vm_compute. reflexivity. Qed.

Example ex_rejections :
  verify tdxP toy_env default_policy 50 toy_tdx_raw toy_coll = Rej RTeeNotAllowed /\
  verify tdxP toy_env (mkPolicy false 30 12 [] [] (Some [mkMP None (repeat 1 48)])) 50 toy_tdx_raw toy_coll = Rej RTdxModuleNotAllowed /\
  verify sgxP toy_env (mkPolicy true 30 12 [] [] None) 50 toy_sgx_raw toy_coll = Rej RDisabled /\
  verify sgxP toy_env default_policy (15 + 30 * day_ns + 1) toy_sgx_raw toy_coll = Rej RPckChain /\
  verify sgxP toy_env (mkPolicy false 0 12 [] [] None) 50 toy_sgx_raw toy_coll = Rej RQeIdExpired /\
  verify sgxP toy_env default_policy 14 toy_sgx_raw toy_coll = Rej RQeIdFuture /\
  verify sgxP toy_env default_policy 19 toy_sgx_raw toy_coll = Rej RTcbInfoFuture /\
  verify sgxP toy_env (mkPolicy false 30 14 [] [] None) 50 toy_sgx_raw toy_coll = Rej RQeIdEvalNum /\
  verify sgxP toy_env (mkPolicy false 30 12 [] [[65; 66]] None) 50 toy_sgx_raw toy_coll = Rej RFmspcBlacklisted /\
  verify sgxP toy_env (mkPolicy false 30 12 [[65; 67]] [] None) 50 toy_sgx_raw toy_coll = Rej RFmspcNotWhitelisted /\
  verify (toyP (toy_ti s_SGX [65; 67] 30 1) (toy_qi s_QE)) toy_env default_policy 50 toy_sgx_raw toy_coll = Rej RFmspcMismatch /\
  verify (toyP (toy_ti s_SGX [65; 66] 30 ST_OutOfDate) (toy_qi s_QE)) toy_env default_policy 50 toy_sgx_raw toy_coll = Rej RTcbStatus /\
  verify (toyP (toy_ti s_SGX [65; 66] 30 ST_OutOfDate) (toy_qi s_QE)) (mkEnv false true []) default_policy 50 toy_sgx_raw toy_coll
    = Ok (repeat 0xEE 32, repeat 0x51 32, repeat 0xDA 64) /\
  verify (toyP (toy_ti s_TDX [65; 66] 30 1) (toy_qi s_QE)) toy_env default_policy 50 toy_sgx_raw toy_coll = Rej RTcbInfoId /\
  verify sgxP toy_env default_policy 50 (toy_sgx_raw ++ [0]) toy_coll = Rej (RParse PETrailing).
Proof. vm_compute. repeat split. Qed.

(* hypotheses of validity_window_interval are satisfiable: an interval-shaped chain predicate and two accepting times *)
Example ex_interval_hypotheses :
  interval_shaped toy_window /\
  (exists o, verify sgxP toy_env default_policy 20 toy_sgx_raw toy_coll = Ok o) /\
  (exists o, verify sgxP toy_env default_policy 100000 toy_sgx_raw toy_coll = Ok o).
Proof.
  split; [|split; eexists; vm_compute; reflexivity].
  unfold interval_shaped, toy_window. intros _ t1 t2 t3 Ht H1 H3.
  apply andb_true_iff in H1 as [A _]. apply andb_true_iff in H3 as [_ B].
  apply Z.leb_le in A, B. apply andb_true_iff. split; apply Z.leb_le; lia.
Qed.

(* the slack after the certification data is not read: same verdict with 3 extra bytes (lengths adjusted) *)
Example ex_slack_ignored :
  verify sgxP toy_env default_policy 50
    (firstn 432 toy_sgx_raw ++ [0x4C; 2; 0; 0] ++ toy_tail ++ [9; 9; 9]) toy_coll
  = verify sgxP toy_env default_policy 50 toy_sgx_raw toy_coll.
Proof. vm_compute. reflexivity. Qed.

(* REFUTED: "accepted -> ts < nextUpdate".  The code parses nextUpdate (tcb.go:258, 625) but never
   compares it with the verification time; expiry is issueDate + TCBValidityPeriod only. *)
Lemma accept_implies_before_next_update_refuted_l :
  exists P env pol ts raw c out ti next,
    verify P env pol ts raw c = Ok out /\ parse_tcbinfo P (c_tcbinfo c) = Some ti /\
    ti_next ti = Some next /\ (next <= ts)%Z.
Proof.
  exists sgxP, toy_env, default_policy, 50%Z, toy_sgx_raw, toy_coll. do 2 eexists. exists 30%Z.
  split; [vm_compute; reflexivity|]. split; [reflexivity|]. split; [reflexivity|]. lia.
Qed.

(* REFUTED: "accepted -> no blacklist entry denotes the platform's FMSPC".  The black/whitelists are
   compared with the TCB info's FMSPC *string* (tcb.go:274-281), the platform binding with its hex
   decoding (tcb.go:288-294); an entry in the other letter case does not block the platform. *)
Lemma fmspc_blacklist_by_value_refuted_l :
  exists P env pol ts raw c out q pck entry,
    verify P env pol ts raw c = Ok out /\ parse_quote P raw = inl q /\
    pck_info P (q_cert_data q) = PckOk pck /\
    In entry (p_blacklist pol) /\ hexdecode entry = Some (pk_fmspc pck).
Proof.
  exists sgxP, toy_env, (mkPolicy false 30 12 [] [[97; 98]] None), 50%Z, toy_sgx_raw, toy_coll.
  do 3 eexists. exists [97; 98].
  split; [vm_compute; reflexivity|]. split; [vm_compute; reflexivity|].
  split; [reflexivity|]. split; [left; reflexivity|reflexivity].
Qed.

(* REFUTED: "accepted TDX quote -> SEAMATTRIBUTES of the TD report match tdxModule.attributes under
   tdxModule.attributesMask of the signed TCB info" (step of Intel's TDX quote verification).  The code never reads
   TdReport.seamAttributes nor TCBInfo.TDXModule; MRSIGNERSEAM is only compared with the *policy's* module list
   (or required to be zero), not with the TCB info. *)
Definition toy_tdx_raw_seam : bytes := firstn 160 toy_tdx_raw ++ [1] ++ skipn 161 toy_tdx_raw.
Lemma tdx_seam_attributes_checked_refuted_l :
  exists P env pol ts raw c out q ti a m,
    verify P env pol ts raw c = Ok out /\ parse_quote P raw = inl q /\ q_tee q = TEE_TDX /\
    parse_tcbinfo P (c_tcbinfo c) = Some ti /\
    hexdecode (ti_seam_attrs ti) = Some a /\ hexdecode (ti_seam_mask ti) = Some m /\ m = repeat 255 8 /\
    td_seamattributes (q_body q) <> a.
Proof.
  exists tdxP, toy_env, tdx_policy, 50%Z, toy_tdx_raw_seam, toy_coll. do 3 eexists. exists (zeros 8), (repeat 255 8).
  split; [vm_compute; reflexivity|]. split; [vm_compute; reflexivity|].
  split; [reflexivity|]. split; [reflexivity|]. split; [vm_compute; reflexivity|].
  split; [vm_compute; reflexivity|]. split; [reflexivity|]. vm_compute. discriminate.
Qed.
