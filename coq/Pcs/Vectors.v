(* C18 — examples on the real Intel test vectors (coq/Gen/PcsVectors.v, regenerated from
   go/common/sgx/pcs/testdata by `bin/gen pcsvectors`).  Expected values are the ones
   asserted by quote_test.go. *)
From Verif Require Import Lib.Base Pcs.Model Pcs.Proofs Gen.PcsVectors.
From Coq Require Import String Ascii.

Definition ascii_bytes (s : string) : bytes := map N_of_ascii (list_ascii_of_string s).

(* qe_identity_v2.json, transcribed *)
Definition real_qi_sgx : QeId :=
  mkQI (ascii_bytes "QE") 2 (Some 1671194736000000000%Z) (Some 1673786736000000000%Z) 13
       (ascii_bytes "00000000") (ascii_bytes "FFFFFFFF")
       (ascii_bytes "11000000000000000000000000000000") (ascii_bytes "FBFFFFFFFFFFFFFF0000000000000000")
       (ascii_bytes "8C4F5775D796503E96137F77C68A829A0056AC8DED70140B081B094490C57BFF") 1
       [mkEL 6 ST_UpToDate; mkEL 5 ST_OutOfDate; mkEL 4 ST_OutOfDate; mkEL 2 ST_OutOfDate; mkEL 1 ST_OutOfDate].

Definition parsed (P : Prims) (raw : bytes) : Quote :=
  match parse_quote P raw with inl q => q | inr _ => mkQuote 0 0 [] [] [] [] [] [] [] 0 [] [] end.

(* the SGX v3 vector: layout, verified output and QE report fields as in TestQuoteV3_ECDSA_P256_PCK_CertificateChain *)
Lemma real_sgx_vector_l :
  let q := parsed sgxP b_q_sgx in
  parse_quote sgxP b_q_sgx = inl q /\
  q_version q = 3 /\ q_tee q = TEE_SGX /\ q_cert_type q = 5 /\ q_slack q = [] /\
  q_header q = firstn 48 b_q_sgx /\ q_body q = slice 48 384 b_q_sgx /\
  output_of sgxP (q_tee q) (q_body q) =
    (hx 32 0x68823bc62f409ee33a32ea270cfe45d4b19a6fb3c8570d7bc186cbe062398e8f,
     hx 32 0x9affcfae47b848ec2caf1c49b4b283531e1cc425f93582b36806e52a43d78d1a,
     slice 368 64 b_q_sgx) /\
  firstn 4 (sgx_report_data (q_body q)) = [2; 106; 105; 206] /\
  sgx_debug (q_body q) = false /\ sgx_flags (q_body q) = 5 /\ sgx_xfrm (q_body q) = 3 /\
  sgx_flags (q_qe_report q) = 0x15 /\ sgx_xfrm (q_qe_report q) = 231 /\
  (* the real QE report satisfies the real QE identity *)
  qeid_verify real_qi_sgx (q_qe_report q) = Ok tt /\
  (* at the test's verification time the identity is inside the code's window, and it is past it 30 days + 1 s after issue *)
  qeid_validate default_policy TEE_SGX 1671497404000000000 real_qi_sgx = Ok tt /\
  qeid_validate default_policy TEE_SGX 1673786737000000000 real_qi_sgx = Rej RQeIdExpired /\
  hex_of_len b_ti_sgx_sig 64 <> None /\ hex_of_len b_qi_sgx_sig 64 <> None.
Proof. vm_compute. repeat split; discriminate. Qed.

(* the TDX v4 vector: TD attributes = SEPT_VE_DISABLE only (TestQuoteV4_TDX_ECDSA_P256), 584-byte body *)
Lemma real_tdx_vector_l :
  let q := parsed sgxP b_q_tdx in
  parse_quote sgxP b_q_tdx = inl q /\
  q_version q = 4 /\ q_tee q = TEE_TDX /\ q_cert_type q = 5 /\ q_slack q = [] /\
  q_body q = slice 48 584 b_q_tdx /\ td_attributes (q_body q) = 2 ^ 28 /\ td_debug (q_body q) = false /\
  td_mrsignerseam (q_body q) = zeros 48 /\
  pre_checks (mkEnv false false []) default_policy q = Rej RTeeNotAllowed /\
  pre_checks (mkEnv false false []) (mkPolicy false 30 12 [] [] (Some [])) q = Ok tt /\
  (* the PPID vector has no PCK chain: parses, and is rejected by the PCK stage whatever the time *)
  q_cert_type (parsed sgxP b_q_eppid) = 3 /\
  pck_stage sgxP 0 (parsed sgxP b_q_eppid) = Rej RNoPckChain.
Proof. vm_compute. repeat split. Qed.
