(* C18 — go/common/sgx/pcs quote verification as a decision pipeline over
   abstract crypto.  Executable definitions only (no proofs).

   Ported code (oasis-core, pinned commit):
     pcs.go:44-50          QuoteBundle.Verify   = parse, then Quote.Verify
     quote.go:61-137       Quote.UnmarshalBinaryWithTrailing (allowTrailing=false)
     quote.go:142-207      Quote.Verify
     quote.go:476-542      CertificationData_QEReport.UnmarshalBinary
     quote.go:544-665      verifyCertificateChain / verifyPCK
     quote.go:668-719      CertificationData_QEReport.verify
     quote.go:735-799      QuoteSignatureECDSA_P256.UnmarshalBinary / Verify
     tcb.go:49-397         TCBBundle.Verify, open, validate, validateFMSPC,
                           validateTCBLevel, getTCBLevel
     tcb.go:453-495        TCBLevel.matches
     tcb.go:563-737        SignedQEIdentity.open, QEIdentity.validate / verify
     policy.go:37-87       TdxQuotePolicy.Verify, TdxModulePolicy.Matches
     report.go:61-98,130-196  report body field offsets, identity, report data

   Abstract (record [Prims], a Section variable in the proofs): SHA-256,
   ECDSA-P256 verification, P-256 point validation, PEM/X.509 parsing and path
   validation, the SGX extension decoder of the PCK leaf, encoding/json +
   time.Parse of the two collateral bodies, TupleHash of the TD measurements.
   Everything else (binary layout, hex decoding, all comparisons, check order,
   rejection reason) is computed here. *)
From Verif Require Import Lib.Base.
From Coq Require Import ZArith Uint63.

(* ---------- bytes ---------- *)
Definition blen (b : bytes) : N := N.of_nat (length b).
Definition slice (off len : nat) (b : bytes) : bytes := firstn len (skipn off b).
Fixpoint le_val (b : bytes) : N :=
  match b with [] => 0 | x :: r => x + 256 * le_val r end.
Definition le (off len : nat) (b : bytes) : N := le_val (slice off len b).
Fixpoint all_zero (b : bytes) : bool :=
  match b with [] => true | x :: r => (x =? 0) && all_zero r end.
Fixpoint mem_bytes (x : bytes) (l : list bytes) : bool :=
  match l with [] => false | y :: r => bytes_eqb y x || mem_bytes x r end.

(* encoding/hex.DecodeString: both cases accepted, odd length or any other
   character is an error *)
Definition hexval (c : N) : option N :=
  if (48 <=? c) && (c <=? 57) then Some (c - 48)
  else if (97 <=? c) && (c <=? 102) then Some (c - 87)
  else if (65 <=? c) && (c <=? 70) then Some (c - 55)
  else None.
Fixpoint hexdecode (s : bytes) : option bytes :=
  match s with
  | [] => Some []
  | [_] => None
  | a :: b :: r =>
      match hexval a, hexval b, hexdecode r with
      | Some x, Some y, Some t => Some (16 * x + y :: t)
      | _, _, _ => None
      end
  end.

(* ASCII helpers for the few strings the code compares *)
Definition s_SGX : bytes := [83; 71; 88].
Definition s_TDX : bytes := [84; 68; 88].
Definition s_QE : bytes := [81; 69].
Definition s_TD_QE : bytes := [84; 68; 95; 81; 69].
(* fmt.Sprintf("TDX_%02d", v) for a byte v *)
Definition dec_digits (v : N) : bytes :=
  if v <? 10 then [48; 48 + v]
  else if v <? 100 then [48 + v / 10; 48 + v mod 10]
  else [48 + v / 100; 48 + (v / 10) mod 10; 48 + v mod 10].
Definition tdx_module_id (v : N) : bytes := [84; 68; 88; 95] ++ dec_digits v.

Definition intel_vendor : bytes :=
  [0x93; 0x9a; 0x72; 0x33; 0xf7; 0x9c; 0x4c; 0xa9; 0x94; 0x0a; 0x0d; 0xb3; 0x95; 0x7f; 0x06; 0x07].

(* ---------- the parsed quote (quote.go:46-50, 463-468, 722-727) ---------- *)
Definition TEE_SGX : N := 0.
Definition TEE_TDX : N := 0x81.

Record Quote := mkQuote {
  q_version : N;
  q_tee : N;
  q_header : bytes;      (* 48 bytes, signed by the attestation key *)
  q_body : bytes;        (* 384 (SGX) / 584 (TDX) bytes, signed by the attestation key *)
  q_sig : bytes;         (* 64: signature over header||body *)
  q_attkey : bytes;      (* 64: bound by the QE report data *)
  q_qe_report : bytes;   (* 384: signed by the PCK key *)
  q_qe_sig : bytes;      (* 64 *)
  q_auth : bytes;        (* bound by the QE report data *)
  q_cert_type : N;
  q_cert_data : bytes;   (* PCK chain (PEM) or PPID data *)
  q_slack : bytes        (* bytes after the certification data inside the signature
                            field: never read (quote.go:518-521 only checks "<") *)
}.

Inductive ParseErr :=
| PELen | PEVersion | PEReserved | PETee | PEVendor | PEBodyLen | PETdAttr
| PETrailing | PEAttKeyType | PESigLen | PECertSize4 | PECertType4 | PEQe
| PEPpid | PEPem | PECertType.

(* ---------- collateral bodies as delivered by encoding/json ---------- *)
Record EnclaveLevel := mkEL { el_isvsvn : N; el_status : N }.
Record TcbLevel := mkTL { tl_sgx : list Z; tl_pcesvn : N; tl_tdx : list Z; tl_status : N }.
Record TdxModuleId := mkTM { tm_id : bytes; tm_levels : list EnclaveLevel }.
Record TcbInfo := mkTI {
  ti_id : bytes; ti_version : Z;
  ti_issue : option Z;        (* time.Parse of issueDate, ns since the epoch *)
  ti_next : option Z;         (* time.Parse of nextUpdate *)
  ti_fmspc : bytes;           (* the JSON string, not decoded *)
  ti_eval : N;
  ti_modids : list TdxModuleId;
  ti_levels : list TcbLevel;
  (* tdxModule.mrsigner / attributes / attributesMask (hex strings): decoded by encoding/json into
     TCBInfo.TDXModule but never read by the verification code; carried so that this can be stated *)
  ti_seam_mrsigner : bytes; ti_seam_attrs : bytes; ti_seam_mask : bytes }.
Record QeId := mkQI {
  qi_id : bytes; qi_version : Z; qi_issue : option Z; qi_next : option Z; qi_eval : N;
  qi_miscselect : bytes; qi_miscmask : bytes; qi_attrs : bytes; qi_attrmask : bytes;
  qi_mrsigner : bytes; qi_prodid : N; qi_levels : list EnclaveLevel }.

Record Collateral := mkColl {
  c_tcbinfo : bytes; c_tcbinfo_sig : bytes;   (* raw JSON body, hex signature string *)
  c_qeid : bytes; c_qeid_sig : bytes;
  c_certs : bytes }.

(* TCB status numbering = tcb.go:500-509 (iota) *)
Definition ST_MISSING : N := 0.
Definition ST_UpToDate : N := 1.
Definition ST_SWHardeningNeeded : N := 2.
Definition ST_ConfigurationNeeded : N := 3.
Definition ST_ConfigurationAndSWHardeningNeeded : N := 4.
Definition ST_OutOfDate : N := 5.
Definition ST_OutOfDateConfigurationNeeded : N := 6.
Definition ST_Revoked : N := 7.

(* ---------- policy (policy.go:8-30, 63-87) and process-wide switches ---------- *)
Record TdxModulePolicy := mkMP { mp_mrseam : option bytes; mp_mrsigner : bytes }.
Record Policy := mkPolicy {
  p_disabled : bool;
  p_period : N;               (* TCBValidityPeriod, days *)
  p_min_eval : N;
  p_whitelist : list bytes;   (* strings *)
  p_blacklist : list bytes;
  p_tdx : option (list TdxModulePolicy) }.
Record Env := mkEnv {
  e_allow_debug : bool;             (* pcs.go unsafeAllowDebugEnclaves *)
  e_lax : bool;                     (* tcb.go unsafeLaxVerify *)
  e_mrsigner_blacklist : list bytes (* pcs.go mrSignerBlacklist *) }.

(* ---------- abstract primitives ---------- *)
Record PckInfo := mkPck { pk_key : bytes; pk_fmspc : bytes; pk_compsvn : list Z; pk_pcesvn : N }.
Inductive PckInfoRes := PckBadKey | PckBadExt | PckOk (i : PckInfo).

Record Prims := mkPrims {
  sha256 : bytes -> bytes;
  ecdsa_ok : bytes -> bytes -> bytes -> bool;      (* public key, digest, r||s *)
  att_key_valid : bytes -> bool;                   (* ecdsa.ParseUncompressedPublicKey(0x04||k) *)
  pem_ok : bytes -> bool;                          (* quote.go:919-936 succeeds *)
  pck_count : bytes -> N;                          (* number of certificates in the chain *)
  pck_chain_ok : Z -> bytes -> bool;               (* quote.go:553-572 at time ts *)
  pck_info : bytes -> PckInfoRes;                  (* quote.go:594-664, time independent *)
  tcb_certs : bytes -> option (option bytes);      (* None: PEM/X.509 error or count<>2;
                                                      Some None: non-ECDSA key; Some (Some pk) *)
  tcb_chain_ok : Z -> bytes -> bool;               (* tcb.go:138-152 at time ts *)
  parse_tcbinfo : bytes -> option TcbInfo;         (* json.Unmarshal into TCBInfo *)
  parse_qeid : bytes -> option QeId;
  td_identity : bytes -> bytes                     (* TupleHash256 over MRTD,RTMR0..3 (report.go:176-183) *)
}.

(* ---------- results ---------- *)
Inductive Reason :=
| RParse (e : ParseErr)
| RDisabled | RMrSignerBlacklisted | RDebugMismatch | RTeeNotAllowed | RTdxModuleNotAllowed
| RNoPckChain | RPckChainLen | RPckChain | RPckKey | RPckExt
| RQeReportSig | RQeReportData
| RTcbCerts | RTcbChain | RTcbKey
| RQeIdSig | RQeIdMalformed | RQeIdId | RQeIdVersion | RQeIdDate | RQeIdFuture | RQeIdExpired | RQeIdEvalNum
| RQeIdField | RQeMrSigner | RQeProdId | RQeMiscSelect | RQeAttributes | RQeLevel | RQeStatus
| RTcbInfoSig | RTcbInfoMalformed | RTcbInfoId | RTcbInfoVersion | RTcbInfoDate | RTcbInfoFuture
| RTcbInfoExpired | RTcbInfoEvalNum | RFmspcNotWhitelisted | RFmspcBlacklisted
| RFmspcMalformed | RFmspcMismatch
| RTcbLevelNone | RTcbStatusMissing | RTdxModuleUnsupported | RTdxModuleLevel | RTdxModuleStatus
| RTcbStatus
| RAttKeyInvalid | RQuoteSig.

Inductive Res (A : Type) := Ok (a : A) | Rej (r : Reason).
Arguments Ok {A} a.
Arguments Rej {A} r.
Definition bind {A B} (x : Res A) (f : A -> Res B) : Res B :=
  match x with Ok a => f a | Rej r => Rej r end.
Definition check (b : bool) (r : Reason) : Res unit := if b then Ok tt else Rej r.
Notation "'do' x <- e ; k" := (bind e (fun x => k)) (at level 200, x name, e at level 100, k at level 200).
Notation "'chk' b 'orelse' r ; k" := (bind (check b r) (fun _ => k)) (at level 200, b at level 100, r at level 100, k at level 200).

(* ---------- report body fields (report.go:61-80, 130-156) ---------- *)
Definition sgx_miscselect (r : bytes) : N := le 16 4 r.
Definition sgx_flags (r : bytes) : N := le 48 8 r.
Definition sgx_xfrm (r : bytes) : N := le 56 8 r.
Definition sgx_mrenclave (r : bytes) : bytes := slice 64 32 r.
Definition sgx_mrsigner (r : bytes) : bytes := slice 128 32 r.
Definition sgx_prodid (r : bytes) : N := le 256 2 r.
Definition sgx_isvsvn (r : bytes) : N := le 258 2 r.
Definition sgx_report_data (r : bytes) : bytes := slice 320 64 r.
Definition sgx_debug (r : bytes) : bool := N.testbit (sgx_flags r) 1.

Definition td_teetcbsvn (r : bytes) : bytes := slice 0 16 r.
Definition td_mrseam (r : bytes) : bytes := slice 16 48 r.
Definition td_mrsignerseam (r : bytes) : bytes := slice 64 48 r.
Definition td_seamattributes (r : bytes) : bytes := slice 112 8 r.
Definition td_attributes (r : bytes) : N := le 120 8 r.
Definition td_measurements (r : bytes) : bytes := slice 136 48 r ++ slice 328 192 r. (* MRTD, RTMR0..3 *)
Definition td_report_data (r : bytes) : bytes := slice 520 64 r.
Definition td_debug (r : bytes) : bool := N.testbit (td_attributes r) 0.
(* report.go:200-213: Debug bit 0, SeptVeDisable 28, PKS 30, KL 31, Perfmon 63 *)
Definition td_attr_allowed : N := 1 + 2^28 + 2^30 + 2^31 + 2^63.
Definition zeros (n : nat) : bytes := repeat 0 n.

(* what Quote.Verify returns (quote.go:203-206): identity = (MRENCLAVE, MRSIGNER) *)
Definition Output : Type := (bytes * bytes * bytes)%type.
Definition output_of (P : Prims) (tee : N) (body : bytes) : Output :=
  if tee =? TEE_TDX then (td_identity P (td_measurements body), zeros 32, td_report_data body)
  else (sgx_mrenclave body, sgx_mrsigner body, sgx_report_data body).

(* ---------- parsing (quote.go:61-137, 476-542, 735-767) ---------- *)
Definition PRes (A : Type) := (A + ParseErr)%type.

Definition parse_qe (P : Prims) (version tee : N) (header body sig attkey d : bytes) : PRes Quote :=
  let n := blen d in
  if n <? 384 then inr PEQe else
  if n <? 448 then inr PEQe else
  if n <? 450 then inr PEQe else
  let auth_size := le 448 2 d in
  if n <? 450 + auth_size then inr PEQe else
  let asz := N.to_nat auth_size in
  let off := (450 + asz)%nat in
  if n <? N.of_nat off + 2 then inr PEQe else
  let ctype := le off 2 d in
  if n <? N.of_nat off + 6 then inr PEQe else
  let csize := le (off + 2) 4 d in
  if n <? N.of_nat off + 6 + csize then inr PEQe else
  let cdata := slice (off + 6) (N.to_nat csize) d in
  let slack := skipn (off + 6 + N.to_nat csize) d in
  let q := mkQuote version tee header body sig attkey (slice 0 384 d) (slice 384 64 d)
                   (slice 450 asz d) ctype cdata slack in
  if (ctype =? 1) || (ctype =? 2) || (ctype =? 3) then
    if blen cdata =? 404 then inl q else inr PEPpid
  else if ctype =? 5 then
    if pem_ok P cdata then inl q else inr PEPem
  else inr PECertType.

Definition parse_sig (P : Prims) (version tee : N) (header body sd : bytes) : PRes Quote :=
  if blen sd <? 584 then inr PESigLen else
  let sig := slice 0 64 sd in
  let attkey := slice 64 64 sd in
  if version =? 4 then
    let ctype := le 128 2 sd in
    let csize := le 130 4 sd in
    let rest := skipn 134 sd in
    if negb (blen rest =? csize) then inr PECertSize4 else
    if negb (ctype =? 6) then inr PECertType4 else
    parse_qe P version tee header body sig attkey rest
  else parse_qe P version tee header body sig attkey (skipn 128 sd).

Definition parse_quote (P : Prims) (data : bytes) : PRes Quote :=
  let n := blen data in
  if n <? 436 then inr PELen else
  let version := le 0 2 data in
  let header := slice 0 48 data in
  let hdr : PRes N :=   (* TEE type *)
    if version =? 3 then
      if le 4 4 data =? 0 then inl TEE_SGX else inr PEReserved
    else if version =? 4 then
      let tee := le 4 4 data in
      if negb ((tee =? TEE_SGX) || (tee =? TEE_TDX)) then inr PETee else
      if negb ((le 8 2 data =? 0) && (le 10 2 data =? 0)) then inr PEReserved else inl tee
    else inr PEVersion in
  match hdr with
  | inr e => inr e
  | inl tee =>
    if negb (bytes_eqb (slice 12 16 data) intel_vendor) then inr PEVendor else
    let bodyr : PRes nat :=
      if tee =? TEE_TDX then
        if n <? 636 then inr PEBodyLen else
        if negb (N.ldiff (le 168 8 data) td_attr_allowed =? 0) then inr PETdAttr else inl 584%nat
      else inl 384%nat in
    match bodyr with
    | inr e => inr e
    | inl blen_ =>
      let body := slice 48 blen_ data in
      let off := (48 + blen_)%nat in
      let siglen := le off 4 data in
      if n <? N.of_nat off + 4 + siglen then inr PETrailing else
      if negb (n =? N.of_nat off + 4 + siglen) then inr PETrailing else
      if negb (le 2 2 data =? 2) then inr PEAttKeyType else
      parse_sig P version tee header body (skipn (off + 4) data)
    end
  end.

(* ---------- Quote.Verify, first part (quote.go:152-194) ---------- *)
Definition module_matches (body : bytes) (m : TdxModulePolicy) : bool :=
  (match mp_mrseam m with Some s => bytes_eqb s (td_mrseam body) | None => true end)
  && bytes_eqb (mp_mrsigner m) (td_mrsignerseam body).
Definition tdx_module_allowed (mods : list TdxModulePolicy) (body : bytes) : bool :=
  existsb (module_matches body) mods
  || (match mods with [] => true | _ => false end) && bytes_eqb (td_mrsignerseam body) (zeros 48).

Definition pre_checks (env : Env) (pol : Policy) (q : Quote) : Res unit :=
  chk negb (p_disabled pol) orelse RDisabled;
  if q_tee q =? TEE_TDX then
    chk Bool.eqb (e_allow_debug env) (td_debug (q_body q)) orelse RDebugMismatch;
    match p_tdx pol with
    | None => Rej RTeeNotAllowed
    | Some mods => check (tdx_module_allowed mods (q_body q)) RTdxModuleNotAllowed
    end
  else
    chk negb (mem_bytes (sgx_mrsigner (q_body q)) (e_mrsigner_blacklist env)) orelse RMrSignerBlacklisted;
    check (Bool.eqb (e_allow_debug env) (sgx_debug (q_body q))) RDebugMismatch.

(* ---------- PCK stage (quote.go:544-665) ---------- *)
Definition pck_stage (P : Prims) (ts : Z) (q : Quote) : Res PckInfo :=
  chk q_cert_type q =? 5 orelse RNoPckChain;
  chk pck_count P (q_cert_data q) =? 3 orelse RPckChainLen;
  chk pck_chain_ok P ts (q_cert_data q) orelse RPckChain;
  match pck_info P (q_cert_data q) with
  | PckBadKey => Rej RPckKey
  | PckBadExt => Rej RPckExt
  | PckOk i => Ok i
  end.

(* ---------- QE report binding (quote.go:682-702) ---------- *)
Definition qe_binding (P : Prims) (pck : PckInfo) (q : Quote) : Res unit :=
  chk ecdsa_ok P (pk_key pck) (sha256 P (q_qe_report q)) (q_qe_sig q) orelse RQeReportSig;
  chk bytes_eqb (slice 0 32 (sgx_report_data (q_qe_report q))) (sha256 P (q_attkey q ++ q_auth q)) orelse RQeReportData;
  check (bytes_eqb (slice 32 32 (sgx_report_data (q_qe_report q))) (zeros 32)) RQeReportData.

(* ---------- TCB signing key (tcb.go:116-161) ---------- *)
Definition tcb_key_stage (P : Prims) (ts : Z) (c : Collateral) : Res bytes :=
  match tcb_certs P (c_certs c) with
  | None => Rej RTcbCerts
  | Some k =>
      chk tcb_chain_ok P ts (c_certs c) orelse RTcbChain;
      match k with None => Rej RTcbKey | Some pk => Ok pk end
  end.

(* tcb.go:163-173: UnmarshalHex (64 bytes) then ECDSA over SHA-256 of the raw body *)
Definition tcb_sig_ok (P : Prims) (pk raw sighex : bytes) : bool :=
  match hexdecode sighex with
  | Some s => (blen s =? 64) && ecdsa_ok P pk (sha256 P raw) s
  | None => false
  end.

Definition day_ns : Z := 86400000000000.
(* tcb.go:262-267 / 629-634 *)
Definition not_future (issue ts : Z) : bool := (issue <=? ts)%Z.
Definition not_expired (period : N) (issue ts : Z) : bool := (ts - issue <=? Z.of_N period * day_ns)%Z.

(* ---------- QE identity (tcb.go:563-576, 600-737) ---------- *)
Fixpoint find_enclave_level (isvsvn : N) (l : list EnclaveLevel) : option EnclaveLevel :=
  match l with
  | [] => None
  | x :: r => if el_isvsvn x <=? isvsvn then Some x else find_enclave_level isvsvn r
  end.

Definition qeid_validate (pol : Policy) (tee : N) (ts : Z) (qi : QeId) : Res unit :=
  chk bytes_eqb (qi_id qi) (if tee =? TEE_TDX then s_TD_QE else s_QE) orelse RQeIdId;
  chk (qi_version qi =? 2)%Z orelse RQeIdVersion;
  match qi_issue qi, qi_next qi with
  | Some issue, Some _ =>
      chk not_future issue ts orelse RQeIdFuture;
      chk not_expired (p_period pol) issue ts orelse RQeIdExpired;
      check (p_min_eval pol <=? qi_eval qi) RQeIdEvalNum
  | _, _ => Rej RQeIdDate
  end.

Definition hex_of_len (s : bytes) (n : N) : option bytes :=
  match hexdecode s with Some b => if blen b =? n then Some b else None | None => None end.

Definition qeid_verify (qi : QeId) (rep : bytes) : Res unit :=
  match hex_of_len (qi_mrsigner qi) 32 with
  | None => Rej RQeIdField
  | Some ms =>
    chk bytes_eqb ms (sgx_mrsigner rep) orelse RQeMrSigner;
    chk qi_prodid qi =? sgx_prodid rep orelse RQeProdId;
    match hex_of_len (qi_miscselect qi) 4 with None => Rej RQeIdField | Some misc =>
    match hex_of_len (qi_miscmask qi) 4 with None => Rej RQeIdField | Some miscm =>
    chk N.land (sgx_miscselect rep) (le_val miscm) =? le_val misc orelse RQeMiscSelect;
    match hex_of_len (qi_attrs qi) 16 with None => Rej RQeIdField | Some at_ =>
    match hex_of_len (qi_attrmask qi) 16 with None => Rej RQeIdField | Some atm =>
    chk N.land (sgx_flags rep) (le 0 8 atm) =? le 0 8 at_ orelse RQeAttributes;
    chk N.land (sgx_xfrm rep) (le 8 8 atm) =? le 8 8 at_ orelse RQeAttributes;
    match find_enclave_level (sgx_isvsvn rep) (qi_levels qi) with
    | None => Rej RQeLevel
    | Some lv => check (el_status lv =? ST_UpToDate) RQeStatus
    end end end end end
  end.

Definition qeid_stage (P : Prims) (pol : Policy) (tee : N) (ts : Z) (pk : bytes) (c : Collateral) (qe_report : bytes) : Res unit :=
  chk tcb_sig_ok P pk (c_qeid c) (c_qeid_sig c) orelse RQeIdSig;
  match parse_qeid P (c_qeid c) with
  | None => Rej RQeIdMalformed
  | Some qi =>
      do _ <- qeid_validate pol tee ts qi;
      qeid_verify qi qe_report
  end.

(* ---------- TCB info (tcb.go:182-195, 232-397, 453-495) ---------- *)
Fixpoint all_ge (have want : list Z) : bool :=   (* no index with have < want *)
  match have, want with
  | h :: hr, w :: wr => negb (h <? w)%Z && all_ge hr wr
  | _, _ => true
  end.
Definition byte_svns (b : bytes) : list Z := map Z.of_N b.

Definition level_matches (sgxsvn : list Z) (tdxsvn : option bytes) (pcesvn : N) (l : TcbLevel) : bool :=
  all_ge sgxsvn (tl_sgx l)
  && negb (pcesvn <? tl_pcesvn l)
  && match tdxsvn with
     | None => true
     | Some t =>
         let off := if nth 1 t 0 =? 0 then 0%nat else 2%nat in
         all_ge (byte_svns (skipn off t)) (skipn off (tl_tdx l))
     end.

Fixpoint find_module (id : bytes) (l : list TdxModuleId) : option TdxModuleId :=
  match l with
  | [] => None
  | m :: r => if bytes_eqb (tm_id m) id then Some m else find_module id r
  end.

(* getTCBLevel (tcb.go:329-397): returns the matched platform level *)
Definition get_tcb_level (ti : TcbInfo) (sgxsvn : list Z) (tdxsvn : option bytes) (pcesvn : N) : Res TcbLevel :=
  match find (level_matches sgxsvn tdxsvn pcesvn) (ti_levels ti) with
  | None => Rej RTcbLevelNone
  | Some lv =>
    chk negb (tl_status lv =? ST_MISSING) orelse RTcbStatusMissing;
    if bytes_eqb (ti_id ti) s_TDX then
      match tdxsvn with
      | None => Rej RTdxModuleUnsupported   (* "missing TDX SVN components": unreachable through Verify *)
      | Some t =>
        let ver := nth 1 t 0 in
        if 1 <=? ver then
          match find_module (tdx_module_id ver) (ti_modids ti) with
          | None => Rej RTdxModuleUnsupported
          | Some m =>
            match find_enclave_level (nth 0 t 0) (tm_levels m) with
            | None => Rej RTdxModuleLevel
            | Some ml => chk el_status ml =? ST_UpToDate orelse RTdxModuleStatus; Ok lv
            end
          end
        else Ok lv
      end
    else Ok lv
  end.

(* validateTCBLevel (tcb.go:309-327) *)
Definition status_allowed (lax : bool) (s : N) : bool :=
  (s =? ST_UpToDate) || (s =? ST_SWHardeningNeeded)
  || lax && ((s =? ST_OutOfDate) || (s =? ST_ConfigurationNeeded) || (s =? ST_OutOfDateConfigurationNeeded)).

Definition tcbinfo_validate (pol : Policy) (tee : N) (ts : Z) (ti : TcbInfo) : Res unit :=
  chk bytes_eqb (ti_id ti) (if tee =? TEE_TDX then s_TDX else s_SGX) orelse RTcbInfoId;
  chk (ti_version ti =? 3)%Z orelse RTcbInfoVersion;
  match ti_issue ti, ti_next ti with
  | Some issue, Some _ =>
      chk not_future issue ts orelse RTcbInfoFuture;
      chk not_expired (p_period pol) issue ts orelse RTcbInfoExpired;
      chk p_min_eval pol <=? ti_eval ti orelse RTcbInfoEvalNum;
      chk (match p_whitelist pol with [] => true | _ => false end) || mem_bytes (ti_fmspc ti) (p_whitelist pol) orelse RFmspcNotWhitelisted;
      check (negb (mem_bytes (ti_fmspc ti) (p_blacklist pol))) RFmspcBlacklisted
  | _, _ => Rej RTcbInfoDate
  end.

Definition tcbinfo_stage (P : Prims) (env : Env) (pol : Policy) (tee : N) (ts : Z) (pk : bytes) (c : Collateral)
           (pck : PckInfo) (tdxsvn : option bytes) : Res unit :=
  chk tcb_sig_ok P pk (c_tcbinfo c) (c_tcbinfo_sig c) orelse RTcbInfoSig;
  match parse_tcbinfo P (c_tcbinfo c) with
  | None => Rej RTcbInfoMalformed
  | Some ti =>
      do _ <- tcbinfo_validate pol tee ts ti;
      match hexdecode (ti_fmspc ti) with
      | None => Rej RFmspcMalformed
      | Some f =>
          chk bytes_eqb (pk_fmspc pck) f orelse RFmspcMismatch;
          do lv <- get_tcb_level ti (pk_compsvn pck) tdxsvn (pk_pcesvn pck);
          check (status_allowed (e_lax env) (tl_status lv)) RTcbStatus
      end
  end.

(* ---------- quote signature (quote.go:782-796) ---------- *)
Definition quote_sig_stage (P : Prims) (q : Quote) : Res unit :=
  chk att_key_valid P (q_attkey q) orelse RAttKeyInvalid;
  check (ecdsa_ok P (q_attkey q) (sha256 P (q_header q ++ q_body q)) (q_sig q)) RQuoteSig.

(* ---------- Quote.Verify on a parsed quote; order = quote.go:152-206, 677-716, 778-796 ---------- *)
Definition tdx_svn_of (q : Quote) : option bytes :=
  if q_tee q =? TEE_TDX then Some (td_teetcbsvn (q_body q)) else None.

Definition verify_parsed (P : Prims) (env : Env) (pol : Policy) (ts : Z) (q : Quote) (c : Collateral) : Res Output :=
  do _ <- pre_checks env pol q;
  do pck <- pck_stage P ts q;
  do _ <- qe_binding P pck q;
  do tpk <- tcb_key_stage P ts c;
  do _ <- qeid_stage P pol (q_tee q) ts tpk c (q_qe_report q);
  do _ <- tcbinfo_stage P env pol (q_tee q) ts tpk c pck (tdx_svn_of q);
  do _ <- quote_sig_stage P q;
  Ok (output_of P (q_tee q) (q_body q)).

(* QuoteBundle.Verify (pcs.go:44-50) *)
Definition verify (P : Prims) (env : Env) (pol : Policy) (ts : Z) (raw : bytes) (c : Collateral) : Res Output :=
  match parse_quote P raw with
  | inr e => Rej (RParse e)
  | inl q => verify_parsed P env pol ts q c
  end.

(* Quote.Verify with policy == nil (quote.go:143-150) *)
Definition default_policy : Policy := mkPolicy false 30 12 [] [] None.

(* ---------- correspondence: primitives given as finite tables ----------
   The harness evaluates the real primitives on the arguments the real code
   passes them and records the graph; arguments are identified by a
   fingerprint computed identically on both sides. *)
(* fingerprint: Horner mod 2^63 on primitive integers (cheap under vm_compute) *)
Definition fp (b : bytes) : N :=
  Z.to_N (Uint63.to_Z
    (fold_left (fun acc x => (acc * 257 + Uint63.of_Z (Z.of_N x) + 1)%uint63) b
               (Uint63.of_Z (Z.of_nat (length b))))).

Record Tables := mkTables {
  t_sha : list (N * bytes);            (* fp(argument) -> digest *)
  t_ecdsa : list N;                    (* fp(pk ++ digest ++ sig) of the triples that verify *)
  t_attkey_valid : list N;             (* fp(key) of the valid keys *)
  t_pck : list (N * (bool * N * bool * PckInfoRes));   (* fp(cert data) -> pem_ok, count, chain_ok at ts, info *)
  t_tcb_certs : option (option bytes); t_tcb_chain_ok : bool;
  t_tcbinfo : option TcbInfo; t_qeid : option QeId;
  t_tdid : list (N * bytes) }.

Definition nmem (x : N) (l : list N) : bool := existsb (N.eqb x) l.
Definition prims_of (t : Tables) : Prims :=
  let pck x := match aget (fp x) (t_pck t) with Some v => v | None => (false, 0, false, PckBadExt) end in
  mkPrims
    (fun x => match aget (fp x) (t_sha t) with Some d => d | None => [] end)
    (fun pk d s => nmem (fp (pk ++ d ++ s)) (t_ecdsa t))
    (fun k => nmem (fp k) (t_attkey_valid t))
    (fun x => fst (fst (fst (pck x))))
    (fun x => snd (fst (fst (pck x))))
    (fun _ x => snd (fst (pck x)))
    (fun x => snd (pck x))
    (fun _ => t_tcb_certs t)
    (fun _ _ => t_tcb_chain_ok t)
    (fun _ => t_tcbinfo t)
    (fun _ => t_qeid t)
    (fun x => match aget (fp x) (t_tdid t) with Some d => d | None => [] end).

(* in-place patches of a base byte string: (offset, deleted length, inserted bytes) *)
Definition patch1 (b : bytes) (p : N * N * bytes) : bytes :=
  let '(off, del, ins) := p in
  firstn (N.to_nat off) b ++ ins ++ skipn (N.to_nat off + N.to_nat del) b.
Definition patch (b : bytes) (ps : list (N * N * bytes)) : bytes := fold_left patch1 ps b.
(* byte-string literals decoded with shifts (linear): [hx len 0xHEX] is the
   big-endian string of length len; [unwords total ws] concatenates 8-byte words *)
Fixpoint hx_aux (len : nat) (n : N) (acc : bytes) : bytes :=
  match len with
  | O => acc
  | S l => hx_aux l (N.shiftr n 8) (N.land n 255 :: acc)
  end.
Definition hx (len : nat) (n : N) : bytes := hx_aux len n [].
Definition unwords (total : nat) (ws : list N) : bytes :=
  firstn total (flat_map (hx 8) ws).

Record Case := mkCase {
  k_env : Env; k_policy : Policy; k_ts : Z;
  k_quote : bytes; k_coll : Collateral; k_tables : Tables }.

Inductive Verdict := VAccept (o : Output) | VReject (r : Reason).
Definition run_case (k : Case) : Verdict :=
  match verify (prims_of (k_tables k)) (k_env k) (k_policy k) (k_ts k) (k_quote k) (k_coll k) with
  | Ok o => VAccept o
  | Rej r => VReject r
  end.

Definition parse_err_code (e : ParseErr) : N :=
  match e with
  | PELen => 1 | PEVersion => 2 | PEReserved => 3 | PETee => 4 | PEVendor => 5 | PEBodyLen => 6
  | PETdAttr => 7 | PETrailing => 8 | PEAttKeyType => 9 | PESigLen => 10 | PECertSize4 => 11
  | PECertType4 => 12 | PEQe => 13 | PEPpid => 14 | PEPem => 15 | PECertType => 16
  end.
Definition reason_code (r : Reason) : N :=
  match r with
  | RParse e => parse_err_code e
  | RDisabled => 20 | RMrSignerBlacklisted => 21 | RDebugMismatch => 22 | RTeeNotAllowed => 23
  | RTdxModuleNotAllowed => 24
  | RNoPckChain => 30 | RPckChainLen => 31 | RPckChain => 32 | RPckKey => 33 | RPckExt => 34
  | RQeReportSig => 35 | RQeReportData => 36
  | RTcbCerts => 40 | RTcbChain => 41 | RTcbKey => 42
  | RQeIdSig => 50 | RQeIdMalformed => 51 | RQeIdId => 52 | RQeIdVersion => 53 | RQeIdDate => 54
  | RQeIdFuture => 55 | RQeIdExpired => 56 | RQeIdEvalNum => 57 | RQeIdField => 58 | RQeMrSigner => 59
  | RQeProdId => 60 | RQeMiscSelect => 61 | RQeAttributes => 62 | RQeLevel => 63 | RQeStatus => 64
  | RTcbInfoSig => 70 | RTcbInfoMalformed => 71 | RTcbInfoId => 72 | RTcbInfoVersion => 73
  | RTcbInfoDate => 74 | RTcbInfoFuture => 75 | RTcbInfoExpired => 76 | RTcbInfoEvalNum => 77
  | RFmspcNotWhitelisted => 78 | RFmspcBlacklisted => 79 | RFmspcMalformed => 80 | RFmspcMismatch => 81
  | RTcbLevelNone => 82 | RTcbStatusMissing => 83 | RTdxModuleUnsupported => 84 | RTdxModuleLevel => 85
  | RTdxModuleStatus => 86 | RTcbStatus => 87
  | RAttKeyInvalid => 90 | RQuoteSig => 91
  end.

(* observable: 0 + (mrenclave, mrsigner, report data) on acceptance, else the reason code *)
Definition Obs : Type := (N * (bytes * bytes * bytes))%type.
Definition obs_of (v : Verdict) : Obs :=
  match v with
  | VAccept o => (0, o)
  | VReject r => (reason_code r, ([], [], []))
  end.
Definition run_obs (k : Case) : Obs := obs_of (run_case k).
Definition obs_eqb (a b : Obs) : bool :=
  (fst a =? fst b)
  && bytes_eqb (fst (fst (snd a))) (fst (fst (snd b)))
  && bytes_eqb (snd (fst (snd a))) (snd (fst (snd b)))
  && bytes_eqb (snd (snd a)) (snd (snd b)).
