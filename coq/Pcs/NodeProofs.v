(* C18, third anchor — proofs about Verif.Pcs.Node. *)
From Verif Require Import Lib.Base Pcs.Model Pcs.Proofs Pcs.Node.
From Coq Require Import ZArith Lia.

Ltac ncrush H :=
  repeat match type of H with
  | nbind (ncheck ?b ?r) _ = NOk _ =>
      let E := fresh "E" in destruct b eqn:E; cbn [ncheck nbind] in H; [|discriminate H]
  | nbind ?x _ = NOk _ =>
      let E := fresh "S" in destruct x eqn:E; cbn [nbind] in H; [|discriminate H|discriminate H]
  | ncheck ?b _ = NOk _ =>
      let E := fresh "E" in destruct b eqn:E; cbn [ncheck] in H; [|discriminate H]
  | match ?x with _ => _ end = NOk _ =>
      let E := fresh "M" in destruct x eqn:E; try discriminate H
  end.

Section Node.
  Variable NP : NPrims.
  Variable env : Env.

  Definition cfg_of (c : option TeeCfg) : TeeCfg := match c with Some c => c | None => empty_cfg end.

  (* the PCS policy in force (tee.go:37-49 + quote.go:29-31 + pcs/quote.go:143-150): the runtime's own PCS policy if its
     constraints carry one; otherwise the consensus default PCS policy, provided a default policy exists, the PCS feature
     is on and the default has a PCS part; only otherwise the hard-coded fallback (30 days, minimum 12, no lists, no TDX).
     The three fills of ApplyDefaultConstraints are independent: an IAS part (present or defaulted) never suppresses
     the PCS default. *)
  Definition runtime_pcs (sc : Constraints) : option Policy :=
    match sc_policy sc with Some p => qp_pcs p | None => None end.
  Definition policy_in_force (cfg : TeeCfg) (sc : Constraints) : Policy :=
    match runtime_pcs sc with
    | Some pp => pp
    | None =>
        match f_default_policy cfg with
        | Some d => if f_pcs cfg then match qp_pcs d with Some dp => dp | None => default_policy end else default_policy
        | None => default_policy
        end
    end.

  Lemma eff_pcs_policy_in_force cfg sc : eff_pcs_policy cfg sc = policy_in_force cfg sc.
  Proof.
    unfold eff_pcs_policy, eff_policy, policy_in_force, runtime_pcs.
    destruct (f_default_policy cfg) as [[di dp]|]; destruct (sc_policy sc) as [[pi pp]|]; cbn [qp_pcs qp_ias];
      try destruct pp; try destruct (f_pcs cfg); try destruct dp; reflexivity.
  Qed.

  Lemma pcs_policy_in_force_l cfg sc :
    eff_pcs_policy cfg sc = policy_in_force cfg sc /\
    (forall pp, runtime_pcs sc = Some pp -> policy_in_force cfg sc = pp) /\
    (forall d dp, runtime_pcs sc = None -> f_default_policy cfg = Some d -> f_pcs cfg = true -> qp_pcs d = Some dp ->
                  policy_in_force cfg sc = dp).
  Proof.
    split; [apply eff_pcs_policy_in_force|]. unfold policy_in_force. split.
    - intros pp H. rewrite H. reflexivity.
    - intros d dp H0 H1 H2 H3. rewrite H0, H1, H2, H3. reflexivity.
  Qed.

  (* what a successful registration check establishes *)
  Record Binds (cfg : TeeCfg) (ts : Z) (height : N) (sc : Constraints) (node_id : bytes) (cap : CapTee)
         (a : Attestation) (raw : bytes) (c : Collateral) (mre mrs rd : bytes) : Prop := {
    b_hardware : ct_hardware cap = HW_SGX;
    b_quote : a_quote a = QKPcs raw c;
    (* the quote verifies under the effective PCS policy (runtime constraints, else consensus default, else built-in) *)
    b_verified : verify (np_pcs NP) env (eff_pcs_policy cfg sc) ts raw c = Ok (mre, mrs, rd);
    (* enclave identity is in the runtime deployment's allowed set *)
    b_identity : exists e, In e (sc_enclaves sc) /\ fst e = mre /\ snd e = mrs;
    (* first 32 bytes of the report data = SHA-512/256("oasis-core/node: TEE RAK binding" || RAK) *)
    b_rak : firstn 32 rd = hash512_256 NP (tee_hash_context ++ ct_rak cap);
    (* with signed attestations: RAK signature over TupleHash(report data, node id, height, [REK]) and freshness *)
    b_signed : f_signed cfg = true ->
      rak_verify NP (ct_rak cap)
        (att_tuplehash NP ([rd; node_id; le_bytes 8 (a_height a)] ++ rek_tuple (ct_rek cap))) (a_sig a) = true /\
      a_height a <= height /\ height - a_height a <= eff_max_age cfg sc;
    b_versions : a_version a <= 1 /\ sc_version sc <= 1 /\ (f_pcs cfg = false -> a_version a = 0 /\ sc_version sc = 0);
    (* the policy under which the quote verified is the policy in force *)
    b_policy : eff_pcs_policy cfg sc = policy_in_force cfg sc
  }.

  Lemma existsb_enclave mre mrs l :
    existsb (enclave_eqb (mre, mrs)) l = true -> exists e, In e l /\ fst e = mre /\ snd e = mrs.
  Proof.
    intros H. apply existsb_exists in H as (e & Hin & He). exists e. split; [exact Hin|].
    unfold enclave_eqb in He. cbn [fst snd] in He. apply andb_true_iff in He as [A B].
    apply bytes_eqb_eq in A, B. auto.
  Qed.

  Lemma registration_binds_rak_l cfg0 ts height constraints node_id is261 cap u :
    cap_verify NP env cfg0 ts height constraints node_id is261 cap = NOk u ->
    exists a sc raw c mre mrs rd,
      ct_att cap = Some a /\ constraints = Some sc /\
      Binds (cfg_of cfg0) ts height sc node_id cap a raw c mre mrs rd.
  Proof.
    unfold cap_verify. fold (cfg_of cfg0). set (cfg := cfg_of cfg0). intros H.
    destruct (ct_hardware cap =? HW_SGX) eqn:EH; cbn [ncheck nbind] in H; [|discriminate H].
    destruct (ct_att cap) as [a|] eqn:EA; [|discriminate H].
    destruct (att_validate_basic cfg a) eqn:EV; cbn [ncheck nbind] in H; [|discriminate H].
    destruct constraints as [sc|]; [|discriminate H].
    destruct (sc_validate_basic cfg is261 sc) eqn:ES; cbn [ncheck nbind] in H; [|discriminate H].
    unfold att_verify in H.
    destruct (quote_verify NP env (eff_pcs_policy cfg sc) ts (a_quote a)) as [[[mre mrs] rd]| |] eqn:EQ;
      cbn [nbind] in H; try discriminate H.
    destruct (existsb (enclave_eqb (mre, mrs)) (sc_enclaves sc)) eqn:EE; cbn [ncheck nbind] in H; [|discriminate H].
    destruct (bytes_eqb (hash512_256 NP (tee_hash_context ++ ct_rak cap)) (firstn 32 rd)) eqn:ER;
      cbn [ncheck nbind] in H; [|discriminate H].
    unfold quote_verify in EQ. destruct (a_quote a) as [| | |raw c] eqn:EK; try discriminate EQ.
    destruct (verify (np_pcs NP) env (eff_pcs_policy cfg sc) ts raw c) as [o|] eqn:EVf; [|discriminate EQ].
    injection EQ as ->.
    exists a, sc, raw, c, mre, mrs, rd. split; [reflexivity|]. split; [reflexivity|].
    constructor.
    - apply N.eqb_eq; exact EH.
    - exact EK.
    - exact EVf.
    - apply existsb_enclave; exact EE.
    - apply bytes_eqb_eq in ER. auto.
    - intros Hs. rewrite Hs in H. unfold att_signature_stage in H. ncrush H.
      apply N.leb_le in E0, E1. auto.
    - unfold att_validate_basic in EV. unfold sc_validate_basic in ES.
      apply andb_true_iff in EV as [V1 V2]. apply andb_true_iff in ES as [S12 _]. apply andb_true_iff in S12 as [S1 S2].
      apply N.leb_le in V2, S2. repeat split; auto.
      all: match goal with Hp : f_pcs _ = false |- _ => rewrite Hp in V1, S1; cbn in V1, S1 end.
      + destruct (a_version a =? 0) eqn:X; [apply N.eqb_eq in X; exact X|discriminate].
      + destruct (sc_version sc =? 0) eqn:X; [apply N.eqb_eq in X; exact X|discriminate].
    - apply eff_pcs_policy_in_force.
  Qed.

  (* a verified quote whose report data does not commit to this RAK never registers *)
  Lemma foreign_quote_never_binds_l cfg0 ts height sc node_id is261 cap a raw c :
    ct_att cap = Some a -> a_quote a = QKPcs raw c ->
    (forall mre mrs rd, verify (np_pcs NP) env (eff_pcs_policy (cfg_of cfg0) sc) ts raw c = Ok (mre, mrs, rd) ->
                        firstn 32 rd <> hash512_256 NP (tee_hash_context ++ ct_rak cap)) ->
    forall u, cap_verify NP env cfg0 ts height (Some sc) node_id is261 cap <> NOk u.
  Proof.
    intros EA EK Hf u H.
    apply registration_binds_rak_l in H as (a' & sc' & raw' & c' & mre & mrs & rd & E1 & E2 & B).
    injection E2 as <-. rewrite EA in E1. injection E1 as <-.
    destruct B as [_ Bq Bv _ Br _ _]. rewrite EK in Bq. injection Bq as <- <-.
    exact (Hf _ _ _ Bv Br).
  Qed.

  (* an enclave identity outside the deployment's set, a stale or future height, a bad RAK signature never register *)
  Lemma unlisted_or_stale_never_registers_l cfg0 ts height sc node_id is261 cap a raw c mre mrs rd :
    ct_att cap = Some a -> a_quote a = QKPcs raw c ->
    verify (np_pcs NP) env (eff_pcs_policy (cfg_of cfg0) sc) ts raw c = Ok (mre, mrs, rd) ->
    (forall e, In e (sc_enclaves sc) -> ~ (fst e = mre /\ snd e = mrs))
    \/ f_signed (cfg_of cfg0) = true /\
       (height < a_height a \/ eff_max_age (cfg_of cfg0) sc < height - a_height a \/
        rak_verify NP (ct_rak cap) (att_message NP rd node_id (a_height a) (ct_rek cap)) (a_sig a) = false) ->
    forall u, cap_verify NP env cfg0 ts height (Some sc) node_id is261 cap <> NOk u.
  Proof.
    intros EA EK EV Hx u H.
    apply registration_binds_rak_l in H as (a' & sc' & raw' & c' & mre' & mrs' & rd' & E1 & E2 & B).
    injection E2 as <-. rewrite EA in E1. injection E1 as <-.
    destruct B as [_ Bq Bv Bi _ Bs _]. rewrite EK in Bq. injection Bq as <- <-.
    rewrite EV in Bv. injection Bv as <- <- <-.
    destruct Hx as [Hx|[Hs Hx]].
    - destruct Bi as (e & Hin & He). exact (Hx e Hin He).
    - destruct (Bs Hs) as (R & A & F). unfold att_message in Hx. destruct Hx as [Hx|[Hx|Hx]]; try lia; congruence.
  Qed.

  (* what is NOT bound when the SignedAttestations feature is off: node id, heights, REK and the signature *)
  Lemma unsigned_attestation_frame_l cfg ts h1 h2 sc nid1 nid2 is261 hw rak rek1 rek2 v k ah1 ah2 s1 s2 :
    f_signed cfg = false ->
    cap_verify NP env (Some cfg) ts h1 (Some sc) nid1 is261 (mkCap hw rak rek1 (Some (mkAtt v k ah1 s1))) =
    cap_verify NP env (Some cfg) ts h2 (Some sc) nid2 is261 (mkCap hw rak rek2 (Some (mkAtt v k ah2 s2))).
  Proof.
    intros Hs. unfold cap_verify, att_verify, att_validate_basic. cbn [ct_hardware ct_att ct_rak ct_rek a_version a_quote].
    rewrite Hs. reflexivity.
  Qed.
  (* ---------- registry layer ---------- *)

  Lemma version_eqb_eq a b : version_eqb a b = true <-> a = b.
  Proof.
    destruct a as [[a1 a2] a3], b as [[b1 b2] b3]. unfold version_eqb. cbn [fst snd]. split.
    - intros H. apply andb_true_iff in H as [H H3]. apply andb_true_iff in H as [H1 H2].
      apply N.eqb_eq in H1, H2, H3. congruence.
    - intros H. injection H as -> -> ->. rewrite !N.eqb_refl. reflexivity.
  Qed.

  (* acceptance by VerifyNodeRuntimeEnclaveIDs: either the node claims no TEE and the runtime requires none, or the
     capability's hardware is the runtime's, the FIRST deployment with the node's runtime version is used, its
     constraints decode, and the capability binds under them *)
  Lemma registry_accept_binds_l cfg0 ts height node_id is261 rt reg u :
    verify_enclave_ids NP env cfg0 ts height node_id is261 rt reg = NOk u ->
    (nr_tee rt = None /\ rr_hw reg = 0) \/
    exists cap d pre post a sc raw c mre mrs rd,
      nr_tee rt = Some cap /\ ct_hardware cap = rr_hw reg /\
      rr_deployments reg = pre ++ d :: post /\ d_version d = nr_version rt /\
      (forall y, In y pre -> d_version y <> nr_version rt) /\
      ct_att cap = Some a /\ d_tee d = Some sc /\
      Binds (cfg_of cfg0) ts height sc node_id cap a raw c mre mrs rd.
  Proof.
    unfold verify_enclave_ids. intros H.
    destruct (nr_tee rt) as [cap|] eqn:ET.
    - destruct (ct_hardware cap =? rr_hw reg) eqn:EH; cbn [ncheck nbind] in H; [|discriminate H].
      apply N.eqb_eq in EH.
      destruct (find (fun d => version_eqb (d_version d) (nr_version rt)) (rr_deployments reg)) as [d|] eqn:EF;
        [|discriminate H].
      destruct (find_first _ _ _ EF) as (pre & post & A & B & C).
      apply version_eqb_eq in B.
      apply registration_binds_rak_l in H as (a & sc & raw & c & mre & mrs & rd & E1 & E2 & Bd).
      assert (C' : forall y, In y pre -> d_version y <> nr_version rt).
      { intros y Hy Heq. specialize (C y Hy). apply version_eqb_eq in Heq. congruence. }
      right. exists cap, d, pre, post, a, sc, raw, c, mre, mrs, rd.
      split; [reflexivity|]. split; [exact EH|]. split; [exact A|]. split; [exact B|]. split; [exact C'|].
      split; [exact E1|]. split; [exact E2|]. exact Bd.
    - destruct (0 =? rr_hw reg) eqn:EH; cbn [ncheck nbind] in H; [|discriminate H].
      apply N.eqb_eq in EH. left. auto.
  Qed.

  (* outside genesis / sanity checking the registration check is exactly VerifyNodeRuntimeEnclaveIDs ... *)
  Lemma register_tee_check_strict_l cfg0 ts height node_id is261 rt reg :
    register_tee_check NP env cfg0 ts height node_id is261 rt reg false false =
    verify_enclave_ids NP env cfg0 ts height node_id is261 rt reg.
  Proof. unfold register_tee_check. destruct (verify_enclave_ids _ _ _ _ _ _ _ _ _); reflexivity. Qed.

  (* ... and at genesis (or in the genesis sanity checker) a failing attestation never rejects the node
     (api.go:626-634: "These checks are skipped at time of genesis") *)
  Lemma genesis_ignores_attestation_l cfg0 ts height node_id is261 rt reg g s r :
    g || s = true -> register_tee_check NP env cfg0 ts height node_id is261 rt reg g s <> NRej r.
  Proof.
    unfold register_tee_check. intros Hg. rewrite Hg.
    destruct (verify_enclave_ids _ _ _ _ _ _ _ _ _); discriminate.
  Qed.

  (* determinism: the verdict is a function of the process switches, the consensus parameters, the block time and
     height, the node descriptor's runtime entry and the registry's runtime descriptor -- nothing else is an input *)
  Lemma registry_verdict_deterministic_l env2 cfg1 cfg2 ts1 ts2 h1 h2 nid1 nid2 f1 f2 rt1 rt2 reg1 reg2 :
    env = env2 -> cfg1 = cfg2 -> ts1 = ts2 -> h1 = h2 -> nid1 = nid2 -> f1 = f2 -> rt1 = rt2 -> reg1 = reg2 ->
    verify_enclave_ids NP env cfg1 ts1 h1 nid1 f1 rt1 reg1 = verify_enclave_ids NP env2 cfg2 ts2 h2 nid2 f2 rt2 reg2.
  Proof. intros. subst. reflexivity. Qed.
End Node.

(* ---------- non-vacuity ---------- *)
Definition toyNP : NPrims :=
  mkNPrims sgxP (fun x => firstn 32 (skipn 32 x ++ zeros 32)) (fun l => concat l)
           (fun rak m s => bytes_eqb s (rak ++ firstn 4 m)).
(* the toy quote's report data is 64 x 0xDA, so the toy RAK is 32 x 0xDA *)
Definition toy_rak : bytes := repeat 0xDA 32.
Definition toy_sc : Constraints := mkSC 1 [(zeros 32, zeros 32); (repeat 0xEE 32, repeat 0x51 32)] None 0.
Definition toy_cfg : TeeCfg := mkCfg true true None 100 false.
Definition toy_cap (height : N) (rak : bytes) : CapTee :=
  mkCap 1 rak (Some [9; 9]) (Some (mkAtt 1 (QKPcs toy_sgx_raw toy_coll) height (rak ++ repeat 0xDA 4))).

Example ex_registration :
  cap_verify toyNP toy_env (Some toy_cfg) 50 1000 (Some toy_sc) [7] true (toy_cap 990 toy_rak) = NOk tt /\
  cap_verify toyNP toy_env (Some toy_cfg) 50 1000 (Some toy_sc) [7] true (toy_cap 990 (repeat 0xDB 32)) = NRej NRakHashMismatch /\
  cap_verify toyNP toy_env (Some toy_cfg) 50 1000 (Some toy_sc) [7] true (toy_cap 899 toy_rak) = NRej NNotFresh /\
  cap_verify toyNP toy_env (Some toy_cfg) 50 1000 (Some toy_sc) [7] true (toy_cap 1001 toy_rak) = NRej NFromFuture /\
  cap_verify toyNP toy_env (Some toy_cfg) 50 1000 (Some (mkSC 1 [(zeros 32, zeros 32)] None 0)) [7] true (toy_cap 990 toy_rak)
    = NRej NBadEnclaveIdentity /\
  cap_verify toyNP toy_env (Some toy_cfg) 50 1000 (Some toy_sc) [7] true
    (mkCap 1 toy_rak None (Some (mkAtt 1 (QKPcs toy_sgx_raw toy_coll) 990 (zeros 36)))) = NRej NInvalidAttSig /\
  cap_verify toyNP toy_env (Some toy_cfg) (15 + 31 * day_ns) 1000 (Some toy_sc) [7] true (toy_cap 990 toy_rak)
    = NRej (NQuote RPckChain) /\
  cap_verify toyNP toy_env (Some toy_cfg) 50 1000 (Some toy_sc) [7] true
    (mkCap 0 toy_rak None (Some (mkAtt 1 (QKPcs toy_sgx_raw toy_coll) 990 []))) = NRej NInvalidHardware /\
  cap_verify toyNP toy_env None 50 1000 (Some toy_sc) [7] true (toy_cap 990 toy_rak) = NRej NAttMalformed.
Proof. vm_compute. repeat split. Qed.

(* the process switches ARE an input: replicas started with different unsafe debug flags disagree on a debug enclave *)
Definition toy_sgx_raw_debug : bytes := firstn 96 toy_sgx_raw ++ [2] ++ skipn 97 toy_sgx_raw.
Lemma verdict_depends_on_process_switches_l :
  exists NP cfg ts h nid rt reg,
    verify_enclave_ids NP (mkEnv true false []) cfg ts h nid true rt reg = NOk tt /\
    verify_enclave_ids NP (mkEnv false false []) cfg ts h nid true rt reg = NRej (NQuote RDebugMismatch).
Proof.
  exists toyNP, (Some toy_cfg), 50%Z, 1000, [7],
    (mkNodeRt (1, 2, 3) (Some (mkCap 1 toy_rak (Some [9; 9])
       (Some (mkAtt 1 (QKPcs toy_sgx_raw_debug toy_coll) 990 (toy_rak ++ repeat 0xDA 4)))))),
    (mkRegRt 1 [mkDep (0, 0, 1) None; mkDep (1, 2, 3) (Some toy_sc); mkDep (1, 2, 3) None]).
  vm_compute. split; reflexivity.
Qed.

Example ex_registry :
  let cap := toy_cap 990 toy_rak in
  let reg := mkRegRt 1 [mkDep (0, 0, 1) None; mkDep (1, 2, 3) (Some toy_sc); mkDep (1, 2, 3) None] in
  verify_enclave_ids toyNP toy_env (Some toy_cfg) 50 1000 [7] true (mkNodeRt (1, 2, 3) (Some cap)) reg = NOk tt /\
  verify_enclave_ids toyNP toy_env (Some toy_cfg) 50 1000 [7] true (mkNodeRt (0, 0, 1) (Some cap)) reg = NRej NConstraintsMalformed /\
  verify_enclave_ids toyNP toy_env (Some toy_cfg) 50 1000 [7] true (mkNodeRt (9, 9, 9) (Some cap)) reg = NRej NUnknownVersion /\
  verify_enclave_ids toyNP toy_env (Some toy_cfg) 50 1000 [7] true (mkNodeRt (1, 2, 3) None) reg = NRej NHardwareMismatch /\
  verify_enclave_ids toyNP toy_env (Some toy_cfg) 50 1000 [7] true (mkNodeRt (1, 2, 3) None) (mkRegRt 0 []) = NOk tt /\
  register_tee_check toyNP toy_env (Some toy_cfg) 50 1000 [7] true (mkNodeRt (9, 9, 9) (Some cap)) reg true false = NOk tt.
Proof. vm_compute. repeat split. Qed.

(* REFUTED: "the report data binds the REK and the node id".  The quote commits to the RAK only; REK, node id and
   height are bound by the RAK's attestation signature: the same quote registers under two node ids with two REKs. *)
Lemma report_data_binds_rek_and_node_id_refuted_l :
  exists NP env cfg ts h sc rak q s1 s2 nid1 nid2 rek1 rek2,
    nid1 <> nid2 /\ rek1 <> rek2 /\
    cap_verify NP env cfg ts h sc nid1 true (mkCap 1 rak rek1 (Some (mkAtt 1 q 990 s1))) = NOk tt /\
    cap_verify NP env cfg ts h sc nid2 true (mkCap 1 rak rek2 (Some (mkAtt 1 q 990 s2))) = NOk tt.
Proof.
  exists toyNP, toy_env, (Some toy_cfg), 50%Z, 1000, (Some toy_sc), toy_rak, (QKPcs toy_sgx_raw toy_coll),
    (toy_rak ++ repeat 0xDA 4), (toy_rak ++ repeat 0xDA 4), [7], [8], (Some [9; 9]), None.
  split; [discriminate|]. split; [discriminate|]. vm_compute. split; reflexivity.
Qed.
