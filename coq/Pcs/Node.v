(* C18, third anchor — go/common/node: how a node registration binds a verified
   quote to the node's RAK/REK, node id and the runtime's deployment.
   Executable definitions only.

   Ported code:
     node.go:569-574      HashRAK
     node.go:577-603      CapabilityTEE.Verify
     sgx.go:103-134       SGXConstraints.ValidateBasic
     sgx.go:138-140       ContainsEnclave
     sgx.go:200-215       SGXAttestation.ValidateBasic
     sgx.go:218-266       SGXAttestation.Verify
     sgx.go:268-289       verifyAttestationSignature
     sgx.go:291-305       HashAttestation
     tee.go:37-54         ApplyDefaultConstraints
     sgx/quote/quote.go:20-59, 68-84   Quote.Verify (PCS branch), Policy.Validate

   Abstract: CBOR decoding of the attestation and constraints (the decoded
   structures are the input; None = decoding error), SHA-512/256, TupleHash,
   Ed25519 verification, and everything abstract in Pcs.Model.  The IAS branch
   of Quote.Verify is not modelled (result NNotModelled). *)
From Verif Require Import Lib.Base Pcs.Model.
From Coq Require Import ZArith.

Record NPrims := mkNPrims {
  np_pcs : Prims;
  hash512_256 : bytes -> bytes;                  (* hash.NewFromBytes *)
  att_tuplehash : list bytes -> bytes;           (* TupleHash256[AttestationSignatureContext] of the tuple *)
  rak_verify : bytes -> bytes -> bytes -> bool   (* rak.Verify(AttestationSignatureContext, msg, sig) *)
}.

Inductive QuoteKind := QKNone | QKIas | QKBoth | QKPcs (raw : bytes) (c : Collateral).
Record Attestation := mkAtt { a_version : N; a_quote : QuoteKind; a_height : N; a_sig : bytes }.
(* quote.Policy: the IAS part is only recorded as present/absent *)
Record QPolicy := mkQP { qp_ias : bool; qp_pcs : option Policy }.
Record Constraints := mkSC {
  sc_version : N; sc_enclaves : list (bytes * bytes); sc_policy : option QPolicy; sc_max_age : N }.
Record TeeCfg := mkCfg {
  f_pcs : bool; f_signed : bool; f_default_policy : option QPolicy; f_default_max_age : N; f_tdx : bool }.
Record CapTee := mkCap {
  ct_hardware : N; ct_rak : bytes; ct_rek : option bytes;
  ct_att : option Attestation   (* cbor.Unmarshal of CapabilityTEE.Attestation; None = error *) }.

Definition empty_cfg : TeeCfg := mkCfg false false None 0 false.
Definition HW_SGX : N := 1.

(* "oasis-core/node: TEE RAK binding" (node.go:49); the harness checks it against node.HashRAK *)
Definition tee_hash_context : bytes :=
  [111; 97; 115; 105; 115; 45; 99; 111; 114; 101; 47; 110; 111; 100; 101; 58; 32; 84; 69; 69; 32; 82; 65; 75; 32;
   98; 105; 110; 100; 105; 110; 103].

Fixpoint le_bytes (n : nat) (v : N) : bytes :=
  match n with O => [] | S k => (v mod 256) :: le_bytes k (v / 256) end.

Inductive NReason :=
| NInvalidHardware | NAttMalformed | NConstraintsMalformed | NQuoteKind
| NBadEnclaveIdentity | NRakHashMismatch | NInvalidAttSig | NFromFuture | NNotFresh
| NHardwareMismatch | NUnknownVersion
| NQuote (r : Reason).
Inductive NRes (A : Type) := NOk (a : A) | NRej (r : NReason) | NNotModelled.
Arguments NOk {A} a.
Arguments NRej {A} r.
Arguments NNotModelled {A}.
Definition nbind {A B} (x : NRes A) (f : A -> NRes B) : NRes B :=
  match x with NOk a => f a | NRej r => NRej r | NNotModelled => NNotModelled end.
Definition ncheck (b : bool) (r : NReason) : NRes unit := if b then NOk tt else NRej r.
Notation "'ndo' x <- e ; k" := (nbind e (fun x => k)) (at level 200, x name, e at level 100, k at level 200).
Notation "'nchk' b 'orelse' r ; k" := (nbind (ncheck b r) (fun _ => k)) (at level 200, b at level 100, r at level 100, k at level 200).

(* sgx.go:200-215 *)
Definition att_validate_basic (cfg : TeeCfg) (a : Attestation) : bool :=
  negb (negb (f_pcs cfg) && negb (a_version a =? 0)) && (a_version a <=? 1).

(* sgx.go:103-134 with quote.go:68-84 *)
Definition sc_validate_basic (cfg : TeeCfg) (is261 : bool) (sc : Constraints) : bool :=
  negb (negb (f_pcs cfg) && negb (sc_version sc =? 0)) && (sc_version sc <=? 1)
  && match sc_policy sc with
     | None => true
     | Some p =>
         negb (negb (f_tdx cfg) && match qp_pcs p with Some pp => match p_tdx pp with Some _ => true | None => false end | None => false end)
         && (is261 || match qp_pcs p with Some pp => match p_whitelist pp with [] => true | _ => false end | None => true end)
     end.

(* tee.go:37-54 *)
Definition eff_policy (cfg : TeeCfg) (sc : Constraints) : option QPolicy :=
  match f_default_policy cfg with
  | None => sc_policy sc
  | Some d =>
      let p := match sc_policy sc with Some p => p | None => mkQP false None end in
      Some (mkQP (qp_ias p || qp_ias d)
                 (match qp_pcs p with Some pp => Some pp | None => if f_pcs cfg then qp_pcs d else None end))
  end.
Definition eff_max_age (cfg : TeeCfg) (sc : Constraints) : N :=
  if sc_max_age sc =? 0 then f_default_max_age cfg else sc_max_age sc.
(* quote.go:29-31 and pcs/quote.go:143-150: missing policy = the built-in default *)
Definition eff_pcs_policy (cfg : TeeCfg) (sc : Constraints) : Policy :=
  match eff_policy cfg sc with
  | Some (mkQP _ (Some pp)) => pp
  | _ => default_policy
  end.

(* quote.go:20-59 *)
Definition quote_verify (NP : NPrims) (env : Env) (pol : Policy) (ts : Z) (k : QuoteKind) : NRes Output :=
  match k with
  | QKNone | QKBoth => NRej NQuoteKind
  | QKIas => NNotModelled
  | QKPcs raw c => match verify (np_pcs NP) env pol ts raw c with Ok o => NOk o | Rej r => NRej (NQuote r) end
  end.

Definition enclave_eqb (a b : bytes * bytes) : bool := bytes_eqb (fst a) (fst b) && bytes_eqb (snd a) (snd b).
Definition rek_tuple (rek : option bytes) : list bytes := match rek with Some r => [r] | None => [] end.
Definition att_message (NP : NPrims) (rd node_id : bytes) (h : N) (rek : option bytes) : bytes :=
  att_tuplehash NP ([rd; node_id; le_bytes 8 h] ++ rek_tuple rek).

(* sgx.go:268-289 *)
Definition att_signature_stage (NP : NPrims) (max_age : N) (rak : bytes) (rek : option bytes) (rd node_id : bytes)
           (height : N) (a : Attestation) : NRes unit :=
  nchk rak_verify NP rak (att_message NP rd node_id (a_height a) rek) (a_sig a) orelse NInvalidAttSig;
  nchk a_height a <=? height orelse NFromFuture;
  ncheck (height - a_height a <=? max_age) NNotFresh.

(* sgx.go:218-266 *)
Definition att_verify (NP : NPrims) (env : Env) (cfg : TeeCfg) (ts : Z) (height : N) (sc : Constraints)
           (rak : bytes) (rek : option bytes) (node_id : bytes) (a : Attestation) : NRes unit :=
  ndo out <- quote_verify NP env (eff_pcs_policy cfg sc) ts (a_quote a);
  let '(mre, mrs, rd) := out in
  nchk existsb (enclave_eqb (mre, mrs)) (sc_enclaves sc) orelse NBadEnclaveIdentity;
  nchk bytes_eqb (hash512_256 NP (tee_hash_context ++ rak)) (firstn 32 rd) orelse NRakHashMismatch;
  if f_signed cfg then att_signature_stage NP (eff_max_age cfg sc) rak rek rd node_id height a
  else NOk tt.

(* node.go:577-603 *)
Definition cap_verify (NP : NPrims) (env : Env) (cfg0 : option TeeCfg) (ts : Z) (height : N)
           (constraints : option Constraints) (node_id : bytes) (is261 : bool) (cap : CapTee) : NRes unit :=
  let cfg := match cfg0 with Some c => c | None => empty_cfg end in
  nchk ct_hardware cap =? HW_SGX orelse NInvalidHardware;
  match ct_att cap with
  | None => NRej NAttMalformed
  | Some a =>
    nchk att_validate_basic cfg a orelse NAttMalformed;
    match constraints with
    | None => NRej NConstraintsMalformed
    | Some sc =>
      nchk sc_validate_basic cfg is261 sc orelse NConstraintsMalformed;
      att_verify NP env cfg ts height sc (ct_rak cap) (ct_rek cap) node_id a
    end
  end.

(* ---------- the registry's use (go/registry/api/api.go:806-862, 632) ----------
   VerifyNodeRuntimeEnclaveIDs is what the consensus registry application (RegisterNode, with
   ctx.Now() = block time and ctx.LastHeight()) and the key manager application call. *)
Definition Version : Type := (N * N * N)%type.
Definition version_eqb (a b : Version) : bool :=
  (fst (fst a) =? fst (fst b)) && (snd (fst a) =? snd (fst b)) && (snd a =? snd b).
Record Deployment := mkDep { d_version : Version; d_tee : option Constraints (* cbor decoding of VersionInfo.TEE *) }.
Record RegRuntime := mkRegRt { rr_hw : N; rr_deployments : list Deployment }.
Record NodeRuntime := mkNodeRt { nr_version : Version; nr_tee : option CapTee }.

Definition verify_enclave_ids (NP : NPrims) (env : Env) (cfg0 : option TeeCfg) (ts : Z) (height : N)
           (node_id : bytes) (is261 : bool) (rt : NodeRuntime) (reg : RegRuntime) : NRes unit :=
  let hw := match nr_tee rt with Some c => ct_hardware c | None => 0 end in
  nchk hw =? rr_hw reg orelse NHardwareMismatch;
  match nr_tee rt with
  | None => NOk tt
  | Some cap =>
      match find (fun d => version_eqb (d_version d) (nr_version rt)) (rr_deployments reg) with
      | None => NRej NUnknownVersion
      | Some d => cap_verify NP env cfg0 ts height (d_tee d) node_id is261 cap
      end
  end.

(* api.go:632: "err != nil && !isSanityCheck && !isGenesis" *)
Definition register_tee_check (NP : NPrims) (env : Env) (cfg0 : option TeeCfg) (ts : Z) (height : N)
           (node_id : bytes) (is261 : bool) (rt : NodeRuntime) (reg : RegRuntime) (is_genesis is_sanity : bool) : NRes unit :=
  match verify_enclave_ids NP env cfg0 ts height node_id is261 rt reg with
  | NRej r => if is_genesis || is_sanity then NOk tt else NRej r
  | x => x
  end.

(* ---------- correspondence ---------- *)
Record NTables := mkNTables {
  nt_pcs : Tables;
  nt_hash : list (N * bytes);       (* fp(argument) -> SHA-512/256 *)
  nt_tuple : list (N * bytes);      (* fp(concatenation of the length-prefixed tuple) -> TupleHash *)
  nt_rak : list N }.                (* fp(rak ++ msg ++ sig) of the verifying triples *)
(* the tuple is flattened injectively: each element preceded by its length byte (all elements are < 256 bytes) *)
Definition flat_tuple (l : list bytes) : bytes := flat_map (fun x => blen x :: x) l.
Definition nprims_of (t : NTables) : NPrims :=
  mkNPrims (prims_of (nt_pcs t))
    (fun x => match aget (fp x) (nt_hash t) with Some d => d | None => [] end)
    (fun l => match aget (fp (flat_tuple l)) (nt_tuple t) with Some d => d | None => [] end)
    (fun rak m s => nmem (fp (rak ++ m ++ s)) (nt_rak t)).

Record NCase := mkNCase {
  nk_env : Env; nk_cfg : option TeeCfg; nk_ts : Z; nk_height : N; nk_constraints : option Constraints;
  nk_node_id : bytes; nk_is261 : bool; nk_cap : CapTee; nk_tables : NTables }.

Definition nreason_code (r : NReason) : N :=
  match r with
  | NInvalidHardware => 100 | NAttMalformed => 101 | NConstraintsMalformed => 102 | NQuoteKind => 103
  | NBadEnclaveIdentity => 104 | NRakHashMismatch => 105 | NInvalidAttSig => 106 | NFromFuture => 107
  | NNotFresh => 108 | NHardwareMismatch => 110 | NUnknownVersion => 111 | NQuote r => reason_code r
  end.
(* 0 = accepted, 999 = not modelled *)
Definition run_ncase (k : NCase) : N :=
  match cap_verify (nprims_of (nk_tables k)) (nk_env k) (nk_cfg k) (nk_ts k) (nk_height k) (nk_constraints k)
                   (nk_node_id k) (nk_is261 k) (nk_cap k) with
  | NOk _ => 0 | NRej r => nreason_code r | NNotModelled => 999
  end.

(* registry-level case: the node-level case plus the runtime descriptor side *)
Record RCase := mkRCase {
  rk_node : NCase; rk_rt_hw : N; rk_node_version : Version; rk_deployments : list Deployment; rk_no_tee : bool }.
Definition run_rcase (k : RCase) : N :=
  let n := rk_node k in
  match verify_enclave_ids (nprims_of (nk_tables n)) (nk_env n) (nk_cfg n) (nk_ts n) (nk_height n) (nk_node_id n) (nk_is261 n)
          (mkNodeRt (rk_node_version k) (if rk_no_tee k then None else Some (nk_cap n)))
          (mkRegRt (rk_rt_hw k) (rk_deployments k)) with
  | NOk _ => 0 | NRej r => nreason_code r | NNotModelled => 999
  end.
