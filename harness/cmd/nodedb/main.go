// Command nodedb drives the REAL badger and pathbadger node databases
// (go/storage/mkvs/db/{badger,pathbadger}) on disk with seeded version
// histories (commit candidates / finalize / prune), reads back every known
// root after every operation, records the observations as Coq correspondence
// cases for Verif.NodeDB.{Spec,Badger}, and evaluates the C06 property
// directly on the implementation (S): every retained finalized root must read
// back exactly its contents, every other root the database reports must read
// back exactly its own contents.
package main

import (
	"reflect"

	"context"
	"encoding/json"
	"errors"
	"flag"
	"fmt"
	"os"
	"sort"
	"strings"

	"github.com/oasisprotocol/oasis-core/go/common"
	"github.com/oasisprotocol/oasis-core/go/common/crypto/hash"
	"github.com/oasisprotocol/oasis-core/go/storage/mkvs"
	"github.com/oasisprotocol/oasis-core/go/storage/mkvs/db/api"
	badgerDb "github.com/oasisprotocol/oasis-core/go/storage/mkvs/db/badger"
	pathDb "github.com/oasisprotocol/oasis-core/go/storage/mkvs/db/pathbadger"
	"github.com/oasisprotocol/oasis-core/go/storage/mkvs/node"

	"verifharness/internal/coqout"
	"verifharness/internal/prng"
)

// ---------- case description ----------

type Write struct {
	Key int `json:"key"` // index into keyAlphabet (1-based)
	Val int `json:"val"` // 0 = remove, otherwise value index
}

type Op struct {
	K      string  `json:"k"` // commit finalize prune
	ID     int     `json:"id,omitempty"`  // commit: name of the produced root
	Ver    uint64  `json:"ver"`
	Typ    int     `json:"typ,omitempty"` // commit: 1 state, 2 io (ignored when old != 0: the tree keeps the old root's type)
	Old    int     `json:"old,omitempty"` // commit: name of the old root (0 = fresh empty tree)
	Writes []Write `json:"writes,omitempty"`
	Roots  []int   `json:"roots,omitempty"` // finalize: names of roots
	// Then: what happens right after the operation, before the read-back: "reopen" (Close + New: the
	// memtable is flushed into an on-disk table) or "compact" (NodeDB.Compact: Badger's physical
	// garbage collection below the discard timestamp). Neither may change any answer.
	Then string `json:"then,omitempty"`
	// Live: commit through the runner's ONE long-lived mkvs tree object (created at the first live
	// commit, then committing version after version) instead of a fresh NewWithRoot(old root): clean
	// in-memory pointers of earlier versions stay in use.
	Live bool `json:"live,omitempty"`
}

type Case struct {
	Profile string `json:"profile"`
	Ops     []Op   `json:"ops"`
}

var keyAlphabet = []string{"", "a", "ab", "abc", "b", "ba", "k", "x", "y"} // byte order == index order
var testNs = common.NewTestNamespaceFromSeed([]byte("verif nodedb"), 0)

const finKey = "C06:badger-prune-deletes-node-shared-with-nonlone-root"

func valBytes(v int) []byte { return []byte(fmt.Sprintf("v%d", v)) }

// ---------- plan: expected contents and root hashes, independent of any database ----------

type rootInfo struct {
	name int
	ver  uint64
	typ  int
	cont map[int]int
	hash hash.Hash
	rid  int // typed-hash id (0 = empty state root, 1 = empty io root, >= 2 others)
	old  int
}

type plan struct {
	roots map[int]*rootInfo // by name
	rids  map[string]int
	valid bool
}

func contHash(typ int, cont map[int]int) hash.Hash {
	ctx := context.Background()
	t := mkvs.New(nil, nil, node.RootType(typ))
	defer t.Close()
	ks := sortedKeys(cont)
	for _, k := range ks {
		_ = t.Insert(ctx, []byte(keyAlphabet[k]), valBytes(cont[k]))
	}
	_, h, err := t.Commit(ctx, testNs, 0, mkvs.NoPersist())
	if err != nil {
		panic(err)
	}
	return h
}

func sortedKeys(m map[int]int) []int {
	ks := make([]int, 0, len(m))
	for k := range m {
		ks = append(ks, k)
	}
	sort.Ints(ks)
	return ks
}

func makePlan(c Case) *plan {
	p := &plan{roots: map[int]*rootInfo{}, rids: map[string]int{}, valid: true}
	next := 2
	for _, op := range c.Ops {
		if op.K != "commit" {
			continue
		}
		if _, dup := p.roots[op.ID]; dup || op.ID <= 0 {
			p.valid = false
			return p
		}
		ri := &rootInfo{name: op.ID, ver: op.Ver, typ: op.Typ, cont: map[int]int{}, old: op.Old}
		if op.Old != 0 {
			o, ok := p.roots[op.Old]
			if !ok {
				p.valid = false
				return p
			}
			ri.typ = o.typ
			for k, v := range o.cont {
				ri.cont[k] = v
			}
		}
		if ri.typ != 1 && ri.typ != 2 {
			p.valid = false
			return p
		}
		for _, w := range op.Writes {
			if w.Key < 1 || w.Key >= len(keyAlphabet) || w.Val < 0 || w.Val > 9 {
				p.valid = false
				return p
			}
			if w.Val == 0 {
				delete(ri.cont, w.Key)
			} else {
				ri.cont[w.Key] = w.Val
			}
		}
		ri.hash = contHash(ri.typ, ri.cont)
		if len(ri.cont) == 0 {
			ri.rid = ri.typ - 1
		} else {
			key := fmt.Sprintf("%d:%s", ri.typ, ri.hash.String())
			id, ok := p.rids[key]
			if !ok {
				id = next
				next++
				p.rids[key] = id
			}
			ri.rid = id
		}
		p.roots[op.ID] = ri
	}
	for _, op := range c.Ops {
		if op.K == "finalize" {
			for _, r := range op.Roots {
				if _, ok := p.roots[r]; !ok {
					p.valid = false
				}
			}
		}
	}
	return p
}

func (ri *rootInfo) root() node.Root {
	return node.Root{Namespace: testNs, Version: ri.ver, Type: node.RootType(ri.typ), Hash: ri.hash}
}

// ---------- recording wrapper (observes PutNode / RemoveNodes of the real tree commit) ----------

type recDB struct {
	api.NodeDB
	puts, removed []hash.Hash
	putPos        [][3]uint64 // pathbadger: (node version, index, put order) of written non-root nodes
	putPosHash    []hash.Hash
	remPos        [][2]uint64 // pathbadger: positions passed to RemoveNodes
}

// ptrKey reads pathbadger's internal (version, index) of a pointer (node.go dbPtr) by reflection.
func ptrKey(p *node.Pointer) (uint64, uint64, bool) {
	if p == nil || p.DBInternal == nil {
		return 0, 0, false
	}
	v := reflect.ValueOf(p.DBInternal)
	if v.Kind() == reflect.Ptr {
		v = v.Elem()
	}
	if v.Kind() != reflect.Struct {
		return 0, 0, false
	}
	fv, fi := v.FieldByName("version"), v.FieldByName("index")
	if !fv.IsValid() || !fi.IsValid() {
		return 0, 0, false
	}
	ver, idx := fv.Uint(), fi.Uint()
	if ver == ^uint64(0) && idx == uint64(^uint32(0)) {
		return 0, 0, false // attached leaf: not stored separately
	}
	return ver, idx, true
}

type recBatch struct {
	api.Batch
	db *recDB
}

func (d *recDB) NewBatch(oldRoot node.Root, version uint64, chunk bool) (api.Batch, error) {
	b, err := d.NodeDB.NewBatch(oldRoot, version, chunk)
	if err != nil {
		return nil, err
	}
	return &recBatch{Batch: b, db: d}, nil
}

func (b *recBatch) PutNode(ptr *node.Pointer) error {
	b.db.puts = append(b.db.puts, ptr.Node.GetHash())
	if ver, idx, ok := ptrKey(ptr); ok && idx != 0 {
		b.db.putPos = append(b.db.putPos, [3]uint64{ver, idx, uint64(len(b.db.putPos))})
		b.db.putPosHash = append(b.db.putPosHash, ptr.Node.GetHash())
	}
	return b.Batch.PutNode(ptr)
}

// VisitCleanNode: pathbadger may renumber and store a CLEAN node here (a former root node that
// became a child, an attached leaf that became stand-alone: node.go:118-167) through its own
// PutNode, which the wrapper does not see: detect it by the pointer's position changing.
func (b *recBatch) VisitCleanNode(ptr *node.Pointer, parent *node.Pointer) error {
	bv, bi, bok := ptrKey(ptr)
	err := b.Batch.VisitCleanNode(ptr, parent)
	if av, ai, aok := ptrKey(ptr); err == nil && aok && ai != 0 && (!bok || av != bv || ai != bi) {
		b.db.putPos = append(b.db.putPos, [3]uint64{av, ai, uint64(len(b.db.putPos))})
		b.db.putPosHash = append(b.db.putPosHash, ptr.Hash)
	}
	return err
}

func (b *recBatch) RemoveNodes(nodes []*node.Pointer) error {
	for _, p := range nodes {
		b.db.removed = append(b.db.removed, p.GetHash())
		if ver, idx, ok := ptrKey(p); ok && idx != 0 {
			b.db.remPos = append(b.db.remPos, [2]uint64{ver, idx})
		}
	}
	return b.Batch.RemoveNodes(nodes)
}

// ---------- error classes ----------

const (
	eOk = iota
	eNotFinalized
	eAlreadyFinalized
	ePrevMismatch
	eRootNotFound
	eMustFollow
	eNotEarliest
	eCannotPruneLatest
	eNodeNotFound
	eOther
)

var eNames = []string{"EOk", "ENotFinalized", "EAlreadyFinalized", "EPrevMismatch", "ERootNotFound", "EMustFollow", "ENotEarliest", "ECannotPruneLatest", "ENodeNotFound", "EOther"}

func classify(err error) int {
	switch {
	case err == nil:
		return eOk
	case errors.Is(err, api.ErrNotFinalized):
		return eNotFinalized
	case errors.Is(err, api.ErrAlreadyFinalized):
		return eAlreadyFinalized
	case errors.Is(err, api.ErrPreviousVersionMismatch):
		return ePrevMismatch
	case errors.Is(err, api.ErrRootNotFound):
		return eRootNotFound
	case errors.Is(err, api.ErrRootMustFollowOld):
		return eMustFollow
	case errors.Is(err, api.ErrNotEarliest):
		return eNotEarliest
	case errors.Is(err, api.ErrCannotPruneLatestVersion):
		return eCannotPruneLatest
	case errors.Is(err, api.ErrNodeNotFound):
		return eNodeNotFound
	}
	return eOther
}

// ---------- running a case on one backend ----------

const (
	stAbsent = iota // HasRoot false (not read)
	stExact
	stNodeMissing
	stRootNotFound
	stWrong
	stOtherErr
	stPanic
)

type rootObs struct {
	ver    uint64
	rid    int
	has    bool
	status int
}

type opObs struct {
	class    int
	errText  string
	cont     [][2]int // commit: contents read back right after a successful commit
	earliest uint64
	hasLast  bool
	last     uint64
	roots    []rootObs
	// node-level record (badger only)
	puts, removed, reach, inl []int
	resolveKnown, resolves bool // pathbadger, tainting commit: node resolution status of the new root
	remPos [][2]int // pathbadger: positions the batch reported removed
	tree [][3]int // pathbadger: (node version, index, node id) of the new root's stored nodes
}

type known struct {
	ver uint64
	rid int
	ri  *rootInfo
}

// reference bookkeeping used by the implementation-side oracle (follows the
// implementation's accept/reject decisions; error classes are compared by K).
type refState struct {
	earliest  uint64
	hasLast   bool
	last      uint64
	present   map[uint64]map[int]bool // version -> rid -> reported (pending or finalized)
	derived   map[string][]int        // "ver/rid" -> derived rids
	finalized map[uint64]bool
}

func vr(ver uint64, rid int) string { return fmt.Sprintf("%d/%d", ver, rid) }

type runner struct {
	kind   string
	dir    string
	ndb    api.NodeDB
	rec    *recDB
	pl     *plan
	known  []known
	seen   map[string]bool
	ref    refState
	nodeID map[hash.Hash]int
	reach  map[int][]int       // rid -> node ids
	inl    map[int][]int       // rid -> node ids stored inline
	putAt  map[int]map[int]bool // ver -> node ids put by accepted commits of that version
	viol   []string
	finds  []string
	stats  map[string]int
	unsupported bool
	lastBad map[string]bool
	panicText string
	putsBy, removedBy map[string]map[int]bool // badger: "ver/rid" -> node ids (accepted fresh commits)
	lastDiscarded, lastFinal []int            // rids discarded / kept by the last successful finalize
	findings []finding
	stopOracle bool
	outOfDomain bool
	// pathbadger: a child of a pending candidate that holds a non-zero pending sequence number was
	// accepted (known finding finKeyPathPipe): every later answer of this backend may depend on
	// misread nodes
	rems     map[string][][2]int
	trees    map[string][][3]int // pathbadger: "ver/rid" -> stored nodes of the root
	lost     map[int]string // badger: node id -> finding key of the Finalize that deleted it while still in use
	tainted  bool
	live     mkvs.Tree // the long-lived tree of the "chain" profile
	liveLast int       // name of the root it committed last
	walkResolves bool // pathbadger: the last walkTree found every stored node resolvable to the expected node
	seqCount map[string]int // "ver/typ" -> batches that reserved a sequence number
	seqOf    map[string]int // "ver/rid" -> sequence number of the batch that created the root
}

func (r *runner) addFinding(key, what string) {
	for _, f := range r.findings {
		if f.key == key {
			return
		}
	}
	r.findings = append(r.findings, finding{key, what})
}

// flag records a failure of the property: a violation, or - for pathbadger after the known
// pipelining shape occurred in this history - a consequence of that finding.
func (r *runner) flag(what string) {
	if r.kind == "pathbadger" && r.tainted {
		r.addFinding(finKeyPathPipe, what+" [after a child of a non-first pending candidate was accepted]")
		return
	}
	r.viol = append(r.viol, what)
}

type finding struct{ key, what string }

const (
	finKeyPathPipe   = "C06:pathbadger-pipelined-child-of-nonzero-seqno-candidate-misread"
	finKeyFinReput   = "C06:badger-finalize-deletes-inherited-node-reput-by-discarded-root"
	finKeyFinRemoved = "C06:badger-finalize-deletes-removed-node-kept-by-another-finalized-root"
	finKeyPruneEmpty = "C06:badger-prune-fails-on-version-with-lone-empty-root"
)

func openDB(kind, dir string) (api.NodeDB, error) {
	cfg := &api.Config{DB: dir, NoFsync: true, Namespace: testNs, MaxCacheSize: 4 * 1024 * 1024, MemoryOnly: memOnly}
	if kind == "badger" {
		return badgerDb.New(cfg)
	}
	return pathDb.New(cfg)
}

func newRunner(kind string, pl *plan) (*runner, error) {
	dir, err := os.MkdirTemp("", "verif-nodedb-"+kind)
	if err != nil {
		return nil, err
	}
	ndb, err := openDB(kind, dir)
	if err != nil {
		os.RemoveAll(dir)
		return nil, err
	}
	r := &runner{kind: kind, dir: dir, pl: pl, seen: map[string]bool{}, nodeID: map[hash.Hash]int{}, reach: map[int][]int{}, inl: map[int][]int{},
		putAt: map[int]map[int]bool{}, stats: map[string]int{}, lastBad: map[string]bool{}, putsBy: map[string]map[int]bool{}, removedBy: map[string]map[int]bool{}, seqCount: map[string]int{}, seqOf: map[string]int{}, lost: map[int]string{}, trees: map[string][][3]int{}, rems: map[string][][2]int{}}
	r.rec = &recDB{NodeDB: ndb}
	r.ndb = r.rec
	r.ref = refState{present: map[uint64]map[int]bool{}, derived: map[string][]int{}, finalized: map[uint64]bool{}}
	return r, nil
}

// after performs the op's Then action.
func (r *runner) after(op Op) {
	defer func() {
		if p := recover(); p != nil {
			r.flag(fmt.Sprintf("%s: %s after %s(%d) panicked: %v", r.kind, op.Then, op.K, op.Ver, p))
		}
	}()
	if op.Then == "reopen" || op.Then == "reopen+compact" {
		r.rec.NodeDB.Close()
		ndb, err := openDB(r.kind, r.dir)
		if err != nil {
			panic(fmt.Sprintf("cannot reopen: %v", err))
		}
		r.rec.NodeDB = ndb
	}
	if op.Then == "compact" || op.Then == "reopen+compact" {
		if err := r.ndb.Compact(); err != nil {
			r.flag(fmt.Sprintf("%s: Compact after %s(%d): %v", r.kind, op.K, op.Ver, err))
		}
	}
}

func (r *runner) close() {
	if r.live != nil {
		r.live.Close()
	}
	r.rec.NodeDB.Close()
	os.RemoveAll(r.dir)
}

func (r *runner) nid(h hash.Hash) int {
	id, ok := r.nodeID[h]
	if !ok {
		id = len(r.nodeID) + 1
		r.nodeID[h] = id
	}
	return id
}

func (r *runner) readRoot(ri *rootInfo, ver uint64) (st int, got map[int]int) {
	defer func() {
		if p := recover(); p != nil {
			st = stPanic
			r.panicText = fmt.Sprint(p)
		}
	}()
	return r.readRoot0(ri, ver)
}

func (r *runner) readRoot0(ri *rootInfo, ver uint64) (int, map[int]int) {
	ctx := context.Background()
	root := ri.root()
	root.Version = ver
	t := mkvs.NewWithRoot(nil, r.rec.NodeDB, root)
	defer t.Close()
	it := t.NewIterator(ctx)
	defer it.Close()
	got := map[int]int{}
	wrong := false
	for it.Rewind(); it.Valid(); it.Next() {
		k, v := string(it.Key()), string(it.Value())
		ki, vi := -1, -1
		for i := 1; i < len(keyAlphabet); i++ {
			if keyAlphabet[i] == k {
				ki = i
			}
		}
		if strings.HasPrefix(v, "v") {
			fmt.Sscanf(v[1:], "%d", &vi)
		}
		if ki < 0 || vi < 0 {
			wrong = true
			continue
		}
		got[ki] = vi
	}
	if err := it.Err(); err != nil {
		switch classify(err) {
		case eNodeNotFound:
			return stNodeMissing, got
		case eRootNotFound:
			return stRootNotFound, got
		}
		return stOtherErr, got
	}
	if wrong || len(got) != len(ri.cont) {
		return stWrong, got
	}
	for k, v := range ri.cont {
		if got[k] != v {
			return stWrong, got
		}
	}
	// the contents served must hash to the root the database claims to have
	if h := contHash(ri.typ, got); !h.Equal(&ri.hash) {
		return stWrong, got
	}
	return stExact, got
}

func (r *runner) observe(o *opObs) {
	o.earliest = r.ndb.GetEarliestVersion()
	o.last, o.hasLast = r.ndb.GetLatestVersion()
	for _, k := range r.known {
		root := k.ri.root()
		root.Version = k.ver
		ro := rootObs{ver: k.ver, rid: k.rid}
		ro.has = r.ndb.HasRoot(root)
		if ro.has {
			if k.rid < 2 {
				ro.status = stExact
			} else {
				ro.status, _ = r.readRoot(k.ri, k.ver)
			}
		}
		o.roots = append(o.roots, ro)
	}
}

// walkTree lists the stored (non-root, non-attached) nodes of a pathbadger root with their positions.
// Positions come from the pointers serialized in the parent node; a node inherited from the old
// root (node version below the root's version) is fetched through the OLD root, so that the walk
// also works for a pipelined child that pathbadger itself misreads (known finding).
func (r *runner) walkTree(ri, oi *rootInfo) (out [][3]int) {
	if ri.rid < 2 {
		return
	}
	root := ri.root()
	var walk func(ptr *node.Pointer, via node.Root)
	walk = func(ptr *node.Pointer, via node.Root) {
		nd, err := r.rec.NodeDB.GetNode(via, ptr)
		if err != nil {
			return
		}
		if n, ok := nd.(*node.InternalNode); ok {
			for _, ch := range []*node.Pointer{n.Left, n.Right} {
				if ch == nil {
					continue
				}
				next := root
				if ver, idx, ok := ptrKey(ch); ok {
					// does pathbadger itself resolve this pointer, under the root being read, to the node
					// the parent refers to?  (GetNode does not verify hashes.)
					cp := *ch
					if got, gerr := r.rec.NodeDB.GetNode(root, &cp); gerr != nil {
						r.walkResolves = false
					} else if gh := got.GetHash(); !gh.Equal(&ch.Hash) {
						r.walkResolves = false
					}
					out = append(out, [3]int{int(ver), int(idx), r.nid(ch.Hash)})
					if oi != nil && oi.rid >= 2 && ver < ri.ver {
						next = oi.root()
					}
				}
				walk(ch, next)
			}
		}
	}
	r.walkResolves = true
	walk(&node.Pointer{Clean: true, Hash: root.Hash}, root)
	return
}

// derivedTree: the new root's stored nodes from the batch itself (old tree minus the positions
// passed to RemoveNodes plus the written positions) - used when the root cannot be read back.
func (r *runner) derivedTree(oi, ri *rootInfo) (out [][3]int) {
	rootID := r.nid(ri.hash) // a clean node promoted to root node is stored under the root key only
	defer func() {
		kept := out[:0]
		for _, e := range out {
			if e[2] != rootID {
				kept = append(kept, e)
			}
		}
		out = kept
	}()
	rem := map[[2]uint64]bool{}
	for _, p := range r.rec.remPos {
		rem[p] = true
	}
	if oi != nil {
		for _, e := range r.trees[vr(oi.ver, oi.rid)] {
			if !rem[[2]uint64{uint64(e[0]), uint64(e[1])}] {
				out = append(out, e)
			}
		}
	}
	for i, p := range r.rec.putPos {
		out = append(out, [3]int{int(p[0]), int(p[1]), r.nid(r.rec.putPosHash[i])})
	}
	return
}

// collectReach lists the nodes of a root in the order of api.Visit (node, attached leaf, left,
// right) and those among them that are serialized inside their parent (attached leaves).
func (r *runner) collectReach(ri *rootInfo) (out, inl []int) {
	if ri.rid < 2 {
		return
	}
	root := ri.root()
	var walk func(ptr *node.Pointer, inline bool)
	walk = func(ptr *node.Pointer, inline bool) {
		if ptr == nil {
			return
		}
		nd := ptr.Node
		if nd == nil {
			var err error
			if nd, err = r.rec.NodeDB.GetNode(root, ptr); err != nil {
				// the database already lost this node (known badger findings): it still belongs
				// to the root; its subtree cannot be enumerated
				out = append(out, r.nid(ptr.Hash))
				return
			}
		}
		id := r.nid(nd.GetHash())
		out = append(out, id)
		if inline {
			inl = append(inl, id)
		}
		if n, ok := nd.(*node.InternalNode); ok {
			walk(n.LeafNode, n.LeafNode != nil && n.LeafNode.Node != nil)
			walk(n.Left, false)
			walk(n.Right, false)
		}
	}
	walk(&node.Pointer{Clean: true, Hash: root.Hash}, false)
	return
}

func (r *runner) step(op Op) (o opObs) {
	ctx := context.Background()
	defer func() {
		if p := recover(); p != nil {
			o.class = eOther
			o.errText = fmt.Sprintf("PANIC: %v", p)
			r.flag(fmt.Sprintf("%s: %s panicked: %v", r.kind, op.K, p))
		}
	}()
	switch op.K {
	case "commit":
		ri := r.pl.roots[op.ID]
		kk := vr(ri.ver, ri.rid)
		if !r.seen[kk] {
			r.seen[kk] = true
			r.known = append(r.known, known{ver: ri.ver, rid: ri.rid, ri: ri})
		}
		r.rec.puts, r.rec.removed, r.rec.putPos, r.rec.putPosHash, r.rec.remPos = nil, nil, nil, nil, nil
		var t mkvs.Tree
		var oi *rootInfo
		if op.Old != 0 {
			oi = r.pl.roots[op.Old]
		}
		switch {
		case op.Live && r.live != nil && r.liveLast == op.Old && op.Old != 0:
			t = r.live // the tree that committed the old root keeps going
		default:
			if r.live != nil && op.Live {
				r.live.Close()
				r.live = nil
			}
			if op.Old == 0 {
				t = mkvs.New(nil, r.ndb, node.RootType(ri.typ))
			} else {
				t = mkvs.NewWithRoot(nil, r.ndb, oi.root())
			}
		}
		var err error
		for _, w := range op.Writes {
			if w.Val == 0 {
				err = t.Remove(ctx, []byte(keyAlphabet[w.Key]))
			} else {
				err = t.Insert(ctx, []byte(keyAlphabet[w.Key]), valBytes(w.Val))
			}
			if err != nil {
				break
			}
		}
		var h hash.Hash
		if err == nil {
			_, h, err = t.Commit(ctx, testNs, op.Ver)
		}
		if op.Live && err == nil {
			r.live, r.liveLast = t, op.ID
		} else {
			t.Close()
			if op.Live {
				r.live = nil
			}
		}
		o.class = classify(err)
		if err != nil {
			o.errText = err.Error()
			if o.class == eOther && r.kind == "pathbadger" && (strings.Contains(o.errText, "cannot have child roots") || strings.Contains(o.errText, "same version not supported")) {
				r.unsupported = true
			}
			break
		}
		if !h.Equal(&ri.hash) && !r.unsupported && !r.outOfDomain {
			r.flag(fmt.Sprintf("%s: commit of root %d returned hash %s, contents hash to %s", r.kind, op.ID, h, ri.hash))
		}
		// reference bookkeeping
		if r.ref.present[ri.ver] == nil {
			r.ref.present[ri.ver] = map[int]bool{}
		}
		// domain of the property: candidates derive from a finalized root of the previous version
		// or from a candidate of the same version
		// (pipelining: the old root may also be a still pending candidate of the previous version,
		// provided it is among the roots finalized later - checked at Finalize)
		if oi != nil && oi.rid >= 2 && !(r.ref.present[oi.ver][oi.rid] && (oi.ver == ri.ver || oi.ver+1 == ri.ver)) {
			r.outOfDomain = true
		}
		if r.ref.hasLast && ri.ver != r.ref.last+1 && ri.ver != r.ref.last+2 {
			r.outOfDomain = true
		}
		fresh := !r.ref.present[ri.ver][ri.rid]
		r.ref.present[ri.ver][ri.rid] = true
		sk := fmt.Sprintf("%d/%d", ri.ver, ri.typ)
		if fresh {
			r.seqOf[kk] = r.seqCount[sk]
		}
		r.seqCount[sk]++
		if r.kind == "pathbadger" && fresh && oi != nil && oi.rid >= 2 && oi.ver+1 == ri.ver && !r.ref.finalized[oi.ver] && r.seqOf[vr(oi.ver, oi.rid)] != 0 {
			r.tainted = true
		}
		if fresh && oi != nil && oi.rid >= 2 {
			r.ref.derived[vr(oi.ver, oi.rid)] = append(r.ref.derived[vr(oi.ver, oi.rid)], ri.rid)
		}
		for _, hh := range r.rec.puts {
			o.puts = append(o.puts, r.nid(hh))
		}
		for _, hh := range r.rec.removed {
			o.removed = append(o.removed, r.nid(hh))
		}
		if r.kind == "badger" {
			if _, ok := r.reach[ri.rid]; !ok {
				r.reach[ri.rid], r.inl[ri.rid] = r.collectReach(ri)
			}
			o.reach, o.inl = r.reach[ri.rid], r.inl[ri.rid]
			if fresh {
				if r.putAt[int(ri.ver)] == nil {
					r.putAt[int(ri.ver)] = map[int]bool{}
				}
				pb, rb := map[int]bool{}, map[int]bool{}
				for _, n := range o.puts {
					r.putAt[int(ri.ver)][n] = true
					pb[n] = true
				}
				for _, n := range o.removed {
					rb[n] = true
				}
				r.putsBy[kk], r.removedBy[kk] = pb, rb
			}
		}
		if r.kind == "pathbadger" {
			if t, ok := r.trees[kk]; ok && !fresh {
				o.tree, o.remPos = t, r.rems[kk]
			} else {
				o.tree = r.walkTree(ri, oi)
				// stand-alone copies of attached leaves written by this batch (not reachable through
				// the serialized pointers, but stored, and referenced again by a long-lived tree when
				// the leaf becomes stand-alone later)
				have := map[[2]int]bool{}
				for _, e := range o.tree {
					have[[2]int{e[0], e[1]}] = true
				}
				for i, pp := range r.rec.putPos {
					if k := [2]int{int(pp[0]), int(pp[1])}; !have[k] {
						have[k] = true
						o.tree = append(o.tree, [3]int{k[0], k[1], r.nid(r.rec.putPosHash[i])})
					}
				}
				r.trees[kk] = o.tree
				// removed positions: RemoveNodes, plus a clean node promoted to root node (its old
				// location is marked removed inside VisitCleanNode, invisible to the wrapper)
				for _, pp := range r.rec.remPos {
					o.remPos = append(o.remPos, [2]int{int(pp[0]), int(pp[1])})
				}
				if oi != nil {
					rootID := r.nid(ri.hash)
					for _, e := range r.trees[vr(oi.ver, oi.rid)] {
						if e[2] == rootID {
							o.remPos = append(o.remPos, [2]int{e[0], e[1]})
						}
					}
				}
				r.rems[kk] = o.remPos
				if r.tainted {
					// the model predicts whether every node of the child RESOLVES; a complete iteration
					// may by accident still return the right contents from misresolved nodes
					o.resolveKnown, o.resolves = true, r.walkResolves
				}
			}
		}
		st, got := r.readRoot(ri, ri.ver)
		if st == stExact || ri.rid < 2 {
			for _, k := range sortedKeys(got) {
				o.cont = append(o.cont, [2]int{k, got[k]})
			}
		}
	case "finalize":
		var roots []node.Root
		for _, n := range op.Roots {
			ri := r.pl.roots[n]
			root := ri.root()
			root.Version = op.Ver
			roots = append(roots, root)
		}
		err := r.ndb.Finalize(roots)
		o.class = classify(err)
		if err != nil {
			o.errText = err.Error()
			if o.class == eOther && r.kind == "pathbadger" && strings.Contains(o.errText, "only one root of type") {
				r.unsupported = true
			}
			break
		}
		// reference: transitive closure over same-version derivation links
		fin := map[int]bool{}
		for _, n := range op.Roots {
			fin[r.pl.roots[n].rid] = true
		}
		for changed := true; changed; {
			changed = false
			for rid := range r.ref.present[op.Ver] {
				if fin[rid] {
					continue
				}
				for _, d := range r.ref.derived[vr(op.Ver, rid)] {
					if fin[d] {
						fin[rid] = true
						changed = true
					}
				}
			}
		}
		r.lastDiscarded, r.lastFinal = nil, nil
		for rid := range r.ref.present[op.Ver] {
			if !fin[rid] {
				for _, d := range r.ref.derived[vr(op.Ver, rid)] {
					if r.ref.present[op.Ver+1][d] {
						r.outOfDomain = true // a pipelined candidate of the next version loses its parent
					}
				}
				delete(r.ref.present[op.Ver], rid)
				r.lastDiscarded = append(r.lastDiscarded, rid)
			} else {
				r.lastFinal = append(r.lastFinal, rid)
			}
		}
		if r.kind == "badger" {
			// nodes this Finalize deleted although a kept root still contains them (possibly only as an
			// attached leaf, so the loss shows up later when the node is needed stand-alone)
			finalPuts := map[int]bool{}
			for _, f := range r.lastFinal {
				for n := range r.putsBy[vr(op.Ver, f)] {
					finalPuts[n] = true
				}
			}
			mark := func(n int, key string) {
				if finalPuts[n] {
					return
				}
				for _, f := range r.lastFinal {
					for _, m := range r.reach[f] {
						if m == n {
							if _, ok := r.lost[n]; !ok {
								r.lost[n] = key
							}
							return
						}
					}
				}
			}
			for _, d := range r.lastDiscarded {
				for n := range r.putsBy[vr(op.Ver, d)] {
					mark(n, finKeyFinReput)
				}
			}
			for _, f := range r.lastFinal {
				for n := range r.removedBy[vr(op.Ver, f)] {
					mark(n, finKeyFinRemoved)
				}
			}
		}
		r.ref.finalized[op.Ver] = true
		if !r.ref.hasLast {
			r.ref.earliest = op.Ver
		}
		r.ref.hasLast, r.ref.last = true, op.Ver
	case "prune":
		if os.Getenv("VERIF_DEBUG") != "" && r.kind == "badger" {
			inv := map[int]hash.Hash{}
			for h, id := range r.nodeID {
				inv[id] = h
			}
			for _, k := range r.known {
				if k.ver != op.Ver || k.rid < 2 {
					continue
				}
				root := k.ri.root()
				root.Version = k.ver
				var miss []int
				for _, n := range r.reach[k.rid] {
					if _, err := r.rec.NodeDB.GetNode(root, &node.Pointer{Clean: true, Hash: inv[n]}); err != nil {
						miss = append(miss, n)
					}
				}
				fmt.Printf("   dbg before prune(%d): root rid %d has=%v reach=%v invisible=%v\n", op.Ver, k.rid, r.ndb.HasRoot(root), r.reach[k.rid], miss)
			}
		}
		err := r.ndb.Prune(op.Ver)
		o.class = classify(err)
		if err != nil {
			o.errText = err.Error()
			break
		}
		if r.kind == "badger" {
			// nodes this Prune deleted (written in the pruned version, member of a root without
			// derived roots) that a root of a later version still contains, possibly as an attached leaf
			for rid := range r.ref.present[op.Ver] {
				if len(r.ref.derived[vr(op.Ver, rid)]) != 0 {
					continue
				}
				for _, n := range r.reach[rid] {
					if !r.putAt[int(op.Ver)][n] {
						continue
					}
					for v2, rs := range r.ref.present {
						if v2 <= op.Ver {
							continue
						}
						for rid2 := range rs {
							for _, m := range r.reach[rid2] {
								if m == n {
									if _, ok := r.lost[n]; !ok {
										r.lost[n] = finKey
									}
								}
							}
						}
					}
				}
			}
		}
		r.ref.earliest = op.Ver + 1
	}
	return
}

// oracle evaluates the property on the implementation after an operation.
func (r *runner) oracle(op Op, o *opObs) {
	if r.stopOracle || r.unsupported || r.outOfDomain {
		return
	}
	report := func(key, what string) {
		if key == "" {
			r.flag(what)
			return
		}
		r.addFinding(key, what)
	}
	for _, ro := range o.roots {
		if ro.rid < 2 {
			continue
		}
		key := vr(ro.ver, ro.rid)
		retained := !r.ref.hasLast || ro.ver >= r.ref.earliest
		finalized := r.ref.finalized[ro.ver] && r.ref.present[ro.ver][ro.rid] && retained
		pending := !r.ref.finalized[ro.ver] && r.ref.present[ro.ver][ro.rid] && retained
		switch {
		case finalized && (!ro.has || ro.status != stExact):
			if r.lastBad[key] {
				continue // already reported when it first became unreadable
			}
			r.lastBad[key] = true
			what := fmt.Sprintf("%s: retained finalized root (version %d, root #%d) is not fully readable after %s(%d): has=%v status=%s",
				r.kind, ro.ver, ro.rid, op.K, op.Ver, ro.has, stName(ro.status))
			k := ""
			if r.kind == "badger" && o.class == eOk && ro.status == stNodeMissing {
				switch op.K {
				case "prune":
					if r.matchesKnownPruneShape(op.Ver, ro) {
						k = finKey
					}
				case "finalize":
					k = r.finalizeShape(op.Ver, ro)
				}
			}
			if k == "" {
				k = r.lostKey(ro)
			}
			report(k, what)
			if r.kind == "badger" {
				r.stopOracle = true // the store lost a node: everything later is a consequence
				return
			}
		case pending && (!ro.has || ro.status != stExact):
			if r.lastBad[key] {
				continue
			}
			r.lastBad[key] = true
			k := r.lostKey(ro)
			report(k, fmt.Sprintf("%s: pending candidate root (version %d, root #%d) is not readable after %s(%d): has=%v status=%s",
				r.kind, ro.ver, ro.rid, op.K, op.Ver, ro.has, stName(ro.status)))
			if k != "" {
				r.stopOracle = true
				return
			}
		case !finalized && !pending && ro.has && ro.status != stExact:
			if r.lastBad[key] {
				continue
			}
			r.lastBad[key] = true
			what := fmt.Sprintf("%s: root that was not finalized (version %d, root #%d) is reported present (HasRoot) but reads back %s after %s(%d) %s",
				r.kind, ro.ver, ro.rid, stName(ro.status), op.K, op.Ver, r.panicText)
			report("", what)
		}
	}
	// GetRootsForVersion must list exactly the finalized roots of retained finalized versions
	if r.ref.hasLast {
		for v := r.ref.earliest; v <= r.ref.last; v++ {
			if !r.ref.finalized[v] {
				continue
			}
			roots, err := r.ndb.GetRootsForVersion(v)
			if err != nil {
				report("", fmt.Sprintf("%s: GetRootsForVersion(%d): %v", r.kind, v, err))
				continue
			}
			got := map[string]bool{}
			for _, x := range roots {
				if !x.Hash.IsEmpty() {
					got[fmt.Sprintf("%d:%s", x.Type, x.Hash)] = true
				}
			}
			want := map[string]bool{}
			for _, k := range r.known {
				if k.ver == v && k.rid >= 2 && r.ref.present[v][k.rid] {
					want[fmt.Sprintf("%d:%s", k.ri.typ, k.ri.hash)] = true
				}
			}
			same := len(got) == len(want)
			for k := range want {
				same = same && got[k]
			}
			if !same {
				key := fmt.Sprintf("roots/%d", v)
				if !r.lastBad[key] {
					r.lastBad[key] = true
					report("", fmt.Sprintf("%s: GetRootsForVersion(%d) lists %d non-empty roots, %d are finalized", r.kind, v, len(got), len(want)))
				}
			}
		}
	}
}

func stName(s int) string {
	return []string{"absent", "exact", "node-missing", "root-not-found", "wrong-contents", "other-error", "panic"}[s]
}

// lostKey: badger only; every node the root misses was deleted by an earlier Finalize in one of
// the known shapes (recorded in r.lost when it happened).
func (r *runner) lostKey(ro rootObs) string {
	if r.kind != "badger" || ro.status != stNodeMissing {
		return ""
	}
	missing := r.missingNodes(ro)
	key := ""
	for n := range missing {
		k, ok := r.lost[n]
		if !ok {
			return ""
		}
		if key == "" || k == finKeyFinReput {
			key = k
		}
	}
	return key
}

func (r *runner) missingNodes(ro rootObs) map[int]bool {
	missing := map[int]bool{}
	var ri *rootInfo
	for _, k := range r.known {
		if k.ver == ro.ver && k.rid == ro.rid {
			ri = k.ri
		}
	}
	if ri == nil {
		return missing
	}
	root := ri.root()
	root.Version = ro.ver
	inv := map[int]hash.Hash{}
	for h, id := range r.nodeID {
		inv[id] = h
	}
	inline := map[int]bool{}
	for _, n := range r.inl[ro.rid] {
		inline[n] = true
	}
	for _, n := range r.reach[ro.rid] {
		if inline[n] {
			continue
		}
		if _, err := r.rec.NodeDB.GetNode(root, &node.Pointer{Clean: true, Hash: inv[n]}); err != nil {
			missing[n] = true
		}
	}
	return missing
}

// matchesKnownPruneShape: badger only. After Prune(v) a retained root of a later version
// misses a node n such that n was written in version v, n belongs to a lone (no derived
// roots) finalized root of v and to a finalized root of v that has derived roots.
func (r *runner) matchesKnownPruneShape(v uint64, ro rootObs) bool {
	missing := r.missingNodes(ro)
	if len(missing) == 0 {
		return false
	}
	// roots of version v as they were before the prune: the reference still has them
	for n := range missing {
		if !r.putAt[int(v)][n] {
			return false
		}
		inLone, inNonLone := false, false
		for rid := range r.ref.present[v] {
			has := false
			for _, m := range r.reach[rid] {
				if m == n {
					has = true
				}
			}
			if !has {
				continue
			}
			if len(r.ref.derived[vr(v, rid)]) == 0 {
				inLone = true
			} else {
				inNonLone = true
			}
		}
		if !(inLone && inNonLone) {
			return false
		}
	}
	return true
}

// finalizeShape classifies a finalized root of version v that lost nodes at Finalize(v) (badger).
func (r *runner) finalizeShape(v uint64, ro rootObs) string {
	if ro.ver != v {
		return ""
	}
	missing := r.missingNodes(ro)
	if len(missing) == 0 {
		return ""
	}
	inAny := func(by map[string]map[int]bool, rids []int, n int) bool {
		for _, rid := range rids {
			if by[vr(v, rid)][n] {
				return true
			}
		}
		return false
	}
	reput, removed := false, false
	for n := range missing {
		if inAny(r.putsBy, r.lastFinal, n) {
			return ""
		}
		switch {
		case inAny(r.putsBy, r.lastDiscarded, n):
			reput = true
		case inAny(r.removedBy, r.lastFinal, n):
			removed = true
		default:
			return ""
		}
	}
	switch {
	case reput:
		return finKeyFinReput
	case removed:
		return finKeyFinRemoved
	}
	return ""
}

type caseResult struct {
	obsB, obsP  []opObs
	viol        []string
	finds       []finding
	unsupported bool
	outOfDomain bool
	cutP        int // >= 0: K compares pathbadger on ops[0..cutP-1] only (known pipelining shape accepted at cutP)
	cutAt       int // K compares ops[0..cutAt] only: after badger lost a node, reads depend on tree paths
	stats       map[string]int
	crashed     string
}

func (r *runner) loneEmptyRootAt(v uint64) bool {
	for rid := range r.ref.present[v] {
		if rid < 2 && len(r.ref.derived[vr(v, rid)]) == 0 {
			return true
		}
	}
	return false
}

func runCase(c Case, pl *plan) caseResult {
	var res caseResult
	res.stats = map[string]int{}
	rb, err := newRunner("badger", pl)
	if err != nil {
		res.crashed = err.Error()
		return res
	}
	defer rb.close()
	rp, err := newRunner("pathbadger", pl)
	if err != nil {
		res.crashed = err.Error()
		return res
	}
	defer rp.close()
	diverged := false
	res.cutAt = len(c.Ops) - 1
	res.cutP = -1
	for i, op := range c.Ops {
		// a commit that writes on top of a DISCARDED candidate (only reachable when an invalid call of
		// the errors profile happened to be valid): badger's answer depends on which nodes of the
		// discarded root survived and on its unversioned root-node key - not modelled; K stops before it
		if op.K == "commit" && op.Old != 0 && len(op.Writes) > 0 && res.cutAt == len(c.Ops)-1 {
			if oi := pl.roots[op.Old]; oi.rid >= 2 && rb.ref.finalized[oi.ver] && !rb.ref.present[oi.ver][oi.rid] && oi.ver >= rb.ref.earliest {
				res.cutAt = i - 1
				res.stats["case-truncated-for-K-before-commit-on-discarded-root"]++
			}
		}
		ob := rb.step(op)
		rb.after(op)
		rb.observe(&ob)
		rb.oracle(op, &ob)
		opp := rp.step(op)
		rp.after(op)
		rp.observe(&opp)
		rp.oracle(op, &opp)
		res.obsB = append(res.obsB, ob)
		res.obsP = append(res.obsP, opp)
		if res.cutAt == len(c.Ops)-1 {
			lost := rb.stopOracle
			for _, ro := range ob.roots {
				// independent of the oracle's domain gating: once badger serves a listed root
				// incompletely, later answers depend on which tree paths are touched
				if ro.rid >= 2 && ro.has && ro.status != stExact {
					lost = true
				}
			}
			if lost {
				res.cutAt = i
			}
		}
		if rp.tainted && res.cutP < 0 {
			res.cutP = i + 1 // pathbadger's part of the case ends with the tainting commit (PathBadger.v predicts the misread)
		}
		// backend equivalence on histories both accept, up to the first divergence caused by a reported defect
		if rp.unsupported || diverged || rb.stopOracle {
			continue
		}
		a, b := ob, opp
		if (a.class == eOk) != (b.class == eOk) || (op.K != "commit" && a.class != b.class) {
			what := fmt.Sprintf("backends disagree on op %d (%s %d): badger %s, pathbadger %s %s", i, op.K, op.Ver, eNames[a.class], eNames[b.class], b.errText)
			if op.K == "prune" && a.class == eNodeNotFound && b.class == eOk && rb.loneEmptyRootAt(op.Ver) {
				rb.findings = append(rb.findings, finding{finKeyPruneEmpty, what})
			} else {
				rp.flag(what)
			}
			diverged = true
			continue
		}
		if a.earliest != b.earliest || a.hasLast != b.hasLast || a.last != b.last {
			rp.flag(fmt.Sprintf("backends disagree on earliest/latest after op %d (%s %d)", i, op.K, op.Ver))
			diverged = true
			continue
		}
		for j := range a.roots {
			x, y := a.roots[j], b.roots[j]
			if x.has != y.has || x.status != y.status {
				rp.flag(fmt.Sprintf("backends disagree on root (version %d, #%d) after op %d (%s %d): badger has=%v %s, pathbadger has=%v %s",
					x.ver, x.rid, i, op.K, op.Ver, x.has, stName(x.status), y.has, stName(y.status)))
				diverged = true
				break
			}
		}
	}
	res.unsupported = rp.unsupported
	res.outOfDomain = rb.outOfDomain || rp.outOfDomain
	res.viol = append(rb.viol, rp.viol...)
	res.finds = append(rb.findings, rp.findings...)
	return res
}


func nlist(xs []int) string {
	s := make([]string, len(xs))
	for i, x := range xs {
		s[i] = fmt.Sprint(x)
	}
	return coqout.List(s)
}

func coqOp(op Op, pl *plan, o opObs) string {
	switch op.K {
	case "commit":
		ri := pl.roots[op.ID]
		old := "None"
		if op.Old != 0 {
			oi := pl.roots[op.Old]
			old = fmt.Sprintf("(Some (%d, %d))", oi.ver, oi.rid)
		}
		ws := make([]string, len(op.Writes))
		for i, w := range op.Writes {
			ws[i] = fmt.Sprintf("(%d, %d)", w.Key, w.Val)
		}
		return fmt.Sprintf("OCommit %d %d %d %s %s %s %s %s %s", op.Ver, ri.typ, ri.rid, old, coqout.List(ws), nlist(o.puts), nlist(o.removed), nlist(o.reach), nlist(o.inl))
	case "finalize":
		var rs []int
		for _, n := range op.Roots {
			rs = append(rs, pl.roots[n].rid)
		}
		return fmt.Sprintf("OFinalize %d %s", op.Ver, nlist(rs))
	}
	return fmt.Sprintf("OPrune %d", op.Ver)
}

func coqPOp(op Op, pl *plan, o opObs) string {
	switch op.K {
	case "commit":
		ri := pl.roots[op.ID]
		old := "None"
		if op.Old != 0 {
			oi := pl.roots[op.Old]
			old = fmt.Sprintf("(Some (%d, %d))", oi.ver, oi.rid)
		}
		ws := make([]string, len(op.Writes))
		for i, w := range op.Writes {
			ws[i] = fmt.Sprintf("(%d, %d)", w.Key, w.Val)
		}
		ts := make([]string, len(o.tree))
		for i, e := range o.tree {
			ts[i] = fmt.Sprintf("((%d, %d), %d)", e[0], e[1], e[2])
		}
		rs := make([]string, len(o.remPos))
		for i, e := range o.remPos {
			rs[i] = fmt.Sprintf("(%d, %d)", e[0], e[1])
		}
		return fmt.Sprintf("PCommit %d %d %d %s %s %s %s", op.Ver, ri.typ, ri.rid, old, coqout.List(ws), coqout.List(ts), coqout.List(rs))
	case "finalize":
		var rs []int
		for _, n := range op.Roots {
			rs = append(rs, pl.roots[n].rid)
		}
		return fmt.Sprintf("PFinalize %d %s", op.Ver, nlist(rs))
	}
	return fmt.Sprintf("PPrune %d", op.Ver)
}

func coqObs(o opObs, classOnlyOk, path bool) string {
	cl := eNames[o.class]
	if classOnlyOk && o.class != eOk {
		cl = "EOther"
	}
	cs := make([]string, len(o.cont))
	for i, kv := range o.cont {
		cs[i] = fmt.Sprintf("(%d, %d)", kv[0], kv[1])
	}
	last := "None"
	if o.hasLast {
		last = fmt.Sprintf("(Some %d)", o.last)
	}
	rs := make([]string, len(o.roots))
	for i, ro := range o.roots {
		st := ro.status
		if path && st > 1 {
			st = 2 // pathbadger does not verify what it serves: any misread is "not the root's nodes"
		}
		rs[i] = fmt.Sprintf("((%d, %d), (%s, %d))", ro.ver, ro.rid, coqout.Bool(ro.has), st)
	}
	return fmt.Sprintf("((%s, %s), (%d, %s), %s)", cl, coqout.List(cs), o.earliest, last, coqout.List(rs))
}

// ---------- generator ----------

type genState struct {
	r       *prng.R
	ops     []Op
	nextID  int
	conts   map[int]map[int]int // name -> contents (mirror of the plan, for choosing writes)
	typOf   map[int]int
	verOf   map[int]uint64
}

func (g *genState) commit(ver uint64, typ, old int, ws []Write) int {
	g.nextID++
	id := g.nextID
	g.ops = append(g.ops, Op{K: "commit", ID: id, Ver: ver, Typ: typ, Old: old, Writes: ws})
	c := map[int]int{}
	if old != 0 {
		for k, v := range g.conts[old] {
			c[k] = v
		}
		typ = g.typOf[old]
	}
	for _, w := range ws {
		if w.Val == 0 {
			delete(c, w.Key)
		} else {
			c[w.Key] = w.Val
		}
	}
	g.conts[id], g.typOf[id], g.verOf[id] = c, typ, ver
	return id
}

func (g *genState) writes(base map[int]int, removedBefore map[int]int) []Write {
	r := g.r
	n := r.Range(0, 3)
	if r.Chance(10) {
		n = 0 // unchanged root
	}
	var ws []Write
	for i := 0; i < n; i++ {
		k := r.Range(1, len(keyAlphabet)-1)
		switch {
		case r.Chance(30) && len(base) > 0:
			// remove an existing key
			ks := sortedKeys(base)
			k = ks[r.Intn(len(ks))]
			ws = append(ws, Write{Key: k, Val: 0})
		case r.Chance(30) && len(removedBefore) > 0:
			// re-create a previously removed key with the same value (node resurrection)
			ks := sortedKeys(removedBefore)
			k = ks[r.Intn(len(ks))]
			ws = append(ws, Write{Key: k, Val: removedBefore[k]})
		default:
			ws = append(ws, Write{Key: k, Val: r.Range(1, 2)})
		}
	}
	if r.Chance(6) && len(base) > 0 {
		// empty the tree
		ws = nil
		for _, k := range sortedKeys(base) {
			ws = append(ws, Write{Key: k, Val: 0})
		}
	}
	return ws
}

// genCase builds one version history. profile "common": shapes both backends accept (one
// finalized root per type, IO roots built from scratch, no same-version children);
// "badger": additionally same-version child roots, IO roots derived from the previous IO root,
// several finalized roots per type; "errors": invalid calls interleaved.
func genCase(r *prng.R, profile string) Case {
	g := &genState{r: r, conts: map[int]map[int]int{}, typOf: map[int]int{}, verOf: map[int]uint64{}}
	start := uint64(r.Range(0, 2))
	nver := r.Range(2, 10)
	lag := r.Range(1, 3)
	compaction := profile == "compaction"
	if compaction {
		// same shapes; every commit and every finalize is followed by a reopen (one on-disk table each,
		// so that level 0 overflows and Badger really has levels to compact), every prune by a compaction
		profile = "common"
		lag = r.Range(2, 3)
		nver = r.Range(6, 9)
	}
	then := func(kind string, pct int) string {
		if compaction || r.Chance(pct) {
			return kind
		}
		return ""
	}
	finState, finIO := 0, 0 // names of the last finalized roots
	var finStates []int      // all finalized state roots of the previous version (badger profile)
	removed := map[int]int{}
	earliest := start
	var pruned, keptIDs, preS, preI []int
	shareLeaf := r.Chance(60)
	for vi := 0; vi < nver; vi++ {
		ver := start + uint64(vi)
		candS, candI := preS, preI
		preS, preI = nil, nil
		ns := r.Range(1, 3)
		for j := 0; j < ns; j++ {
			old := finState
			if profile == "badger" && len(finStates) > 1 && r.Chance(40) {
				old = finStates[r.Intn(len(finStates))]
			}
			if r.Chance(8) {
				old = 0 // candidate rebuilt from scratch
			}
			base := g.conts[old]
			ws := g.writes(base, removed)
			if old == 0 && len(ws) == 0 {
				ws = []Write{{Key: r.Range(1, 8), Val: 1}}
			}
			if shareLeaf && r.Chance(50) {
				ws = append(ws, Write{Key: 6, Val: 1}) // the leaf k=v1 shared with the IO tree
			}
			id := g.commit(ver, 1, old, ws)
			if compaction {
				g.ops[len(g.ops)-1].Then = "reopen"
			}
			candS = append(candS, id)
			if profile == "badger" && r.Chance(25) {
				// same-version child root
				id2 := g.commit(ver, 1, id, g.writes(g.conts[id], removed))
				candS = append(candS, id2)
			}
		}
		ni := r.Range(0, 2)
		ioChild := 0
		// common profile, now and then: an IO root derived from the PREVIOUS version's finalized IO root
		// (sharing its nodes) that is then finalized: badger accepts it and must keep it readable when
		// the previous version is pruned; pathbadger must reject the batch (IO roots have no children)
		wantIOChild := profile == "common" && !compaction && finIO != 0 && g.conts[finIO] != nil && len(g.conts[finIO]) > 0 && r.Chance(14)
		if wantIOChild && ni == 0 {
			ni = 1
		}
		for j := 0; j < ni; j++ {
			old := 0
			if profile == "badger" && finIO != 0 && r.Chance(40) {
				old = finIO
			}
			if wantIOChild && j == 0 {
				old = finIO
			}
			ws := g.writes(g.conts[old], removed)
			if shareLeaf && r.Chance(60) {
				ws = append(ws, Write{Key: 6, Val: 1})
			}
			if r.Chance(50) {
				ws = append(ws, Write{Key: 8, Val: r.Range(1, 2)})
			}
			id := g.commit(ver, 2, old, ws)
			if wantIOChild && j == 0 {
				ioChild = id
			}
			candI = append(candI, id)
			if profile == "badger" && r.Chance(30) {
				id2 := g.commit(ver, 2, id, g.writes(g.conts[id], removed)) // empty -> i -> io
				candI = append(candI, id2)
			}
		}
		if profile == "errors" {
			g.errorOps(ver, earliest, candS, pruned)
		}
		// choose finalized roots
		chosenS := candS[r.Intn(len(candS))]
		fin := []int{chosenS}
		finStates = []int{chosenS}
		if profile == "badger" && len(candS) > 1 && r.Chance(25) {
			other := candS[r.Intn(len(candS))]
			if other != chosenS {
				fin = append(fin, other)
				finStates = append(finStates, other)
			}
		}
		// keys removed by the chosen candidate relative to the previous finalized state
		for k, v := range g.conts[finState] {
			if _, ok := g.conts[chosenS][k]; !ok {
				removed[k] = v
			}
		}
		finState = chosenS
		finIO = 0
		if len(candI) > 0 && r.Chance(85) {
			finIO = candI[r.Intn(len(candI))]
			fin = append(fin, finIO)
		}
		if ioChild != 0 && finIO != ioChild {
			if finIO != 0 {
				fin = fin[:len(fin)-1]
			}
			finIO = ioChild
			fin = append(fin, finIO)
		}
		// pipelining: candidates of the next version derived from the root that is about to be
		// finalized are committed BEFORE this version is finalized; later competitors follow after
		// pathbadger resolves the nodes a pipelined child inherits only if its parent holds pending
		// sequence number 0 (the first batch of that type in the version); other parents are
		// generated with -pipeline-any only (reported under finKeyPathPipe)
		if profile != "errors" && vi < nver-1 && (chosenS == candS[0] || pipelineAny) && r.Chance(55) {
			for j, n := 0, r.Range(1, 2); j < n; j++ {
				ws := g.writes(g.conts[chosenS], removed)
				if shareLeaf && r.Chance(30) {
					ws = append(ws, Write{Key: 6, Val: 1})
				}
				preS = append(preS, g.commit(ver+1, 1, chosenS, ws))
			}
			if r.Chance(35) {
				preI = append(preI, g.commit(ver+1, 2, 0, []Write{{Key: 8, Val: r.Range(1, 2)}, {Key: r.Range(1, 7), Val: 1}}))
			}
		}
		finThen := then("reopen", 12)
		if compaction {
			// flush, then consolidate: once level 0 holds more than five tables this pushes them down, so
			// that the tables flushed afterwards and the older data sit on different levels and the
			// Compact after the next Prune really rewrites them (Flatten is a no-op on a single level)
			finThen = "reopen+compact"
		}
		g.ops = append(g.ops, Op{K: "finalize", Ver: ver, Roots: fin, Then: finThen})
		keptIDs = append(keptIDs, fin...)
		if profile == "errors" && r.Chance(30) {
			g.ops = append(g.ops, Op{K: "finalize", Ver: ver, Roots: fin}) // already finalized
		}
		// prune with the chosen lag
		for ver >= earliest+uint64(lag) {
			if profile == "errors" && r.Chance(20) {
				g.ops = append(g.ops, Op{K: "prune", Ver: earliest + 1}) // not earliest
			}
			g.ops = append(g.ops, Op{K: "prune", Ver: earliest, Then: then("compact", 25)})
			for _, id := range keptIDs { // only roots that were finalized: a commit on top of a discarded
				if g.verOf[id] == earliest { // candidate depends on which tree paths it touches
					pruned = append(pruned, id)
				}
			}
			earliest++
		}
	}
	if profile == "errors" {
		// try to prune everything, including the last version
		for i := 0; i < lag+1; i++ {
			g.ops = append(g.ops, Op{K: "prune", Ver: earliest + uint64(i)})
		}
	}
	if compaction {
		profile = "compaction"
	}
	return Case{Profile: profile, Ops: g.ops}
}

func (g *genState) errorOps(ver, earliest uint64, cands, pruned []int) {
	r := g.r
	switch r.Intn(7) {
	case 0: // finalize a later version before this one
		g.ops = append(g.ops, Op{K: "finalize", Ver: ver + 1, Roots: []int{cands[0]}})
	case 1: // prune a version that is not finalized
		g.ops = append(g.ops, Op{K: "prune", Ver: ver})
	case 2: // commit into an already finalized version
		if ver > earliest {
			g.commit(ver-1, 1, 0, []Write{{Key: 1, Val: 2}, {Key: 7, Val: 2}})
		}
	case 3: // commit on top of a root that is two versions back
		if len(pruned) > 0 {
			old := pruned[r.Intn(len(pruned))]
			var ws []Write
			if r.Chance(50) {
				ws = []Write{{Key: 2, Val: 2}}
			}
			g.commit(ver, 1, old, ws)
		}
	case 4: // finalize a root that was never committed in this version
		if len(pruned) > 0 {
			g.ops = append(g.ops, Op{K: "finalize", Ver: ver, Roots: []int{pruned[0]}})
		}
	case 5: // old root from the right version that does not exist (its commit was rejected)
		if ver > earliest {
			// (value 3 is used nowhere else: badger's root-node keys carry no version, so a typed hash
			// that was a root of ANY version passes GetNode's root check - not modelled in Badger.v)
			bad := g.commit(ver-1, 1, 0, []Write{{Key: 3, Val: 3}, {Key: 5, Val: 3}})
			var ws []Write
			if r.Chance(50) {
				ws = []Write{{Key: 2, Val: 2}}
			}
			g.commit(ver, 1, bad, ws)
		}
	case 6: // version gap
		g.commit(ver+3, 1, cands[0], nil)
	}
}

// genCompaction: a linear chain of finalized versions (one state candidate per version from a
// fresh tree, every version overwriting and removing keys of the previous one, an occasional IO
// root), every Finalize followed by a reopen (the version is flushed into an on-disk table),
// pruning two versions behind, every Prune followed by NodeDB.Compact in the same process: the
// shape in which Badger's physical GC below the discard timestamp really rewrites tables.
func genCompaction(r *prng.R) Case {
	g := &genState{r: r, conts: map[int]map[int]int{}, typOf: map[int]int{}, verOf: map[int]uint64{}}
	start := uint64(r.Range(0, 1))
	nver := r.Range(6, 10)
	earliest := start
	prev := 0
	for vi := 0; vi < nver; vi++ {
		ver := start + uint64(vi)
		cur := map[int]int{}
		for k, v := range g.conts[prev] {
			cur[k] = v
		}
		var ws []Write
		for i, n := 0, r.Range(2, 4); i < n; i++ {
			k := r.Range(1, 8)
			v := r.Range(1, 2)
			if old, ok := cur[k]; ok && old == v {
				v = 3 - v // overwrite with the other value
			}
			ws = append(ws, Write{Key: k, Val: v})
			cur[k] = v
		}
		if ks := sortedKeys(cur); len(ks) > 2 && r.Chance(70) {
			k := ks[r.Intn(len(ks))]
			ws = append(ws, Write{Key: k, Val: 0})
			delete(cur, k)
		}
		id := g.commit(ver, 1, prev, ws)
		if r.Chance(40) {
			g.ops[len(g.ops)-1].Then = "reopen"
		}
		fin := []int{id}
		if r.Chance(40) {
			fin = append(fin, g.commit(ver, 2, 0, []Write{{Key: 8, Val: r.Range(1, 2)}, {Key: r.Range(1, 7), Val: 1}}))
		}
		g.ops = append(g.ops, Op{K: "finalize", Ver: ver, Roots: fin, Then: "reopen"})
		prev = id
		for ver >= earliest+2 {
			g.ops = append(g.ops, Op{K: "prune", Ver: earliest, Then: "compact"})
			earliest++
		}
	}
	return Case{Profile: "compaction", Ops: g.ops}
}

// genChain: ONE long-lived state tree commits version after version (every version finalized with
// it), over the prefix keys a / ab / abc / b / ba so that stand-alone leaves become attached
// leaves of new internal nodes and back; an IO root per version from scratch; competitors from
// fresh trees that are discarded; prune lag 1-3; occasional reopen / compact.
func genChain(r *prng.R) Case {
	g := &genState{r: r, conts: map[int]map[int]int{}, typOf: map[int]int{}, verOf: map[int]uint64{}}
	start := uint64(r.Range(0, 2))
	nver := r.Range(3, 9)
	lag := r.Range(1, 3)
	earliest := start
	prev := 0
	for vi := 0; vi < nver; vi++ {
		ver := start + uint64(vi)
		var ws []Write
		cur := map[int]int{}
		for k, v := range g.conts[prev] {
			cur[k] = v
		}
		for i, n := 0, r.Range(1, 3); i < n; i++ {
			k := r.Range(1, 5) // a ab abc b ba
			if r.Chance(15) {
				k = r.Range(6, 8)
			}
			if _, ok := cur[k]; ok && r.Chance(55) {
				ws = append(ws, Write{Key: k, Val: 0})
				delete(cur, k)
			} else {
				v := r.Range(1, 2)
				ws = append(ws, Write{Key: k, Val: v})
				cur[k] = v
			}
		}
		if len(cur) == 0 {
			ws = append(ws, Write{Key: 1, Val: 1})
		}
		id := g.commit(ver, 1, prev, ws)
		g.ops[len(g.ops)-1].Live = true
		fin := []int{id}
		if prev != 0 && r.Chance(30) {
			g.commit(ver, 1, prev, []Write{{Key: r.Range(1, 5), Val: r.Range(1, 2)}, {Key: r.Range(1, 8), Val: 0}}) // discarded competitor, fresh tree
		}
		if r.Chance(50) {
			fin = append(fin, g.commit(ver, 2, 0, []Write{{Key: 8, Val: r.Range(1, 2)}, {Key: r.Range(1, 3), Val: 1}}))
		}
		then := ""
		if r.Chance(15) {
			then = "reopen"
		}
		g.ops = append(g.ops, Op{K: "finalize", Ver: ver, Roots: fin, Then: then})
		prev = id
		for ver >= earliest+uint64(lag) {
			then = ""
			if r.Chance(30) {
				then = "compact"
			}
			g.ops = append(g.ops, Op{K: "prune", Ver: earliest, Then: then})
			earliest++
		}
	}
	return Case{Profile: "chain", Ops: g.ops}
}

// section-9 history: state {k,x} and io {k,y} finalized in version 1 (shared leaf k),
// state root of version 2 changes only x; prune(1).
func knownDefectCase() Case {
	return Case{Profile: "common", Ops: []Op{
		{K: "commit", ID: 1, Ver: 1, Typ: 1, Writes: []Write{{6, 1}, {7, 1}}},
		{K: "commit", ID: 2, Ver: 1, Typ: 2, Writes: []Write{{6, 1}, {8, 1}}},
		{K: "finalize", Ver: 1, Roots: []int{1, 2}},
		{K: "commit", ID: 3, Ver: 2, Typ: 1, Old: 1, Writes: []Write{{7, 2}}},
		{K: "finalize", Ver: 2, Roots: []int{3}},
		{K: "prune", Ver: 1},
	}}
}

// ---------- shrinking ----------

func referenced(c Case, id int) bool {
	for _, op := range c.Ops {
		if op.K == "commit" && op.Old == id {
			return true
		}
		for _, r := range op.Roots {
			if r == id {
				return true
			}
		}
	}
	return false
}

func failing(c Case, want string) bool {
	pl := makePlan(c)
	if !pl.valid {
		return false
	}
	if shrinkBudget <= 0 {
		return false
	}
	shrinkBudget--
	memOnly = true
	res := runCase(c, pl)
	memOnly = false
	if res.outOfDomain {
		return false
	}
	for _, f := range res.finds {
		if f.key == want {
			return true
		}
	}
	for _, v := range res.viol {
		if sameKind(v, want) {
			return true
		}
	}
	return false
}

// sameKind compares two oracle messages up to numbers.
func sameKind(a, b string) bool {
	strip := func(s string) string {
		var sb strings.Builder
		for _, ch := range s {
			if ch < '0' || ch > '9' {
				sb.WriteRune(ch)
			}
		}
		return sb.String()
	}
	return strip(a) == strip(b)
}

var pipelineAny bool
var shrinkBudget int
var memOnly bool

func shrink(c Case, want string) Case {
	shrinkBudget = 120
	for changed := true; changed; {
		changed = false
		for i := len(c.Ops) - 1; i >= 0; i-- {
			op := c.Ops[i]
			if op.K == "commit" && referenced(c, op.ID) {
				continue
			}
			d := Case{Profile: c.Profile, Ops: append(append([]Op{}, c.Ops[:i]...), c.Ops[i+1:]...)}
			if failing(d, want) {
				c, changed = d, true
			}
		}
		for i := range c.Ops {
			for j := len(c.Ops[i].Writes) - 1; j >= 0; j-- {
				d := Case{Profile: c.Profile, Ops: append([]Op{}, c.Ops...)}
				o := d.Ops[i]
				o.Writes = append(append([]Write{}, o.Writes[:j]...), o.Writes[j+1:]...)
				d.Ops[i] = o
				if failing(d, want) {
					c, changed = d, true
					break
				}
			}
			if len(c.Ops[i].Roots) > 1 {
				for j := len(c.Ops[i].Roots) - 1; j >= 0; j-- {
					d := Case{Profile: c.Profile, Ops: append([]Op{}, c.Ops...)}
					o := d.Ops[i]
					o.Roots = append(append([]int{}, o.Roots[:j]...), o.Roots[j+1:]...)
					d.Ops[i] = o
					if failing(d, want) {
						c, changed = d, true
						break
					}
				}
			}
		}
	}
	return c
}

// ---------- main ----------

func main() {
	seed := flag.Uint64("seed", 1, "seed")
	n := flag.Int("cases", 60, "number of generated histories")
	out := flag.String("out", "", "output directory")
	replay := flag.String("replay", "", "replay a case description (JSON file)")
	verbose := flag.Bool("v", false, "print per-op observations")
	flag.BoolVar(&pipelineAny, "pipeline-any", false, "also derive pipelined candidates from a pending candidate that is not the first batch of its version")
	flag.Parse()
	if *out == "" {
		fmt.Fprintln(os.Stderr, "need -out")
		os.Exit(2)
	}
	hdr := "From Verif Require Import Lib.Base NodeDB.Spec NodeDB.PathBadger NodeDB.Badger.\n"
	wb := coqout.NewWriter(*out, hdr, "run_case", "case_eqb", 10)
	sum := coqout.NewSummary("seeded version histories (2-10 versions from start version 0-2, 1-3 state and 0-2 IO candidate roots per version built from the previous finalized root by 0-3 inserts/removes over 8 keys x 2 values incl. re-creation of removed leaves, unchanged and empty roots, the leaf k=v1 placed in both state and IO trees; arbitrary finalized choice; pipelined candidates of version v+1 (1-2 children of the root about to be finalized and an IO root from scratch) committed BEFORE Finalize(v) and competing with candidates committed after it; prune lag 1-3) in three profiles (common / badger-only shapes / interleaved invalid calls) on badger and pathbadger on disk; every known root probed and read back after every operation; non-trivial = at least one successful prune and one discarded candidate; distinct = distinct operation lists")
	var cases []Case
	if *replay != "" {
		b, err := os.ReadFile(*replay)
		if err != nil {
			panic(err)
		}
		var c Case
		var wrap struct {
			Case *Case `json:"case"`
		}
		if json.Unmarshal(b, &wrap) == nil && wrap.Case != nil {
			c = *wrap.Case
		} else if err := json.Unmarshal(b, &c); err != nil {
			panic(err)
		}
		cases = []Case{c}
	} else {
		cases = append(cases, knownDefectCase())
		r := prng.New(*seed)
		profiles := []string{"common", "chain", "badger", "errors", "compaction", "common"}
		for i := 0; i < *n; i++ {
			if profiles[i%len(profiles)] == "compaction" {
				cases = append(cases, genCompaction(r.Fork()))
				continue
			}
			if profiles[i%len(profiles)] == "chain" {
				cases = append(cases, genChain(r.Fork()))
				continue
			}
			cases = append(cases, genCase(r.Fork(), profiles[i%len(profiles)]))
		}
	}
	seen := map[string]bool{}
	findSeen := map[string]bool{}
	violSeen := map[string]bool{}
	for _, c := range cases {
		pl := makePlan(c)
		if !pl.valid {
			fmt.Fprintln(os.Stderr, "invalid case description")
			os.Exit(2)
		}
		res := runCase(c, pl)
		if res.crashed != "" {
			fmt.Fprintln(os.Stderr, "cannot run case:", res.crashed)
			os.Exit(3)
		}
		sum.Evaluations++
		key, _ := json.Marshal(c.Ops)
		prunes, discarded := 0, 0
		finSeen := map[uint64]bool{}
		for i, op := range c.Ops {
			if op.K == "finalize" && res.obsB[i].class == eOk {
				finSeen[op.Ver] = true
			}
			if op.K == "commit" && op.Ver > 0 && !finSeen[op.Ver-1] && res.obsB[i].class == eOk {
				if op.Old != 0 && pl.roots[op.Old].ver == op.Ver-1 {
					sum.Count("commit_shape", "pipelined(child of a not yet finalized candidate)")
				} else if op.Old == 0 && i > 0 {
					for _, q := range c.Ops[:i] {
						if q.K == "commit" && q.Ver == op.Ver-1 {
							sum.Count("commit_shape", "pipelined(from scratch before the previous version is finalized)")
							break
						}
					}
				}
			}
			o := res.obsB[i]
			sum.Count("op", op.K+":"+eNames[o.class])
			if op.Then != "" {
				sum.Count("then", op.K+"+"+op.Then)
			}
			sum.Count("op_pathbadger", op.K+":"+eNames[res.obsP[i].class])
			if op.K == "prune" && o.class == eOk {
				prunes++
			}
			if op.K == "commit" {
				if op.Old == 0 {
					sum.Count("commit_shape", "from-empty")
				} else if pl.roots[op.Old].ver == op.Ver {
					sum.Count("commit_shape", "same-version-child")
				} else {
					sum.Count("commit_shape", "from-previous-version")
				}
				if len(op.Writes) == 0 {
					sum.Count("commit_shape", "unchanged")
				}
				if pl.roots[op.ID].rid < 2 {
					sum.Count("commit_shape", "empty-root")
				}
			}
			if op.K == "finalize" && o.class == eOk {
				for _, ro := range o.roots {
					if ro.ver == op.Ver && !ro.has {
						discarded++
					}
				}
				sum.Count("finalized_roots_per_call", fmt.Sprint(len(op.Roots)))
			}
			for _, ro := range o.roots {
				sum.Count("badger_root_status", stName(ro.status))
			}
			for _, ro := range res.obsP[i].roots {
				sum.Count("pathbadger_root_status", stName(ro.status))
			}
			if *verbose && os.Getenv("VERIF_DEBUG") != "" {
				fmt.Printf("   dbg puts=%v removed=%v reach=%v inl=%v\n", o.puts, o.removed, o.reach, o.inl)
			}
			if *verbose {
				fmt.Printf("op %d %+v\n  badger     %s %s\n  pathbadger %s %s\n", i, op, coqObs(o, false, false), o.errText, coqObs(res.obsP[i], false, true), res.obsP[i].errText)
			}
		}
		if res.outOfDomain {
			sum.Count("misc", "history-out-of-domain(successful commit on a non-finalized root of an earlier version)")
		}
		sum.Count("profile", c.Profile)
		sum.Count("ops_per_history", fmt.Sprint(len(c.Ops)/10*10)+"+")
		if res.unsupported {
			sum.Count("pathbadger", "rejected-shape(not compared)")
		} else {
			sum.Count("pathbadger", "accepted(compared)")
		}
		if prunes > 0 && discarded > 0 && !seen[string(key)] {
			sum.DistinctNontrivial++
		}
		seen[string(key)] = true
		sum.Sample(c, 2)
		// Coq case: (ops, compare_pathbadger), (badger observations, pathbadger observations)
		nk := res.cutAt + 1
		if nk < len(c.Ops) {
			sum.Count("misc", "case-truncated-for-K-after-badger-lost-a-node")
		}
		ops := make([]string, nk)
		ob := make([]string, nk)
		op2 := make([]string, nk)
		for i, op := range c.Ops[:nk] {
			ops[i] = coqOp(op, pl, res.obsB[i])
			ob[i] = coqObs(res.obsB[i], false, false)
			po := res.obsP[i]
			if po.resolveKnown && op.K == "commit" {
				ri := pl.roots[op.ID]
				roots := append([]rootObs{}, po.roots...)
				for j := range roots {
					if roots[j].ver == ri.ver && roots[j].rid == ri.rid && roots[j].has {
						if po.resolves {
							roots[j].status = stExact
						} else {
							roots[j].status = stNodeMissing
						}
					}
				}
				po.roots = roots
				if !po.resolves {
					po.cont = nil
				}
			}
			op2[i] = coqObs(po, c.Ops[i].K == "commit", true)
		}
		if res.cutP >= 0 && res.cutP < len(op2) {
			op2 = op2[:res.cutP]
			sum.Count("misc", "pathbadger-part-truncated-for-K-after-known-pipelining-shape")
		}
		var pops []string
		if !res.unsupported {
			for i := range op2 {
				pops = append(pops, coqPOp(c.Ops[i], pl, res.obsP[i]))
			}
		}
		popsTerm := coqout.List(pops)
		if len(pops) == 0 {
			popsTerm = "([] : list pop)"
		}
		term := fmt.Sprintf("(mk_case %s %s %s %s)", coqout.List(ops), popsTerm, coqout.List(ob), coqout.List(op2))
		wb.Add(term, map[string]any{"case": c})
		for _, f := range res.finds {
			sum.Count("findings", f.key)
			if findSeen[f.key] {
				continue
			}
			findSeen[f.key] = true
			sc := c
			if *replay == "" {
				sc = shrink(c, f.key)
			}
			sum.Findings = append(sum.Findings, coqout.Finding{Key: f.key, What: f.what, Replay: map[string]any{"case": sc}})
		}
		for k, v := range res.stats {
			for j := 0; j < v; j++ {
				sum.Count("misc", k)
			}
		}
		for _, v := range res.viol {
			kind := ""
			for _, ch := range v {
				if ch < '0' || ch > '9' {
					kind += string(ch)
				}
			}
			sum.Count("violations", kind)
			if violSeen[kind] || len(sum.Violations) >= 6 {
				continue
			}
			violSeen[kind] = true
			sc := c
			if *replay == "" {
				sc = shrink(c, v)
			}
			sum.Violations = append(sum.Violations, map[string]any{"what": v, "case": sc})
		}
	}
	wb.Close()
	sum.Write(*out)
}
