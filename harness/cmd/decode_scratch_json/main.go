package main

import (
	"bytes"
	"encoding/hex"
	"encoding/json"
	"fmt"
	"os"
	"path/filepath"
	"sort"
	"strings"
	"time"

	"github.com/oasisprotocol/oasis-core/go/common/sgx/ias"
	"github.com/oasisprotocol/oasis-core/go/common/sgx/pcs"

	"verifharness/internal/prng"
)

type seedDoc struct {
	name string
	data []byte
	kind string // tcb-doc, qe-doc, tcb-inner, qe-inner, avr
}

type stat struct{ n, accepted, rejected, panics int }

func try(kind string, in []byte) (accepted bool, pv any) {
	defer func() {
		if p := recover(); p != nil {
			pv = p
		}
	}()
	switch kind {
	case "tcb-inner":
		var ti pcs.TCBInfo
		return json.Unmarshal(in, &ti) == nil, nil
	case "qe-inner":
		var qe pcs.QEIdentity
		return json.Unmarshal(in, &qe) == nil, nil
	case "tcb-doc":
		var st pcs.SignedTCBInfo
		if json.Unmarshal(in, &st) != nil {
			return false, nil
		}
		var ti pcs.TCBInfo
		return json.Unmarshal(st.TCBInfo, &ti) == nil, nil
	case "qe-doc":
		var sq pcs.SignedQEIdentity
		if json.Unmarshal(in, &sq) != nil {
			return false, nil
		}
		var qe pcs.QEIdentity
		return json.Unmarshal(sq.EnclaveIdentity, &qe) == nil, nil
	case "avr":
		a, err := ias.UnsafeDecodeAVR(in)
		if err != nil {
			return false, nil
		}
		_, _ = a.Quote()
		return true, nil
	case "avr-raw":
		var a ias.AttestationVerificationReport
		return json.Unmarshal(in, &a) == nil, nil
	}
	return false, nil
}

func main() {
	ias.SetAllowDebugEnclaves()
	for _, f := range []string{"avr_v4_body_sw_hardening_needed.json", "avr_v5_body_sw_hardening_needed.json"} {
		b, _ := os.ReadFile("/repo/go/common/sgx/ias/testdata/" + f)
		_, err := ias.UnsafeDecodeAVR(b)
		fmt.Printf("UnsafeDecodeAVR(%s) = %v\n", f, err)
	}
	var seeds []seedDoc
	for _, g := range []string{"/repo/go/common/sgx/pcs/testdata/*.json", "/repo/go/common/sgx/ias/testdata/*.json"} {
		files, _ := filepath.Glob(g)
		for _, f := range files {
			b, err := os.ReadFile(f)
			if err != nil {
				panic(err)
			}
			base := filepath.Base(f)
			switch {
			case strings.HasPrefix(base, "tcb_info"):
				seeds = append(seeds, seedDoc{base, b, "tcb-doc"})
				in, ok := jsonInner(b, "tcbInfo")
				if !ok {
					panic("no tcbInfo in " + base)
				}
				seeds = append(seeds, seedDoc{base + "#tcbInfo", in, "tcb-inner"})
			case strings.HasPrefix(base, "qe_identity"):
				seeds = append(seeds, seedDoc{base, b, "qe-doc"})
				in, ok := jsonInner(b, "enclaveIdentity")
				if !ok {
					panic("no enclaveIdentity in " + base)
				}
				seeds = append(seeds, seedDoc{base + "#enclaveIdentity", in, "qe-inner"})
			default:
				seeds = append(seeds, seedDoc{base, b, "avr"})
				seeds = append(seeds, seedDoc{base + "#raw", b, "avr-raw"})
			}
		}
	}
	fmt.Printf("seeds: %d\n", len(seeds))
	for _, s := range seeds {
		acc, pv := try(s.kind, s.data)
		fmt.Printf("  %-55s %-10s %6d bytes  unmutated accepted=%v panic=%v\n", s.name, s.kind, len(s.data), acc, pv)
	}

	// jsonInner / jsonReplaceInner self-test.
	{
		fails := 0
		for _, s := range seeds {
			key := map[string]string{"tcb-doc": "tcbInfo", "qe-doc": "enclaveIdentity"}[s.kind]
			if key == "" {
				continue
			}
			in, _ := jsonInner(s.data, key)
			if !bytes.Equal(jsonReplaceInner(s.data, key, in), s.data) {
				fails++
			}
			repl := []byte(`{ "x" : [1, 2 ] }`)
			nd := jsonReplaceInner(s.data, key, repl)
			got, ok := jsonInner(nd, key)
			if !ok || !bytes.Equal(got, repl) || !json.Valid(nd) {
				fails++
			}
			var st pcs.SignedTCBInfo
			var sq pcs.SignedQEIdentity
			if s.kind == "tcb-doc" {
				_ = json.Unmarshal(s.data, &st)
				if !bytes.Equal(st.TCBInfo, in) {
					fails++
				}
			} else {
				_ = json.Unmarshal(s.data, &sq)
				if !bytes.Equal(sq.EnclaveIdentity, in) {
					fails++
				}
			}
		}
		// Whitespace, duplicates, case-insensitive, absent, non-object.
		doc := []byte(" { \"a\" : 1 ,\n \"TCBINFO\" :  { \"v\" : 1 }  , \"tcbInfo\":\t[ 2 ]\n, \"z\": 12 } ")
		in, ok := jsonInner(doc, "tcbInfo")
		if !ok || string(in) != "[ 2 ]" {
			fails++
			fmt.Printf("inner ws: %q %v\n", in, ok)
		}
		var st pcs.SignedTCBInfo
		_ = json.Unmarshal(doc, &st)
		if !bytes.Equal(st.TCBInfo, in) {
			fails++
			fmt.Printf("inner differs from encoding/json: %q vs %q\n", in, st.TCBInfo)
		}
		in, ok = jsonInner(doc, "z")
		if !ok || string(in) != "12" {
			fails++
			fmt.Printf("inner num: %q %v\n", in, ok)
		}
		if got := string(jsonReplaceInner(doc, "z", []byte("null"))); got != strings.Replace(string(doc), "12", "null", 1) {
			fails++
			fmt.Printf("replace num: %q\n", got)
		}
		if got := string(jsonReplaceInner([]byte(`{"a":1}`), "b", []byte("2"))); got != `{"a":1,"b":2}` {
			fails++
			fmt.Printf("replace absent: %q\n", got)
		}
		if got := string(jsonReplaceInner([]byte(`{}`), "b", []byte("2"))); got != `{"b":2}` {
			fails++
			fmt.Printf("replace empty: %q\n", got)
		}
		if got := string(jsonReplaceInner([]byte(`[1]`), "b", []byte("2"))); got != `{"b":2}` {
			fails++
			fmt.Printf("replace nonobj: %q\n", got)
		}
		if _, ok := jsonInner([]byte(`{"a":1}`), "b"); ok {
			fails++
		}
		fmt.Printf("jsonInner/jsonReplaceInner self-test failures: %d\n", fails)
	}

	// Identity: parse+serialise of the seeds is the compact form of the seed.
	for _, s := range seeds {
		n, ok := jmParse(s.data)
		if !ok {
			panic("seed does not parse: " + s.name)
		}
		var c bytes.Buffer
		_ = json.Compact(&c, s.data)
		if !bytes.Equal(jmSerialize(n), c.Bytes()) {
			fmt.Printf("ROUNDTRIP MISMATCH for %s\n", s.name)
		}
	}
	if _, _, ok := jsonMutate(prng.New(1), []byte(`{"a":`)); ok {
		fmt.Println("BUG: invalid seed accepted")
	}

	const N = 200000
	r := prng.New(20260925)
	hist := map[string]int{}
	fam := map[string]int{}
	stats := map[string]*stat{}
	invalid, maxOut, nSyntax, syntaxStillValid, identical := 0, 0, 0, 0, 0
	var maxName string
	var totalBytes int64
	nApplied := map[int]int{}
	var mutTime, bigTime time.Duration
	nBig := 0
	panicsShown := 0
	for i := 0; i < N; i++ {
		s := seeds[r.Intn(len(seeds))]
		cr := r.Fork()
		t0 := time.Now()
		out, name, ok := jsonMutate(cr, s.data)
		dt := time.Since(t0)
		mutTime += dt
		if len(out) > 100<<10 {
			bigTime += dt
			nBig++
		}
		if !ok {
			panic("seed rejected")
		}
		parts := strings.Split(name, "+")
		nApplied[len(parts)]++
		for _, p := range parts {
			hist[p]++
			fam[p[:strings.IndexByte(p+":", ':')]]++
		}
		totalBytes += int64(len(out))
		if len(out) > maxOut {
			maxOut, maxName = len(out), name
		}
		if bytes.Equal(out, s.data) {
			identical++
		}
		if jmIsSyntax(name) {
			nSyntax++
			if json.Valid(out) {
				syntaxStillValid++
			}
		} else if !json.Valid(out) {
			invalid++
			if invalid <= 5 {
				o := out
				if len(o) > 300 {
					o = o[:300]
				}
				fmt.Printf("INVALID OUTPUT name=%s seed=%s out=%q\n", name, s.name, o)
			}
		}
		st := stats[s.kind]
		if st == nil {
			st = &stat{}
			stats[s.kind] = st
		}
		st.n++
		acc, pv := try(s.kind, out)
		switch {
		case pv != nil:
			st.panics++
			if panicsShown < 10 {
				panicsShown++
				fmt.Printf("PANIC kind=%s seed=%s name=%s panic=%v\n  input(hex)=%s\n", s.kind, s.name, name, pv, hex.EncodeToString(out))
			}
		case acc:
			st.accepted++
		default:
			st.rejected++
		}
	}

	fmt.Printf("\nmutants: %d  invalid non-syntax outputs: %d  syntax mutants: %d (of which still valid JSON: %d)  identical to seed: %d\n",
		N, invalid, nSyntax, syntaxStillValid, identical)
	fmt.Printf("output size: max %d bytes (%s), mean %d bytes; limit %d\n", maxOut, maxName, totalBytes/N, jmMaxOut)
	fmt.Printf("throughput: %.0f mutants/s (jsonMutate only, %.1fs total)\n", float64(N)/mutTime.Seconds(), mutTime.Seconds())
	fmt.Printf("mutations per call: %v\n", nApplied)
	fmt.Printf("big (>100KiB) mutants: %d taking %.1fs; the other %d: %.0f mutants/s\n", nBig, bigTime.Seconds(), N-nBig, float64(N-nBig)/(mutTime-bigTime).Seconds())

	fmt.Println("\neffectiveness (decoder behind the syntax layer):")
	kinds := make([]string, 0, len(stats))
	for k := range stats {
		kinds = append(kinds, k)
	}
	sort.Strings(kinds)
	for _, k := range kinds {
		st := stats[k]
		fmt.Printf("  %-10s n=%6d accepted=%6d (%.1f%%) rejected=%6d panics=%d\n", k, st.n, st.accepted, 100*float64(st.accepted)/float64(st.n), st.rejected, st.panics)
	}

	fmt.Println("\nfamily histogram:")
	printHist(fam)
	fmt.Println("\nmutation histogram:")
	printHist(hist)
}

func printHist(h map[string]int) {
	keys := make([]string, 0, len(h))
	for k := range h {
		keys = append(keys, k)
	}
	sort.Slice(keys, func(i, j int) bool {
		if h[keys[i]] != h[keys[j]] {
			return h[keys[i]] > h[keys[j]]
		}
		return keys[i] < keys[j]
	})
	line := ""
	for _, k := range keys {
		item := fmt.Sprintf("%s=%d", k, h[k])
		if len(line)+len(item) > 150 {
			fmt.Println("  " + line)
			line = ""
		}
		line += item + "  "
	}
	if line != "" {
		fmt.Println("  " + line)
	}
}
