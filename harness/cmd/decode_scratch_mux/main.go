package main

// Scratch driver for search_mux.go (deleted after development).

import (
	"encoding/hex"
	"fmt"
	"os"
	"runtime"
	"sort"
	"strconv"
	"time"

	"github.com/oasisprotocol/oasis-core/go/consensus/api/transaction"

	"verifharness/internal/muxdrv"
	"verifharness/internal/prng"
)

func heap() uint64 {
	runtime.GC()
	var ms runtime.MemStats
	runtime.ReadMemStats(&ms)
	return ms.HeapInuse
}

func reportPanic(m *muxFuzzer, what string, raw []byte, err error) {
	fmt.Printf("!!! %s: %v\n", what, err)
	if pe, ok := err.(*muxdrv.PanicError); ok {
		fmt.Printf("    where: %s\n    value: %s\n    stack:\n%s\n", pe.Where, pe.Value, pe.Stack)
	}
	if raw != nil {
		fmt.Printf("    tx: %s\n", hex.EncodeToString(raw))
	}
	if m.lastOffender != nil {
		fmt.Printf("    offender: %s\n", hex.EncodeToString(m.lastOffender))
	}
}

func envInt(name string, def int) int {
	if v, err := strconv.Atoi(os.Getenv(name)); err == nil {
		return v
	}
	return def
}

func main() {
	seed := uint64(envInt("SEED", 1))
	nCheck := envInt("NCHECK", 20000)
	nBlocks := envInt("NBLOCKS", 300)
	t0 := time.Now()
	m := newMuxFuzzer(seed)
	defer m.close()
	fmt.Printf("boot: %v, height %d, epoch %d, %d methods, setup failures: %v\n", time.Since(t0), m.r.Height, m.muxEpoch(), len(m.methods), m.setupFail)
	if rs := m.muxRuntimeState(m.rt1); rs != nil {
		fmt.Printf("rt1: committee=%v pool=%v round=%d suspended=%v\n", rs.Committee != nil, rs.CommitmentPool != nil, rs.LastBlock.Header.Round, rs.Suspended)
	}

	// ---- seeds: CheckTx and DeliverTx codes
	seeds := m.seeds()
	var raws [][]byte
	check := map[string]string{}
	for _, s := range seeds {
		resp, err := m.r.CheckTx(s.raw, false)
		if err != nil {
			reportPanic(m, "seed CheckTx "+s.name, s.raw, err)
			continue
		}
		check[s.name] = fmt.Sprintf("%s/%d", resp.Codespace, resp.Code)
		if resp.Code != 0 {
			check[s.name] += " (" + resp.Log + ")"
		}
		raws = append(raws, s.raw)
	}
	in := m.c.NewBlock(m.g.Validators[m.prop].ConsAddr, muxdrv.VotesAll, nil)
	_ = in
	res, err := m.muxExecBlock(raws)
	if err != nil {
		reportPanic(m, "seed block", nil, err)
		return
	}
	for i, s := range seeds {
		t := res.TxResults[i]
		d := fmt.Sprintf("%s/%d", t.Codespace, t.Code)
		if t.Code != 0 {
			d += " (" + t.Log + ")"
		}
		fmt.Printf("seed %-45s len=%4d check=%s deliver=%s\n", s.name, len(s.raw), check[s.name], d)
	}
	// fresh ones again, in a second block
	raws = raws[:0]
	for _, s := range seeds {
		raws = append(raws, m.fresh(s.name))
	}
	codes, err := m.deliver(raws)
	if err != nil {
		reportPanic(m, "fresh block", nil, err)
		return
	}
	ok := 0
	for i, c := range codes {
		if c == 0 {
			ok++
		} else {
			fmt.Printf("  fresh %s failed with code %d\n", seeds[i].name, c)
		}
	}
	fmt.Printf("fresh block: %d of %d succeed\n", ok, len(codes))
	if err := m.healthy(); err != nil {
		fmt.Println("healthy:", err)
	}
	big, max := m.oversize()
	acc, err := m.check(big, false)
	fmt.Printf("oversize: len=%d max=%d accepted=%v err=%v\n", len(big), max, acc, err)
	codes, err = m.deliver([][]byte{big})
	fmt.Printf("oversize deliver: codes=%v err=%v\n", codes, err)

	r := prng.New(seed ^ 0x5eed)
	byteMutant := func() ([]byte, string) {
		s := seeds[r.Intn(len(seeds))]
		b, op := mutate(r, s.raw)
		return b, s.name + ":" + op
	}

	// ---- throughput
	t := time.Now()
	n := 0
	for time.Since(t) < 3*time.Second {
		b, _ := byteMutant()
		if _, err := m.check(b, false); err != nil {
			reportPanic(m, "CheckTx", b, err)
		}
		n++
	}
	fmt.Printf("throughput: %.0f CheckTx/s (byte mutants)\n", float64(n)/time.Since(t).Seconds())
	t = time.Now()
	n = 0
	for time.Since(t) < 3*time.Second {
		b, _ := m.resignedMutant(r, "")
		if _, err := m.check(b, false); err != nil {
			reportPanic(m, "CheckTx", b, err)
		}
		m.muxResync()
		n++
	}
	fmt.Printf("throughput: %.0f CheckTx/s (resigned mutants, generation included)\n", float64(n)/time.Since(t).Seconds())
	t = time.Now()
	n = 0
	for time.Since(t) < 5*time.Second {
		var blk [][]byte
		for i := 0; i < 20; i++ {
			if i%2 == 0 {
				b, _ := byteMutant()
				blk = append(blk, b)
			} else {
				b, _ := m.resignedMutant(r, "")
				blk = append(blk, b)
			}
		}
		if _, err := m.deliver(blk); err != nil {
			reportPanic(m, "deliver", nil, err)
		}
		n++
	}
	fmt.Printf("throughput: %.1f blocks/s (20 txs per block)\n", float64(n)/time.Since(t).Seconds())

	// ---- probe: CheckTx of ExecutorCommit for many distinct runtime ids (service client brokers)
	{
		var ms0, ms1 runtime.MemStats
		hA, gA := heap(), runtime.NumGoroutine()
		runtime.ReadMemStats(&ms0)
		acc, err := m.muxBrokerProbe("a", 500)
		hB, gB := heap(), runtime.NumGoroutine()
		runtime.ReadMemStats(&ms1)
		fmt.Printf("probe: 500 ExecutorCommit CheckTx with distinct runtime ids: accepted %d err %v, heap %d -> %d KiB, stack %d -> %d KiB, goroutines %d -> %d\n", acc, err, hA>>10, hB>>10, ms0.StackInuse>>10, ms1.StackInuse>>10, gA, gB)
	}
	// ---- by-design block rejection + reboot path
	{
		k := m.g.Accounts[0].Key
		sys := muxdrv.Sign(k, transaction.NewTransaction(0, nil, "consensus.Meta", map[string]any{}))
		ok, err := m.check(sys, false)
		fmt.Printf("system tx CheckTx: accepted=%v err=%v\n", ok, err)
		good := m.fresh("staking.Burn")
		codes, err := m.deliver([][]byte{good, sys, m.fresh("staking.Allow")})
		fmt.Printf("system tx deliver: codes=%v rejection=%v reboots=%d offender-is-sys=%v err=%v\n", codes, muxIsBlockRejection(err), m.reboots, string(m.lastOffender) == string(sys), err)
		if pe, ok := err.(*muxdrv.PanicError); ok {
			fmt.Printf("   where: %s\n", pe.Where)
		}
		m.lastOffender, m.lastPrefix = nil, nil
		fmt.Printf("healthy after reboot: %v, height %d\n", m.healthy(), m.r.Height)
		codes, err = m.deliver([][]byte{seeds[0].raw, seeds[1].raw})
		fmt.Printf("seeds after reboot: codes=%v err=%v\n", codes, err)
	}

	// ---- soak
	h0, g0 := heap(), runtime.NumGoroutine()
	slow, panics, accepted := 0, 0, 0
	t = time.Now()
	for i := 0; i < nCheck; i++ {
		b, name := byteMutant()
		c0 := time.Now()
		a, err := m.check(b, r.Chance(10))
		if d := time.Since(c0); d > 2*time.Second {
			slow++
			fmt.Printf("SLOW CheckTx %v %s %s\n", d, name, hex.EncodeToString(b))
		}
		if err != nil {
			panics++
			reportPanic(m, "soak CheckTx "+name, b, err)
		}
		if a {
			accepted++
			fmt.Printf("ACCEPTED byte mutant %s\n", name)
		}
	}
	fmt.Printf("soak: %d CheckTx in %v, accepted %d, slow %d, panics %d\n", nCheck, time.Since(t), accepted, slow, panics)
	h1, g1 := heap(), runtime.NumGoroutine()
	t = time.Now()
	hist := map[uint32]int{}
	okBy := map[string][2]int{}
	for b := 0; b < nBlocks; b++ {
		var blk [][]byte
		var names []string
		for i := 0; i < 20; i++ {
			var raw []byte
			var name string
			switch {
			case i%4 == 0:
				raw, name = byteMutant()
			case i%4 == 1:
				s := seeds[r.Intn(len(seeds))]
				raw, name = m.fresh(s.name), s.name+":fresh"
			default:
				raw, name = m.resignedMutant(r, "")
			}
			blk = append(blk, raw)
			names = append(names, name)
			if r.Chance(20) {
				if _, err := m.check(raw, r.Chance(10)); err != nil {
					panics++
					reportPanic(m, "soak block CheckTx "+name, raw, err)
				}
			}
		}
		c0 := time.Now()
		codes, err := m.deliver(blk)
		if d := time.Since(c0); d > 2*time.Second {
			slow++
			fmt.Printf("SLOW block %v\n", d)
		}
		if err != nil {
			panics++
			reportPanic(m, "soak deliver", nil, err)
			for i, x := range blk {
				fmt.Printf("    blk[%d] %s %s\n", i, names[i], hex.EncodeToString(x))
			}
			continue
		}
		for i, c := range codes {
			hist[c]++
			if i%4 == 1 {
				k := names[i]
				v := okBy[k]
				if c == 0 {
					v[0]++
				}
				v[1]++
				okBy[k] = v
			}
		}
		if b%25 == 24 {
			if err := m.healthy(); err != nil {
				fmt.Printf("UNHEALTHY after block %d: %v\n", b, err)
			}
		}
	}
	fmt.Printf("soak: %d blocks in %v, slow %d, panics %d, reboots %d, height %d, epoch %d\n", nBlocks, time.Since(t), slow, panics, m.reboots, m.r.Height, m.muxEpoch())
	var ks []int
	for c := range hist {
		ks = append(ks, int(c))
	}
	sort.Ints(ks)
	for _, c := range ks {
		fmt.Printf("  code %d: %d\n", c, hist[uint32(c)])
	}
	var ns []string
	for k := range okBy {
		ns = append(ns, k)
	}
	sort.Strings(ns)
	for _, k := range ns {
		fmt.Printf("  %-50s ok %d/%d\n", k, okBy[k][0], okBy[k][1])
	}
	h2, g2 := heap(), runtime.NumGoroutine()
	fmt.Printf("heap in use: before %d KiB, after CheckTx soak %d KiB, after block soak %d KiB\n", h0>>10, h1>>10, h2>>10)
	fmt.Printf("goroutines: before %d, after CheckTx soak %d, after block soak %d\n", g0, g1, g2)
	if err := m.healthy(); err != nil {
		fmt.Println("final healthy:", err)
	} else {
		fmt.Println("final healthy: ok")
	}
}
