package main

import (
	"encoding/binary"

	"verifharness/internal/prng"
)

// mutate applies one to three structure-agnostic mutations to a copy of seed.
// The same engine serves the modelled decoders (where it is combined with
// format-aware field mutations) and the search-only stream.
func mutate(r *prng.R, seed []byte) ([]byte, string) {
	b := append([]byte{}, seed...)
	n := 1 + r.Intn(3)
	name := ""
	for i := 0; i < n; i++ {
		var op string
		b, op = mutateOnce(r, b)
		if name != "" {
			name += "+"
		}
		name += op
	}
	return b, name
}

var interesting16 = []uint16{0, 1, 2, 7, 8, 9, 0x7f, 0x80, 0xff, 0x100, 0x7fff, 0x8000, 0xfff8, 0xfff9, 0xfffe, 0xffff}
var interesting32 = []uint32{0, 1, 2, 0x7f, 0xff, 0x100, 0xffff, 0x10000, 0x7fffffff, 0x80000000, 0xfffffffe, 0xffffffff, 0x10000000, 0x0fffffff}

// cborBombs are CBOR heads declaring huge lengths / deep nesting.
var cborBombs = [][]byte{
	{0x9b, 0xff, 0xff, 0xff, 0xff, 0xff, 0xff, 0xff, 0xff}, // array 2^64-1
	{0xbb, 0x7f, 0xff, 0xff, 0xff, 0xff, 0xff, 0xff, 0xff}, // map 2^63-1
	{0x5b, 0x00, 0x00, 0x00, 0x01, 0x00, 0x00, 0x00, 0x00}, // bytes 2^32
	{0x7a, 0xff, 0xff, 0xff, 0xff},                         // text 2^32-1
	{0x9a, 0x00, 0x98, 0x96, 0x81},                         // array 10^7+1
	{0xba, 0x00, 0x98, 0x96, 0x81},                         // map 10^7+1
	{0x9f}, {0xbf}, {0x5f}, {0x7f}, {0xff},                 // indefinite lengths / break
	{0xc0}, {0xd8, 0x18}, {0xc2}, {0xc3},                   // tags
	{0xf9, 0x7e, 0x00}, {0xfb, 0x7f, 0xf0, 0, 0, 0, 0, 0, 0}, // floats
}

func mutateOnce(r *prng.R, b []byte) ([]byte, string) {
	if len(b) == 0 {
		return r.Bytes(1 + r.Intn(8)), "fill"
	}
	switch r.Intn(16) {
	case 0: // truncate tail
		return b[:r.Intn(len(b))], "trunc"
	case 1: // drop one byte at the end
		return b[:len(b)-1], "trunc1"
	case 2: // append garbage
		return append(b, r.Bytes(1+r.Intn(70))...), "extend"
	case 3: // flip a bit
		i := r.Intn(len(b))
		b[i] ^= 1 << uint(r.Intn(8))
		return b, "bitflip"
	case 4: // set a byte
		b[r.Intn(len(b))] = byte(r.U64())
		return b, "setbyte"
	case 5: // 16-bit little-endian field: interesting value
		if len(b) >= 2 {
			binary.LittleEndian.PutUint16(b[r.Intn(len(b)-1):], interesting16[r.Intn(len(interesting16))])
		}
		return b, "le16"
	case 6: // 16-bit field +-1
		if len(b) >= 2 {
			i := r.Intn(len(b) - 1)
			v := binary.LittleEndian.Uint16(b[i:])
			if r.Chance(50) {
				v++
			} else {
				v--
			}
			binary.LittleEndian.PutUint16(b[i:], v)
		}
		return b, "le16pm1"
	case 7: // 32-bit field
		if len(b) >= 4 {
			binary.LittleEndian.PutUint32(b[r.Intn(len(b)-3):], interesting32[r.Intn(len(interesting32))])
		}
		return b, "le32"
	case 8: // 32-bit field +-1
		if len(b) >= 4 {
			i := r.Intn(len(b) - 3)
			v := binary.LittleEndian.Uint32(b[i:])
			if r.Chance(50) {
				v++
			} else {
				v--
			}
			binary.LittleEndian.PutUint32(b[i:], v)
		}
		return b, "le32pm1"
	case 9: // first byte (kind / major type)
		b[0] = byte(r.Intn(6))
		if r.Chance(30) {
			b[0] = byte(r.U64())
		}
		return b, "kind"
	case 10: // delete a chunk
		i := r.Intn(len(b))
		j := i + 1 + r.Intn(min(len(b)-i, 40))
		return append(b[:i:i], b[j:]...), "delete"
	case 11: // duplicate a chunk (duplicate map keys, repeated entries)
		i := r.Intn(len(b))
		j := i + 1 + r.Intn(min(len(b)-i, 40))
		chunk := append([]byte{}, b[i:j]...)
		out := append(append(append([]byte{}, b[:j]...), chunk...), b[j:]...)
		return out, "dup"
	case 12: // insert a CBOR bomb / overwrite with one
		bomb := cborBombs[r.Intn(len(cborBombs))]
		i := r.Intn(len(b))
		if r.Chance(50) {
			out := append(append(append([]byte{}, b[:i]...), bomb...), b[i:]...)
			return out, "bomb-ins"
		}
		copy(b[i:], bomb)
		return b, "bomb-ovr"
	case 13: // big-endian length fields (CBOR, X.509, JSON numbers don't care)
		if len(b) >= 4 {
			binary.BigEndian.PutUint32(b[r.Intn(len(b)-3):], interesting32[r.Intn(len(interesting32))])
		}
		return b, "be32"
	case 14: // nest: wrap a prefix of 0x81 (array of 1) many times
		k := 1 + r.Intn(300)
		out := make([]byte, 0, len(b)+k)
		for i := 0; i < k; i++ {
			out = append(out, 0x81)
		}
		return append(out, b...), "nest"
	default: // splice random bytes over a window
		i := r.Intn(len(b))
		w := 1 + r.Intn(min(len(b)-i, 16))
		copy(b[i:i+w], r.Bytes(w))
		return b, "splice"
	}
}

// setLE writes an interesting value into the little-endian field at off.
func setLE(r *prng.R, b []byte, off, width int, actual uint64) ([]byte, string) {
	out := append([]byte{}, b...)
	if off+width > len(out) {
		return out, "nofield"
	}
	var v uint64
	var name string
	switch r.Intn(9) {
	case 7:
		v, name = actual+8, "+8"
	case 8:
		v, name = actual-8, "-8"
	case 0:
		v, name = 0, "0"
	case 1:
		v, name = actual+1, "+1"
	case 2:
		v, name = actual-1, "-1"
	case 3:
		v, name = ^uint64(0), "max"
	case 4:
		v, name = uint64(len(b)), "len"
	case 5:
		v, name = actual+uint64(r.Intn(300)), "+k"
	default:
		v, name = r.U64(), "rand"
		if width == 4 && r.Chance(50) {
			v, name = 0x7fffffff+uint64(r.Intn(3)), "2^31"
		}
	}
	if width == 2 {
		binary.LittleEndian.PutUint16(out[off:], uint16(v))
	} else {
		binary.LittleEndian.PutUint32(out[off:], uint32(v))
	}
	return out, name
}
