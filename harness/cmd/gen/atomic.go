package main

import (
	"fmt"
	"go/ast"
	"go/parser"
	"go/token"
	"os"
	"path/filepath"
	"sort"
	"strings"
)

// atomicconsts (C08): reads, with go/ast, the ORDER of the atomicity-relevant steps of the
// handlers ported in coq/Atomic/Handlers.v and writes it as event lists to
// coq/Gen/AtomicConsts.v. Events, in source order:
//
//	1 GAS      ctx.Gas().UseGas(..)
//	2 OPEN     ctx.NewTransaction()
//	3 COMMIT   ctx.Commit()
//	4 HWRITE   a mutating method (Set*/Remove*/ResumeRuntime/SuspendRuntime) on the `state` handle the
//	           handler RECEIVED (built from ctx.State() before the handler ran)
//	5 CWRITE   a write through something built from the current ctx: stakingState.AddStakeClaim(ctx,..),
//	           stakingState.RemoveStakeClaim(ctx,..), <cache>.Commit(), <wrapper>.Transfer(..)/Set*(..)
//	6 PUBLISH  app.md.Publish(ctx, ..)
//	7 CAPTURE  X.NewMutableState(ctx.State()) / NewStakeAccumulatorCache(ctx): a state wrapper is
//	           built from the ctx of THIS point (before or after NewTransaction matters)
//	8 RETERR   a return statement whose error result is not the literal nil
func init() { subs["atomicconsts"] = genAtomicConsts }

func selName(e ast.Expr) (recv string, name string) {
	if id, ok := e.(*ast.Ident); ok {
		return "", id.Name
	}
	se, ok := e.(*ast.SelectorExpr)
	if !ok {
		return "", ""
	}
	name = se.Sel.Name
	switch x := se.X.(type) {
	case *ast.Ident:
		recv = x.Name
	case *ast.SelectorExpr:
		_, r := selName(x)
		recv = r
	case *ast.CallExpr:
		_, r := selName(x.Fun)
		recv = r + "()"
	}
	return
}

func isCtxState(e ast.Expr) bool {
	c, ok := e.(*ast.CallExpr)
	if !ok {
		return false
	}
	r, n := selName(c.Fun)
	return r == "ctx" && n == "State"
}

func handlerEvents(fn *ast.FuncDecl) []int {
	var ev []int
	// stateRebuilt: the received handle variable `state` was re-assigned to a wrapper built from the
	// CURRENT ctx.State() (`state = X.NewMutableState(ctx.State())`): from then on writes through
	// `state` are writes through a ctx-built wrapper (5), not through the received handle (4).
	stateRebuilt := false
	ast.Inspect(fn.Body, func(n ast.Node) bool {
		switch x := n.(type) {
		case *ast.AssignStmt:
			if len(x.Lhs) == 1 && len(x.Rhs) == 1 && x.Tok == token.ASSIGN {
				if id, ok := x.Lhs[0].(*ast.Ident); ok && id.Name == "state" {
					if c, ok := x.Rhs[0].(*ast.CallExpr); ok {
						if _, name := selName(c.Fun); name == "NewMutableState" && len(c.Args) == 1 && isCtxState(c.Args[0]) {
							stateRebuilt = true
						}
					}
				}
			}
		case *ast.ReturnStmt:
			if len(x.Results) > 0 {
				last := x.Results[len(x.Results)-1]
				if id, ok := last.(*ast.Ident); !ok || id.Name != "nil" {
					ev = append(ev, 8)
				}
			}
		case *ast.CallExpr:
			recv, name := selName(x.Fun)
			switch {
			case name == "UseGas":
				ev = append(ev, 1)
			case recv == "ctx" && name == "NewTransaction":
				ev = append(ev, 2)
			case recv == "ctx" && name == "Commit":
				ev = append(ev, 3)
			case recv == "md" && name == "Publish":
				ev = append(ev, 6)
			case name == "NewMutableState" && len(x.Args) == 1 && isCtxState(x.Args[0]):
				ev = append(ev, 7)
			case name == "NewStakeAccumulatorCache":
				ev = append(ev, 7)
			case recv == "state" && (strings.HasPrefix(name, "Set") || strings.HasPrefix(name, "Create") || strings.HasPrefix(name, "Remove") || name == "ResumeRuntime" || name == "SuspendRuntime"):
				if stateRebuilt {
					ev = append(ev, 5)
				} else {
					ev = append(ev, 4)
				}
			case name == "onEvidenceRuntimeEquivocation":
				ev = append(ev, 5) // slashing.go:41-97: writes through wrappers built from the ctx it is given
			case recv == "stakingState" && (name == "AddStakeClaim" || name == "RemoveStakeClaim"):
				ev = append(ev, 5)
			case recv != "state" && recv != "ctx" && (name == "Transfer" || (name == "Commit" && recv != "") || strings.HasPrefix(name, "Set") && recv != "" && recv != "ctx"):
				// wrappers other than the received handle (st.Transfer, stakeAcc.Commit, ...)
				if name == "SetPriority" || name == "SetGasAccountant" {
					break
				}
				ev = append(ev, 5)
			}
		}
		return true
	})
	return ev
}

func genAtomicConsts() error {
	type target struct{ file, fn, coq string }
	targets := []target{
		{"go/consensus/cometbft/apps/registry/transactions.go", "registerEntity", "register_entity_events"},
		{"go/consensus/cometbft/apps/registry/transactions.go", "deregisterEntity", "deregister_entity_events"},
		{"go/consensus/cometbft/apps/registry/transactions.go", "registerNode", "register_node_events"},
		{"go/consensus/cometbft/apps/registry/transactions.go", "registerRuntime", "register_runtime_events"},
		{"go/consensus/cometbft/apps/roothash/transactions.go", "submitMsg", "submit_msg_events"},
		{"go/consensus/cometbft/apps/roothash/transactions.go", "submitEvidence", "submit_evidence_events"},
		{"go/consensus/cometbft/apps/staking/transactions.go", "addEscrow", "add_escrow_events"},
		{"go/consensus/cometbft/apps/staking/transactions.go", "reclaimEscrow", "reclaim_escrow_events"},
		{"go/consensus/cometbft/apps/staking/transactions.go", "allow", "allow_events"},
		{"go/consensus/cometbft/apps/staking/transactions.go", "withdraw", "withdraw_events"},
		{"go/consensus/cometbft/apps/vault/transactions.go", "create", "vault_create_events"},
		{"go/consensus/cometbft/apps/vault/transactions.go", "authorizeAction", "vault_authorize_events"},
		{"go/consensus/cometbft/apps/vault/transactions.go", "cancelAction", "vault_cancel_events"},
	}
	var sb strings.Builder
	sb.WriteString("(* GENERATED by harness/cmd/gen atomicconsts from the registry and roothash transactions.go -- do not edit.\n")
	sb.WriteString("   1 GAS 2 OPEN(NewTransaction) 3 COMMIT 4 HWRITE(received handle) 5 CWRITE(ctx-built wrapper)\n   6 PUBLISH 7 CAPTURE(wrapper built from ctx.State() here) 8 RETERR *)\n")
	sb.WriteString("From Coq Require Import NArith List.\nImport ListNotations.\nOpen Scope N_scope.\n")
	parsed := map[string]*ast.File{}
	for _, t := range targets {
		f := parsed[t.file]
		if f == nil {
			var err error
			f, err = parser.ParseFile(token.NewFileSet(), filepath.Join(repo, t.file), nil, 0)
			if err != nil {
				return err
			}
			parsed[t.file] = f
		}
		var fn *ast.FuncDecl
		for _, d := range f.Decls {
			if fd, ok := d.(*ast.FuncDecl); ok && fd.Name.Name == t.fn && fd.Recv != nil {
				fn = fd
			}
		}
		if fn == nil {
			return fmt.Errorf("%s: function %s not found", t.file, t.fn)
		}
		var items []string
		for _, e := range handlerEvents(fn) {
			items = append(items, fmt.Sprint(e))
		}
		fmt.Fprintf(&sb, "Definition %s : list N := [%s].\n", t.coq, strings.Join(items, "; "))
	}
	// processTx of the multiplexer: order of routing, authentication, size gas, minimum gas price,
	// handler, post-execution hook (21 resolveAppForMethod, 22 AuthenticateTx, 1 UseGas,
	// 23 Fee.GasPrice(), 24 ExecuteTx, 25 PostExecuteTx)
	{
		f, err := parser.ParseFile(token.NewFileSet(), filepath.Join(repo, "go/consensus/cometbft/abci/transaction.go"), nil, 0)
		if err != nil {
			return err
		}
		var steps []string
		for _, d := range f.Decls {
			fd, ok := d.(*ast.FuncDecl)
			if !ok || fd.Name.Name != "processTx" {
				continue
			}
			ast.Inspect(fd.Body, func(n ast.Node) bool {
				if c, ok := n.(*ast.CallExpr); ok {
					_, name := selName(c.Fun)
					switch name {
					case "resolveAppForMethod":
						steps = append(steps, "21")
					case "AuthenticateTx":
						steps = append(steps, "22")
					case "UseGas":
						steps = append(steps, "1")
					case "GasPrice":
						steps = append(steps, "23")
					case "ExecuteTx":
						steps = append(steps, "24")
					case "PostExecuteTx":
						steps = append(steps, "25")
					}
				}
				return true
			})
		}
		if len(steps) == 0 {
			return fmt.Errorf("abci/transaction.go: processTx not found")
		}
		fmt.Fprintf(&sb, "Definition process_tx_steps : list N := [%s].\n", strings.Join(steps, "; "))
	}
	ms, err := txMethods()
	if err != nil {
		return err
	}
	sb.WriteString("From Coq Require Import String.\nLocal Open Scope string_scope.\n")
	sb.WriteString("(* every `case <pkg>.MethodX:` of every ExecuteTx under go/consensus/cometbft/apps -> handler function *)\n")
	var items []string
	for _, m := range ms {
		items = append(items, fmt.Sprintf("(%q, %q)", m[0], m[1]))
	}
	fmt.Fprintf(&sb, "Definition all_tx_methods : list (string * string) :=\n  [%s].\n", strings.Join(items, ";\n   "))
	pubs, subsc, err := publishSites()
	if err != nil {
		return err
	}
	sb.WriteString("(* every md.Publish call under go/consensus/cometbft/apps: (app, enclosing function, message kind) *)\n")
	items = nil
	for _, p := range pubs {
		items = append(items, fmt.Sprintf("(%q, %q, %q)", p[0], p[1], p[2]))
	}
	fmt.Fprintf(&sb, "Definition all_publishes : list (string * string * string) :=\n  [%s].\n", strings.Join(items, ";\n   "))
	sb.WriteString("(* every md.Subscribe call: (message kind, subscribing app) *)\n")
	items = nil
	for _, p := range subsc {
		items = append(items, fmt.Sprintf("(%q, %q)", p[0], p[1]))
	}
	fmt.Fprintf(&sb, "Definition all_subscriptions : list (string * string) :=\n  [%s].\n", strings.Join(items, ";\n   "))
	writeIfChanged("AtomicConsts.v", []byte(sb.String()))
	return nil
}

// txMethods enumerates ALL transaction handlers of all consensus apps: every function named
// ExecuteTx under go/consensus/cometbft/apps (non-test files) is searched for `case <pkg>.MethodX:`
// clauses of a switch; the handler is the first method called on a receiver-like identifier
// (app / ext / ...) inside the clause. Result: sorted "pkg.MethodX" -> handler function name.
func txMethods() ([][2]string, error) {
	root := filepath.Join(repo, "go/consensus/cometbft/apps")
	var out [][2]string
	seen := map[string]bool{}
	err := filepath.Walk(root, func(path string, info os.FileInfo, err error) error {
		if err != nil || info.IsDir() || !strings.HasSuffix(path, ".go") || strings.HasSuffix(path, "_test.go") {
			return err
		}
		f, err := parser.ParseFile(token.NewFileSet(), path, nil, 0)
		if err != nil {
			return err
		}
		for _, d := range f.Decls {
			fd, ok := d.(*ast.FuncDecl)
			if !ok || fd.Name.Name != "ExecuteTx" || fd.Body == nil {
				continue
			}
			ast.Inspect(fd.Body, func(n ast.Node) bool {
				cc, ok := n.(*ast.CaseClause)
				if !ok {
					return true
				}
				for _, e := range cc.List {
					se, ok := e.(*ast.SelectorExpr)
					if !ok || !strings.HasPrefix(se.Sel.Name, "Method") {
						continue
					}
					pkg, _ := se.X.(*ast.Ident)
					if pkg == nil {
						continue
					}
					handler := ""
					for _, st := range cc.Body {
						ast.Inspect(st, func(m ast.Node) bool {
							if handler != "" {
								return false
							}
							if c, ok := m.(*ast.CallExpr); ok {
								if s2, ok := c.Fun.(*ast.SelectorExpr); ok {
									if id, ok := s2.X.(*ast.Ident); ok && (id.Name == "app" || id.Name == "ext" || id.Name == "a" || id.Name == "e") {
										handler = s2.Sel.Name
										return false
									}
								}
							}
							return true
						})
					}
					key := pkg.Name + "." + se.Sel.Name
					if !seen[key] {
						seen[key] = true
						out = append(out, [2]string{key, handler})
					}
				}
				return true
			})
		}
		return nil
	})
	sort.Slice(out, func(i, j int) bool { return out[i][0] < out[j][0] })
	return out, err
}

// publishSites enumerates every md.Publish call (app, enclosing function, message kind) and every
// md.Subscribe call (message kind, subscribing app) under go/consensus/cometbft/apps.
func publishSites() (pubs [][3]string, subsc [][2]string, err error) {
	root := filepath.Join(repo, "go/consensus/cometbft/apps")
	err = filepath.Walk(root, func(path string, info os.FileInfo, err error) error {
		if err != nil || info.IsDir() || !strings.HasSuffix(path, ".go") || strings.HasSuffix(path, "_test.go") {
			return err
		}
		rel, _ := filepath.Rel(root, filepath.Dir(path))
		f, err := parser.ParseFile(token.NewFileSet(), path, nil, 0)
		if err != nil {
			return err
		}
		for _, d := range f.Decls {
			fd, ok := d.(*ast.FuncDecl)
			if !ok || fd.Body == nil {
				continue
			}
			ast.Inspect(fd.Body, func(n ast.Node) bool {
				c, ok := n.(*ast.CallExpr)
				if !ok {
					return true
				}
				recv, name := selName(c.Fun)
				kindOf := func(e ast.Expr) string {
					if se, ok := e.(*ast.SelectorExpr); ok {
						return se.Sel.Name
					}
					if id, ok := e.(*ast.Ident); ok {
						return id.Name
					}
					return "?"
				}
				if recv == "md" && name == "Publish" && len(c.Args) == 2 {
					kind := "?"
					if cl, ok := c.Args[1].(*ast.CompositeLit); ok {
						for _, el := range cl.Elts {
							if kv, ok := el.(*ast.KeyValueExpr); ok {
								if k, ok := kv.Key.(*ast.Ident); ok && k.Name == "Kind" {
									kind = kindOf(kv.Value)
								}
							}
						}
					}
					pubs = append(pubs, [3]string{rel, fd.Name.Name, kind})
				}
				if recv == "md" && name == "Subscribe" && len(c.Args) == 2 {
					subsc = append(subsc, [2]string{kindOf(c.Args[0]), rel})
				}
				return true
			})
		}
		return nil
	})
	sort.Slice(pubs, func(i, j int) bool { return fmt.Sprint(pubs[i]) < fmt.Sprint(pubs[j]) })
	sort.Slice(subsc, func(i, j int) bool { return fmt.Sprint(subsc[i]) < fmt.Sprint(subsc[j]) })
	return
}
