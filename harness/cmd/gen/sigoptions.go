package main

import (
	"fmt"
	"go/ast"
	"go/parser"
	"go/token"
	"os"
	"path/filepath"
	"sort"
	"strings"
)

func init() { subs["sigoptions"] = genSigOptions }

// genSigOptions writes coq/Gen/SigOptions.v from the non-test files of
// go/common/crypto/signature:
//   - the booleans of the single ed25519.VerifyOptions literal (missing field = false),
//   - every other field set in an ed25519.Options / ed25519.VerifyOptions literal
//     (Hash, Context, CofactorlessVerify, ZIP215Verify ...) as "literal-field" strings,
//   - every VerifyWithOptions / AddWithOptions call whose options argument is not the
//     identifier the literal is assigned to, every plain ed25519.Verify* call and every
//     use of a predefined ed25519.VerifyOptions* value (verification that bypasses the literal).
func genSigOptions() error {
	dir := filepath.Join(repo, "go/common/crypto/signature")
	ents, err := os.ReadDir(dir)
	if err != nil {
		return err
	}
	fset := token.NewFileSet()
	vals := map[string]bool{"AllowSmallOrderA": false, "AllowSmallOrderR": false, "AllowNonCanonicalA": false, "AllowNonCanonicalR": false}
	nLit := 0
	optVar := ""
	var other, bypass []string
	isEd := func(e ast.Expr, name string) bool {
		se, ok := e.(*ast.SelectorExpr)
		if !ok || se.Sel.Name != name {
			return false
		}
		id, ok := se.X.(*ast.Ident)
		return ok && id.Name == "ed25519"
	}
	type parsed struct {
		rel string
		f   *ast.File
	}
	var files []parsed
	for _, e := range ents {
		n := e.Name()
		if e.IsDir() || !strings.HasSuffix(n, ".go") || strings.HasSuffix(n, "_test.go") || n == "export_verif.go" {
			continue
		}
		f, err := parser.ParseFile(fset, filepath.Join(dir, n), nil, 0)
		if err != nil {
			return err
		}
		files = append(files, parsed{n, f})
	}
	var ferr error
	// pass 1: the literals
	for _, pf := range files {
		ast.Inspect(pf.f, func(n ast.Node) bool {
			switch x := n.(type) {
			case *ast.ValueSpec:
				for i, v := range x.Values {
					if ue, ok := v.(*ast.UnaryExpr); ok {
						v = ue.X
					}
					if cl, ok := v.(*ast.CompositeLit); ok && isEd(cl.Type, "Options") && i < len(x.Names) {
						optVar = x.Names[i].Name
					}
				}
			case *ast.CompositeLit:
				switch {
				case isEd(x.Type, "VerifyOptions"):
					nLit++
					for _, el := range x.Elts {
						kv, ok := el.(*ast.KeyValueExpr)
						if !ok {
							ferr = fmt.Errorf("%s: positional VerifyOptions literal", pf.rel)
							return false
						}
						k := kv.Key.(*ast.Ident).Name
						if _, known := vals[k]; known {
							id, ok := kv.Value.(*ast.Ident)
							if !ok || (id.Name != "true" && id.Name != "false") {
								ferr = fmt.Errorf("%s: VerifyOptions.%s is not a boolean literal", pf.rel, k)
								return false
							}
							vals[k] = id.Name == "true"
						} else {
							other = append(other, "VerifyOptions."+k)
						}
					}
				case isEd(x.Type, "Options"):
					for _, el := range x.Elts {
						if kv, ok := el.(*ast.KeyValueExpr); ok {
							if k := kv.Key.(*ast.Ident).Name; k != "Verify" {
								other = append(other, "Options."+k)
							}
						} else {
							other = append(other, "Options.<positional>")
						}
					}
				}
			}
			return true
		})
	}
	if ferr != nil {
		return ferr
	}
	// pass 2: verification calls that do not go through the literal
	for _, pf := range files {
		ast.Inspect(pf.f, func(n ast.Node) bool {
			switch x := n.(type) {
			case *ast.CallExpr:
				se, ok := x.Fun.(*ast.SelectorExpr)
				if !ok {
					return true
				}
				name := se.Sel.Name
				pos := fset.Position(x.Pos())
				where := fmt.Sprintf("%s:%d:%s", pf.rel, pos.Line, name)
				switch {
				case name == "VerifyWithOptions" || name == "AddWithOptions":
					last := x.Args[len(x.Args)-1]
					if id, ok := last.(*ast.Ident); !ok || id.Name != optVar {
						bypass = append(bypass, where)
					}
				case isEd(x.Fun, "Verify") || isEd(x.Fun, "VerifyBatch") || name == "Verify" && isEd(se.X, "ed25519"):
					bypass = append(bypass, where)
				case name == "Add" || name == "AddWithoutOptions":
					// BatchVerifier.Add(pk, msg, sig) uses library defaults
					if len(x.Args) == 3 || len(x.Args) == 4 {
						if id, ok := se.X.(*ast.Ident); ok && (id.Name == "cachingVerifier" || strings.Contains(strings.ToLower(id.Name), "verifier")) && name == "Add" && len(x.Args) >= 3 {
							if _, isErr := x.Args[0].(*ast.Ident); !isErr || len(x.Args) > 1 {
								bypass = append(bypass, where)
							}
						}
					}
				}
			case *ast.SelectorExpr:
				if id, ok := x.X.(*ast.Ident); ok && id.Name == "ed25519" && strings.HasPrefix(x.Sel.Name, "VerifyOptions") && x.Sel.Name != "VerifyOptions" {
					pos := fset.Position(x.Pos())
					bypass = append(bypass, fmt.Sprintf("%s:%d:%s", pf.rel, pos.Line, x.Sel.Name))
				}
			}
			return true
		})
	}
	if nLit != 1 || optVar == "" {
		return fmt.Errorf("expected exactly one ed25519.VerifyOptions literal inside an ed25519.Options variable in go/common/crypto/signature, found %d (variable %q)", nLit, optVar)
	}
	sort.Strings(other)
	sort.Strings(bypass)
	b := func(v bool) string {
		if v {
			return "true"
		}
		return "false"
	}
	strs := func(l []string) string {
		var q []string
		for _, s := range l {
			q = append(q, fmt.Sprintf("%q", s))
		}
		return "[" + strings.Join(q, "; ") + "]"
	}
	var sb strings.Builder
	sb.WriteString("(* GENERATED by harness/cmd/gen sigoptions from go/common/crypto/signature/*.go -- do not edit *)\n")
	sb.WriteString("From Coq Require Import String List.\nImport ListNotations.\n")
	fmt.Fprintf(&sb, "(* the ed25519.VerifyOptions literal of variable %s *)\n", optVar)
	fmt.Fprintf(&sb, "Definition allow_small_order_A : bool := %s.\n", b(vals["AllowSmallOrderA"]))
	fmt.Fprintf(&sb, "Definition allow_small_order_R : bool := %s.\n", b(vals["AllowSmallOrderR"]))
	fmt.Fprintf(&sb, "Definition allow_noncanonical_A : bool := %s.\n", b(vals["AllowNonCanonicalA"]))
	fmt.Fprintf(&sb, "Definition allow_noncanonical_R : bool := %s.\n", b(vals["AllowNonCanonicalR"]))
	sb.WriteString("(* any other field set in the Options / VerifyOptions literals (Hash, Context, CofactorlessVerify ...) *)\n")
	fmt.Fprintf(&sb, "Definition other_option_fields : list string := %s%%string.\n", strs(other))
	sb.WriteString("(* verification calls that do not pass that variable, or use library defaults / predefined option sets *)\n")
	fmt.Fprintf(&sb, "Definition verification_bypassing_options : list string := %s%%string.\n", strs(bypass))
	writeIfChanged("SigOptions.v", []byte(sb.String()))
	return nil
}
