package main

import (
	"fmt"
	"go/ast"
	"go/parser"
	"go/token"
	"io/fs"
	"os"
	"path/filepath"
	"sort"
	"strings"
)

func init() { subs["noncewriters"] = genNonceWriters }

// genNonceWriters writes coq/Gen/NonceWriters.v: every syntactic site in the
// non-test Go sources that can write the nonce of a staking general account:
//
//	incdec   x.General.Nonce++ / --
//	assign   x.General.Nonce = / += ...
//	general  x.General = <anything that is not a GeneralAccount literal>  (replaces the whole struct)
//	literal  GeneralAccount{..., Nonce: ..., ...}
//
// as "file:function:kind" strings, sorted. A theorem (reflexivity) pins the
// list, so a second writer of account nonces breaks a proof obligation.
// Purely syntactic: writes through a pointer alias (p := &x.General; p.Nonce++)
// are not seen.
func genNonceWriters() error {
	root := filepath.Join(repo, "go")
	fset := token.NewFileSet()
	var sites []string
	var recs []string // writers / deleters of whole account records
	isGeneralSel := func(e ast.Expr) bool {
		se, ok := e.(*ast.SelectorExpr)
		return ok && se.Sel.Name == "General"
	}
	isNonceOfGeneral := func(e ast.Expr) bool {
		se, ok := e.(*ast.SelectorExpr)
		return ok && se.Sel.Name == "Nonce" && isGeneralSel(se.X)
	}
	isGeneralAccountType := func(e ast.Expr) bool {
		switch t := e.(type) {
		case *ast.Ident:
			return t.Name == "GeneralAccount"
		case *ast.SelectorExpr:
			return t.Sel.Name == "GeneralAccount"
		}
		return false
	}
	err := filepath.WalkDir(root, func(path string, d fs.DirEntry, err error) error {
		if err != nil {
			return err
		}
		if d.IsDir() {
			n := d.Name()
			if n == "testdata" || n == "vendor" || strings.HasPrefix(n, ".") {
				return filepath.SkipDir
			}
			return nil
		}
		if !strings.HasSuffix(path, ".go") || strings.HasSuffix(path, "_test.go") {
			return nil
		}
		src, err := os.ReadFile(path)
		if err != nil {
			return err
		}
		s := string(src)
		if !strings.Contains(s, "Nonce") && !strings.Contains(s, ".General") && !strings.Contains(s, "accountKeyFmt") && !strings.Contains(s, "SetAccount") {
			return nil
		}
		rel, _ := filepath.Rel(repo, path)
		rel = filepath.ToSlash(rel)
		f, err := parser.ParseFile(fset, path, src, 0)
		if err != nil {
			return err
		}
		for _, dd := range f.Decls {
			fn := "(package level)"
			var body ast.Node = dd
			if fd, ok := dd.(*ast.FuncDecl); ok {
				fn = fd.Name.Name
				if fd.Body == nil {
					continue
				}
			}
			add := func(kind string) { sites = append(sites, rel+":"+fn+":"+kind) }
			ast.Inspect(body, func(n ast.Node) bool {
				switch x := n.(type) {
				case *ast.IncDecStmt:
					if isNonceOfGeneral(x.X) {
						add("incdec")
					}
				case *ast.AssignStmt:
					for i, l := range x.Lhs {
						if isNonceOfGeneral(l) {
							add("assign")
						}
						if isGeneralSel(l) {
							lit := false
							if i < len(x.Rhs) {
								if cl, ok := x.Rhs[i].(*ast.CompositeLit); ok && isGeneralAccountType(cl.Type) {
									lit = true // judged by its Nonce field below
								}
							}
							if !lit {
								add("general")
							}
						}
					}
				case *ast.CallExpr:
					// (a) raw store operations on the account key format: X.Insert/Remove/...(ctx, accountKeyFmt.Encode(..), ..)
					// (b) SetAccount(ctx, addr, <Account literal>): a fresh struct replaces the record
					if se, ok := x.Fun.(*ast.SelectorExpr); ok {
						usesAccountKey := false
						for _, a := range x.Args {
							ast.Inspect(a, func(m ast.Node) bool {
								if c, ok := m.(*ast.CallExpr); ok {
									if s2, ok := c.Fun.(*ast.SelectorExpr); ok && s2.Sel.Name == "Encode" {
										if id, ok := s2.X.(*ast.Ident); ok && id.Name == "accountKeyFmt" {
											usesAccountKey = true
										}
									}
								}
								return true
							})
						}
						name := se.Sel.Name
						if usesAccountKey && name != "Get" && name != "Seek" && name != "Decode" {
							recs = append(recs, rel+":"+fn+":"+name)
						}
						if name == "SetAccount" && len(x.Args) > 0 {
							last := x.Args[len(x.Args)-1]
							if ue, ok := last.(*ast.UnaryExpr); ok {
								last = ue.X
							}
							if cl, ok := last.(*ast.CompositeLit); ok {
								isAcc := false
								switch t := cl.Type.(type) {
								case *ast.Ident:
									isAcc = t.Name == "Account"
								case *ast.SelectorExpr:
									isAcc = t.Sel.Name == "Account"
								}
								if isAcc {
									recs = append(recs, rel+":"+fn+":SetAccount(literal)")
								}
							}
						}
					}
				case *ast.CompositeLit:
					if isGeneralAccountType(x.Type) {
						for _, el := range x.Elts {
							if kv, ok := el.(*ast.KeyValueExpr); ok {
								if id, ok := kv.Key.(*ast.Ident); ok && id.Name == "Nonce" {
									add("literal")
								}
							} else {
								add("literal") // positional literal sets every field
								break
							}
						}
					}
				}
				return true
			})
		}
		return nil
	})
	if err != nil {
		return err
	}
	sort.Strings(sites)
	var sb strings.Builder
	sb.WriteString("(* GENERATED by harness/cmd/gen noncewriters from the non-test sources under go/ -- do not edit *)\n")
	sb.WriteString("From Coq Require Import String List.\nImport ListNotations.\nOpen Scope string_scope.\n")
	sb.WriteString("(* every syntactic write of a staking general-account nonce: file:function:kind *)\n")
	sb.WriteString("Definition nonce_writers : list string := [\n")
	for i, s := range sites {
		end := ";"
		if i == len(sites)-1 {
			end = ""
		}
		fmt.Fprintf(&sb, "  %q%s\n", s, end)
	}
	sb.WriteString("].\n")
	sort.Strings(recs)
	sb.WriteString("(* every site that writes or DELETES a whole account record: raw store operations on the\n   account key format, and SetAccount with a fresh Account literal (a missing record reads as the\n   zero account, so a deletion is a nonce write to 0): file:function:operation *)\n")
	sb.WriteString("Definition account_record_writers : list string := [\n")
	for i, s := range recs {
		end := ";"
		if i == len(recs)-1 {
			end = ""
		}
		fmt.Fprintf(&sb, "  %q%s\n", s, end)
	}
	sb.WriteString("].\n")
	writeIfChanged("NonceWriters.v", []byte(sb.String()))
	return nil
}
