// Command gen regenerates coq/Gen/*.v from the current source tree (G): the
// literal constants and tables that theorems depend on are read from the Go
// source (go/ast) or from the imported packages and written as Coq
// definitions, so that a changed constant changes the proof obligations.
package main

import (
	"bytes"
	"flag"
	"fmt"
	"os"
	"path/filepath"
)

var repo, outDir string

// writeIfChanged keeps timestamps stable so that make stays incremental.
func writeIfChanged(name string, content []byte) {
	p := filepath.Join(outDir, name)
	old, err := os.ReadFile(p)
	if err == nil && bytes.Equal(old, content) {
		fmt.Printf("%s unchanged\n", name)
		return
	}
	if err := os.WriteFile(p, content, 0o644); err != nil {
		fmt.Fprintln(os.Stderr, err)
		os.Exit(1)
	}
	fmt.Printf("%s rewritten\n", name)
}

var subs = map[string]func() error{}

func main() {
	flag.StringVar(&repo, "repo", "/repo", "repository root")
	flag.StringVar(&outDir, "out", "/verif/coq/Gen", "output directory")
	flag.Parse()
	_ = os.MkdirAll(outDir, 0o755)
	for _, s := range flag.Args() {
		f, ok := subs[s]
		if !ok {
			fmt.Fprintf(os.Stderr, "unknown generator %q\n", s)
			os.Exit(2)
		}
		if err := f(); err != nil {
			fmt.Fprintf(os.Stderr, "generator %s: %v\n", s, err)
			os.Exit(1)
		}
	}
}
