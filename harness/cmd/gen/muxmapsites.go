package main

// Generator "muxmapsites" (C01): an EXHAUSTIVE, type-checked enumeration of the sources of
// replica-local nondeterminism in the packages that execute inside block processing:
//
//   - every `for ... range m` where m has a map type, and every call of maps.Keys /
//     maps.Values / maps.All (iteration order of Go maps is randomised);
//   - time.Now / time.Since / time.Until, math/rand and crypto/rand uses, `go` statements,
//     `select` statements, os.Getenv / os.Hostname / os.Environ, reads of the node-local
//     configuration (config.GlobalConfig, viper.Get*).
//
// Packages are loaded with golang.org/x/tools/go/packages (go list + export data, offline),
// so "map-typed" is decided by go/types, not by name. Every site is identified by
// (file, enclosing function, kind, hash of the statement text) and looked up in the reviewed
// table coq/Abci/mapsites_reviewed.json (kept by hand). coq/Gen/MuxMapSites.v lists all
// sites with their reviewed class; a site that is not in the table, or whose statement text
// changed, gets the class Unreviewed, and the obligation [all_sites_reviewed] in
// Abci/MapSitesProofs.v (forallb reviewed = true, by computation) fails.
//
// With -out DIR the generator also writes DIR/MuxMapSites.sites.json (all sites with their
// text) to make reviewing new sites easy.

import (
	"bytes"
	"crypto/sha256"
	"encoding/hex"
	"encoding/json"
	"fmt"
	"go/ast"
	"go/printer"
	"go/token"
	"go/types"
	"os"
	"path/filepath"
	"sort"
	"strings"

	"golang.org/x/tools/go/packages"
)

func init() { subs["muxmapsites"] = genMuxMapSites }

var muxExecPackages = []string{
	"./consensus/cometbft/abci",
	"./consensus/cometbft/api",
	"./consensus/cometbft/apps/...",
	"./consensus/api/transaction",
	"./staking/api/...",
	"./registry/api/...",
	"./roothash/api/...",
	"./scheduler/api/...",
	"./governance/api/...",
	"./beacon/api/...",
	"./keymanager/api/...",
	"./keymanager/secrets/...",
	"./keymanager/churp/...",
	"./vault/api/...",
	"./upgrade/migrations",
	"./common/node",
	"./common/entity",
	"./common/quantity",
}

// methods of api.ApplicationState / ApplicationQueryState (and fields of abci.applicationState)
// that expose node-LOCAL, non-consensus data. The remaining methods are derived from
// consensus state: InitialHeight, StateRootHash, ConsensusParameters, BlockContext,
// GetBaseEpoch, GetCurrentEpoch, EpochChanged, LastHeight, GetEpoch, NewContext.
var nodeLocalMethods = map[string]bool{
	"Upgrader": true, "LocalMinGasPrice": true, "OwnTxSigner": true, "OwnTxSignerAddress": true,
	"Checkpointer": true, "LastRetainedVersion": true, "shouldLocalHalt": true,
}

var nodeLocalFields = map[string]bool{
	"minGasPrice": true, "ownTxSigner": true, "ownTxSignerAddress": true, "identity": true,
	"haltEpoch": true, "haltHeight": true, "upgrader": true, "statePruner": true, "checkpointer": true,
}

type mapSite struct {
	File  string `json:"file"`
	Func  string `json:"func"`
	Kind  string `json:"kind"`
	Hash  string `json:"hash"`
	Line  int    `json:"line"`
	Text  string `json:"text,omitempty"`
	Class string `json:"class,omitempty"`
	Why   string `json:"why,omitempty"`
}

type reviewedEntry struct {
	File  string `json:"file"`
	Func  string `json:"func"`
	Kind  string `json:"kind"`
	Hash  string `json:"hash"`
	Class string `json:"class"`
	Why   string `json:"why"`
}

var siteClasses = map[string]bool{
	"SortedBeforeUse":  true, // the keys/entries are sorted before any order-sensitive use
	"OrderInsensitive": true, // commutative accumulation: sum, count, set/map insert by key, max/min, all/any, per-key independent writes
	"ErrorOnly":        true, // order only selects WHICH error is returned / logged; the outcome (failure) is the same
	"NotInExecPath":    true, // not reachable from InitChain/BeginBlock/DeliverTx/EndBlock/Commit (client side, queries, genesis export, pretty printing, tests helpers)
	"LocalOnly":        true, // node-local by design and not feeding state, events or results (CheckTx-only, metrics, logging, pruning, halt hooks)
	"UnsafeDebugFlag":  true, // reads the process-wide unsafe debug flag (debug.dont_blame_oasis) inside consensus-relevant code: replicas agree only if they agree on the flag; documented as never to be set in production
	"LoggedOnly":       true, // node-local read/call whose result is only logged (or discarded): it cannot flow into state, events or results (lemma exec_block_ignores_local_oracle)
	"HaltsNode":        true, // node-local result can only stop this node (ErrStopForUpgrade / panic before anything is committed); it never changes what a node that keeps running computes
	"PanicToReject":    true, // recover() handler that turns a panic during proposal execution into an empty proposal / REJECT and RESETS the proposal cache (model: StaleAborted, aborted_round_harmless)
	"Deterministic":    true, // (non-map kinds) value is consensus-determined despite the API used (e.g. rand seeded from the beacon)
}

func nodeText(fset *token.FileSet, n ast.Node) string {
	var buf bytes.Buffer
	_ = printer.Fprint(&buf, fset, n)
	return buf.String()
}

func hashText(s string) string {
	h := sha256.Sum256([]byte(s))
	return hex.EncodeToString(h[:6])
}

func funcName(fd *ast.FuncDecl) string {
	if fd.Recv != nil && len(fd.Recv.List) > 0 {
		t := fd.Recv.List[0].Type
		if st, ok := t.(*ast.StarExpr); ok {
			t = st.X
		}
		if ix, ok := t.(*ast.IndexExpr); ok {
			t = ix.X
		}
		if id, ok := t.(*ast.Ident); ok {
			return id.Name + "." + fd.Name.Name
		}
	}
	return fd.Name.Name
}

func genMuxMapSites() error {
	goBin := os.Getenv("GO")
	if goBin != "" {
		// go/packages looks "go" up in this process's PATH
		_ = os.Setenv("PATH", filepath.Dir(goBin)+string(os.PathListSeparator)+os.Getenv("PATH"))
	}
	env := os.Environ()
	env = append(env, "GOFLAGS=-mod=readonly", "GOPROXY=off", "GOSUMDB=off", "GOTOOLCHAIN=local")
	cfg := &packages.Config{
		Mode: packages.NeedName | packages.NeedFiles | packages.NeedCompiledGoFiles | packages.NeedSyntax |
			packages.NeedTypes | packages.NeedTypesInfo | packages.NeedImports,
		Dir: filepath.Join(repo, "go"),
		Env: env,
	}
	pkgs, err := packages.Load(cfg, muxExecPackages...)
	if err != nil {
		return fmt.Errorf("packages.Load: %w", err)
	}
	var sites []mapSite
	nerr := 0
	for _, p := range pkgs {
		for _, e := range p.Errors {
			nerr++
			if nerr <= 5 {
				fmt.Fprintln(os.Stderr, "load error:", e)
			}
		}
		for i, f := range p.Syntax {
			fn := p.CompiledGoFiles[i]
			if strings.HasSuffix(fn, "_test.go") || strings.HasSuffix(fn, "export_verif.go") {
				continue
			}
			rel, _ := filepath.Rel(repo, fn)
			add := func(fd *ast.FuncDecl, kind string, n ast.Node) {
				txt := nodeText(p.Fset, n)
				sites = append(sites, mapSite{File: rel, Func: funcName(fd), Kind: kind, Hash: hashText(txt), Line: p.Fset.Position(n.Pos()).Line, Text: txt})
			}
			for _, d := range f.Decls {
				fd, ok := d.(*ast.FuncDecl)
				if !ok || fd.Body == nil {
					continue
				}
				// statements enclosing a node, to give call sites a stable text
				var stack []ast.Node
				enclosingStmt := func() ast.Node {
					for i := len(stack) - 1; i >= 0; i-- {
						if s, ok := stack[i].(ast.Stmt); ok {
							if _, isBlock := s.(*ast.BlockStmt); !isBlock {
								return s
							}
						}
					}
					return nil
				}
				// like enclosingStmt, but when the statement is the Init of an if/switch (or the call is in
				// its condition), the whole if/switch with its body: what is DONE with the result matters
				enclosingStmtWithBody := func() ast.Node {
					var inner ast.Stmt
					for i := len(stack) - 1; i >= 0; i-- {
						st, ok := stack[i].(ast.Stmt)
						if !ok {
							continue
						}
						if _, isBlock := st.(*ast.BlockStmt); isBlock {
							if inner != nil {
								return inner
							}
							continue
						}
						if inner == nil {
							inner = st
							switch st.(type) {
							case *ast.IfStmt, *ast.SwitchStmt, *ast.TypeSwitchStmt:
								return st
							}
							continue
						}
						switch o := st.(type) {
						case *ast.IfStmt:
							if o.Init == inner {
								return o
							}
						case *ast.SwitchStmt:
							if o.Init == inner {
								return o
							}
						}
						return inner
					}
					return inner
				}
				ast.Inspect(fd.Body, func(n ast.Node) bool {
					if n == nil {
						stack = stack[:len(stack)-1]
						return true
					}
					switch x := n.(type) {
					case *ast.RangeStmt:
						if t := p.TypesInfo.TypeOf(x.X); t != nil {
							if _, ok := t.Underlying().(*types.Map); ok {
								add(fd, "range-map", x)
							}
						}
					case *ast.GoStmt:
						add(fd, "go-stmt", x)
					case *ast.SelectStmt:
						add(fd, "select", x)
					case *ast.CallExpr:
						if id, ok := x.Fun.(*ast.Ident); ok && id.Name == "recover" {
							if _, isBuiltin := p.TypesInfo.Uses[id].(*types.Builtin); isBuiltin {
								// the whole deferred handler: what it does after recovering matters
								var n2 ast.Node = x
								for i := len(stack) - 1; i >= 0; i-- {
									if d, ok := stack[i].(*ast.DeferStmt); ok {
										n2 = d
										break
									}
								}
								add(fd, "recover", n2)
							}
						}
						if se, ok := x.Fun.(*ast.SelectorExpr); ok {
							if id, ok := se.X.(*ast.Ident); ok {
								if pn, ok := p.TypesInfo.Uses[id].(*types.PkgName); ok {
									path, name := pn.Imported().Path(), se.Sel.Name
									kind := ""
									switch {
									case (path == "maps" || path == "golang.org/x/exp/maps") && (name == "Keys" || name == "Values" || name == "All"):
										kind = "maps." + name
									case path == "time" && (name == "Now" || name == "Since" || name == "Until"):
										kind = "time." + name
									case path == "math/rand" || path == "math/rand/v2":
										kind = "math/rand." + name
									case path == "crypto/rand":
										kind = "crypto/rand." + name
									case path == "os" && (name == "Getenv" || name == "Hostname" || name == "Environ" || name == "LookupEnv"):
										kind = "os." + name
									case path == "github.com/spf13/viper" && strings.HasPrefix(name, "Get"):
										kind = "viper." + name
									case strings.HasSuffix(path, "/oasis-node/cmd/common/flags"):
										kind = "flags." + name // process-wide command line / debug flags
									case strings.HasSuffix(path, "/oasis-core/go/config"):
										kind = "config." + name
									}
									if kind != "" {
										st := enclosingStmt()
										if st == nil {
											st = x
										}
										add(fd, kind, st)
									}
								}
							}
						}
					case *ast.SelectorExpr:
						if sel := p.TypesInfo.Selections[x]; sel != nil {
							rt := sel.Recv()
							if pt, ok := rt.(*types.Pointer); ok {
								rt = pt.Elem()
							}
							if nt, ok := rt.(*types.Named); ok && nt.Obj().Pkg() != nil {
								tp, tn, m := nt.Obj().Pkg().Path(), nt.Obj().Name(), x.Sel.Name
								kind := ""
								switch {
								case strings.HasSuffix(tp, "/go/upgrade/api") && tn == "Backend" && sel.Kind() == types.MethodVal:
									kind = "upgrader." + m
								case (strings.HasSuffix(tp, "/consensus/cometbft/api") && (tn == "ApplicationState" || tn == "ApplicationQueryState" || tn == "MockApplicationState")) ||
									(strings.HasSuffix(tp, "/consensus/cometbft/abci") && tn == "applicationState"):
									if sel.Kind() == types.MethodVal && nodeLocalMethods[m] {
										kind = "local." + m
									}
									if sel.Kind() == types.FieldVal && nodeLocalFields[m] {
										kind = "local-field." + m
									}
								}
								if kind != "" {
									st := enclosingStmtWithBody()
									if st == nil {
										st = x
									}
									add(fd, kind, st)
								}
							}
						}
						if x.Sel.Name == "GlobalConfig" {
							if id, ok := x.X.(*ast.Ident); ok {
								if _, ok := p.TypesInfo.Uses[id].(*types.PkgName); ok {
									st := enclosingStmt()
									if st == nil {
										st = x
									}
									add(fd, "config.GlobalConfig", st)
								}
							}
						}
						if x.Sel.Name == "Reader" {
							if id, ok := x.X.(*ast.Ident); ok {
								if pn, ok := p.TypesInfo.Uses[id].(*types.PkgName); ok && pn.Imported().Path() == "crypto/rand" {
									st := enclosingStmt()
									if st == nil {
										st = x
									}
									add(fd, "crypto/rand.Reader", st)
								}
							}
						}
					}
					stack = append(stack, n)
					return true
				})
			}
		}
	}
	if nerr > 0 {
		return fmt.Errorf("%d package load/type errors: the enumeration would not be exhaustive", nerr)
	}
	if len(pkgs) < 20 {
		return fmt.Errorf("only %d packages loaded", len(pkgs))
	}
	// de-duplicate identical (file, func, kind, hash) (e.g. two identical loops in one function keep both via a counter)
	sort.Slice(sites, func(i, j int) bool {
		a, b := sites[i], sites[j]
		if a.File != b.File {
			return a.File < b.File
		}
		if a.Line != b.Line {
			return a.Line < b.Line
		}
		return a.Kind < b.Kind
	})
	seen := map[string]int{}
	for i := range sites {
		k := sites[i].File + "|" + sites[i].Func + "|" + sites[i].Kind + "|" + sites[i].Hash
		seen[k]++
		if seen[k] > 1 {
			sites[i].Hash = fmt.Sprintf("%s#%d", sites[i].Hash, seen[k])
		}
	}

	// the reviewed table
	tablePath := filepath.Join(outDir, "..", "Abci", "mapsites_reviewed.json")
	var table []reviewedEntry
	if b, err := os.ReadFile(tablePath); err == nil {
		if err := json.Unmarshal(b, &table); err != nil {
			return fmt.Errorf("%s: %w", tablePath, err)
		}
	}
	rev := map[string]reviewedEntry{}
	for _, e := range table {
		if !siteClasses[e.Class] {
			return fmt.Errorf("reviewed table: unknown class %q for %s %s", e.Class, e.File, e.Func)
		}
		rev[e.File+"|"+e.Func+"|"+e.Kind+"|"+e.Hash] = e
	}
	counts := map[string]int{}
	var sb strings.Builder
	sb.WriteString("(* GENERATED by harness/cmd/gen muxmapsites (go/packages + go/types) -- do not edit.\n")
	sb.WriteString("   Every range over a map-typed expression, maps.Keys/Values/All call, and other source of\n")
	sb.WriteString("   replica-local nondeterminism in the packages executed during block processing, with the\n")
	sb.WriteString("   class from the reviewed table coq/Abci/mapsites_reviewed.json. *)\n")
	sb.WriteString("From Coq Require Import String List.\nImport ListNotations.\nOpen Scope string_scope.\n")
	sb.WriteString("Inductive siteclass := SortedBeforeUse | OrderInsensitive | ErrorOnly | NotInExecPath | LocalOnly | Deterministic | UnsafeDebugFlag | LoggedOnly | HaltsNode | PanicToReject | Unreviewed.\n")
	sb.WriteString("Record site := mkSite { s_file : string; s_func : string; s_kind : string; s_hash : string; s_class : siteclass }.\n")
	sb.WriteString("Definition sites : list site := [\n")
	for i := range sites {
		s := &sites[i]
		cls := "Unreviewed"
		if e, ok := rev[s.File+"|"+s.Func+"|"+s.Kind+"|"+s.Hash]; ok {
			cls = e.Class
			s.Class, s.Why = e.Class, e.Why
		}
		counts[cls]++
		sep := ";"
		if i == len(sites)-1 {
			sep = ""
		}
		sb.WriteString(fmt.Sprintf("  mkSite %q %q %q %q %s%s\n", s.File, s.Func, s.Kind, s.Hash, cls, sep))
	}
	sb.WriteString("].\n")
	sb.WriteString(fmt.Sprintf("Definition packages_loaded : nat := %d.\n", len(pkgs)))
	writeIfChanged("MuxMapSites.v", []byte(sb.String()))
	b, _ := json.MarshalIndent(sites, "", " ")
	_ = os.WriteFile(filepath.Join(outDir, "MuxMapSites.sites.json"), b, 0o644)
	fmt.Printf("muxmapsites: %d packages, %d sites: %v\n", len(pkgs), len(sites), counts)
	return nil
}
