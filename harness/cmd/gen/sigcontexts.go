package main

import (
	"encoding/json"
	"fmt"
	"go/ast"
	"go/parser"
	"go/token"
	"io/fs"
	"os"
	"path/filepath"
	"sort"
	"strconv"
	"strings"

	"github.com/oasisprotocol/oasis-core/go/common"
)

func init() { subs["sigcontexts"] = genSigContexts }

const sigPkgPath = "github.com/oasisprotocol/oasis-core/go/common/crypto/signature"

// knownIntConsts resolves the non-literal max-length arguments of
// signature.WithDynamicSuffix (values taken from the tree gen was built against).
var knownIntConsts = map[string]int{
	"common.NamespaceHexSize": common.NamespaceHexSize,
}

type sigCtx struct {
	Base   string
	Chain  bool
	HasDyn bool
	Suffix string
	MaxLen int
	Where  string
}

func coqBytes(s string) string {
	if len(s) == 0 {
		return "[]"
	}
	parts := make([]string, len(s))
	for i := 0; i < len(s); i++ {
		parts[i] = strconv.Itoa(int(s[i]))
	}
	return "[" + strings.Join(parts, "; ") + "]"
}

func coqComment(s string) string {
	s = strings.ReplaceAll(s, "(*", "( *")
	s = strings.ReplaceAll(s, "*)", "* )")
	return s
}

// sigAlias returns the local name under which a file imports the signature
// package ("" if it does not), and whether the file IS part of that package.
func sigAlias(f *ast.File, rel string) (alias string, inPkg bool) {
	if filepath.ToSlash(filepath.Dir(rel)) == "go/common/crypto/signature" && f.Name.Name == "signature" {
		inPkg = true
	}
	for _, im := range f.Imports {
		p, _ := strconv.Unquote(im.Path.Value)
		if p == sigPkgPath {
			alias = "signature"
			if im.Name != nil {
				alias = im.Name.Name
			}
		}
	}
	return
}

func isSigCall(call *ast.CallExpr, alias string, inPkg bool, name string) bool {
	switch fn := call.Fun.(type) {
	case *ast.SelectorExpr:
		if id, ok := fn.X.(*ast.Ident); ok && alias != "" && id.Name == alias && fn.Sel.Name == name {
			return true
		}
	case *ast.Ident:
		if inPkg && fn.Name == name {
			return true
		}
	}
	return false
}

func strLit(e ast.Expr) (string, bool) {
	bl, ok := e.(*ast.BasicLit)
	if !ok || bl.Kind != token.STRING {
		return "", false
	}
	s, err := strconv.Unquote(bl.Value)
	return s, err == nil
}

func intExpr(e ast.Expr) (int, bool) {
	switch x := e.(type) {
	case *ast.BasicLit:
		if x.Kind == token.INT {
			v, err := strconv.ParseInt(x.Value, 0, 64)
			return int(v), err == nil
		}
	case *ast.SelectorExpr:
		if id, ok := x.X.(*ast.Ident); ok {
			v, ok := knownIntConsts[id.Name+"."+x.Sel.Name]
			return v, ok
		}
	}
	return 0, false
}

// genSigContexts writes coq/Gen/SigContexts.v: every signature.NewContext(...)
// call of the non-test Go sources with its options, the chain separator and
// size limit of signer.go, the transaction signature context of
// consensus/api/transaction, and the list of method body types that implement
// MethodMetadata() (the only way a method can become "critical" and skip the
// authentication handler).
func genSigContexts() error {
	root := filepath.Join(repo, "go")
	fset := token.NewFileSet()
	var ctxs []sigCtx
	var skipped []string
	var providers []string
	sep, maxSize := "", -1
	txBase := ""
	txChain := false
	err := filepath.WalkDir(root, func(path string, d fs.DirEntry, err error) error {
		if err != nil {
			return err
		}
		if d.IsDir() {
			n := d.Name()
			if n == "testdata" || n == "vendor" || strings.HasPrefix(n, ".") {
				return filepath.SkipDir
			}
			return nil
		}
		if !strings.HasSuffix(path, ".go") || strings.HasSuffix(path, "_test.go") {
			return nil
		}
		src, err := os.ReadFile(path)
		if err != nil {
			return err
		}
		// cheap pre-filter
		s := string(src)
		if !strings.Contains(s, "NewContext") && !strings.Contains(s, "MethodMetadata") && !strings.Contains(s, "chainContextSeparator") {
			return nil
		}
		rel, _ := filepath.Rel(repo, path)
		rel = filepath.ToSlash(rel)
		f, err := parser.ParseFile(fset, path, src, 0)
		if err != nil {
			return err
		}
		alias, inPkg := sigAlias(f, rel)
		testRunner := strings.HasPrefix(rel, "go/oasis-test-runner/")
		// constants of signer.go
		if rel == "go/common/crypto/signature/signer.go" {
			for _, dd := range f.Decls {
				gd, ok := dd.(*ast.GenDecl)
				if !ok || gd.Tok != token.CONST {
					continue
				}
				for _, sp := range gd.Specs {
					vs := sp.(*ast.ValueSpec)
					for i, n := range vs.Names {
						if i >= len(vs.Values) {
							continue
						}
						switch n.Name {
						case "chainContextSeparator":
							if v, ok := strLit(vs.Values[i]); ok {
								sep = v
							}
						case "chainContextMaxSize":
							if v, ok := intExpr(vs.Values[i]); ok {
								maxSize = v
							}
						}
					}
				}
			}
		}
		// MethodMetadata providers
		for _, dd := range f.Decls {
			fd, ok := dd.(*ast.FuncDecl)
			if !ok || fd.Recv == nil || fd.Name.Name != "MethodMetadata" || len(fd.Recv.List) == 0 {
				continue
			}
			t := fd.Recv.List[0].Type
			if st, ok := t.(*ast.StarExpr); ok {
				t = st.X
			}
			name := "?"
			if id, ok := t.(*ast.Ident); ok {
				name = id.Name
			}
			providers = append(providers, filepath.ToSlash(filepath.Dir(rel))+"."+name)
		}
		var ferr error
		record := func(call *ast.CallExpr, assignedTo string) {
			pos := fset.Position(call.Pos())
			where := fmt.Sprintf("%s:%d", rel, pos.Line)
			if len(call.Args) == 0 {
				ferr = fmt.Errorf("%s: NewContext without arguments", where)
				return
			}
			base, ok := strLit(call.Args[0])
			if !ok {
				if testRunner {
					skipped = append(skipped, where+" (non-literal context in the test runner)")
					return
				}
				ferr = fmt.Errorf("%s: NewContext with a non-literal context string; the generator cannot enumerate it", where)
				return
			}
			c := sigCtx{Base: base, Where: where}
			for _, a := range call.Args[1:] {
				oc, ok := a.(*ast.CallExpr)
				if !ok {
					ferr = fmt.Errorf("%s: unsupported context option expression", where)
					return
				}
				switch {
				case isSigCall(oc, alias, inPkg, "WithChainSeparation"):
					c.Chain = true
				case isSigCall(oc, alias, inPkg, "WithDynamicSuffix"):
					if len(oc.Args) != 2 {
						ferr = fmt.Errorf("%s: WithDynamicSuffix arity", where)
						return
					}
					sfx, ok1 := strLit(oc.Args[0])
					ml, ok2 := intExpr(oc.Args[1])
					if !ok1 || !ok2 {
						ferr = fmt.Errorf("%s: WithDynamicSuffix with arguments the generator cannot evaluate", where)
						return
					}
					// the code treats an empty suffix string as "no dynamic suffix" (signer.go: opts.dynamicSuffix != "")
					if sfx != "" {
						c.HasDyn, c.Suffix, c.MaxLen = true, sfx, ml
					}
				default:
					ferr = fmt.Errorf("%s: unknown context option", where)
					return
				}
			}
			ctxs = append(ctxs, c)
			if rel == "go/consensus/api/transaction/transaction.go" && assignedTo == "SignatureContext" {
				txBase, txChain = c.Base, c.Chain
				if c.HasDyn {
					ferr = fmt.Errorf("%s: transaction context has a dynamic suffix", where)
				}
			}
		}
		seen := map[*ast.CallExpr]bool{}
		ast.Inspect(f, func(n ast.Node) bool {
			switch x := n.(type) {
			case *ast.ValueSpec:
				for i, v := range x.Values {
					if call, ok := v.(*ast.CallExpr); ok && isSigCall(call, alias, inPkg, "NewContext") && i < len(x.Names) {
						seen[call] = true
						record(call, x.Names[i].Name)
					}
				}
			case *ast.AssignStmt:
				for i, v := range x.Rhs {
					if call, ok := v.(*ast.CallExpr); ok && isSigCall(call, alias, inPkg, "NewContext") && i < len(x.Lhs) {
						name := ""
						if id, ok := x.Lhs[i].(*ast.Ident); ok {
							name = id.Name
						}
						seen[call] = true
						record(call, name)
					}
				}
			case *ast.CallExpr:
				if !seen[x] && isSigCall(x, alias, inPkg, "NewContext") {
					seen[x] = true
					record(x, "")
				}
			}
			return true
		})
		return ferr
	})
	if err != nil {
		return err
	}
	if sep == "" || maxSize < 0 {
		return fmt.Errorf("chainContextSeparator / chainContextMaxSize not found in signer.go")
	}
	if txBase == "" {
		return fmt.Errorf("transaction.SignatureContext = signature.NewContext(<literal>, ...) not found in consensus/api/transaction/transaction.go")
	}
	if len(ctxs) == 0 {
		return fmt.Errorf("no signature.NewContext call found")
	}
	sort.SliceStable(ctxs, func(i, j int) bool { return ctxs[i].Where < ctxs[j].Where })
	sort.Strings(providers)

	term := func(c sigCtx) string {
		dyn := "None"
		if c.HasDyn {
			dyn = fmt.Sprintf("(Some (%s, %d))", coqBytes(c.Suffix), c.MaxLen)
		}
		b := "false"
		if c.Chain {
			b = "true"
		}
		return fmt.Sprintf("(%s, %s, %s)", coqBytes(c.Base), b, dyn)
	}
	var sb strings.Builder
	sb.WriteString("(* GENERATED by harness/cmd/gen sigcontexts from every signature.NewContext call of the non-test sources under go/ -- do not edit *)\n")
	sb.WriteString("From Coq Require Import NArith List.\nImport ListNotations.\nOpen Scope N_scope.\n")
	sb.WriteString("(* a context specification: (raw context bytes, chain separation, dynamic suffix (separator bytes, max length)) *)\n")
	sb.WriteString("Definition ctx_spec : Type := (list N * bool * option (list N * N))%type.\n")
	fmt.Fprintf(&sb, "(* %q *)\nDefinition chain_separator : list N := %s.\n", sep, coqBytes(sep))
	fmt.Fprintf(&sb, "Definition chain_context_max_size : N := %d.\n", maxSize)
	sb.WriteString("Definition contexts : list ctx_spec := [\n")
	for i, c := range ctxs {
		end := ";"
		if i == len(ctxs)-1 {
			end = ""
		}
		fmt.Fprintf(&sb, "  (* %s  %s *)\n  %s%s\n", coqComment(strconv.Quote(c.Base)), c.Where, term(c), end)
	}
	sb.WriteString("].\n")
	fmt.Fprintf(&sb, "(* consensus/api/transaction.SignatureContext *)\nDefinition tx_context : ctx_spec := %s.\n", term(sigCtx{Base: txBase, Chain: txChain}))
	sb.WriteString("(* method body types implementing MethodMetadata() (a method is critical only through such a type) *)\n")
	var ps []string
	for _, p := range providers {
		ps = append(ps, coqBytes(p))
	}
	sb.WriteString("Definition method_metadata_providers : list (list N) := [" + strings.Join(ps, "; ") + "].\n")
	for _, s := range skipped {
		fmt.Fprintf(&sb, "(* skipped: %s *)\n", coqComment(s))
	}
	writeIfChanged("SigContexts.v", []byte(sb.String()))
	// the same list for the harness (cmd/auth -mode ctx indexes into it)
	type jctx struct {
		Base   string `json:"base"`
		Chain  bool   `json:"chain"`
		HasDyn bool   `json:"has_dyn"`
		Suffix string `json:"suffix"`
		MaxLen int    `json:"max_len"`
		Where  string `json:"where"`
	}
	var js []jctx
	for _, c := range ctxs {
		js = append(js, jctx{c.Base, c.Chain, c.HasDyn, c.Suffix, c.MaxLen, c.Where})
	}
	jb, _ := json.MarshalIndent(map[string]any{"separator": sep, "chain_max": maxSize, "tx_base": txBase, "contexts": js}, "", " ")
	writeIfChanged("SigContexts.json", jb)
	return nil
}
