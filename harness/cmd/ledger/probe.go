package main

import (
	"fmt"

	"verifharness/internal/muxdrv"
)

// probe prints epochs and event kinds per block (development aid: -mode probe).
func probe(seed uint64) {
	g, err := muxdrv.NewGenesis(seed, muxdrv.GenesisOpts{Validators: 4, Accounts: 10, EpochInterval: 4})
	if err != nil {
		panic(err)
	}
	var reps []*muxdrv.Replica
	for i := 0; i < 4; i++ {
		r, err := muxdrv.NewReplica(g, muxdrv.ReplicaConfig{Name: fmt.Sprint("v", i), Identity: g.Validators[i].Identity, SanityInterval: 1})
		if err != nil {
			panic(err)
		}
		defer r.Close()
		reps = append(reps, r)
	}
	c := muxdrv.NewChain(g)
	a0, a1 := g.Accounts[0], g.Accounts[1]
	for h := 0; h < 14; h++ {
		p := h % 4
		raw := muxdrv.Sign(a0.Key, muxdrv.TxTransfer(uint64(h), muxdrv.Fee(10, muxdrv.DefaultGas), a1.Address, 100))
		in := c.NewBlock(g.Validators[p].ConsAddr, muxdrv.VotesAll, nil)
		txs, err := reps[p].Propose(in, [][]byte{raw})
		if err != nil {
			panic(err)
		}
		var res *muxdrv.BlockResult
		for i, r := range reps {
			var rr *muxdrv.BlockResult
			if i == p {
				rr, err = r.Process(in, txs)
			} else {
				rr, err = r.Replay(in, txs)
			}
			if err != nil {
				panic(err)
			}
			if i == p {
				res = rr
			}
		}
		c.Applied(res)
		d, _ := muxdrv.DumpStaking(reps[0], 0)
		fmt.Printf("h=%d epoch_after=%d lbf=%s cp=%s\n", in.Height, d.Epoch, d.LastBlockFees, d.CommonPool)
		for _, e := range res.BeginEvents {
			for _, a := range e.Attrs {
				fmt.Printf("   begin %s %s\n", e.Type, a[0])
			}
		}
		for _, e := range res.EndEvents {
			for _, a := range e.Attrs {
				fmt.Printf("   end   %s %s\n", e.Type, a[0])
			}
		}
		for _, tr := range res.TxResults {
			fmt.Printf("   tx code=%d cs=%s gas=%d log=%q\n", tr.Code, tr.Codespace, tr.GasUsed, tr.Log)
		}
	}
}
