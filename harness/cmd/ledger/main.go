// Command ledger is the C05 harness: it drives the REAL ABCI multiplexer with
// all real apps (through muxdrv) over seeded block histories full of valid and
// invalid staking / governance transactions, epoch transitions, partial votes
// and double-sign evidence, and after EVERY block
//
//	S: evaluates the conservation equation and both share-sum equations
//	   directly on the dumped staking state (big.Int, independent of Coq),
//	   compares the supply change with the BurnEvents of the block, and treats
//	   any error of the in-tree supplementarysanity app (run at every height on
//	   replica 0) or any panic as a violation;
//	K: emits a correspondence case (parameters, pre-state dump, the block's
//	   model operations with their oracle inputs) -> (result classes, post-state
//	   dump) which the Coq model Verif.Ledger.Ops replays with vm_compute.
package main

import (
	"bytes"
	"context"
	"encoding/hex"
	"encoding/json"
	"flag"
	"fmt"
	"math/big"
	"os"
	"sort"
	"strings"

	"github.com/cometbft/cometbft/abci/types"

	beacon "github.com/oasisprotocol/oasis-core/go/beacon/api"
	"github.com/oasisprotocol/oasis-core/go/common/quantity"
	"github.com/oasisprotocol/oasis-core/go/consensus/api/events"
	"github.com/oasisprotocol/oasis-core/go/consensus/api/transaction"
	abciAPI "github.com/oasisprotocol/oasis-core/go/consensus/cometbft/api"
	stakingState "github.com/oasisprotocol/oasis-core/go/consensus/cometbft/apps/staking/state"
	consensusGenesis "github.com/oasisprotocol/oasis-core/go/consensus/genesis"
	genesis "github.com/oasisprotocol/oasis-core/go/genesis/api"
	governance "github.com/oasisprotocol/oasis-core/go/governance/api"
	scheduler "github.com/oasisprotocol/oasis-core/go/scheduler/api"
	staking "github.com/oasisprotocol/oasis-core/go/staking/api"
	vault "github.com/oasisprotocol/oasis-core/go/vault/api"

	"github.com/oasisprotocol/oasis-core/go/common/cbor"
	"github.com/oasisprotocol/oasis-core/go/common/logging"

	cmtcrypto "github.com/oasisprotocol/oasis-core/go/consensus/cometbft/crypto"

	"verifharness/internal/coqout"
	"verifharness/internal/muxdrv"
	"verifharness/internal/prng"
)

const header = "From Verif Require Import Lib.Base Ledger.SharePool Ledger.State Ledger.Ops.\n"

func bi(s string) *big.Int {
	v, ok := new(big.Int).SetString(s, 10)
	if !ok {
		panic("bad number " + s)
	}
	return v
}

func qty(v *big.Int) quantity.Quantity {
	var q quantity.Quantity
	if err := q.FromBigInt(v); err != nil {
		panic(err)
	}
	return q
}

func qs(q *quantity.Quantity) string { return q.ToBigInt().String() }

// caseDesc is the replay description of a case / violation: the history is a
// function of (seed, run); Blocks cuts it after the interesting block.
type caseDesc struct {
	Seed   uint64 `json:"seed"`
	Run    int    `json:"run"`
	Blocks int    `json:"blocks"`
	Height int64  `json:"height,omitempty"`
	Note   string `json:"note,omitempty"`
}

type sender struct {
	key  *muxdrv.Key
	addr staking.Address
	name string
}

type history struct {
	seed     uint64
	run      int
	g        *muxdrv.Genesis
	reps     []*muxdrv.Replica
	sanity   *muxdrv.Replica
	pendingSanity string // in-tree checker failed while the harness's oracle saw nothing (reported at the end of the history)
	pendingHeight int
	outsider *muxdrv.Replica // a node that is NOT registered: its blocks have no proposer entity
	outAddr  []byte
	chain    *muxdrv.Chain
	rng      *prng.R
	senders  []sender
	extra    []staking.Address // fresh and reserved destinations
	proposal uint64            // number of proposals submitted so far
	// the harness's own bookkeeping of WHO must be slashed / rewarded (not read from events)
	vaults    bool          // vault history: one vault, deposits, withdraw policies, vault-executed messages
	vlt       *vaultInfo
	campaigns bool          // governance campaigns: staking ChangeParameters proposals pushed through by all validators
	camp      *campaign
	lastWeights string
	campNext  int
	huge     bool           // genesis with balances around and above 2^64
	victim   int            // repeated-slash regime: index of the validator that is slashed again and again (-1: none)
	mock     bool           // MockEpochs history: epochs advance (and jump) only through SetEpoch transactions
	frozen   map[int]bool   // validators frozen by an earlier slash (no unfreeze transactions are generated)
	sigTotal uint64         // blocks counted in the current signing period (EpochSigning.Total)
	sigBy    map[int]uint64 // blocks signed per validator entity in the period
	sum      *coqout.Summary
	w        *coqout.Writer
}

func pickWeights(r *prng.R) [3]uint64 {
	c := [][3]uint64{{2, 1, 1}, {1, 0, 0}, {0, 1, 1}, {3, 2, 0}, {1, 1, 5}, {0, 0, 1}, {7, 3, 2}}
	return c[r.Intn(len(c))]
}

func newHistory(seed uint64, run int, sum *coqout.Summary, w *coqout.Writer) (*history, error) {
	h := &history{seed: seed, run: run, sum: sum, w: w, frozen: map[int]bool{}, sigBy: map[int]uint64{}}
	h.rng = prng.New(seed*1000003 + uint64(run)*7919 + 17)
	gr := h.rng.Fork()
	wts := pickWeights(gr)
	minTransact := []uint64{0, 0, 3}[gr.Intn(3)]
	maxAllow := []uint32{8, 2}[gr.Intn(2)]
	minDeleg := []uint64{10, 1, 25}[gr.Intn(3)]
	minTransfer := []uint64{10, 1, 0}[gr.Intn(3)]
	factorProp := []uint64{1, 0, 3}[gr.Intn(3)]
	factorSign := []uint64{1, 2}[gr.Intn(2)]
	// common pool variant: comfortable, or tiny relative to one round of epoch rewards so that
	// it drains inside an AddRewards call (some entities paid, later ones skipped)
	poolVariant := []string{"comfortable", "comfortable", "comfortable", "0", "1", "below-first-reward",
		"between-1-and-2-rewards", "between-2-and-3-rewards", "exactly-one-round", "three-rounds-and-a-bit"}[gr.Intn(10)]
	if poolVariant != "comfortable" && gr.Chance(60) {
		factorProp = 0 // keep the per-block proposer reward from draining the pool before the epoch rewards
	}
	debInt := []uint64{1, 2, 4}[gr.Intn(3)]
	// epoch jumps: mock epochs, set by transactions, skipping 0..3 epochs at a time, with
	// debonding intervals 1..4 so that debonding end times fall inside the skipped ranges
	h.mock = gr.Chance(45)
	if h.mock {
		debInt = uint64(1 + gr.Intn(4))
	}
	genesisDebonding := gr.Chance(50)
	// repeated-slash regime: no freeze after a slash, one victim entity is slashed again and
	// again with a fixed penalty that is large relative to (or larger than) its whole escrow, so
	// that the pro-rata amounts exceed what is left (MoveUpTo's cap in slashPool)
	slashVariant := []string{"default", "default", "default", "third-of-escrow", "most-of-escrow", "double-escrow", "2^64-1", "double-escrow"}[gr.Intn(8)]
	victimLowest := gr.Chance(50) // the lowest-address escrow account also holds the genesis debonding delegations
	var victimAddr staking.Address
	// huge genesis: total supply above 2^64 (one sub-variant near 2^128), balances, pool balances
	// and share totals just below / at / above 2^64 so that ordinary credits cross the boundary
	hugeVariant := "no"
	hv := gr.Intn(20)
	switch {
	case run%7 == 3 && (run/7)%2 == 0, hv == 0:
		hugeVariant = "2^64..2^70 (sqrt voting power)"
	case run%7 == 3, hv == 1:
		hugeVariant = "near 2^128 (stake bypassed)"
	}
	h.huge = hugeVariant != "no"
	g, err := muxdrv.NewGenesis(seed*131+uint64(run), muxdrv.GenesisOpts{
		Validators: 4, Accounts: 10, EpochInterval: 4, DebondingInterval: debInt, MockEpochs: h.mock,
		BypassStake: strings.HasPrefix(hugeVariant, "near"),
		Mutate: func(doc *genesis.Document) {
			if h.huge {
				hugeGenesis(doc, hugeVariant)
			}
			if slashVariant != "default" {
				var esc []staking.Address
				for a, acc := range doc.Staking.Ledger {
					if !acc.Escrow.Active.Balance.IsZero() {
						esc = append(esc, a)
					}
				}
				sort.Slice(esc, func(i, j int) bool { return bytes.Compare(esc[i][:], esc[j][:]) < 0 })
				victimAddr = esc[len(esc)-1]
				if victimLowest {
					victimAddr = esc[0]
				}
				b := doc.Staking.Ledger[victimAddr].Escrow.Active.Balance.ToBigInt()
				amt := new(big.Int)
				switch slashVariant {
				case "third-of-escrow":
					amt.Div(b, big.NewInt(3))
				case "most-of-escrow":
					amt.Mul(b, big.NewInt(4))
					amt.Div(amt, big.NewInt(5))
				case "double-escrow":
					amt.Mul(b, big.NewInt(2))
				case "2^64-1":
					amt.Set(two64m1)
				}
				doc.Staking.Parameters.Slashing[staking.SlashConsensusEquivocation] = staking.Slash{Amount: qty(amt), FreezeInterval: 0}
			}
			if genesisDebonding {
				// debonding delegations that are already expired or expire soon (end epochs 0..5, base
				// epoch 1), into the escrow account with the smallest address, pool price below 1
				var esc []staking.Address
				for a, acc := range doc.Staking.Ledger {
					if !acc.Escrow.Active.Balance.IsZero() {
						esc = append(esc, a)
					}
				}
				sort.Slice(esc, func(i, j int) bool { return bytes.Compare(esc[i][:], esc[j][:]) < 0 })
				var dels []staking.Address
				for a, acc := range doc.Staking.Ledger {
					if acc.Escrow.Active.Balance.IsZero() {
						dels = append(dels, a)
					}
				}
				sort.Slice(dels, func(i, j int) bool { return bytes.Compare(dels[i][:], dels[j][:]) < 0 })
				e := esc[0]
				shares := uint64(0)
				m := map[staking.Address][]*staking.DebondingDelegation{}
				for i, end := range []uint64{0, 1, 2, 3, 3, 5} {
					d := dels[i%3]
					sh := uint64(1000 + 137*i)
					// one entry per (delegator, end epoch)
					dup := false
					for _, x := range m[d] {
						if uint64(x.DebondEndTime) == end {
							dup = true
						}
					}
					if dup {
						continue
					}
					m[d] = append(m[d], &staking.DebondingDelegation{Shares: *quantity.NewFromUint64(sh), DebondEndTime: beacon.EpochTime(end)})
					shares += sh
				}
				bal := shares * 9 / 10
				doc.Staking.DebondingDelegations[e] = m
				doc.Staking.Ledger[e].Escrow.Debonding = staking.SharePool{Balance: *quantity.NewFromUint64(bal), TotalShares: *quantity.NewFromUint64(shares)}
				_ = doc.Staking.TotalSupply.Add(quantity.NewFromUint64(bal))
			}
			p := &doc.Staking.Parameters
			p.FeeSplitWeightPropose = *quantity.NewFromUint64(wts[0])
			p.FeeSplitWeightVote = *quantity.NewFromUint64(wts[1])
			p.FeeSplitWeightNextPropose = *quantity.NewFromUint64(wts[2])
			p.MinTransactBalance = *quantity.NewFromUint64(minTransact)
			p.MaxAllowances = maxAllow
			p.MinDelegationAmount = *quantity.NewFromUint64(minDeleg)
			p.MinTransferAmount = *quantity.NewFromUint64(minTransfer)
			p.RewardFactorBlockProposed = *quantity.NewFromUint64(factorProp)
			p.RewardFactorEpochSigned = *quantity.NewFromUint64(factorSign)
			if poolVariant != "comfortable" && !h.huge {
				// rewards of one AddRewards round (factor 1), in the call order (sorted addresses)
				var addrs []staking.Address
				for a, acc := range doc.Staking.Ledger {
					if !acc.Escrow.Active.Balance.IsZero() {
						addrs = append(addrs, a)
					}
				}
				sort.Slice(addrs, func(i, j int) bool { return bytes.Compare(addrs[i][:], addrs[j][:]) < 0 })
				var rw []*big.Int
				round := new(big.Int)
				for _, a := range addrs {
					q := doc.Staking.Ledger[a].Escrow.Active.Balance.ToBigInt()
					q.Mul(q, p.RewardSchedule[0].Scale.ToBigInt())
					q.Div(q, staking.RewardAmountDenominator.ToBigInt())
					rw = append(rw, q)
					round.Add(round, q)
				}
				half := func(x *big.Int) *big.Int { return new(big.Int).Div(x, big.NewInt(2)) }
				pool := new(big.Int)
				switch poolVariant {
				case "0":
				case "1":
					pool.SetInt64(1)
				case "below-first-reward":
					pool.Sub(rw[0], big.NewInt(1))
				case "between-1-and-2-rewards":
					pool.Add(rw[0], half(rw[1]))
				case "between-2-and-3-rewards":
					pool.Add(rw[0], rw[1])
					pool.Add(pool, half(rw[2]))
				case "exactly-one-round":
					pool.Set(round)
				case "three-rounds-and-a-bit":
					pool.Mul(round, big.NewInt(3))
					pool.Add(pool, rw[0])
				}
				ts := doc.Staking.TotalSupply.ToBigInt()
				ts.Sub(ts, doc.Staking.CommonPool.ToBigInt())
				ts.Add(ts, pool)
				doc.Staking.CommonPool = qty(pool)
				doc.Staking.TotalSupply = qty(ts)
			}
			// whatever the variants above wrote: the recorded supply is the exact sum of the
			// final document, computed last
			exactSupply(doc)
		},
	})
	if err != nil {
		return nil, err
	}
	h.g = g
	sum.Count("genesis_fee_weights", fmt.Sprintf("%d/%d/%d", wts[0], wts[1], wts[2]))
	sum.Count("genesis_min_transact_balance", fmt.Sprint(minTransact))
	sum.Count("genesis_common_pool", poolVariant)
	sum.Count("genesis_epochs", map[bool]string{true: "mock (set-epoch transactions, jumps)", false: "insecure beacon (every 4 blocks)"}[h.mock])
	h.vaults = gr.Chance(50)
	sum.Count("genesis_vault_history", fmt.Sprint(h.vaults))
	h.campaigns = !h.mock && gr.Chance(85)
	h.campNext = 1
	sum.Count("genesis_governance_campaigns", fmt.Sprint(h.campaigns))
	sum.Count("genesis_huge", hugeVariant)
	sum.Count("genesis_slashing", slashVariant)
	h.victim = -1
	if slashVariant != "default" {
		for _, v := range g.Validators {
			if v.Entity.Address() == victimAddr {
				h.victim = v.Index
			}
		}
	}
	sum.Count("genesis_debonding_delegations", map[bool]string{true: "6 entries, end epochs 0..5, price 0.9", false: "none"}[genesisDebonding])
	sum.Count("genesis_reward_factor_proposed", fmt.Sprint(factorProp))
	sum.Count("genesis_debonding_interval", fmt.Sprint(uint64(g.Doc.Staking.Parameters.DebondingInterval)))
	for i := 0; i < 4; i++ {
		cfg := muxdrv.ReplicaConfig{Name: fmt.Sprintf("v%d", i), Identity: g.Validators[i].Identity}
		r, err := muxdrv.NewReplica(g, cfg)
		if err != nil {
			h.close()
			return nil, err
		}
		h.reps = append(h.reps, r)
	}
	// a fifth, non-validator replica runs the in-tree supplementarysanity app at every
	// height; it executes each block AFTER the harness's own oracle has looked at it
	h.sanity, err = muxdrv.NewReplica(g, muxdrv.ReplicaConfig{Name: "sanity", SanityInterval: 1})
	if err != nil {
		h.close()
		return nil, err
	}
	oid := muxdrv.ObserverIdentity(g.Seed, 7)
	h.outsider, err = muxdrv.NewReplica(g, muxdrv.ReplicaConfig{Name: "outsider", Identity: oid})
	if err != nil {
		h.close()
		return nil, err
	}
	opk := oid.ConsensusSigner.Public()
	h.outAddr = []byte(cmtcrypto.PublicKeyToCometBFT(&opk).Address())
	h.chain = muxdrv.NewChain(g)
	for _, v := range g.Validators {
		h.senders = append(h.senders, sender{v.Entity, v.Entity.Address(), fmt.Sprintf("val%d", v.Index)})
	}
	for _, a := range g.Accounts {
		h.senders = append(h.senders, sender{a.Key, a.Address, fmt.Sprintf("acct%d", a.Index)})
	}
	for i := 0; i < 2; i++ {
		k := muxdrv.NewKey(fmt.Sprintf("verif/%d/fresh/%d", seed, i))
		h.senders = append(h.senders, sender{k, k.Address(), fmt.Sprintf("fresh%d", i)})
	}
	h.extra = []staking.Address{staking.CommonPoolAddress, staking.FeeAccumulatorAddress, staking.GovernanceDepositsAddress, staking.BurnAddress}
	return h, nil
}

func (h *history) close() {
	for _, r := range h.reps {
		r.Close()
	}
	if h.sanity != nil {
		h.sanity.Close()
	}
	if h.outsider != nil {
		h.outsider.Close()
	}
}

// ---------- reading the real state ----------

type blockView struct {
	dump   *muxdrv.StakingDump
	params *staking.ConsensusParameters
	accts  map[string]*muxdrv.AccountDump
}

func (h *history) view() (*blockView, error) {
	r := h.reps[0]
	d, err := muxdrv.DumpStaking(r, 0)
	if err != nil {
		return nil, err
	}
	ist, err := abciAPI.NewImmutableStateAt(context.Background(), r.Srv.State(), 0)
	if err != nil {
		return nil, err
	}
	defer ist.Close()
	p, err := stakingState.NewImmutableState(ist).ConsensusParameters(context.Background())
	if err != nil {
		return nil, err
	}
	v := &blockView{dump: d, params: p, accts: map[string]*muxdrv.AccountDump{}}
	for i := range d.Accounts {
		v.accts[d.Accounts[i].Address] = &d.Accounts[i]
	}
	return v, nil
}

func (v *blockView) balance(a staking.Address) *big.Int {
	if x, ok := v.accts[a.String()]; ok {
		return bi(x.Balance)
	}
	return new(big.Int)
}

func (v *blockView) nonce(a staking.Address) uint64 {
	if x, ok := v.accts[a.String()]; ok {
		return x.Nonce
	}
	return 0
}

// ---------- S: the invariant evaluated on the dump ----------

func checkDump(d *muxdrv.StakingDump) []string {
	var bad []string
	total := new(big.Int)
	actS := map[string]*big.Int{}
	debS := map[string]*big.Int{}
	for _, a := range d.Accounts {
		total.Add(total, bi(a.Balance))
		total.Add(total, bi(a.Active.Balance))
		total.Add(total, bi(a.Debonding.Balance))
		actS[a.Address] = bi(a.Active.TotalShares)
		debS[a.Address] = bi(a.Debonding.TotalShares)
	}
	total.Add(total, bi(d.CommonPool))
	total.Add(total, bi(d.GovernanceDeposits))
	total.Add(total, bi(d.LastBlockFees))
	if total.Cmp(bi(d.TotalSupply)) != 0 {
		bad = append(bad, fmt.Sprintf("height %d: total supply %s != sum of balances %s", d.Height, d.TotalSupply, total))
	}
	sumA := map[string]*big.Int{}
	for _, dl := range d.Delegations {
		if sumA[dl.Escrow] == nil {
			sumA[dl.Escrow] = new(big.Int)
		}
		sumA[dl.Escrow].Add(sumA[dl.Escrow], bi(dl.Shares))
	}
	sumD := map[string]*big.Int{}
	for _, dl := range d.Debonding {
		if sumD[dl.Escrow] == nil {
			sumD[dl.Escrow] = new(big.Int)
		}
		sumD[dl.Escrow].Add(sumD[dl.Escrow], bi(dl.Shares))
	}
	chk := func(kind string, have map[string]*big.Int, sums map[string]*big.Int) {
		for a, s := range sums {
			hv := have[a]
			if hv == nil {
				hv = new(big.Int)
			}
			if hv.Cmp(s) != 0 {
				bad = append(bad, fmt.Sprintf("height %d: %s shares of %s = %s but delegations sum to %s", d.Height, kind, a, hv, s))
			}
		}
		for a, hv := range have {
			if sums[a] == nil && hv.Sign() != 0 {
				bad = append(bad, fmt.Sprintf("height %d: %s shares of %s = %s but there are no delegations", d.Height, kind, a, hv))
			}
		}
	}
	chk("active", actS, sumA)
	chk("debonding", debS, sumD)
	return bad
}

// ---------- events ----------

type ev struct {
	app  string
	kind string
	val  string
}

func flatten(es []muxdrv.Event) []ev {
	var out []ev
	for _, e := range es {
		for _, a := range e.Attrs {
			out = append(out, ev{e.Type, a[0], a[1]})
		}
	}
	return out
}

const stakingEv = "oasis_event_100_staking"

// rewarded returns the escrow accounts of the reward groups (AddEscrowEvents) in order, distinct.
func rewarded(es []ev) []staking.Address {
	var out []staking.Address
	seen := map[staking.Address]bool{}
	for _, e := range es {
		if e.app != stakingEv || e.kind != "add_escrow" {
			continue
		}
		var x staking.AddEscrowEvent
		if err := events.DecodeValue(e.val, &x); err != nil {
			panic(err)
		}
		if !seen[x.Escrow] {
			seen[x.Escrow] = true
			out = append(out, x.Escrow)
		}
	}
	return out
}

// ---------- index of addresses for one case ----------

type index struct {
	ix map[staking.Address]int
}

func newIndex(addrs []staking.Address) *index {
	uniq := map[staking.Address]bool{}
	var l []staking.Address
	for _, a := range addrs {
		if !uniq[a] {
			uniq[a] = true
			l = append(l, a)
		}
	}
	sort.Slice(l, func(i, j int) bool { return bytes.Compare(l[i][:], l[j][:]) < 0 })
	m := map[staking.Address]int{}
	for i, a := range l {
		m[a] = i + 1
	}
	return &index{m}
}

func (x *index) of(a staking.Address) string {
	i, ok := x.ix[a]
	if !ok {
		panic("address not in the case universe: " + a.String())
	}
	return fmt.Sprint(i)
}

func addrOf(s string) staking.Address {
	var a staking.Address
	if err := a.UnmarshalText([]byte(s)); err != nil {
		panic(err)
	}
	return a
}

func dumpAddrs(d *muxdrv.StakingDump) []staking.Address {
	var out []staking.Address
	for _, a := range d.Accounts {
		out = append(out, addrOf(a.Address))
		for b := range a.Allowances {
			out = append(out, addrOf(b))
		}
	}
	for _, dl := range d.Delegations {
		out = append(out, addrOf(dl.Escrow), addrOf(dl.Delegator))
	}
	for _, dl := range d.Debonding {
		out = append(out, addrOf(dl.Escrow), addrOf(dl.Delegator))
	}
	return out
}

func coqDump(d *muxdrv.StakingDump, x *index) string {
	have := map[staking.Address]bool{}
	var rows []string
	for _, a := range d.Accounts {
		ad := addrOf(a.Address)
		have[ad] = true
		var al []string
		for _, b := range coqout.SortedKeys(a.Allowances) {
			al = append(al, fmt.Sprintf("(%s, %s)", x.of(addrOf(b)), a.Allowances[b]))
		}
		rows = append(rows, fmt.Sprintf("(%s, [%s; %d; %s; %s; %s; %s], %s)", x.of(ad), a.Balance, a.Nonce,
			a.Active.Balance, a.Active.TotalShares, a.Debonding.Balance, a.Debonding.TotalShares, coqout.List(al)))
	}
	// every other address of the universe is an absent (all-zero) account
	var rest []staking.Address
	for a := range x.ix {
		if !have[a] {
			rest = append(rest, a)
		}
	}
	sort.Slice(rest, func(i, j int) bool { return x.ix[rest[i]] < x.ix[rest[j]] })
	for _, a := range rest {
		rows = append(rows, fmt.Sprintf("(%s, [0; 0; 0; 0; 0; 0], [])", x.of(a)))
	}
	var dl, db []string
	for _, e := range d.Delegations {
		dl = append(dl, fmt.Sprintf("((%s, %s), %s)", x.of(addrOf(e.Escrow)), x.of(addrOf(e.Delegator)), e.Shares))
	}
	for _, e := range d.Debonding {
		db = append(db, fmt.Sprintf("((%s, %s, %d), %s)", x.of(addrOf(e.Escrow)), x.of(addrOf(e.Delegator)), e.EndEpoch, e.Shares))
	}
	return fmt.Sprintf("(mkDump %s %s %s [%s; %s; %s; %s])", coqout.List(rows), coqout.List(dl), coqout.List(db),
		d.TotalSupply, d.CommonPool, d.LastBlockFees, d.GovernanceDeposits)
}

// coqDumpAbsentAware: pre-state rows for absent accounts must not be turned into
// stored accounts with a different meaning; an all-zero stored account and an
// absent one are the same thing for the model ([acct] defaults to zero).

// ---------- transactions ----------

type genTx struct {
	raw     []byte
	snd     sender
	nonce   uint64
	fee     *big.Int
	gas     uint64
	opCost  uint64
	method  string
	body    func(x *index, ok bool) string // Coq body term given the tx result
	addrs   []staking.Address
	after   func(ok bool) // harness bookkeeping once the result is known
	// bodyRes, when set, replaces body: it sees the whole result (events) and may override the
	// expected result class ("" keeps the transaction's own class)
	bodyRes func(x *index, tr *muxdrv.TxResult) (string, string)
	nomodel bool   // fails before authentication (bad signature): no model operation
	flavor  string // what is (in)valid about it
}

var (
	two64m1 = new(big.Int).SetUint64(^uint64(0))
	two128  = new(big.Int).Lsh(big.NewInt(1), 128)
)

func (h *history) amount(r *prng.R, ref *big.Int, lo uint64) (*big.Int, string) {
	if h.huge && r.Chance(25) {
		switch r.Intn(4) {
		case 0:
			return new(big.Int).Lsh(big.NewInt(1), 63), "2^63"
		case 1:
			return new(big.Int).Set(two64), "2^64"
		case 2:
			if ref.Cmp(two64) < 0 {
				return new(big.Int).Sub(two64, ref), "2^64-ref"
			}
			return new(big.Int).Sub(ref, two64), "ref-2^64"
		default:
			return big.NewInt(int64(1000 + r.Intn(5000))), "thousands"
		}
	}
	switch r.Intn(12) {
	case 0:
		return big.NewInt(0), "0"
	case 1:
		return big.NewInt(1), "1"
	case 2:
		return new(big.Int).Set(ref), "exact"
	case 3:
		return new(big.Int).Add(ref, big.NewInt(1)), "ref+1"
	case 4:
		if ref.Sign() > 0 {
			return new(big.Int).Sub(ref, big.NewInt(1)), "ref-1"
		}
		return big.NewInt(0), "0"
	case 5:
		return new(big.Int).Set(two64m1), "2^64-1"
	case 6:
		return new(big.Int).Set(two128), "2^128"
	case 7:
		return new(big.Int).SetUint64(lo), "min"
	default:
		// a sensible amount
		m := new(big.Int).Set(ref)
		if m.Sign() == 0 {
			return big.NewInt(int64(lo) + int64(r.Intn(50))), "small"
		}
		d := new(big.Int).Div(m, big.NewInt(int64(2+r.Intn(40))))
		d.Add(d, new(big.Int).SetUint64(lo))
		return d, "fraction"
	}
}

func (h *history) anyAddr(r *prng.R, self staking.Address) (staking.Address, string) {
	switch r.Intn(10) {
	case 0:
		return self, "self"
	case 1:
		return h.extra[r.Intn(len(h.extra))], "reserved"
	case 2:
		if h.vlt != nil && h.vlt.created {
			return h.vlt.addr, "vault"
		}
		fallthrough
	default:
		s := h.senders[r.Intn(len(h.senders))]
		return s.addr, "other"
	}
}

func (h *history) genTx(r *prng.R, v *blockView, nonces map[staking.Address]uint64) *genTx {
	p := v.params
	s := h.senders[r.Intn(len(h.senders))]
	if r.Chance(70) {
		s = h.senders[r.Intn(14)] // funded
	}
	t := &genTx{snd: s, flavor: "valid"}
	nonce, ok := nonces[s.addr]
	if !ok {
		nonce = v.nonce(s.addr)
	}
	t.nonce = nonce
	t.fee = big.NewInt(int64(r.Intn(40)))
	if r.Chance(20) {
		t.fee = big.NewInt(0)
	}
	t.gas = muxdrv.DefaultGas
	bal := v.balance(s.addr)
	invalid := r.Chance(30)
	invKind := -1
	if invalid {
		invKind = r.Intn(7)
	}
	var tx func(nonce uint64, fee *transaction.Fee) *transaction.Transaction
	m := r.Intn(100)
	if h.mock && m >= 92 && m < 97 {
		// no governance proposals when epochs jump: a proposal whose closing epoch is skipped
		// stays active forever (governance closes on equality), which the in-tree sanity
		// checker reports; production beacons advance by exactly one
		m = r.Intn(24)
	}
	switch {
	case m < 24:
		to, tk := h.anyAddr(r, s.addr)
		amt, ak := h.amount(r, bal, qu(&p.MinTransferAmount))
		t.method, t.opCost = "transfer", uint64(p.GasCosts[staking.GasOpTransfer])
		t.flavor = "to=" + tk + ",amt=" + ak
		t.addrs = []staking.Address{to}
		tx = func(n uint64, f *transaction.Fee) *transaction.Transaction {
			return staking.NewTransferTx(n, f, &staking.Transfer{To: to, Amount: qty(amt)})
		}
		t.body = func(x *index, _ bool) string { return fmt.Sprintf("(BTransfer %s %s)", x.of(to), amt) }
	case m < 32:
		amt, ak := h.amount(r, bal, qu(&p.MinTransferAmount))
		if r.Chance(50) {
			amt = big.NewInt(int64(qu(&p.MinTransferAmount)) + int64(r.Intn(500)))
			ak = "small"
		}
		t.method, t.opCost = "burn", uint64(p.GasCosts[staking.GasOpBurn])
		t.flavor = "amt=" + ak
		tx = func(n uint64, f *transaction.Fee) *transaction.Transaction {
			return staking.NewBurnTx(n, f, &staking.Burn{Amount: qty(amt)})
		}
		t.body = func(x *index, _ bool) string { return fmt.Sprintf("(BBurn %s)", amt) }
	case m < 52:
		var to staking.Address
		tk := "validator"
		if r.Chance(75) {
			to = h.g.Validators[r.Intn(4)].Entity.Address()
		} else {
			to, tk = h.anyAddr(r, s.addr)
		}
		amt, ak := h.amount(r, bal, qu(&p.MinDelegationAmount))
		t.method, t.opCost = "add_escrow", uint64(p.GasCosts[staking.GasOpAddEscrow])
		t.flavor = "to=" + tk + ",amt=" + ak
		t.addrs = []staking.Address{to}
		tx = func(n uint64, f *transaction.Fee) *transaction.Transaction {
			return staking.NewAddEscrowTx(n, f, &staking.Escrow{Account: to, Amount: qty(amt)})
		}
		t.body = func(x *index, _ bool) string { return fmt.Sprintf("(BAddEscrow %s %s)", x.of(to), amt) }
	case m < 68:
		// reclaim: prefer an escrow account the sender has shares in
		var to staking.Address
		ref := new(big.Int)
		tk := "random"
		var mine []muxdrv.DelegationDump
		for _, dl := range v.dump.Delegations {
			if dl.Delegator == s.addr.String() {
				mine = append(mine, dl)
			}
		}
		if len(mine) > 0 && r.Chance(85) {
			dl := mine[r.Intn(len(mine))]
			to, ref, tk = addrOf(dl.Escrow), bi(dl.Shares), "own-delegation"
		} else {
			to, tk = h.anyAddr(r, s.addr)
		}
		sh, ak := h.amount(r, ref, 1)
		if to == s.addr && strings.HasPrefix(s.name, "val") && (ak == "exact" || ak == "ref-1" || ak == "fraction") {
			// validators keep most of their self-delegation so that the chain keeps electing them
			sh, ak = new(big.Int).Div(ref, big.NewInt(int64(50+r.Intn(50)))), "small-fraction"
		}
		t.method, t.opCost = "reclaim_escrow", uint64(p.GasCosts[staking.GasOpReclaimEscrow])
		t.flavor = "from=" + tk + ",shares=" + ak
		t.addrs = []staking.Address{to}
		tx = func(n uint64, f *transaction.Fee) *transaction.Transaction {
			return staking.NewReclaimEscrowTx(n, f, &staking.ReclaimEscrow{Account: to, Shares: qty(sh)})
		}
		t.body = func(x *index, _ bool) string { return fmt.Sprintf("(BReclaim %s %s EPOCH)", x.of(to), sh) }
	case m < 78:
		b, bk := h.anyAddr(r, s.addr)
		amt, ak := h.amount(r, bal, 1)
		neg := r.Chance(30)
		t.method, t.opCost = "allow", uint64(p.GasCosts[staking.GasOpAllow])
		t.flavor = fmt.Sprintf("benef=%s,amt=%s,neg=%v", bk, ak, neg)
		t.addrs = []staking.Address{b}
		tx = func(n uint64, f *transaction.Fee) *transaction.Transaction {
			return staking.NewAllowTx(n, f, &staking.Allow{Beneficiary: b, Negative: neg, AmountChange: qty(amt)})
		}
		t.body = func(x *index, _ bool) string {
			return fmt.Sprintf("(BAllow %s %s %s)", x.of(b), coqout.Bool(neg), amt)
		}
	case m < 88:
		// withdraw: prefer an account that granted an allowance to the sender
		var from staking.Address
		ref := new(big.Int)
		fk := "random"
		type grant struct {
			a staking.Address
			v *big.Int
		}
		var grants []grant
		for _, a := range v.dump.Accounts {
			if val, ok := a.Allowances[s.addr.String()]; ok {
				grants = append(grants, grant{addrOf(a.Address), bi(val)})
			}
		}
		if len(grants) > 0 && r.Chance(85) {
			gnt := grants[r.Intn(len(grants))]
			from, ref, fk = gnt.a, gnt.v, "granted"
		} else {
			from, fk = h.anyAddr(r, s.addr)
		}
		amt, ak := h.amount(r, ref, qu(&p.MinTransferAmount))
		t.method, t.opCost = "withdraw", uint64(p.GasCosts[staking.GasOpWithdraw])
		t.flavor = "from=" + fk + ",amt=" + ak
		t.addrs = []staking.Address{from}
		tx = func(n uint64, f *transaction.Fee) *transaction.Transaction {
			return staking.NewWithdrawTx(n, f, &staking.Withdraw{From: from, Amount: qty(amt)})
		}
		t.body = func(x *index, _ bool) string { return fmt.Sprintf("(BWithdraw %s %s)", x.of(from), amt) }
		if h.vlt != nil && h.vlt.created && from == h.vlt.addr {
			hook := h.vlt.hookOK(s.addr, amt)
			t.flavor += ",from-vault"
			t.body = func(x *index, _ bool) string {
				return fmt.Sprintf("(BWithdrawHooked %s %s %s)", x.of(from), amt, coqout.Bool(hook))
			}
			to := s.addr
			t.after = func(ok bool) {
				if ok {
					h.vlt.spent(to, amt)
				}
			}
		}
	case m < 92:
		// amend commission schedule: ledger-neutral, validity decided by the schedule rules
		ep := v.dump.Epoch
		rate := uint64(r.Intn(60_000))
		t.method, t.opCost = "amend_commission", uint64(p.GasCosts[staking.GasOpAmendCommissionSchedule])
		t.flavor = "other"
		invKind = -1
		tx = func(n uint64, f *transaction.Fee) *transaction.Transaction {
			return muxdrv.TxAmendCommission(n, f, ep+2+uint64(r.Intn(2)), rate, 0, 0, 0)
		}
		t.body = func(_ *index, ok bool) string { return fmt.Sprintf("(BOther %s)", coqout.Bool(ok)) }
	case m < 97:
		// governance proposal: valid change-parameters or a cancel-upgrade of a non-existing proposal
		dep := h.g.Doc.Governance.Parameters.MinProposalDeposit.ToBigInt()
		t.method, t.opCost = "gov_submit", uint64(h.g.Doc.Governance.Parameters.GasCosts[governance.GasOpSubmitProposal])
		if r.Chance(75) {
			mt := qu(&p.MinTransferAmount)
			if r.Chance(50) {
				mt = uint64(r.Intn(12))
			}
			t.flavor = "change-parameters"
			tx = func(n uint64, f *transaction.Fee) *transaction.Transaction {
				return muxdrv.TxSubmitChangeParams(n, f, mt)
			}
			t.body = func(_ *index, _ bool) string { return fmt.Sprintf("(BGovSubmit %s true true)", dep) }
		} else {
			t.flavor = "cancel-nonexistent"
			tx = func(n uint64, f *transaction.Fee) *transaction.Transaction {
				return muxdrv.TxSubmitCancelUpgrade(n, f, 4242)
			}
			t.body = func(_ *index, _ bool) string { return fmt.Sprintf("(BGovSubmit %s true false)", dep) }
		}
	default:
		// governance vote by a validator entity (ledger-neutral)
		id := uint64(1)
		if h.proposal > 0 {
			id = 1 + uint64(r.Intn(int(h.proposal)))
		}
		vote := []governance.Vote{governance.VoteYes, governance.VoteNo, governance.VoteAbstain}[r.Intn(3)]
		if r.Chance(70) {
			vote = governance.VoteYes
		}
		s = h.senders[r.Intn(4)]
		t.snd = s
		nonce, ok = nonces[s.addr]
		if !ok {
			nonce = v.nonce(s.addr)
		}
		t.nonce = nonce
		t.method, t.opCost = "gov_vote", uint64(h.g.Doc.Governance.Parameters.GasCosts[governance.GasOpCastVote])
		t.flavor = "other"
		invKind = -1
		tx = func(n uint64, f *transaction.Fee) *transaction.Transaction { return muxdrv.TxCastVote(n, f, id, vote) }
		t.body = func(_ *index, ok bool) string { return fmt.Sprintf("(BOther %s)", coqout.Bool(ok)) }
	}
	// invalid in one respect
	badSig := false
	switch invKind {
	case 0:
		t.nonce++
		t.flavor += ",nonce+1"
	case 1:
		if t.nonce > 0 {
			t.nonce--
			t.flavor += ",nonce-1"
		}
	case 2:
		t.fee = new(big.Int).Add(v.balance(t.snd.addr), big.NewInt(1))
		t.flavor += ",fee>balance"
	case 3:
		t.gas = 0
		t.flavor += ",gas=0"
	case 4, 5:
		// set below after the size is known
	case 6:
		badSig = true
		t.flavor += ",bad-signature"
	}
	build := func() []byte {
		f := &transaction.Fee{Amount: qty(t.fee), Gas: transaction.Gas(t.gas)}
		if badSig {
			return muxdrv.SignRaw(t.snd.key, tx(t.nonce, f), muxdrv.TxRawContext("some-other-chain"))
		}
		return muxdrv.Sign(t.snd.key, tx(t.nonce, f))
	}
	t.raw = build()
	if invKind == 4 {
		t.gas = uint64(len(t.raw)) + t.opCost - 1
		t.flavor += ",gas=size+op-1"
		t.raw = build()
	} else if invKind == 5 {
		t.gas = uint64(len(t.raw)) - 1
		t.flavor += ",gas=size-1"
		t.raw = build()
	} else if invalid && invKind == -1 {
		// keep ledger-neutral methods valid
	}
	t.nomodel = badSig
	// predicted nonce for the following transactions of this sender in the block
	if !badSig && t.nonce == nonce && t.fee.Cmp(v.balance(t.snd.addr)) <= 0 {
		nonces[t.snd.addr] = nonce + 1
	}
	return t
}

func qu(q *quantity.Quantity) uint64 { return q.ToBigInt().Uint64() }

// result class of a transaction as the model names it
func resultClass(tr *muxdrv.TxResult) string {
	if tr.Code == 0 {
		return "ROk"
	}
	switch {
	case tr.Codespace == "staking":
		return fmt.Sprintf("(RFail %d)", tr.Code)
	case tr.Codespace == "consensus" || tr.Codespace == "transaction":
		if strings.Contains(tr.Log, "invalid nonce") {
			return "(RFail 22)"
		}
	}
	if strings.Contains(tr.Log, "out of gas") {
		return "(RFail 21)"
	}
	if strings.Contains(tr.Log, "invalid nonce") {
		return "(RFail 22)"
	}
	if strings.Contains(tr.Log, "insufficient balance") && tr.Codespace != "governance" {
		return "(RFail 20)"
	}
	return "(RFail 30)"
}

// ---------- one block ----------

var two64 = new(big.Int).Lsh(big.NewInt(1), 64)

func below64(k int64) quantity.Quantity { return qty(new(big.Int).Sub(two64, big.NewInt(k))) }

// hugeGenesis rewrites the generated ledger so that the total supply is far above 2^64 and
// many balances / pool balances / share totals sit just below, at or above 2^64.
func hugeGenesis(doc *genesis.Document, variant string) {
	st := &doc.Staking
	var esc, plain []staking.Address
	for a, acc := range st.Ledger {
		if !acc.Escrow.Active.Balance.IsZero() {
			esc = append(esc, a)
		} else {
			plain = append(plain, a)
		}
	}
	less := func(l []staking.Address) func(i, j int) bool {
		return func(i, j int) bool { return bytes.Compare(l[i][:], l[j][:]) < 0 }
	}
	sort.Slice(esc, less(esc))
	sort.Slice(plain, less(plain))
	// validator entities: general balance just below 2^64 (fee credits cross it)
	for i, a := range esc {
		st.Ledger[a].General.Balance = below64([]int64{1, 6, 41, 1001}[i%4])
	}
	// the lowest-address validator's own escrow just below 2^64 (rewards and commission cross
	// the pool balance and the share total)
	{
		a := esc[0]
		acc := st.Ledger[a]
		target := new(big.Int).Sub(two64, big.NewInt(2000))
		delta := new(big.Int).Sub(target, acc.Escrow.Active.Balance.ToBigInt())
		acc.Escrow.Active.Balance = qty(target)
		acc.Escrow.Active.TotalShares = qty(new(big.Int).Add(acc.Escrow.Active.TotalShares.ToBigInt(), delta))
		d := st.Delegations[a][a]
		d.Shares = qty(new(big.Int).Add(d.Shares.ToBigInt(), delta))
	}
	// plain accounts around the boundary; the last of the list stays as generated
	vals := []*big.Int{
		new(big.Int).Add(new(big.Int).Lsh(big.NewInt(1), 63), big.NewInt(12345)),
		new(big.Int).Sub(two64, big.NewInt(1)),
		new(big.Int).Set(two64),               // an exact multiple of 2^64
		new(big.Int).Lsh(big.NewInt(1), 65),   // another one
		new(big.Int).Sub(two64, big.NewInt(77)),
		new(big.Int).Sub(two64, big.NewInt(900)),
		new(big.Int).Sub(two64, big.NewInt(30)),
	}
	for i, v := range vals {
		if i < len(plain)-1 {
			st.Ledger[plain[i]].General.Balance = qty(v)
		}
	}
	if strings.HasPrefix(variant, "near") && len(plain) > 8 {
		st.Ledger[plain[7]].General.Balance = qty(new(big.Int).Sub(new(big.Int).Lsh(big.NewInt(1), 128), big.NewInt(1000)))
	}
	// a non-validator escrow account: active pool and debonding pool just below 2^64
	if len(plain) > 6 {
		e, d1, d2 := plain[5], plain[6], plain[4]
		act := new(big.Int).Sub(two64, big.NewInt(3000))
		deb := new(big.Int).Sub(two64, big.NewInt(100))
		st.Ledger[e].Escrow.Active = staking.SharePool{Balance: qty(act), TotalShares: qty(act)}
		st.Ledger[e].Escrow.Debonding = staking.SharePool{Balance: qty(deb), TotalShares: qty(deb)}
		st.Delegations[e] = map[staking.Address]*staking.Delegation{d1: {Shares: qty(act)}}
		st.DebondingDelegations[e] = map[staking.Address][]*staking.DebondingDelegation{d2: {{Shares: qty(deb), DebondEndTime: 2}}}
	}
	// the common pool is the first addend of InitChain's supply summation: at or above 2^64 it
	// keeps that running sum out of the 64-bit range from the start
	st.CommonPool = qty(new(big.Int).Add(two64, big.NewInt(3000)))
	if variant != "near 2^128 (stake bypassed)" {
		doc.Scheduler.Parameters.VotingPowerDistribution = scheduler.VotingPowerDistributionSqrt
	}
	exactSupply(doc)
}

// exactSupply sets TotalSupply to the exact big-integer sum of every balance and pool of the
// genesis document.
func exactSupply(doc *genesis.Document) {
	st := &doc.Staking
	total := new(big.Int)
	for _, acc := range st.Ledger {
		total.Add(total, acc.General.Balance.ToBigInt())
		total.Add(total, acc.Escrow.Active.Balance.ToBigInt())
		total.Add(total, acc.Escrow.Debonding.Balance.ToBigInt())
	}
	total.Add(total, st.CommonPool.ToBigInt())
	total.Add(total, st.LastBlockFees.ToBigInt())
	total.Add(total, st.GovernanceDeposits.ToBigInt())
	st.TotalSupply = qty(total)
}

// vaultInfo is the harness's bookkeeping of the one vault of a vault history.
type vaultInfo struct {
	creator sender
	addr    staking.Address
	created bool
	pending bool   // create transaction in flight
	nonce   uint64 // next action nonce (vault.Nonce)
	policy  map[staking.Address]*vaultPolicy
}

type vaultPolicy struct {
	limit *big.Int
	cur   *big.Int
}

// hookOK predicts the vault's withdraw hook (vault/api/policy.go AuthorizeWithdrawal with a
// single never-ending bucket): the address needs a state entry; a zero amount passes; otherwise
// the policy must be enabled and the running total must stay within the limit.
func (v *vaultInfo) hookOK(to staking.Address, amt *big.Int) bool {
	pl, ok := v.policy[to]
	if !ok {
		return false
	}
	if amt.Sign() == 0 {
		return true
	}
	if pl.limit.Sign() == 0 {
		return false
	}
	return new(big.Int).Add(pl.cur, amt).Cmp(pl.limit) <= 0
}

func (v *vaultInfo) spent(to staking.Address, amt *big.Int) {
	if pl, ok := v.policy[to]; ok && amt.Sign() > 0 {
		pl.cur = new(big.Int).Add(pl.cur, amt)
	}
}

const vaultGas = 4 * muxdrv.DefaultGas
const vaultInterval = 1_000_000_000 // one bucket for the whole history

// actionResult finds the vault's ActionExecutedEvent in a transaction result.
func actionResult(tr *muxdrv.TxResult) (bool, string, uint32) {
	for _, e := range flatten(tr.Events) {
		if e.kind == "action_executed" {
			var ae vault.ActionExecutedEvent
			if err := events.DecodeValue(e.val, &ae); err != nil {
				panic(err)
			}
			return true, ae.Result.Module, ae.Result.Code
		}
	}
	return false, "", 0
}

// vaultTxs adds at most one vault-related transaction to the block.
func (h *history) vaultTxs(r *prng.R, pre *blockView, nonces map[staking.Address]uint64, blockNo int, gts *[]*genTx, cand *[][]byte) {
	vp := h.g.Doc.Vault.Parameters
	nonceOf := func(a staking.Address) uint64 {
		if n, ok := nonces[a]; ok {
			return n
		}
		return pre.nonce(a)
	}
	add := func(t *genTx, mk func(n uint64, f *transaction.Fee) *transaction.Transaction) {
		t.nonce = nonceOf(t.snd.addr)
		t.fee = big.NewInt(int64(r.Intn(30)))
		if t.gas == 0 {
			t.gas = vaultGas
		}
		t.raw = muxdrv.Sign(t.snd.key, mk(t.nonce, &transaction.Fee{Amount: qty(t.fee), Gas: transaction.Gas(t.gas)}))
		nonces[t.snd.addr] = t.nonce + 1
		*gts = append(*gts, t)
		*cand = append(*cand, t.raw)
	}
	other := func(_ *index, ok bool) string { return fmt.Sprintf("(BOther %s)", coqout.Bool(ok)) }
	if h.vlt == nil {
		h.vlt = &vaultInfo{creator: h.senders[6+r.Intn(3)], policy: map[staking.Address]*vaultPolicy{}}
	}
	v := h.vlt
	if !v.created {
		if v.pending {
			return
		}
		n := nonceOf(v.creator.addr)
		addr := vault.NewVaultAddress(v.creator.addr, n+1)
		au := vault.Authority{Addresses: []staking.Address{v.creator.addr}, Threshold: 1}
		v.pending = true
		add(&genTx{snd: v.creator, method: "vault_create", opCost: uint64(vp.GasCosts[vault.GasOpCreate]), flavor: "vault", body: other,
			addrs: []staking.Address{addr},
			after: func(ok bool) {
				v.pending = false
				if ok {
					v.created, v.addr = true, addr
				}
			}}, func(n uint64, f *transaction.Fee) *transaction.Transaction {
			return vault.NewCreateTx(n, f, &vault.Create{AdminAuthority: au, SuspendAuthority: au})
		})
		return
	}
	if !r.Chance(75) {
		return
	}
	vbal := pre.balance(v.addr)
	third := h.senders[9+r.Intn(3)]
	authCost := uint64(vp.GasCosts[vault.GasOpAuthorizeAction])
	action := func(kind string, act vault.Action, onExec func(x *index, module string, code uint32) (string, string)) {
		nn := v.nonce
		t := &genTx{snd: v.creator, method: "vault_" + kind, opCost: authCost, flavor: "vault", addrs: []staking.Address{v.addr}}
		t.bodyRes = func(x *index, tr *muxdrv.TxResult) (string, string) {
			executed, module, code := actionResult(tr)
			if executed {
				v.nonce = nn + 1
			}
			if tr.Code != 0 || !executed {
				return fmt.Sprintf("(BOther %s)", coqout.Bool(tr.Code == 0)), ""
			}
			return onExec(x, module, code)
		}
		add(t, func(n uint64, f *transaction.Fee) *transaction.Transaction {
			return vault.NewAuthorizeActionTx(n, f, &vault.AuthorizeAction{Vault: v.addr, Nonce: nn, Action: act})
		})
	}
	k := r.Intn(10)
	if vbal.Sign() == 0 && r.Chance(70) {
		k = 0 // an empty vault is funded first
	}
	switch {
	case k < 2:
		// deposit into the vault
		sd := h.senders[5+r.Intn(5)]
		amt := big.NewInt(int64(1000 + r.Intn(200000)))
		to := v.addr
		add(&genTx{snd: sd, gas: muxdrv.DefaultGas, method: "transfer", opCost: uint64(pre.params.GasCosts[staking.GasOpTransfer]), flavor: "vault-deposit",
			addrs: []staking.Address{to},
			body:  func(x *index, _ bool) string { return fmt.Sprintf("(BTransfer %s %s)", x.of(to), amt) }},
			func(n uint64, f *transaction.Fee) *transaction.Transaction {
				return staking.NewTransferTx(n, f, &staking.Transfer{To: to, Amount: qty(amt)})
			})
	case k < 4:
		// withdraw policy for a third party, the creator or the vault itself
		who := []staking.Address{third.addr, v.addr, v.creator.addr, v.addr}[r.Intn(4)]
		limit := []*big.Int{big.NewInt(500), big.NewInt(1_000_000_000_000), big.NewInt(0), new(big.Int).Set(two128)}[r.Intn(4)]
		h.sum.Count("vault", "policy for "+map[bool]string{true: "the vault itself", false: "another address"}[who == v.addr])
		action("policy", vault.Action{UpdateWithdrawPolicy: &vault.ActionUpdateWithdrawPolicy{Address: who,
			Policy: vault.WithdrawPolicy{LimitAmount: qty(limit), LimitInterval: vaultInterval}}},
			func(_ *index, module string, code uint32) (string, string) {
				if module == "" && code == 0 {
					if pl, ok := v.policy[who]; ok {
						pl.limit = limit // same interval: the running total is kept
					} else {
						v.policy[who] = &vaultPolicy{limit: limit, cur: new(big.Int)}
					}
				}
				return "(BOther true)", ""
			})
	case k < 5:
		// a third party (or anyone) withdraws from the vault through the hook
		sd := []sender{third, v.creator, h.senders[4+r.Intn(8)]}[r.Intn(3)]
		amt, ak := h.amount(r, vbal, qu(&pre.params.MinTransferAmount))
		if r.Chance(60) {
			amt, ak = big.NewInt(int64(10+r.Intn(400))), "small"
		}
		hook := v.hookOK(sd.addr, amt)
		from := v.addr
		h.sum.Count("vault", "third-party withdraw, hook "+map[bool]string{true: "allows", false: "refuses"}[hook])
		add(&genTx{snd: sd, gas: muxdrv.DefaultGas, method: "withdraw", opCost: uint64(pre.params.GasCosts[staking.GasOpWithdraw]), flavor: "from-vault,amt=" + ak,
			addrs: []staking.Address{from},
			body: func(x *index, _ bool) string {
				return fmt.Sprintf("(BWithdrawHooked %s %s %s)", x.of(from), amt, coqout.Bool(hook))
			},
			after: func(ok bool) {
				if ok {
					v.spent(sd.addr, amt)
				}
			}},
			func(n uint64, f *transaction.Fee) *transaction.Transaction {
				return staking.NewWithdrawTx(n, f, &staking.Withdraw{From: from, Amount: qty(amt)})
			})
	default:
		// the vault executes a staking message as a subcall with itself as caller
		var method transaction.MethodName
		var body any
		var inner func(x *index) string
		var target staking.Address
		var onOK func()
		amt, _ := h.amount(r, vbal, qu(&pre.params.MinTransferAmount))
		if r.Chance(65) {
			amt = big.NewInt(int64(10 + r.Intn(900)))
		}
		kind := ""
		switch r.Intn(6) {
		case 0, 1:
			// Withdraw with the vault as caller; from == to when the source is the vault itself
			from := v.addr
			if r.Chance(30) {
				from = third.addr
			}
			target, kind = from, "withdraw from "+map[bool]string{true: "ITSELF", false: "another account"}[from == v.addr]
			method, body = staking.MethodWithdraw, &staking.Withdraw{From: from, Amount: qty(amt)}
			if from == v.addr {
				hook := v.hookOK(v.addr, amt)
				inner = func(x *index) string {
					return fmt.Sprintf("(BWithdrawHooked %s %s %s)", x.of(from), amt, coqout.Bool(hook))
				}
				onOK = func() { v.spent(v.addr, amt) }
			} else {
				inner = func(x *index) string { return fmt.Sprintf("(BWithdraw %s %s)", x.of(from), amt) }
			}
		case 2, 3:
			to, _ := h.anyAddr(r, v.addr)
			target, kind = to, "transfer"+map[bool]string{true: " to ITSELF", false: ""}[to == v.addr]
			method, body = staking.MethodTransfer, &staking.Transfer{To: to, Amount: qty(amt)}
			inner = func(x *index) string { return fmt.Sprintf("(BTransfer %s %s)", x.of(to), amt) }
		case 4:
			to := h.g.Validators[r.Intn(4)].Entity.Address()
			if r.Chance(30) {
				to = v.addr
			}
			target, kind = to, "add_escrow"+map[bool]string{true: " to ITSELF", false: ""}[to == v.addr]
			method, body = staking.MethodAddEscrow, &staking.Escrow{Account: to, Amount: qty(amt)}
			inner = func(x *index) string { return fmt.Sprintf("(BAddEscrow %s %s)", x.of(to), amt) }
		default:
			target, kind = v.addr, "burn"
			method, body = staking.MethodBurn, &staking.Burn{Amount: qty(amt)}
			inner = func(x *index) string { return fmt.Sprintf("(BBurn %s)", amt) }
		}
		h.sum.Count("vault", "executes "+kind)
		tgt := target
		action("exec", vault.Action{ExecuteMessage: &vault.ActionExecuteMessage{Method: method, Body: cbor.Marshal(body)}},
			func(x *index, module string, code uint32) (string, string) {
				cls := "ROk"
				switch {
				case module == "" && code == 0:
					if onOK != nil {
						onOK()
					}
				case module == "staking":
					cls = fmt.Sprintf("(RFail %d)", code)
				default:
					// uncoded error of the handler: a rejected reserved address, else a quantity underflow
					cls = "(RFail 20)"
					for _, ra := range h.extra {
						if ra == tgt {
							cls = "(RFail 30)"
						}
					}
				}
				h.sum.Count("vault_exec_result", kind+": "+cls)
				return fmt.Sprintf("(BVaultExec %s %s)", x.of(v.addr), inner(x)), cls
			})
		(*gts)[len(*gts)-1].addrs = append((*gts)[len(*gts)-1].addrs, target)
	}
}

// campaign is one staking ChangeParameters proposal and the votes that make it pass.
type campaign struct {
	changes staking.ConsensusParameterChanges
	desc    string
	id      uint64 // 0 = not submitted yet
	voted   map[int]bool
	first   bool
	start   int
}

func qp(v uint64) *quantity.Quantity { return quantity.NewFromUint64(v) }

// newChanges draws parameter changes that ConsensusParameterChanges.SanityCheck and
// ConsensusParameters.SanityCheck accept (fee weights not all zero).
func newChanges(r *prng.R, forceZeroVQ bool) (staking.ConsensusParameterChanges, string) {
	var c staking.ConsensusParameterChanges
	var d []string
	weights := func(w [3]uint64) {
		c.FeeSplitWeightPropose, c.FeeSplitWeightVote, c.FeeSplitWeightNextPropose = qp(w[0]), qp(w[1]), qp(w[2])
		d = append(d, fmt.Sprintf("weights=%d/%d/%d", w[0], w[1], w[2]))
	}
	if forceZeroVQ {
		weights([3]uint64{uint64(1 + r.Intn(5)), 0, 0})
	}
	n := 1 + r.Intn(3)
	for i := 0; i < n; i++ {
		switch r.Intn(9) {
		case 0:
			if c.FeeSplitWeightPropose == nil {
				weights([][3]uint64{{1, 0, 0}, {5, 0, 0}, {0, 1, 1}, {2, 3, 4}, {0, 0, 3}, {1, 1, 0}, {0, 2, 0}}[r.Intn(7)])
			}
		case 1:
			v := []uint64{0, 1, 3}[r.Intn(3)]
			c.RewardFactorEpochSigned = qp(v)
			d = append(d, fmt.Sprint("factor_signed=", v))
		case 2:
			v := []uint64{0, 1, 2}[r.Intn(3)]
			c.RewardFactorBlockProposed = qp(v)
			d = append(d, fmt.Sprint("factor_proposed=", v))
		case 3:
			v := []uint64{0, 2, 5}[r.Intn(3)]
			c.MinTransactBalance = qp(v)
			d = append(d, fmt.Sprint("min_transact=", v))
		case 4:
			v := []uint64{0, 5, 50}[r.Intn(3)]
			c.MinTransferAmount = qp(v)
			d = append(d, fmt.Sprint("min_transfer=", v))
		case 5:
			v := []uint64{1, 10, 100}[r.Intn(3)]
			c.MinDelegationAmount = qp(v)
			d = append(d, fmt.Sprint("min_delegation=", v))
		case 6:
			v := []uint32{0, 1, 8}[r.Intn(3)]
			c.MaxAllowances = &v
			d = append(d, fmt.Sprint("max_allowances=", v))
		case 7:
			v := beacon.EpochTime(1 + r.Intn(3))
			c.DebondingInterval = &v
			d = append(d, fmt.Sprint("debonding_interval=", v))
		case 8:
			sc := []staking.RewardStep{{Until: 1_000_000, Scale: *qp([]uint64{0, 1_000_000, 5_000_000}[r.Intn(3)])}}
			c.RewardSchedule = &sc
			d = append(d, "reward_schedule")
		}
	}
	if len(d) == 0 {
		c.RewardFactorEpochSigned = qp(1)
		d = append(d, "factor_signed=1")
	}
	return c, strings.Join(d, ",")
}

var harnessErrors []string

var errHalt = fmt.Errorf("chain halted: no validators electable")

type blockOut struct {
	violations []string
	burned     *big.Int
}

func (h *history) coqParams(p *staking.ConsensusParameters, x *index) string {
	var res []string
	for _, a := range h.extra {
		res = append(res, x.of(a))
	}
	return fmt.Sprintf("(mkParams %s %s %s %d %s %s %d %s %s %s %s %s)",
		qs(&p.MinTransferAmount), qs(&p.MinDelegationAmount), qs(&p.MinTransactBalance), p.MaxAllowances,
		coqout.Bool(p.DisableTransfers), coqout.Bool(p.DisableDelegation), uint64(p.DebondingInterval),
		qs(&p.FeeSplitWeightPropose), qs(&p.FeeSplitWeightVote), qs(&p.FeeSplitWeightNextPropose),
		coqout.List(res), x.of(staking.BurnAddress))
}

func scaleAt(p *staking.ConsensusParameters, epoch uint64) string {
	for _, st := range p.RewardSchedule {
		if beacon.EpochTime(epoch) < st.Until {
			return "(Some " + qs(&st.Scale) + ")"
		}
	}
	return "None"
}

func (h *history) rateOf(height int64, a staking.Address, epoch uint64, p *staking.ConsensusParameters) string {
	acc, err := h.reps[0].Account(height, a)
	if err != nil {
		panic(err)
	}
	if rt := acc.Escrow.CommissionSchedule.CurrentRate(beacon.EpochTime(epoch)); rt != nil {
		return qs(rt)
	}
	return qs(&p.CommissionScheduleRules.MinCommissionRate)
}

func (h *history) entityOfCons(addr []byte) (staking.Address, bool) {
	v := h.g.ValidatorByConsAddr(addr)
	if v == nil {
		return staking.Address{}, false
	}
	return v.Entity.Address(), true
}

// warmup executes the first block (no transactions): there is no committed
// state to read before it, so it is checked by S only.
func (h *history) warmup() (*blockOut, error) {
	in := h.chain.NewBlock(h.g.Validators[0].ConsAddr, muxdrv.VotesAll, nil)
	txs, err := h.reps[0].Propose(in, nil)
	if err != nil {
		return nil, err
	}
	var res *muxdrv.BlockResult
	for i, rep := range h.reps {
		var rr *muxdrv.BlockResult
		if i == 0 {
			rr, err = rep.Process(in, txs)
			res = rr
		} else {
			rr, err = rep.Replay(in, txs)
		}
		if err != nil {
			return nil, err
		}
	}
	h.chain.Applied(res)
	post, err := h.view()
	if err != nil {
		return nil, err
	}
	h.sum.Count("S_blocks", "checked")
	h.sigTotal++ // updateEpochSigning of the first block: no votes
	h.sum.Count("blocks", "first-block(S only)")
	out := &blockOut{violations: checkDump(post.dump), burned: new(big.Int)}
	if _, err := h.outsider.Replay(in, txs); err != nil {
		return nil, err
	}
	h.crossSanity(out, 1, func() error { _, err := h.sanity.Replay(in, txs); return err })
	return out, nil
}

// crossSanity runs the in-tree supplementarysanity replica on the block. When the harness's
// own oracle already found a violation in this block that one is reported; when only the
// in-tree checker fails (it may itself be hit by a defect in the arithmetic it shares with the
// ledger) the failure is remembered, the replica is dropped and the history goes on, so that an
// independent S/K violation later in the history is reported first.
func (h *history) crossSanity(out *blockOut, height int64, run func() error) {
	if h.sanity == nil {
		return
	}
	err := run()
	if err == nil {
		h.sum.Count("S_blocks", "in-tree-sanity-agrees")
		return
	}
	msg := fmt.Sprintf("height %d: in-tree supplementarysanity / replay failed: %v", height, err)
	if strings.Contains(err.Error(), "allowance is greater than total supply") {
		// Allow bounds an allowance by the total supply at the time it is set; a later burn can
		// take the supply below it, which only the in-tree checker objects to. Not a conservation
		// or share-bookkeeping matter: recorded, the replica is dropped (it panicked).
		h.sum.Count("in_tree_checker_other", "allowance above total supply after a burn (not part of C05)")
		h.sanity.Close()
		h.sanity = nil
		return
	}
	if len(out.violations) > 0 {
		out.violations = append(out.violations, msg)
		return
	}
	if h.pendingSanity == "" {
		h.pendingSanity = msg
		h.pendingHeight = int(height)
	}
	h.sanity.Close()
	h.sanity = nil
}

// countCrossings measures, between two consecutive block boundaries, the fields whose value
// moved across 2^64 (up = a credit pushed it to or past 2^64) and the non-zero values that are
// exact multiples of 2^64.
func (h *history) countCrossings(pre, post *muxdrv.StakingDump) {
	fields := func(d *muxdrv.StakingDump) map[string]*big.Int {
		m := map[string]*big.Int{"common_pool": bi(d.CommonPool), "total_supply": bi(d.TotalSupply)}
		for _, a := range d.Accounts {
			m["general:"+a.Address] = bi(a.Balance)
			m["active_balance:"+a.Address] = bi(a.Active.Balance)
			m["active_shares:"+a.Address] = bi(a.Active.TotalShares)
			m["debonding_balance:"+a.Address] = bi(a.Debonding.Balance)
			m["debonding_shares:"+a.Address] = bi(a.Debonding.TotalShares)
		}
		for _, dl := range d.Delegations {
			m["delegation:"+dl.Escrow+"/"+dl.Delegator] = bi(dl.Shares)
		}
		return m
	}
	a, b := fields(pre), fields(post)
	mask := new(big.Int).Sub(two64, big.NewInt(1))
	for k, nv := range b {
		ov := a[k]
		if ov == nil {
			ov = new(big.Int)
		}
		kind := k
		if i := strings.Index(k, ":"); i >= 0 {
			kind = k[:i]
		}
		if ov.Cmp(two64) < 0 && nv.Cmp(two64) >= 0 {
			h.sum.Count("crossed_2^64_upwards", kind)
		}
		if ov.Cmp(two64) >= 0 && nv.Cmp(two64) < 0 {
			h.sum.Count("crossed_2^64_downwards", kind)
		}
		if nv.Sign() > 0 && nv.Cmp(ov) != 0 && new(big.Int).And(nv, mask).Sign() == 0 {
			h.sum.Count("became_exact_multiple_of_2^64", kind)
		}
	}
}

// campaignTxs adds the governance campaign's transactions of this block: the proposal, then
// yes votes of all validator entities; and one plain fee-paying transfer so that every block
// around the parameter change carries fees.
func (h *history) campaignTxs(r *prng.R, pre *blockView, nonces map[staking.Address]uint64, blockNo int, gts *[]*genTx, cand *[][]byte) {
	nonceOf := func(a staking.Address) uint64 {
		if n, ok := nonces[a]; ok {
			return n
		}
		return pre.nonce(a)
	}
	add := func(sd sender, method string, cost uint64, feeAmt int64, mk func(n uint64, f *transaction.Fee) *transaction.Transaction, body func(x *index, ok bool) string, after func(bool)) {
		n := nonceOf(sd.addr)
		t := &genTx{snd: sd, nonce: n, fee: big.NewInt(feeAmt), gas: muxdrv.DefaultGas, method: method, opCost: cost, flavor: "campaign", body: body, after: after}
		t.raw = muxdrv.Sign(sd.key, mk(n, &transaction.Fee{Amount: qty(t.fee), Gas: transaction.Gas(t.gas)}))
		nonces[sd.addr] = n + 1
		*gts = append(*gts, t)
		*cand = append(*cand, t.raw)
	}
	other := func(_ *index, ok bool) string { return fmt.Sprintf("(BOther %s)", coqout.Bool(ok)) }
	// a fee-paying transfer in every block
	{
		sd := h.senders[5+r.Intn(6)]
		to := h.senders[4+r.Intn(8)].addr
		amt := big.NewInt(int64(60 + r.Intn(100)))
		add(sd, "transfer", uint64(pre.params.GasCosts[staking.GasOpTransfer]), int64(20+r.Intn(30)),
			func(n uint64, f *transaction.Fee) *transaction.Transaction {
				return staking.NewTransferTx(n, f, &staking.Transfer{To: to, Amount: qty(amt)})
			},
			func(x *index, _ bool) string { return fmt.Sprintf("(BTransfer %s %s)", x.of(to), amt) }, nil)
		(*gts)[len(*gts)-1].addrs = []staking.Address{to}
	}
	gp := h.g.Doc.Governance.Parameters
	if h.camp == nil && blockNo >= h.campNext {
		first := h.campNext == 1
		ch, desc := newChanges(r, first && r.Chance(80))
		h.camp = &campaign{changes: ch, desc: desc, voted: map[int]bool{}, first: first, start: blockNo}
	}
	c := h.camp
	if c == nil {
		return
	}
	if blockNo > c.start+7 {
		// the voting period is over (a validator that lost its stake cannot vote)
		h.sum.Count("campaign", "abandoned: not every validator could vote")
		h.camp = nil
		h.campNext = blockNo + 2
		return
	}
	if c.id == 0 {
		sd := h.senders[4+r.Intn(4)]
		dep := gp.MinProposalDeposit.ToBigInt()
		changes := c.changes
		add(sd, "gov_submit", uint64(gp.GasCosts[governance.GasOpSubmitProposal]), int64(r.Intn(10)),
			func(n uint64, f *transaction.Fee) *transaction.Transaction {
				return governance.NewSubmitProposalTx(n, f, &governance.ProposalContent{
					Metadata:         &governance.ProposalMetadata{Title: "verif staking parameters"},
					ChangeParameters: &governance.ChangeParametersProposal{Module: staking.ModuleName, Changes: cbor.Marshal(changes)},
				})
			},
			func(_ *index, _ bool) string { return fmt.Sprintf("(BGovSubmit %s true true)", dep) },
			func(ok bool) {
				if ok {
					c.id = h.proposal // counted just before this callback
					h.sum.Count("campaign", "submitted: "+campaignClass(c.desc))
				}
			})
		return
	}
	left := 0
	for i := 0; i < 4; i++ {
		if c.voted[i] {
			continue
		}
		left++
		if !r.Chance(70) {
			continue
		}
		i := i
		add(h.senders[i], "gov_vote", uint64(gp.GasCosts[governance.GasOpCastVote]), int64(r.Intn(6)),
			func(n uint64, f *transaction.Fee) *transaction.Transaction { return muxdrv.TxCastVote(n, f, c.id, governance.VoteYes) },
			other, func(ok bool) {
				if ok {
					c.voted[i] = true
				}
			})
	}
	if left == 0 {
		// all validators voted: the proposal closes and passes two epochs after its creation;
		// the next campaign starts after that
		h.sum.Count("campaign", "all validators voted yes")
		h.camp = nil
		h.campNext = blockNo + 9
	}
}

func campaignClass(d string) string {
	if strings.Contains(d, "/0/0") {
		return "vote+next weights zero"
	}
	if strings.Contains(d, "weights=") {
		return "other weights"
	}
	return "no weights"
}

func (h *history) block(blockNo int, total int) (*blockOut, error) {
	if h.chain.Next == h.g.Doc.Height {
		return h.warmup()
	}
	r := h.rng.Fork()
	pre, err := h.view()
	if err != nil {
		return nil, err
	}
	height := h.chain.Next
	vals := h.chain.ValidatorsAt(height)
	// proposer among the current validators that we hold an identity for
	var cands []int
	for _, v := range vals {
		if gv := h.g.ValidatorByConsAddr(v.Address); gv != nil {
			cands = append(cands, gv.Index)
		}
	}
	if len(cands) == 0 {
		return nil, fmt.Errorf("no proposer candidate at height %d", height)
	}
	pi := cands[r.Intn(len(cands))]
	var votes muxdrv.VotePattern
	vk := ""
	switch x := r.Intn(10); {
	case x < 5:
		votes, vk = muxdrv.VotesAll, "all"
	case x < 9:
		votes, vk = muxdrv.VotesMask(r.U64()), "mask"
	default:
		votes, vk = muxdrv.VotesNone, "none"
	}
	h.sum.Count("votes", vk)
	var mis []types.Misbehavior
	evPct := 10
	if height > 24 {
		evPct = 1 // slashing freezes validators and soon leaves none electable (the chain halts); keep long histories alive
	}
	if h.victim >= 0 {
		evPct = 15 // no freezing in this regime; only the victim loses its stake
	}
	// mock backend: below the base epoch there is no random beacon yet and a slash-triggered
	// re-election cannot run (debug-backend artefact): no evidence before the first transition
	if height > 3 && r.Chance(evPct) && os.Getenv("LEDGER_NOEVIDENCE") == "" && pre.dump.Epoch >= uint64(h.g.Doc.Beacon.Base) {
		pv := h.chain.ValidatorsAt(height - 2)
		tv := pv[r.Intn(len(pv))]
		// prefer a validator whose entity has stake in debonding (slash must hit both pools)
		for _, cv := range pv {
			if ea, ok := h.entityOfCons(cv.Address); ok {
				if a, ok := pre.accts[ea.String()]; ok && a.Debonding.Balance != "0" && r.Chance(70) {
					tv = cv
					h.sum.Count("evidence", "against-entity-with-debonding-stake")
					break
				}
			}
		}
		if h.victim >= 0 {
			// the same entity again, whether or not it still is in the validator set
			vv := h.g.Validators[h.victim]
			tv = muxdrv.Val{Address: vv.ConsAddr, Power: 1}
			for _, cv := range pv {
				if bytes.Equal(cv.Address, vv.ConsAddr) {
					tv = cv
				}
			}
			if a, ok := pre.accts[vv.Entity.Address().String()]; ok {
				sl := pre.params.Slashing[staking.SlashConsensusEquivocation]
				tot := new(big.Int).Add(bi(a.Active.Balance), bi(a.Debonding.Balance))
				switch {
				case tot.Sign() == 0:
					h.sum.Count("evidence", "repeat-victim: escrow already empty")
				case sl.Amount.ToBigInt().Cmp(tot) > 0:
					h.sum.Count("evidence", "repeat-victim: penalty > active+debonding (capped)")
				default:
					h.sum.Count("evidence", "repeat-victim: penalty <= active+debonding")
				}
				if a.Debonding.Balance != "0" && a.Active.Balance != "0" {
					h.sum.Count("evidence", "repeat-victim: both pools non-empty")
				}
			}
		}
		mis = append(mis, h.chain.DuplicateVote(tv.Address, tv.Power, height-2))
		h.sum.Count("evidence", "duplicate-vote")
	}
	propRep, propAddr := h.reps[pi], h.g.Validators[pi].ConsAddr
	if r.Chance(6) {
		// a block proposed by a node the registry does not know: no proposer entity
		// (fees.go: the proposer's share goes to the common pool; no proposer reward)
		propRep, propAddr, pi = h.outsider, h.outAddr, -1
		h.sum.Count("proposer", "unregistered")
	} else {
		h.sum.Count("proposer", "validator")
	}
	in := h.chain.NewBlock(propAddr, votes, mis)

	ntx := r.Intn(9)
	nonces := map[staking.Address]uint64{}
	var gts []*genTx
	var cand [][]byte
	for i := 0; i < ntx; i++ {
		t := h.genTx(r, pre, nonces)
		gts = append(gts, t)
		cand = append(cand, t.raw)
	}
	if h.campaigns {
		h.campaignTxs(r, pre, nonces, blockNo, &gts, &cand)
	}
	if h.vaults {
		h.vaultTxs(r, pre, nonces, blockNo, &gts, &cand)
	}
	if h.mock && r.Chance(35) {
		// advance the epoch by 1..4 (takes effect in the next block)
		sd := h.senders[4+r.Intn(9)]
		nn, ok := nonces[sd.addr]
		if !ok {
			nn = pre.nonce(sd.addr)
		}
		jump := uint64([]int{1, 1, 2, 3, 4}[r.Intn(5)])
		t := &genTx{snd: sd, nonce: nn, fee: big.NewInt(int64(r.Intn(5))), gas: muxdrv.DefaultGas, method: "set_epoch",
			flavor: "other", body: func(_ *index, ok bool) string { return fmt.Sprintf("(BOther %s)", coqout.Bool(ok)) }}
		t.raw = muxdrv.Sign(sd.key, muxdrv.TxSetEpoch(nn, &transaction.Fee{Amount: qty(t.fee), Gas: transaction.Gas(t.gas)}, pre.dump.Epoch+jump))
		nonces[sd.addr] = nn + 1
		gts = append(gts, t)
		cand = append(cand, t.raw)
		h.sum.Count("epoch_jump", fmt.Sprint(jump))
	}
	txs, err := propRep.Propose(in, cand)
	if err != nil {
		return nil, fmt.Errorf("propose: %w", err)
	}
	if len(txs) == 0 {
		// the multiplexer could not prepare a proposal (it recovered from an error inside
		// BeginBlock/EndBlock): find out why by executing the block on another replica
		_, rerr := h.reps[(pi+5)%4].Replay(in, cand)
		if rerr != nil && strings.Contains(rerr.Error(), "failed to elect any validators") {
			// no validator has enough stake left / all are frozen: the chain halts by
			// design; not a ledger property. The history ends here.
			return nil, errHalt
		}
		return nil, fmt.Errorf("no proposal could be prepared at height %d: %v", height, rerr)
	}
	if len(txs) != len(cand)+1 {
		return nil, fmt.Errorf("proposal dropped transactions: %d of %d", len(txs)-1, len(cand))
	}
	res, err := propRep.Process(in, txs)
	if err != nil {
		return nil, fmt.Errorf("proposer replica %d height %d: %w", pi, height, err)
	}
	for i, rep := range append(append([]*muxdrv.Replica{}, h.reps...), h.outsider) {
		if rep == propRep {
			continue
		}
		rr, err := rep.Replay(in, txs)
		if err != nil {
			return nil, fmt.Errorf("replica %d height %d: %w", i, height, err)
		}
		if !bytes.Equal(rr.AppHash, res.AppHash) {
			return nil, fmt.Errorf("replicas diverge at height %d", height)
		}
	}
	h.chain.Applied(res)
	post, err := h.view()
	if err != nil {
		return nil, err
	}
	out := &blockOut{burned: new(big.Int)}

	// ---- S ----
	out.violations = append(out.violations, checkDump(post.dump)...)
	allEv := append(append([]ev{}, flatten(res.BeginEvents)...), flatten(res.EndEvents)...)
	for i := range res.TxResults {
		for _, e := range flatten(res.TxResults[i].Events) {
			allEv = append(allEv, e)
		}
	}
	for _, e := range allEv {
		if e.app == stakingEv && e.kind == "burn" {
			var b staking.BurnEvent
			if err := events.DecodeValue(e.val, &b); err != nil {
				panic(err)
			}
			out.burned.Add(out.burned, b.Amount.ToBigInt())
			h.sum.Count("S_events", "burn")
		}
	}
	before, after := bi(pre.dump.TotalSupply), bi(post.dump.TotalSupply)
	if after.Cmp(before) > 0 {
		out.violations = append(out.violations, fmt.Sprintf("height %d: total supply increased from %s to %s", height, before, after))
	}
	if new(big.Int).Sub(before, after).Cmp(out.burned) != 0 {
		out.violations = append(out.violations, fmt.Sprintf("height %d: total supply went from %s to %s but the burn events sum to %s", height, before, after, out.burned))
	}
	h.sum.Count("S_blocks", "checked")
	h.countCrossings(pre.dump, post.dump)
	// cross-check: the in-tree invariant checker on the same block
	h.crossSanity(out, height, func() error {
		rr, err := h.sanity.Replay(in, txs)
		if err == nil && !bytes.Equal(rr.AppHash, res.AppHash) {
			err = fmt.Errorf("the sanity replica diverges")
		}
		return err
	})

	wnow := fmt.Sprintf("%s/%s/%s", qs(&pre.params.FeeSplitWeightPropose), qs(&pre.params.FeeSplitWeightVote), qs(&pre.params.FeeSplitWeightNextPropose))
	if h.lastWeights != "" && h.lastWeights != wnow {
		k := "fee weights changed"
		if strings.HasSuffix(wnow, "/0/0") {
			k = "fee weights changed to vote+next = 0"
			if pre.dump.LastBlockFees != "0" {
				k += " with fees pending from the previous block"
			}
		}
		h.sum.Count("params_in_effect", k)
	}
	h.lastWeights = wnow
	// ---- K ----
	epochChanged := height > 1 && post.dump.Epoch != pre.dump.Epoch
	epoch := post.dump.Epoch
	p := pre.params
	uni := append(dumpAddrs(pre.dump), dumpAddrs(post.dump)...)
	for _, s := range h.senders {
		uni = append(uni, s.addr)
	}
	uni = append(uni, h.extra...)
	for _, t := range gts {
		uni = append(uni, t.addrs...)
	}
	x := newIndex(uni)
	var ops, rcs []string
	addOp := func(kind, term, rc string) {
		ops = append(ops, term)
		rcs = append(rcs, rc)
		h.sum.Count("K_ops", kind)
	}
	// BeginBlock: fees of the previous block
	propEnt, propKnown := h.entityOfCons(in.Proposer)
	popt := "None"
	if propKnown {
		popt = "(Some " + x.of(propEnt) + ")"
	}
	var voters []string
	for _, vt := range in.LastCommit.Votes {
		if !vt.SignedLastBlock {
			continue
		}
		if ea, ok := h.entityOfCons(vt.Validator.Address); ok {
			voters = append(voters, x.of(ea))
		}
	}
	nElig := len(in.LastCommit.Votes)
	addOp("fees_vq", fmt.Sprintf("(OFeesVQ %s %d %s)", popt, nElig, coqout.List(voters)), "ROk")
	if height > 1 && propKnown {
		addOp("reward_proposer", fmt.Sprintf("(ORewardSingle %s %s %d %d %s %s)", scaleAt(p, epoch), qs(&p.RewardFactorBlockProposed),
			len(voters), nElig, x.of(propEnt), h.rateOf(height-1, propEnt, epoch, p)), "ROk")
	}
	// signing bookkeeping (signing_rewards.go updateEpochSigning): every block, every voting entity
	h.sigTotal++
	for _, vt := range in.LastCommit.Votes {
		if vt.SignedLastBlock {
			if gv := h.g.ValidatorByConsAddr(vt.Validator.Address); gv != nil {
				h.sigBy[gv.Index]++
			}
		}
	}
	// slashing.go onEvidenceByzantineConsensus: the node's entity is slashed unless the node is frozen
	bev := flatten(res.BeginEvents)
	nTake := 0
	for _, e := range bev {
		if e.app == stakingEv && e.kind == "take_escrow" {
			nTake++
			h.sum.Count("S_events", "take_escrow")
		}
	}
	nSlash := 0
	for _, mb := range mis {
		gv := h.g.ValidatorByConsAddr(mb.Validator.Address)
		if gv == nil {
			continue
		}
		if h.frozen[gv.Index] {
			h.sum.Count("evidence", "against-frozen-validator(no slash)")
			continue
		}
		sl := p.Slashing[staking.SlashConsensusEquivocation]
		addOp("slash", fmt.Sprintf("(OSlash %s %s)", x.of(gv.Entity.Address()), qs(&sl.Amount)), "ROk")
		nSlash++
		if sl.FreezeInterval > 0 {
			h.frozen[gv.Index] = true
		}
	}
	if nTake > nSlash {
		out.violations = append(out.violations, fmt.Sprintf("height %d: %d TakeEscrow events but only %d slashes are due", height, nTake, nSlash))
	}
	// scheduler.go shouldElect: no election (and no election reward) while epoch == base epoch
	// (the mock backend starts below the base epoch, so 0 -> 1 is a transition without election)
	if epochChanged && epoch != uint64(h.g.Doc.Beacon.Base) {
		// scheduler.go elect: every entity that got a validator elected, in address order
		cv, err := h.reps[0].CurrentValidators(0)
		if err != nil {
			return nil, err
		}
		var el []staking.Address
		for _, gv := range h.g.Validators {
			pk := gv.Cons.Public()
			if _, ok := cv[hex.EncodeToString(pk[:])]; ok {
				el = append(el, gv.Entity.Address())
			}
		}
		sort.Slice(el, func(i, j int) bool { return bytes.Compare(el[i][:], el[j][:]) < 0 })
		var who []string
		for _, a := range el {
			who = append(who, fmt.Sprintf("(%s, %s)", x.of(a), h.rateOf(height-1, a, epoch, p)))
		}
		h.sum.Count("rewards_election_entities", fmt.Sprint(len(el)))
		f := h.g.Doc.Scheduler.Parameters.RewardFactorEpochElectionAny
		addOp("rewards_election", fmt.Sprintf("(ORewards %s %s %s)", scaleAt(p, epoch), qs(&f), coqout.List(who)), "ROk")
	}
	// transactions
	for i, t := range gts {
		tr := &res.TxResults[i]
		cls := resultClass(tr)
		if os.Getenv("LEDGER_DEBUG") != "" && cls == "(RFail 30)" {
			fmt.Printf("h=%d tx %d %s %s: code=%d cs=%s log=%q\n", height, i, t.method, t.flavor, tr.Code, tr.Codespace, tr.Log)
		}
		h.sum.Count("tx_method", t.method)
		h.sum.Count("tx_result", t.method+":"+cls)
		h.sum.Count("tx_flavor", flavorClass(t.flavor))
		if t.nomodel {
			if tr.Code == 0 {
				out.violations = append(out.violations, fmt.Sprintf("height %d: a transaction signed for another chain was executed", height))
			}
			h.sum.Count("K_ops_skipped", "tx-rejected-before-authentication")
			continue
		}
		if t.method == "gov_submit" && tr.Code == 0 {
			h.proposal++
		}
		if t.after != nil {
			t.after(tr.Code == 0)
		}
		var body string
		if t.bodyRes != nil {
			var c2 string
			body, c2 = t.bodyRes(x, tr)
			if c2 != "" {
				cls = c2
			}
		} else {
			body = t.body(x, tr.Code == 0)
		}
		body = strings.ReplaceAll(body, "EPOCH", fmt.Sprint(epoch))
		if strings.HasPrefix(body, "(BOther") && cls != "ROk" && cls != "(RFail 10)" && cls != "(RFail 21)" && cls != "(RFail 22)" {
			cls = "(RFail 30)" // decided outside the ledger
		}
		size := uint64(len(t.raw))
		addOp("tx:"+t.method, fmt.Sprintf("(OTx %s %d %s %s %s %s)", x.of(t.snd.addr), t.nonce, t.fee,
			coqout.Bool(t.gas >= size), coqout.Bool(t.gas >= size+t.opCost), body), cls)
	}
	// EndBlock
	addOp("fees_p", fmt.Sprintf("(OFeesP %s)", popt), "ROk")
	eev := flatten(res.EndEvents)
	if epochChanged {
		addOp("debond_all", fmt.Sprintf("(ODebondAll %d)", epoch), "ROk")
		for _, e := range eev {
			if e.app == stakingEv && e.kind == "reclaim_escrow" {
				h.sum.Count("S_events", "debonding-completed")
			}
		}
		// signing_rewards.go rewardEpochSigning: entities that signed at least num/den of the
		// period's blocks, ordered by entity public key (state.go EligibleEntities)
		num, den := p.SigningRewardThresholdNumerator, p.SigningRewardThresholdDenominator
		if den != 0 {
			var elig []*muxdrv.Validator
			if h.sigTotal > 0 {
				for _, gv := range h.g.Validators {
					if c, ok := h.sigBy[gv.Index]; ok && c*den >= h.sigTotal*num {
						elig = append(elig, gv)
					}
				}
			}
			sort.Slice(elig, func(i, j int) bool {
				a, b := elig[i].Entity.Public(), elig[j].Entity.Public()
				return bytes.Compare(a[:], b[:]) < 0
			})
			var who []string
			for _, gv := range elig {
				who = append(who, fmt.Sprintf("(%s, %s)", x.of(gv.Entity.Address()), h.rateOf(height, gv.Entity.Address(), epoch, p)))
			}
			h.sum.Count("rewards_signing_entities", fmt.Sprint(len(elig)))
			addOp("rewards_signing", fmt.Sprintf("(ORewards %s %s %s)", scaleAt(p, epoch), qs(&p.RewardFactorEpochSigned), coqout.List(who)), "ROk")
		}
		h.sigTotal, h.sigBy = 0, map[int]uint64{}
	}
	// governance: deposits returned or discarded when proposals close
	for _, e := range eev {
		if e.app != stakingEv || e.kind != "transfer" {
			continue
		}
		var te staking.TransferEvent
		if err := events.DecodeValue(e.val, &te); err != nil {
			panic(err)
		}
		if te.From != staking.GovernanceDepositsAddress {
			continue
		}
		if te.To == staking.CommonPoolAddress {
			addOp("gov_discard", fmt.Sprintf("(OGovDiscard %s)", qs(&te.Amount)), "ROk")
		} else {
			uniHas := x.ix[te.To]
			_ = uniHas
			addOp("gov_reclaim", fmt.Sprintf("(OGovReclaim %s %s)", x.of(te.To), qs(&te.Amount)), "ROk")
		}
	}
	// parameter changes take effect inside the block (governance executes a passed
	// proposal in EndBlock): the model uses one parameter set per block, which is right
	// because the change happens after every ledger operation of the block.
	term := fmt.Sprintf("(((%s, %s, %s), (%s, %s)), true)", h.coqParams(p, x), coqDump(pre.dump, x), coqout.List(ops),
		coqout.List(rcs), coqDump(post.dump, x))
	h.w.Add(term, caseDesc{Seed: h.seed, Run: h.run, Blocks: blockNo + 1, Height: height})
	if epochChanged {
		h.sum.Count("blocks", "epoch-transition")
	} else {
		h.sum.Count("blocks", "plain")
	}
	h.sum.Count("txs_per_block", fmt.Sprint(ntx))
	nontrivial := epochChanged || pre.dump.LastBlockFees != "0" || post.dump.LastBlockFees != "0"
	for i, t := range gts {
		if res.TxResults[i].Code == 0 && t.method != "gov_vote" && t.method != "amend_commission" {
			nontrivial = true
		}
	}
	for _, o := range ops {
		if strings.HasPrefix(o, "(OSlash") {
			nontrivial = true
		}
	}
	if nontrivial {
		h.sum.DistinctNontrivial++
	}
	return out, nil
}

func flavorClass(f string) string {
	var ks []string
	for _, k := range []string{"nonce+1", "nonce-1", "fee>balance", "gas=0", "gas=size+op-1", "gas=size-1", "bad-signature",
		"to=self", "to=reserved", "benef=self", "benef=reserved", "from=self", "from=reserved",
		"=0", "=1", "=exact", "=ref+1", "=ref-1", "=2^64-1", "=2^128", "=min"} {
		if strings.Contains(f, k) {
			ks = append(ks, strings.TrimPrefix(k, "="))
		}
	}
	if len(ks) == 0 {
		return "plain"
	}
	return strings.Join(ks, "+")
}

func runHistory(seed uint64, run, blocks int, sum *coqout.Summary, w *coqout.Writer) {
	h, err := newHistory(seed, run, sum, w)
	if err != nil {
		// a generated genesis that the real InitChain rejects is a defect of the generator,
		// not an observation about the property
		msg := fmt.Sprintf("HARNESS ERROR (not a property violation): generated genesis of seed %d run %d does not boot: %v", seed, run, err)
		fmt.Println(msg)
		sum.Count("harness_errors", "generated genesis does not boot")
		harnessErrors = append(harnessErrors, msg)
		return
	}
	defer h.close()
	defer func() {
		// the in-tree checker failed somewhere and the harness's own oracle found nothing up to
		// the end of the history: report the disagreement
		if h.pendingSanity != "" {
			for _, v := range sum.Violations {
				if m, ok := v.(map[string]any); ok {
					if cd, ok := m["case"].(caseDesc); ok && cd.Seed == seed && cd.Run == run {
						return // an independent violation of this history is already reported
					}
				}
			}
			sum.Violations = append(sum.Violations, map[string]any{"what": h.pendingSanity + " (the harness's own oracle found no violation in this history)",
				"case": caseDesc{Seed: seed, Run: run, Blocks: h.pendingHeight, Note: "history prefix ending at the block the in-tree checker rejected"}})
		}
	}()
	for b := 0; b < blocks; b++ {
		out, err := h.block(b, blocks)
		if err == errHalt {
			sum.Count("history_end", "halted: no validator electable (stake reclaimed/slashed or frozen)")
			return
		}
		sum.Evaluations++
		if err != nil {
			// a panic / error of the implementation (incl. the in-tree sanity checker)
			sum.Violations = append(sum.Violations, map[string]any{
				"what": "block execution failed (panic, error or supplementarysanity failure): " + err.Error(),
				"case": caseDesc{Seed: seed, Run: run, Blocks: b + 1, Note: "failing block is the last one"}})
			return
		}
		for _, vtxt := range out.violations {
			sum.Violations = append(sum.Violations, map[string]any{"what": vtxt,
				"case": caseDesc{Seed: seed, Run: run, Blocks: b + 1, Note: "shrunk to the history prefix ending at the failing block"}})
		}
		if len(out.violations) > 0 {
			return
		}
	}
}

func main() {
	seed := flag.Uint64("seed", 1, "")
	mode := flag.String("mode", "c05", "c05 | probe")
	out := flag.String("out", "", "")
	blocks := flag.Int("blocks", 12, "blocks per history")
	runs := flag.Int("runs", 3, "histories")
	replay := flag.String("replay", "", "replay a case description")
	flag.Parse()
	if os.Getenv("LEDGER_LOG") != "" {
		_ = logging.Initialize(os.Stderr, logging.FmtLogfmt, logLevel(), nil)
	}
	if *mode == "probe" {
		probe(*seed)
		return
	}
	if *out == "" {
		d, _ := os.MkdirTemp("", "ledger-out-")
		defer os.RemoveAll(d)
		*out = d
	}
	sum := coqout.NewSummary("one evaluation = one executed block (S on its post-state, K case = the block); distinct_nontrivial = counted blocks that contain at least one successful ledger-changing transaction, an epoch transition, a slash or a non-zero fee carry-over")
	w := coqout.NewWriter(*out, header, "run_check_inv", "Bool.eqb", 6)
	if *replay != "" {
		var cd caseDesc
		b, err := os.ReadFile(*replay)
		if err == nil {
			err = json.Unmarshal(b, &cd)
		}
		if err != nil {
			fmt.Println("cannot read replay:", err)
			os.Exit(2)
		}
		runHistory(cd.Seed, cd.Run, cd.Blocks, sum, w)
	} else {
		for r := 0; r < *runs; r++ {
			runHistory(*seed, r, *blocks, sum, w)
		}
	}
	w.Close()
	sum.Sample(map[string]any{"histories": *runs, "blocks_each": *blocks}, 3)
	sum.Extra["K_coverage"] = "every block is a K case; operations covered: " + strings.Join(coqout.SortedKeys(sum.Histograms["K_ops"]), ", ") +
		"; skipped: " + strings.Join(coqout.SortedKeys(sum.Histograms["K_ops_skipped"]), ", ")
	sum.Write(*out)
	if len(sum.Violations) > 0 {
		fmt.Printf("%d violations, first: %v\n", len(sum.Violations), sum.Violations[0])
	}
	fmt.Printf("blocks=%d cases=%d violations=%d\n", sum.Evaluations, w.Total, len(sum.Violations))
	if len(harnessErrors) > 0 {
		// the driver reports a non-zero exit as a harness failure (kind harness-run), distinct
		// from implementation-side violations
		fmt.Println(strings.Join(harnessErrors, "\n"))
		os.Exit(3)
	}
}

var _ = consensusGenesis.GasOpTxByte

func logLevel() logging.Level {
	if os.Getenv("LEDGER_LOG") == "debug" {
		return logging.LevelDebug
	}
	return logging.LevelError
}
