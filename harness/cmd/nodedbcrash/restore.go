package main

// Checkpoint (multipart) restore stream: StartMultipartInsert / chunk commits through the real
// checkpoint restorer / AbortMultipartInsert / final Finalize, killed at every crash point the
// interrupted call passes.  Oracle (C07, last clause): a partially restored checkpoint is never
// visible as a finalized root (GetLatestVersion does not move to the restored version before
// the final Finalize committed its metadata), previously finalized roots stay readable, and
// after reopen (which cleans the multipart leftovers) a complete restore from scratch succeeds
// and serves exactly the checkpointed contents.

import (
	rawbadger "github.com/dgraph-io/badger/v4"

	"github.com/oasisprotocol/oasis-core/go/common/crypto/hash"

	"verifharness/internal/coqout"

	"bytes"
	"context"
	"errors"
	"fmt"
	"os"
	"os/exec"
	"strings"

	"github.com/oasisprotocol/oasis-core/go/storage/mkvs"
	"github.com/oasisprotocol/oasis-core/go/storage/mkvs/checkpoint"
	"github.com/oasisprotocol/oasis-core/go/storage/mkvs/db/api"
	"github.com/oasisprotocol/oasis-core/go/storage/mkvs/db/api/verifhook"
	"github.com/oasisprotocol/oasis-core/go/storage/mkvs/node"
)

type Restore struct {
	NKeys int    `json:"nkeys"`
	Pre   bool   `json:"pre"`  // a finalized version 1 exists before the restore
	Last  string `json:"last"` // start | chunk | abort | finalize : the interrupted call
	J     int    `json:"j"`    // chunks restored before the interrupted call (chunk/abort)
	// Shared: instead of Pre, the database holds finalized versions 1 and 2 of the SAME key space as
	// the checkpoint (version 2 = the checkpoint's contents minus its last key), so the restored
	// chunks consist mostly of nodes that already exist locally.
	Shared bool `json:"shared,omitempty"`
	// Cont: "normal" = after the interrupted restore and the reopen the node continues with ordinary
	// operation: it commits and finalizes its OWN root for the restore version (and one more version)
	// instead of restoring again.
	Cont string `json:"cont,omitempty"`
}

// sharedHistory: finalized versions 1 (keys 0..nkeys-3) and 2 (+ key nkeys-2); returns root 2.
func sharedHistory(ndb api.NodeDB, nkeys int) (node.Root, error) {
	ctx := context.Background()
	t := mkvs.New(nil, ndb, node.RootTypeState)
	defer t.Close()
	for i := 0; i < nkeys-2; i++ {
		if err := t.Insert(ctx, rKey(i), rVal(i)); err != nil {
			return node.Root{}, err
		}
	}
	_, h1, err := t.Commit(ctx, testNs, 1)
	if err != nil {
		return node.Root{}, err
	}
	if err = ndb.Finalize([]node.Root{{Namespace: testNs, Version: 1, Type: node.RootTypeState, Hash: h1}}); err != nil {
		return node.Root{}, err
	}
	if err = t.Insert(ctx, rKey(nkeys-2), rVal(nkeys-2)); err != nil {
		return node.Root{}, err
	}
	_, h2, err := t.Commit(ctx, testNs, 2)
	if err != nil {
		return node.Root{}, err
	}
	root2 := node.Root{Namespace: testNs, Version: 2, Type: node.RootTypeState, Hash: h2}
	return root2, ndb.Finalize([]node.Root{root2})
}

func idxRange(n int, extra ...int) []int {
	out := make([]int, 0, n+len(extra))
	for i := 0; i < n; i++ {
		out = append(out, i)
	}
	return append(out, extra...)
}

// readIdx: complete iteration must return exactly the keys with the given indices (ascending).
func readIdx(ndb api.NodeDB, root node.Root, idx []int) (st string) {
	ctx := context.Background()
	defer func() {
		if p := recover(); p != nil {
			st = fmt.Sprintf("panic: %v", p)
		}
	}()
	t := mkvs.NewWithRoot(nil, ndb, root)
	defer t.Close()
	it := t.NewIterator(ctx)
	defer it.Close()
	i := 0
	for it.Rewind(); it.Valid(); it.Next() {
		if i >= len(idx) || !bytes.Equal(it.Key(), rKey(idx[i])) || !bytes.Equal(it.Value(), rVal(idx[i])) {
			return "wrong-contents"
		}
		i++
	}
	if err := it.Err(); err != nil {
		return "error: " + err.Error()
	}
	if i != len(idx) {
		return fmt.Sprintf("incomplete (%d of %d keys)", i, len(idx))
	}
	return "exact"
}

// continueNormally: the node builds and finalizes its own root for the restore version on top of
// version 2, then one more version; every finalized root must read back exactly.
func continueNormally(ndb api.NodeDB, root2 node.Root, nkeys int) error {
	ctx := context.Background()
	t := mkvs.NewWithRoot(nil, ndb, root2)
	defer t.Close()
	prevIdx := idxRange(nkeys - 1)
	for step, ver := range []uint64{restoreVersion, restoreVersion + 1} {
		extra := nkeys + 5 + step
		if err := t.Insert(ctx, rKey(extra), rVal(extra)); err != nil {
			return fmt.Errorf("building own version %d: %w", ver, err)
		}
		_, h, err := t.Commit(ctx, testNs, ver)
		if err != nil {
			return fmt.Errorf("commit of own version %d: %w", ver, err)
		}
		own := node.Root{Namespace: testNs, Version: ver, Type: node.RootTypeState, Hash: h}
		if err = ndb.Finalize([]node.Root{own}); err != nil {
			return fmt.Errorf("Finalize of own version %d: %w", ver, err)
		}
		prevIdx = append(prevIdx, extra)
		if l, ok := ndb.GetLatestVersion(); !ok || l != ver {
			return fmt.Errorf("latest version is %d/%v after finalizing own version %d", l, ok, ver)
		}
		if st := readIdx(ndb, root2, idxRange(nkeys-1)); st != "exact" {
			return fmt.Errorf("finalized version 2 reads back %s after finalizing own version %d", st, ver)
		}
		if st := readIdx(ndb, own, prevIdx); st != "exact" {
			return fmt.Errorf("own finalized version %d reads back %s", ver, st)
		}
		if ver == restoreVersion {
			roots, _ := ndb.GetRootsForVersion(ver)
			if len(roots) != 1 {
				return fmt.Errorf("GetRootsForVersion(%d) lists %d roots after finalizing the own root (the abandoned checkpoint root must be gone)", ver, len(roots))
			}
		}
	}
	return nil
}

const restoreVersion = 3

func rKey(i int) []byte { return []byte(fmt.Sprintf("key-%03d", i)) }
func rVal(i int) []byte { return []byte(fmt.Sprintf("value-%03d-%s", i, strings.Repeat("x", 24))) }

// buildCheckpoint creates the source database, the checkpoint files under cpDir, and returns the metadata.
func buildCheckpoint(backend string, nkeys int, cpDir string) (*checkpoint.Metadata, error) {
	ctx := context.Background()
	dir, _ := os.MkdirTemp("", "verif-crash-src")
	defer os.RemoveAll(dir)
	src, err := openDB(backend, dir)
	if err != nil {
		return nil, err
	}
	defer src.Close()
	t := mkvs.New(nil, src, node.RootTypeState)
	for i := 0; i < nkeys; i++ {
		if err = t.Insert(ctx, rKey(i), rVal(i)); err != nil {
			return nil, err
		}
	}
	_, h, err := t.Commit(ctx, testNs, restoreVersion)
	t.Close()
	if err != nil {
		return nil, err
	}
	root := node.Root{Namespace: testNs, Version: restoreVersion, Type: node.RootTypeState, Hash: h}
	if err = src.Finalize([]node.Root{root}); err != nil {
		return nil, err
	}
	fc, err := checkpoint.NewFileCreator(cpDir, src)
	if err != nil {
		return nil, err
	}
	return fc.CreateCheckpoint(ctx, root, 512, 0)
}

func loadCheckpoint(cpDir string) (checkpoint.Creator, *checkpoint.Metadata, error) {
	fc, err := checkpoint.NewFileCreator(cpDir, nil)
	if err != nil {
		return nil, nil, err
	}
	cps, err := fc.GetCheckpoints(context.Background(), &checkpoint.GetCheckpointsRequest{Version: 1, Namespace: testNs})
	if err != nil || len(cps) == 0 {
		return nil, nil, fmt.Errorf("no checkpoint found: %v", err)
	}
	return fc, cps[0], nil
}

var preRoot = &rootInfo{ver: 1, typ: 1, cont: map[int]int{1: 1, 6: 2}}

func preHistory(ndb api.NodeDB) error {
	ctx := context.Background()
	t := mkvs.New(nil, ndb, node.RootTypeState)
	defer t.Close()
	for k, v := range preRoot.cont {
		if err := t.Insert(ctx, []byte(keyAlphabet[k]), valBytes(v)); err != nil {
			return err
		}
	}
	_, h, err := t.Commit(ctx, testNs, 1)
	if err != nil {
		return err
	}
	preRoot.hash = h
	return ndb.Finalize([]node.Root{preRoot.root(1)})
}

func restoreChunks(ndb api.NodeDB, fc checkpoint.Creator, meta *checkpoint.Metadata, rs checkpoint.Restorer, from, to int) error {
	ctx := context.Background()
	for i := from; i < to; i++ {
		cm, err := meta.GetChunkMetadata(uint64(i))
		if err != nil {
			return err
		}
		var buf bytes.Buffer
		if err = fc.GetCheckpointChunk(ctx, cm, &buf); err != nil {
			return err
		}
		if _, err = rs.RestoreChunk(ctx, uint64(i), &buf); err != nil {
			return err
		}
	}
	return nil
}

// fullRestore performs a complete restore and finalization.
func fullRestore(ndb api.NodeDB, fc checkpoint.Creator, meta *checkpoint.Metadata) error {
	ctx := context.Background()
	if err := ndb.StartMultipartInsert(restoreVersion); err != nil {
		return fmt.Errorf("StartMultipartInsert: %w", err)
	}
	rs, _ := checkpoint.NewRestorer(ndb)
	if err := rs.StartRestore(ctx, meta); err != nil {
		return err
	}
	if err := restoreChunks(ndb, fc, meta, rs, 0, len(meta.Chunks)); err != nil {
		return fmt.Errorf("RestoreChunk: %w", err)
	}
	if err := ndb.Finalize([]node.Root{meta.Root}); err != nil {
		return fmt.Errorf("Finalize: %w", err)
	}
	return nil
}

func readRestored(ndb api.NodeDB, root node.Root, nkeys int) string {
	ctx := context.Background()
	defer func() { _ = recover() }()
	t := mkvs.NewWithRoot(nil, ndb, root)
	defer t.Close()
	it := t.NewIterator(ctx)
	defer it.Close()
	i := 0
	for it.Rewind(); it.Valid(); it.Next() {
		if i >= nkeys || !bytes.Equal(it.Key(), rKey(i)) || !bytes.Equal(it.Value(), rVal(i)) {
			return "wrong-contents"
		}
		i++
	}
	if err := it.Err(); err != nil {
		return "error: " + err.Error()
	}
	if i != nkeys {
		return fmt.Sprintf("incomplete (%d of %d keys)", i, nkeys)
	}
	return "exact"
}

// restoreChild replays the restore in dir and arms the hook for the interrupted call.
func restoreChild(dir, cpDir string, c Case) int {
	ctx := context.Background()
	r := c.Restore
	ndb, err := openDB(c.Backend, dir)
	if err != nil {
		return 3
	}
	fc, meta, err := loadCheckpoint(cpDir)
	if err != nil {
		fmt.Fprintln(os.Stderr, err)
		return 4
	}
	if r.Pre && !r.Shared {
		if err = preHistory(ndb); err != nil {
			fmt.Fprintln(os.Stderr, "pre:", err)
			return 4
		}
	}
	if r.Shared {
		if _, err = sharedHistory(ndb, r.NKeys); err != nil {
			fmt.Fprintln(os.Stderr, "shared history:", err)
			return 4
		}
	}
	if r.Last == "start" {
		verifhook.Arm()
	}
	if err = ndb.StartMultipartInsert(restoreVersion); err != nil {
		return 4
	}
	if r.Last == "start" {
		verifhook.Disarm()
		ndb.Close()
		return 0
	}
	rs, _ := checkpoint.NewRestorer(ndb)
	_ = rs.StartRestore(ctx, meta)
	n := len(meta.Chunks)
	j := r.J
	if r.Last == "finalize" || j > n {
		j = n
	}
	if r.Last == "chunk" && j >= n {
		j = n - 1
	}
	if err = restoreChunks(ndb, fc, meta, rs, 0, j); err != nil {
		fmt.Fprintln(os.Stderr, "chunks:", err)
		return 4
	}
	verifhook.Arm()
	switch r.Last {
	case "chunk":
		err = restoreChunks(ndb, fc, meta, rs, j, j+1)
	case "abort":
		_ = rs.AbortRestore(ctx)
		err = ndb.AbortMultipartInsert()
	case "finalize":
		err = ndb.Finalize([]node.Root{meta.Root})
	}
	verifhook.Disarm()
	if err != nil {
		fmt.Fprintln(os.Stderr, "armed op:", err)
		return 6
	}
	ndb.Close()
	return 0
}

func runRestoreChild(self, dir, cpDir string, c Case, env ...string) (int, string) {
	b, _ := jsonMarshal(c)
	f := dir + ".case.json"
	_ = os.WriteFile(f, b, 0o600)
	defer os.Remove(f)
	cmd := exec.Command(self, "-rchild", "-dir", dir, "-cpdir", cpDir, "-case", f)
	cmd.Env = append(os.Environ(), env...)
	out, err := cmd.CombinedOutput()
	if err == nil {
		return 0, string(out)
	}
	var ee *exec.ExitError
	if errors.As(err, &ee) {
		return ee.ExitCode(), string(out)
	}
	return -1, err.Error()
}

// effective number of chunks restored before the interrupted call (same rule as the child)
func effectiveJ(r *Restore, n int) int {
	j := r.J
	if r.Last == "finalize" || j > n {
		j = n
	}
	if r.Last == "chunk" && j >= n {
		j = n - 1
	}
	if r.Last == "start" {
		j = 0
	}
	return j
}

// badgerTwin restores the checkpoint completely into a scratch badger database behind the
// recording wrapper and renders the restore as Verif.NodeDB.Multipart operations.
type twinInfo struct {
	hist  []string // operations before the interrupted call
	last  string   // the interrupted call
	known string
}

func badgerTwin(c Case, cpDir string) (*twinInfo, error) {
	ctx := context.Background()
	r := c.Restore
	dir, _ := os.MkdirTemp("", "verif-crash-rtwin")
	defer os.RemoveAll(dir)
	inner, err := openDB("badger", dir)
	if err != nil {
		return nil, err
	}
	defer inner.Close()
	rec := &recDB{NodeDB: inner}
	cr := newCoqRec()
	fc, meta, err := loadCheckpoint(cpDir)
	if err != nil {
		return nil, err
	}
	ti := &twinInfo{}
	var known []string
	const preRid, resRid = 2, 3
	ids := func(hs []hash.Hash) []int {
		var out []int
		for _, h := range hs {
			out = append(out, cr.nid(h))
		}
		return out
	}
	if r.Pre {
		rec.puts, rec.removed = nil, nil
		if err = preHistory(rec); err != nil {
			return nil, err
		}
		reach, inl := cr.reach(inner, preRoot)
		ti.hist = append(ti.hist,
			fmt.Sprintf("MBase (OCommit 1 1 %d None [(1, 1); (6, 2)] %s [] %s %s)", preRid, nlist(ids(rec.puts)), nlist(reach), nlist(inl)),
			fmt.Sprintf("MBase (OFinalize 1 [%d])", preRid))
		known = append(known, fmt.Sprintf("(1, %d)", preRid))
	}
	known = append(known, fmt.Sprintf("(%d, %d)", restoreVersion, resRid))
	ti.known = coqout.List(known)
	if err = rec.StartMultipartInsert(restoreVersion); err != nil {
		return nil, err
	}
	rs, _ := checkpoint.NewRestorer(rec)
	_ = rs.StartRestore(ctx, meta)
	n := len(meta.Chunks)
	var chunkPuts [][]int
	for i := 0; i < n; i++ {
		rec.puts = nil
		if err = restoreChunks(rec, fc, meta, rs, i, i+1); err != nil {
			return nil, err
		}
		chunkPuts = append(chunkPuts, ids(rec.puts))
	}
	ri := &rootInfo{ver: restoreVersion, typ: 1, cont: map[int]int{1: 1}, hash: meta.Root.Hash}
	reach, inl := cr.reach(inner, ri)
	chunk := func(i int) string {
		return fmt.Sprintf("MChunk %d 1 %d [(1, 1)] %s %s %s", restoreVersion, resRid, nlist(chunkPuts[i]), nlist(reach), nlist(inl))
	}
	j := effectiveJ(r, n)
	if r.Last != "start" {
		ti.hist = append(ti.hist, fmt.Sprintf("MStart %d", restoreVersion))
	}
	for i := 0; i < j; i++ {
		ti.hist = append(ti.hist, chunk(i))
	}
	switch r.Last {
	case "start":
		ti.last = fmt.Sprintf("MStart %d", restoreVersion)
	case "chunk":
		ti.last = chunk(j)
	case "abort":
		ti.last = "MAbort"
	case "finalize":
		ti.last = fmt.Sprintf("MFinalize %d [%d]", restoreVersion, resRid)
	}
	return ti, nil
}

// completed durable steps of the interrupted restore call at a badger crash point ("" = the
// call completed); see coq/NodeDB/Multipart.v
func restoreStepsAt(last, point string) int {
	name := point
	if i := strings.LastIndexByte(point, '#'); i >= 0 {
		name = point[:i]
	}
	switch last + "/" + name {
	case "start/":
		return 1
	case "chunk/badger.commit.afterLogFlush":
		return 1
	case "chunk/badger.commit.afterBatchFlush":
		return 2
	case "chunk/":
		return 3
	case "abort/badger.cleanMultipart.afterBatchFlush":
		return 1
	case "abort/":
		return 2
	case "finalize/badger.finalize.afterBatchFlush":
		return 1
	case "finalize/badger.finalize.afterMetaCommit":
		return 2
	case "finalize/badger.cleanMultipart.afterBatchFlush":
		return 3
	case "finalize/":
		return 4
	}
	return -1
}

func restoredStatus(ndb api.NodeDB, root node.Root, nkeys int) int {
	if !ndb.HasRoot(root) {
		return 0
	}
	st := readRestored(ndb, root, nkeys)
	switch {
	case st == "exact":
		return 1
	case strings.Contains(st, "node not found"):
		return 2
	case strings.Contains(st, "root not found"):
		return 3
	}
	return 9
}

func runRestoreCase(self string, c Case) result {
	res := result{notes: map[string]int{}}
	preRoot.hash = contHash(preRoot.typ, preRoot.cont)
	r := c.Restore
	cpDir, _ := os.MkdirTemp("", "verif-crash-cp")
	defer os.RemoveAll(cpDir)
	meta, err := buildCheckpoint(c.Backend, r.NKeys, cpDir)
	if err != nil {
		res.viol = append(res.viol, "cannot build checkpoint: "+err.Error())
		return res
	}
	res.notes[fmt.Sprintf("chunks:%d", len(meta.Chunks))]++
	// node keys that exist before the restore starts (after the optional finalized version 1)
	preKeys := 0
	var root2 node.Root
	{
		pdir, _ := os.MkdirTemp("", "verif-crash-pre")
		if pdb, perr := openDB(c.Backend, pdir); perr == nil {
			if r.Pre && !r.Shared {
				_ = preHistory(pdb)
			}
			if r.Shared {
				root2, _ = sharedHistory(pdb, r.NKeys)
			}
			pdb.Close()
			preKeys, _ = countNodeKeys(pdir)
		}
		os.RemoveAll(pdir)
	}
	var twin *twinInfo
	if r.Shared {
		r.Pre = false
	}
	if c.Backend == "badger" && !r.Shared {
		if twin, err = badgerTwin(c, cpDir); err != nil {
			res.viol = append(res.viol, "badger twin restore failed: "+err.Error())
			twin = nil
		}
	}
	// dry run
	dirD, _ := os.MkdirTemp("", "verif-crash-rdry")
	list := dirD + ".points"
	code, out := runRestoreChild(self, dirD, cpDir, c, "VERIF_CRASH_LIST="+list, "VERIF_CRASH_AT=")
	os.RemoveAll(dirD)
	if code != 0 {
		res.viol = append(res.viol, fmt.Sprintf("%s: restore dry run failed (exit %d): %s", c.Backend, code, out))
		return res
	}
	if b, err := os.ReadFile(list); err == nil {
		for _, l := range strings.Split(strings.TrimSpace(string(b)), "\n") {
			if l != "" {
				res.points = append(res.points, l)
			}
		}
	}
	os.Remove(list)
	// "no crash" is checked too: point "" = the call completes, then the process exits normally
	for _, p := range append([]string{""}, res.points...) {
		dir, _ := os.MkdirTemp("", "verif-crash-rrun")
		want := 137
		if p == "" {
			want = 0
		}
		code, out := runRestoreChild(self, dir, cpDir, c, "VERIF_CRASH_AT="+p, "VERIF_CRASH_LIST=")
		if code != want {
			res.viol = append(res.viol, fmt.Sprintf("%s: restore child exit %d at %q: %s", c.Backend, code, p, out))
			os.RemoveAll(dir)
			continue
		}
		func() {
			defer os.RemoveAll(dir)
			where := fmt.Sprintf("%s: restore (%s, %d chunks done) crash at %q", c.Backend, r.Last, r.J, p)
			defer func() {
				if pv := recover(); pv != nil {
					res.viol = append(res.viol, fmt.Sprintf("%s: PANIC (reopen / read-back / retry): %v", where, pv))
				}
			}()
			ndb, err := openDB(c.Backend, dir)
			if err != nil {
				res.viol = append(res.viol, where+": database does not reopen: "+err.Error())
				return
			}
			defer func() { ndb.Close() }()
			last, has := ndb.GetLatestVersion()
			if k := restoreStepsAt(r.Last, p); twin != nil && k >= 0 {
				lastS := "None"
				if has {
					lastS = fmt.Sprintf("(Some %d)", last)
				}
				var sts []string
				if r.Pre {
					pst := 0
					if ndb.HasRoot(preRoot.root(1)) {
						pst = stCode(readRoot(ndb, preRoot))
					}
					sts = append(sts, fmt.Sprintf("((1, 2), %d)", pst))
				}
				sts = append(sts, fmt.Sprintf("((%d, 3), %d)", restoreVersion, restoredStatus(ndb, meta.Root, r.NKeys)))
				res.coq = append(res.coq, fmt.Sprintf("(in_r (%s, (%s), %d%%nat, %s), out_r ((%d, %s), 0, %s))", coqout.List(twin.hist), twin.last, k, twin.known,
					ndb.GetEarliestVersion(), lastS, coqout.List(sts)))
			}
			fully := has && last == restoreVersion
			if fully {
				// only the final Finalize may make the version visible, and then it must be complete
				if r.Last != "finalize" {
					res.viol = append(res.viol, where+": partially restored checkpoint is visible as finalized version")
					return
				}
				if st := readRestored(ndb, meta.Root, r.NKeys); st != "exact" {
					what := where + ": finalized restored root reads back " + st
					if c.Backend == "badger" && strings.HasPrefix(p, "badger.finalize.afterMetaCommit#") {
						// last-finalized was committed, the multipart log was not yet cleared: the cleanup on
						// reopen removes the nodes of the now finalized checkpoint
						res.keyed = append(res.keyed, [2]string{"C07:badger-restore-finalize-crash-reopen-removes-finalized-nodes", what})
					} else {
						res.viol = append(res.viol, what)
					}
				}
				res.notes["restore:fully"]++
			} else {
				wantHas, wantLast := r.Pre, uint64(1)
				if r.Shared {
					wantHas, wantLast = true, 2
				}
				if has != wantHas || (has && last != wantLast) {
					res.viol = append(res.viol, fmt.Sprintf("%s: latest version is %d/%v, expected %d/%v", where, last, has, wantLast, wantHas))
				}
				roots, _ := ndb.GetRootsForVersion(restoreVersion)
				if len(roots) > 0 {
					res.notes["restore:unfinalized-root-still-listed-after-reopen"]++
				}
				res.notes["restore:not-visible"]++
				// pathbadger never writes its restore log (multipartRestoreNodeLogKeyFmt is only read, in
				// cleanMultipartLocked), so its cleanup removes nothing: reported under one key
				leftover := func(what string) {
					if c.Backend == "pathbadger" {
						res.keyed = append(res.keyed, [2]string{"C07:pathbadger-aborted-restore-is-not-cleaned-up", what})
					} else {
						res.viol = append(res.viol, what)
					}
				}
				// (a) the partially restored checkpoint must not be served
				if st := readRestored(ndb, meta.Root, r.NKeys); st == "exact" && ndb.HasRoot(meta.Root) {
					leftover(where + ": the not finalized (partially restored) checkpoint root is still listed and completely readable after reopen")
				}
				// (b) reopen must leave exactly the node keys that existed before the restore
				ndb.Close()
				got, cerr := countNodeKeys(dir)
				if cerr != nil {
					res.viol = append(res.viol, where+": raw key scan failed: "+cerr.Error())
				} else if got != preKeys {
					leftover(fmt.Sprintf("%s: %d node keys are visible after reopen, %d existed before the restore (garbage left behind)", where, got, preKeys))
				}
				if ndb, err = openDB(c.Backend, dir); err != nil {
					res.viol = append(res.viol, where+": database does not reopen a second time: "+err.Error())
					return
				}
				// (c) a second restore followed by Abort returns to the pre-restore state
				if fc, m2, lerr := loadCheckpoint(cpDir); lerr == nil {
					aerr := ndb.StartMultipartInsert(restoreVersion)
					if aerr == nil {
						rs, _ := checkpoint.NewRestorer(ndb)
						_ = rs.StartRestore(context.Background(), m2)
						aerr = restoreChunks(ndb, fc, m2, rs, 0, len(m2.Chunks))
						_ = rs.AbortRestore(context.Background())
					}
					if aerr == nil {
						aerr = ndb.AbortMultipartInsert()
					}
					if aerr != nil {
						res.viol = append(res.viol, where+": second restore + abort fails: "+aerr.Error())
						return
					}
					if l2, h2 := ndb.GetLatestVersion(); h2 != has || (h2 && l2 != last) {
						res.viol = append(res.viol, where+": second restore + abort changed the latest version")
					}
					if st := readRestored(ndb, meta.Root, r.NKeys); st == "exact" && ndb.HasRoot(meta.Root) {
						leftover(where + ": aborted restore is still listed and completely readable")
					}
					ndb.Close()
					got, cerr = countNodeKeys(dir)
					if cerr == nil && got != preKeys {
						leftover(fmt.Sprintf("%s: %d node keys are visible after a second restore + abort, %d existed before the restore", where, got, preKeys))
					}
					if ndb, err = openDB(c.Backend, dir); err != nil {
						res.viol = append(res.viol, where+": database does not reopen after abort: "+err.Error())
						return
					}
				}
			}
			if r.Pre {
				if st := readRoot(ndb, preRoot); st != "exact" {
					res.viol = append(res.viol, where+": previously finalized root reads back "+st)
				}
			}
			if r.Shared {
				if st := readIdx(ndb, root2, idxRange(r.NKeys-1)); st != "exact" {
					res.viol = append(res.viol, where+": previously finalized version 2 reads back "+st)
				}
			}
			if !fully && r.Shared && r.Cont == "normal" {
				if err := continueNormally(ndb, root2, r.NKeys); err != nil {
					res.viol = append(res.viol, where+": ordinary operation after the interrupted restore: "+err.Error())
				} else {
					res.notes["restore:continued-normally-ok"]++
				}
				return
			}
			if !fully {
				// retry: a complete restore from scratch must work after the reopen cleanup
				fc, m2, err := loadCheckpoint(cpDir)
				if err == nil {
					err = fullRestore(ndb, fc, m2)
				}
				if err != nil {
					res.viol = append(res.viol, where+": complete restore after reopen fails: "+err.Error())
					return
				}
				if st := readRestored(ndb, meta.Root, r.NKeys); st != "exact" {
					what := where + ": root restored (and finalized without error) after reopen reads back " + st
					if c.Backend == "pathbadger" && strings.Contains(st, "node not found") {
						res.keyed = append(res.keyed, [2]string{"C07:pathbadger-restore-after-unfinished-multipart-at-same-version-unreadable", what})
					} else {
						res.viol = append(res.viol, what)
					}
				}
				if l, h := ndb.GetLatestVersion(); !h || l != restoreVersion {
					res.viol = append(res.viol, where+": restore after reopen did not finalize the version")
				}
				res.notes["restore:retry-ok"]++
			}
		}()
	}
	return res
}

// countNodeKeys scans the raw Badger store (database closed) and counts the node keys that are
// visible at the newest timestamp: badger backend prefix 0x00 (nodes by hash); pathbadger 0x04
// (finalized nodes) and 0x05 (pending nodes).
func countNodeKeys(dir string) (int, error) {
	raw, err := rawbadger.OpenManaged(rawbadger.DefaultOptions(dir).WithLogger(nil))
	if err != nil {
		return 0, err
	}
	defer raw.Close()
	backendIsPath := false
	tx := raw.NewTransactionAt(^uint64(0), false)
	defer tx.Discard()
	// pathbadger stores its metadata under 0x00 (one key), badger under 0x04 (one key)
	if _, err := tx.Get([]byte{0x04}); err != nil {
		backendIsPath = true
	}
	prefixes := [][]byte{{0x00}}
	if backendIsPath {
		prefixes = [][]byte{{0x04}, {0x05}}
	}
	n := 0
	for _, pf := range prefixes {
		it := tx.NewIterator(rawbadger.IteratorOptions{Prefix: pf})
		for it.Rewind(); it.Valid(); it.Next() {
			n++
		}
		it.Close()
	}
	return n, nil
}
