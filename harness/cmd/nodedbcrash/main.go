// Command nodedbcrash kills the REAL node database between two successive durable writes
// (crash points compiled in with the "verif" tag: go/storage/mkvs/db/api/verifhook and the
// one-line calls of hooks/c07-crashpoints.diff) and checks C07 on the reopened database.
//
// For every history and backend: a twin run without crash gives the states before and after
// the last operation; a dry-run child lists every crash point the last operation passes; for
// EVERY such point a child process replays the history and dies there (os.Exit(137), nothing
// closed); the parent reopens the directory and checks that (a) every root that was finalized
// and readable before the operation and is still retained reads back exactly, (b) the
// metadata equals the state before or the state after the operation, (c) repeating the
// operation succeeds (or reports that it already took effect) and reaches exactly the
// twin's final state.
package main

import (
	"context"
	"encoding/json"
	"errors"
	"flag"
	"fmt"
	"os"
	"os/exec"
	"sort"
	"strings"

	"github.com/oasisprotocol/oasis-core/go/common"
	"github.com/oasisprotocol/oasis-core/go/common/crypto/hash"
	"github.com/oasisprotocol/oasis-core/go/storage/mkvs"
	"github.com/oasisprotocol/oasis-core/go/storage/mkvs/db/api"
	"github.com/oasisprotocol/oasis-core/go/storage/mkvs/db/api/verifhook"
	badgerDb "github.com/oasisprotocol/oasis-core/go/storage/mkvs/db/badger"
	pathDb "github.com/oasisprotocol/oasis-core/go/storage/mkvs/db/pathbadger"
	"github.com/oasisprotocol/oasis-core/go/storage/mkvs/node"

	"verifharness/internal/coqout"
	"verifharness/internal/prng"
)

type Write struct {
	Key int `json:"key"`
	Val int `json:"val"`
}

type Op struct {
	K      string  `json:"k"` // commit finalize prune
	ID     int     `json:"id,omitempty"`
	Ver    uint64  `json:"ver"`
	Typ    int     `json:"typ,omitempty"`
	Old    int     `json:"old,omitempty"`
	Writes []Write `json:"writes,omitempty"`
	Roots  []int   `json:"roots,omitempty"`
}

type Case struct {
	Backend string   `json:"backend"`
	Ops     []Op     `json:"ops,omitempty"` // the last operation is the one interrupted
	Restore *Restore `json:"restore,omitempty"`
}

func jsonMarshal(v any) ([]byte, error) { return json.Marshal(v) }

var keyAlphabet = []string{"", "a", "ab", "abc", "b", "ba", "k", "x", "y"}
var testNs = common.NewTestNamespaceFromSeed([]byte("verif nodedb"), 0)

func valBytes(v int) []byte { return []byte(fmt.Sprintf("v%d", v)) }

type rootInfo struct {
	ver  uint64
	typ  int
	cont map[int]int
	hash hash.Hash
}

func contHash(typ int, cont map[int]int) hash.Hash {
	ctx := context.Background()
	t := mkvs.New(nil, nil, node.RootType(typ))
	defer t.Close()
	ks := make([]int, 0)
	for k := range cont {
		ks = append(ks, k)
	}
	sort.Ints(ks)
	for _, k := range ks {
		_ = t.Insert(ctx, []byte(keyAlphabet[k]), valBytes(cont[k]))
	}
	_, h, _ := t.Commit(ctx, testNs, 0, mkvs.NoPersist())
	return h
}

func plan(c Case) map[int]*rootInfo {
	roots := map[int]*rootInfo{}
	for _, op := range c.Ops {
		if op.K != "commit" {
			continue
		}
		ri := &rootInfo{ver: op.Ver, typ: op.Typ, cont: map[int]int{}}
		if o := roots[op.Old]; o != nil {
			ri.typ = o.typ
			for k, v := range o.cont {
				ri.cont[k] = v
			}
		}
		for _, w := range op.Writes {
			if w.Val == 0 {
				delete(ri.cont, w.Key)
			} else {
				ri.cont[w.Key] = w.Val
			}
		}
		ri.hash = contHash(ri.typ, ri.cont)
		roots[op.ID] = ri
	}
	return roots
}

func (ri *rootInfo) root(ver uint64) node.Root {
	return node.Root{Namespace: testNs, Version: ver, Type: node.RootType(ri.typ), Hash: ri.hash}
}

func openDB(kind, dir string) (api.NodeDB, error) {
	cfg := &api.Config{DB: dir, NoFsync: true, Namespace: testNs, MaxCacheSize: 4 * 1024 * 1024}
	if kind == "badger" {
		return badgerDb.New(cfg)
	}
	return pathDb.New(cfg)
}

// safeOp runs an operation and turns a panic of the implementation into an error.
func safeOp(ndb api.NodeDB, op Op, roots map[int]*rootInfo) (err error) {
	defer func() {
		if p := recover(); p != nil {
			err = fmt.Errorf("PANIC: %v", p)
		}
	}()
	return doOp(ndb, op, roots)
}

func doOp(ndb api.NodeDB, op Op, roots map[int]*rootInfo) error {
	ctx := context.Background()
	switch op.K {
	case "commit":
		ri := roots[op.ID]
		var t mkvs.Tree
		if o := roots[op.Old]; o != nil {
			t = mkvs.NewWithRoot(nil, ndb, o.root(o.ver))
		} else {
			t = mkvs.New(nil, ndb, node.RootType(ri.typ))
		}
		defer t.Close()
		for _, w := range op.Writes {
			var err error
			if w.Val == 0 {
				err = t.Remove(ctx, []byte(keyAlphabet[w.Key]))
			} else {
				err = t.Insert(ctx, []byte(keyAlphabet[w.Key]), valBytes(w.Val))
			}
			if err != nil {
				return err
			}
		}
		_, _, err := t.Commit(ctx, testNs, op.Ver)
		return err
	case "finalize":
		var rs []node.Root
		for _, n := range op.Roots {
			rs = append(rs, roots[n].root(op.Ver))
		}
		return ndb.Finalize(rs)
	case "prune":
		return ndb.Prune(op.Ver)
	}
	return fmt.Errorf("unknown op")
}

// observation of a database: earliest/latest and, for every root named in the history,
// HasRoot and whether a complete iteration returns exactly its contents.
type obs struct {
	Earliest uint64         `json:"earliest"`
	HasLast  bool           `json:"has_last"`
	Last     uint64         `json:"last"`
	Roots    map[int]string `json:"roots"` // id -> absent | exact | error text class
}

func readRoot(ndb api.NodeDB, ri *rootInfo) (st string) {
	defer func() {
		if p := recover(); p != nil {
			st = "panic"
		}
	}()
	ctx := context.Background()
	t := mkvs.NewWithRoot(nil, ndb, ri.root(ri.ver))
	defer t.Close()
	it := t.NewIterator(ctx)
	defer it.Close()
	got := map[string]string{}
	for it.Rewind(); it.Valid(); it.Next() {
		got[string(it.Key())] = string(it.Value())
	}
	if err := it.Err(); err != nil {
		switch {
		case errors.Is(err, api.ErrNodeNotFound):
			return "node-missing"
		case errors.Is(err, api.ErrRootNotFound):
			return "root-not-found"
		}
		return "error"
	}
	if len(got) != len(ri.cont) {
		return "wrong-contents"
	}
	for k, v := range ri.cont {
		if got[keyAlphabet[k]] != string(valBytes(v)) {
			return "wrong-contents"
		}
	}
	return "exact"
}

func observe(ndb api.NodeDB, roots map[int]*rootInfo) obs {
	o := obs{Roots: map[int]string{}}
	o.Earliest = ndb.GetEarliestVersion()
	o.Last, o.HasLast = ndb.GetLatestVersion()
	for id, ri := range roots {
		if len(ri.cont) == 0 {
			continue
		}
		if !ndb.HasRoot(ri.root(ri.ver)) {
			o.Roots[id] = "absent"
			continue
		}
		o.Roots[id] = readRoot(ndb, ri)
	}
	return o
}

func sameObs(a, b obs) bool {
	x, _ := json.Marshal(a)
	y, _ := json.Marshal(b)
	return string(x) == string(y)
}

// child: replay the history in dir, arm the hook for the last operation.
func child(dir string, c Case) int {
	roots := plan(c)
	ndb, err := openDB(c.Backend, dir)
	if err != nil {
		fmt.Fprintln(os.Stderr, "child open:", err)
		return 3
	}
	for i, op := range c.Ops {
		if i == len(c.Ops)-1 {
			verifhook.Arm()
		}
		if err := doOp(ndb, op, roots); err != nil && i < len(c.Ops)-1 {
			fmt.Fprintln(os.Stderr, "child replay:", err)
			return 4
		}
	}
	verifhook.Disarm()
	ndb.Close()
	return 0
}

func runChild(self, dir string, c Case, env ...string) (int, string) {
	b, _ := json.Marshal(c)
	f := dir + ".case.json"
	_ = os.WriteFile(f, b, 0o600)
	defer os.Remove(f)
	cmd := exec.Command(self, "-child", "-dir", dir, "-case", f)
	cmd.Env = append(os.Environ(), env...)
	out, err := cmd.CombinedOutput()
	if err == nil {
		return 0, string(out)
	}
	var ee *exec.ExitError
	if errors.As(err, &ee) {
		return ee.ExitCode(), string(out)
	}
	return -1, err.Error()
}

// ---------- recording wrapper and Coq rendering (badger cases are also evaluated by Verif.NodeDB.Crash) ----------

type recDB struct {
	api.NodeDB
	puts, removed []hash.Hash
}

type recBatch struct {
	api.Batch
	db *recDB
}

func (d *recDB) NewBatch(oldRoot node.Root, version uint64, chunk bool) (api.Batch, error) {
	b, err := d.NodeDB.NewBatch(oldRoot, version, chunk)
	if err != nil {
		return nil, err
	}
	return &recBatch{Batch: b, db: d}, nil
}

func (b *recBatch) PutNode(ptr *node.Pointer) error {
	b.db.puts = append(b.db.puts, ptr.Node.GetHash())
	return b.Batch.PutNode(ptr)
}

func (b *recBatch) RemoveNodes(nodes []*node.Pointer) error {
	for _, p := range nodes {
		b.db.removed = append(b.db.removed, p.GetHash())
	}
	return b.Batch.RemoveNodes(nodes)
}

type coqRec struct {
	nodeID map[hash.Hash]int
	rids   map[string]int
	ops    []string
	known  []string
	ridOf  map[int]int
}

func newCoqRec() *coqRec {
	return &coqRec{nodeID: map[hash.Hash]int{}, rids: map[string]int{}, ridOf: map[int]int{}}
}

func (cr *coqRec) nid(h hash.Hash) int {
	id, ok := cr.nodeID[h]
	if !ok {
		id = len(cr.nodeID) + 1
		cr.nodeID[h] = id
	}
	return id
}

func (cr *coqRec) rid(ri *rootInfo) int {
	if len(ri.cont) == 0 {
		return ri.typ - 1
	}
	k := fmt.Sprintf("%d:%s", ri.typ, ri.hash)
	id, ok := cr.rids[k]
	if !ok {
		id = len(cr.rids) + 2
		cr.rids[k] = id
	}
	return id
}

func nlist(xs []int) string {
	s := make([]string, len(xs))
	for i, x := range xs {
		s[i] = fmt.Sprint(x)
	}
	return coqout.List(s)
}

func (cr *coqRec) reach(ndb api.NodeDB, ri *rootInfo) (out, inl []int) {
	if len(ri.cont) == 0 {
		return
	}
	root := ri.root(ri.ver)
	var walk func(ptr *node.Pointer, inline bool)
	walk = func(ptr *node.Pointer, inline bool) {
		if ptr == nil {
			return
		}
		nd := ptr.Node
		if nd == nil {
			var err error
			if nd, err = ndb.GetNode(root, ptr); err != nil {
				out = append(out, cr.nid(ptr.Hash)) // already lost by the database (known C06 findings): still a node of the root
				return
			}
		}
		id := cr.nid(nd.GetHash())
		out = append(out, id)
		if inline {
			inl = append(inl, id)
		}
		if n, ok := nd.(*node.InternalNode); ok {
			walk(n.LeafNode, n.LeafNode != nil && n.LeafNode.Node != nil)
			walk(n.Left, false)
			walk(n.Right, false)
		}
	}
	walk(&node.Pointer{Clean: true, Hash: root.Hash}, false)
	return
}

// coqOp renders an operation; for commits the node-level facts come from the recorder
// (rec may be nil for the interrupted operation when it is not a commit).
func (cr *coqRec) coqOp(op Op, roots map[int]*rootInfo, puts, removed, reach, inl []int) string {
	switch op.K {
	case "commit":
		ri := roots[op.ID]
		old := "None"
		if o := roots[op.Old]; o != nil {
			old = fmt.Sprintf("(Some (%d, %d))", o.ver, cr.rid(o))
		}
		ws := make([]string, len(op.Writes))
		for i, w := range op.Writes {
			ws[i] = fmt.Sprintf("(%d, %d)", w.Key, w.Val)
		}
		return fmt.Sprintf("OCommit %d %d %d %s %s %s %s %s %s", op.Ver, ri.typ, cr.rid(ri), old, coqout.List(ws), nlist(puts), nlist(removed), nlist(reach), nlist(inl))
	case "finalize":
		var rs []int
		for _, n := range op.Roots {
			rs = append(rs, cr.rid(roots[n]))
		}
		return fmt.Sprintf("OFinalize %d %s", op.Ver, nlist(rs))
	}
	return fmt.Sprintf("OPrune %d", op.Ver)
}

func stCode(s string) int {
	switch s {
	case "absent":
		return 0
	case "exact":
		return 1
	case "node-missing":
		return 2
	case "root-not-found":
		return 3
	}
	return 9
}

func (cr *coqRec) coqObs(o obs, roots map[int]*rootInfo, order []int) string {
	last := "None"
	if o.HasLast {
		last = fmt.Sprintf("(Some %d)", o.Last)
	}
	var rs []string
	seen := map[string]bool{}
	for _, id := range order {
		ri := roots[id]
		if len(ri.cont) == 0 {
			continue
		}
		k := fmt.Sprintf("(%d, %d)", ri.ver, cr.rid(ri))
		if seen[k] {
			continue
		}
		seen[k] = true
		rs = append(rs, fmt.Sprintf("(%s, %d)", k, stCode(o.Roots[id])))
	}
	return fmt.Sprintf("((%d, %s), %s)", o.Earliest, last, coqout.List(rs))
}

func (cr *coqRec) coqKnown(roots map[int]*rootInfo, order []int) string {
	var rs []string
	seen := map[string]bool{}
	for _, id := range order {
		ri := roots[id]
		if len(ri.cont) == 0 {
			continue
		}
		k := fmt.Sprintf("(%d, %d)", ri.ver, cr.rid(ri))
		if !seen[k] {
			seen[k] = true
			rs = append(rs, k)
		}
	}
	return coqout.List(rs)
}

func eName(err error) string {
	switch {
	case err == nil:
		return "EOk"
	case errors.Is(err, api.ErrNotFinalized):
		return "ENotFinalized"
	case errors.Is(err, api.ErrAlreadyFinalized):
		return "EAlreadyFinalized"
	case errors.Is(err, api.ErrRootNotFound):
		return "ERootNotFound"
	case errors.Is(err, api.ErrNotEarliest):
		return "ENotEarliest"
	case errors.Is(err, api.ErrCannotPruneLatestVersion):
		return "ECannotPruneLatest"
	case errors.Is(err, api.ErrNodeNotFound):
		return "ENodeNotFound"
	}
	return "EOther"
}

// completed durable steps at a badger crash point (see coq/NodeDB/Crash.v)
func stepsAt(point string) int {
	switch point[:strings.LastIndexByte(point, '#')] {
	case "badger.commit.afterLogFlush":
		return 0
	case "badger.commit.afterBatchFlush", "badger.finalize.afterBatchFlush", "badger.prune.afterBatchFlush":
		return 1
	case "badger.finalize.afterMetaCommit":
		return 2
	}
	return -1
}

type result struct {
	coq    []string // Coq case terms (badger)
	points []string
	viol   []string
	finds  []string
	keyed  [][2]string // other classified findings: key, what
	notes  map[string]int
}

const finKeyPruneRetry = "C07:badger-prune-retry-after-crash-root-not-found"

func runCase(self string, c Case) result {
	res := result{notes: map[string]int{}}
	roots := plan(c)
	n := len(c.Ops)
	// twin run without crash
	dirT, _ := os.MkdirTemp("", "verif-crash-twin")
	defer os.RemoveAll(dirT)
	inner, err := openDB(c.Backend, dirT)
	if err != nil {
		res.viol = append(res.viol, "cannot open twin database: "+err.Error())
		return res
	}
	rec := &recDB{NodeDB: inner}
	var ndb api.NodeDB = rec
	cr := newCoqRec()
	var order []int
	var coqOps []string
	reachOf := map[int][2][]int{}
	for i, op := range c.Ops {
		rec.puts, rec.removed = nil, nil
		if i == n-1 {
			break
		}
		if err := doOp(ndb, op, roots); err != nil {
			ndb.Close()
			res.notes["history-prefix-rejected"]++
			return res
		}
		var puts, removed, reach, inl []int
		if op.K == "commit" {
			order = append(order, op.ID)
			for _, h := range rec.puts {
				puts = append(puts, cr.nid(h))
			}
			for _, h := range rec.removed {
				removed = append(removed, cr.nid(h))
			}
			rid := cr.rid(roots[op.ID])
			if _, ok := reachOf[rid]; !ok {
				a, b := cr.reach(inner, roots[op.ID])
				reachOf[rid] = [2][]int{a, b}
			}
			reach, inl = reachOf[rid][0], reachOf[rid][1]
		}
		coqOps = append(coqOps, cr.coqOp(op, roots, puts, removed, reach, inl))
	}
	before := observe(ndb, roots)
	lastOp := c.Ops[n-1]
	if err := doOp(ndb, lastOp, roots); err != nil {
		ndb.Close()
		res.notes["last-op-rejected-in-twin"]++
		return res
	}
	var coqLast string
	{
		var puts, removed, reach, inl []int
		if lastOp.K == "commit" {
			order = append(order, lastOp.ID)
			for _, h := range rec.puts {
				puts = append(puts, cr.nid(h))
			}
			for _, h := range rec.removed {
				removed = append(removed, cr.nid(h))
			}
			rid := cr.rid(roots[lastOp.ID])
			if _, ok := reachOf[rid]; !ok {
				a, b := cr.reach(inner, roots[lastOp.ID])
				reachOf[rid] = [2][]int{a, b}
			}
			reach, inl = reachOf[rid][0], reachOf[rid][1]
		}
		coqLast = cr.coqOp(lastOp, roots, puts, removed, reach, inl)
	}
	after := observe(ndb, roots)
	ndb.Close()
	// dry run: enumerate the crash points of the last operation
	dirD, _ := os.MkdirTemp("", "verif-crash-dry")
	list := dirD + ".points"
	code, out := runChild(self, dirD, c, "VERIF_CRASH_LIST="+list, "VERIF_CRASH_AT=")
	os.RemoveAll(dirD)
	if code != 0 {
		res.viol = append(res.viol, fmt.Sprintf("dry-run child failed (exit %d): %s", code, out))
		return res
	}
	if b, err := os.ReadFile(list); err == nil {
		for _, l := range strings.Split(strings.TrimSpace(string(b)), "\n") {
			if l != "" {
				res.points = append(res.points, l)
			}
		}
	}
	os.Remove(list)
	for _, p := range res.points {
		dir, _ := os.MkdirTemp("", "verif-crash-run")
		code, out := runChild(self, dir, c, "VERIF_CRASH_AT="+p, "VERIF_CRASH_LIST=")
		if code != 137 {
			res.viol = append(res.viol, fmt.Sprintf("child did not die at %s (exit %d): %s", p, code, out))
			os.RemoveAll(dir)
			continue
		}
		func() {
			defer os.RemoveAll(dir)
			defer func() {
				if pv := recover(); pv != nil {
					res.viol = append(res.viol, fmt.Sprintf("%s: PANIC after a crash at %s in %s (reopen / read-back / retry): %v", c.Backend, p, c.Ops[n-1].K, pv))
				}
			}()
			ndb, err := openDB(c.Backend, dir)
			if err != nil {
				res.viol = append(res.viol, fmt.Sprintf("%s: database does not reopen after a crash at %s: %v", c.Backend, p, err))
				return
			}
			defer ndb.Close()
			crash := observe(ndb, roots)
			// (b) metadata: not at all or fully
			metaBefore := crash.Earliest == before.Earliest && crash.HasLast == before.HasLast && crash.Last == before.Last
			metaAfter := crash.Earliest == after.Earliest && crash.HasLast == after.HasLast && crash.Last == after.Last
			if !metaBefore && !metaAfter {
				res.viol = append(res.viol, fmt.Sprintf("%s: after a crash at %s earliest/latest = %d/%v/%d is neither the state before nor after the operation", c.Backend, p, crash.Earliest, crash.HasLast, crash.Last))
			}
			// (a) previously finalized roots stay readable
			for id, st := range before.Roots {
				ri := roots[id]
				finalizedBefore := before.HasLast && ri.ver <= before.Last && ri.ver >= before.Earliest && st == "exact"
				// the version an interrupted Prune targets is the operation's own subject: it is
				// either gone or - after the retry - must be gone; it is not required to be readable
				if c.Ops[n-1].K == "prune" && ri.ver == c.Ops[n-1].Ver {
					continue
				}
				// a root the UNINTERRUPTED operation itself makes unreadable is C06's business (known
				// badger findings), not an effect of the crash
				if finalizedBefore && after.Roots[id] != "exact" && ri.ver >= after.Earliest {
					res.notes["root-lost-by-the-uninterrupted-operation-too(C06)"]++
					continue
				}
				if finalizedBefore && ri.ver >= crash.Earliest && crash.Roots[id] != "exact" {
					res.viol = append(res.viol, fmt.Sprintf("%s: finalized root %d (version %d) reads back %q after a crash at %s in %s", c.Backend, id, ri.ver, crash.Roots[id], p, c.Ops[n-1].K))
				}
			}
			if metaBefore && metaAfter {
				res.notes["crash-state:meta-unchanged-by-op"]++
			} else if metaBefore {
				res.notes["crash-state:not-at-all"]++
			} else if metaAfter {
				res.notes["crash-state:fully"]++
			}
			// (c) retry
			err = safeOp(ndb, c.Ops[n-1], roots)
			if k := stepsAt(p); c.Backend == "badger" && k >= 0 {
				retryObs := observe(ndb, roots)
				res.coq = append(res.coq, fmt.Sprintf("(in_c (%s, %s, %d%%nat, %s), out_c (%s, %s, %s))", coqout.List(coqOps), "("+coqLast+")", k,
					cr.coqKnown(roots, order), cr.coqObs(crash, roots, order), eName(err), cr.coqObs(retryObs, roots, order)))
			}
			already := err != nil && (errors.Is(err, api.ErrAlreadyFinalized) || errors.Is(err, api.ErrNotEarliest))
			if err != nil && c.Backend == "badger" && c.Ops[n-1].K == "prune" && strings.HasPrefix(p, "badger.prune.afterBatchFlush#") &&
				errors.Is(err, api.ErrRootNotFound) && metaBefore {
				res.finds = append(res.finds, fmt.Sprintf("badger: repeating Prune(%d) after a crash at %s fails: %v (the flushed batch already removed the root-node key the retry's traversal needs)", c.Ops[n-1].Ver, p, err))
				res.notes["retry:known-finding"]++
				return
			}
			if err != nil && !(already && metaAfter) {
				res.viol = append(res.viol, fmt.Sprintf("%s: repeating %s after a crash at %s fails: %v", c.Backend, c.Ops[n-1].K, p, err))
				return
			}
			if already {
				res.notes["retry:already-took-effect"]++
			} else {
				res.notes["retry:ok"]++
			}
			retry := observe(ndb, roots)
			if !sameObs(retry, after) {
				a, _ := json.Marshal(after)
				b, _ := json.Marshal(retry)
				res.viol = append(res.viol, fmt.Sprintf("%s: state after crash at %s + retry of %s differs from the uninterrupted run: want %s got %s", c.Backend, p, c.Ops[n-1].K, a, b))
			}
		}()
	}
	return res
}

// ---------- generator: in-domain histories, the last operation is commit / finalize / prune ----------
func genCase(r *prng.R, backend string, lastKind int) Case {
	var ops []Op
	next := 0
	fin := 0
	conts := map[int]map[int]int{}
	commit := func(ver uint64, typ, old int) int {
		next++
		var ws []Write
		for i, n := 0, r.Range(1, 3); i < n; i++ {
			if old != 0 && len(conts[old]) > 0 && r.Chance(30) {
				ks := make([]int, 0, len(conts[old]))
				for k := range conts[old] {
					ks = append(ks, k)
				}
				sort.Ints(ks)
				ws = append(ws, Write{Key: ks[r.Intn(len(ks))], Val: 0})
			} else {
				ws = append(ws, Write{Key: r.Range(1, 8), Val: r.Range(1, 2)})
			}
		}
		c := map[int]int{}
		for k, v := range conts[old] {
			c[k] = v
		}
		for _, w := range ws {
			if w.Val == 0 {
				delete(c, w.Key)
			} else {
				c[w.Key] = w.Val
			}
		}
		if len(c) == 0 {
			ws = append(ws, Write{Key: 7, Val: 1})
			c[7] = 1
		}
		conts[next] = c
		ops = append(ops, Op{K: "commit", ID: next, Ver: ver, Typ: typ, Old: old, Writes: ws})
		return next
	}
	nver := r.Range(2, 4)
	earliest := uint64(1)
	for v := uint64(1); v <= uint64(nver); v++ {
		var cs []int
		for j, n := 0, r.Range(1, 3); j < n; j++ {
			cs = append(cs, commit(v, 1, fin))
		}
		var io int
		if r.Chance(60) {
			io = commit(v, 2, 0)
		}
		lastVer := v == uint64(nver)
		if lastVer && lastKind == 0 {
			// interrupted operation: one more commit
			commit(v, 1, fin)
			return Case{Backend: backend, Ops: ops}
		}
		ch := cs[r.Intn(len(cs))]
		f := []int{ch}
		if io != 0 {
			f = append(f, io)
		}
		ops = append(ops, Op{K: "finalize", Ver: v, Roots: f})
		fin = ch
		if lastVer && lastKind == 1 {
			return Case{Backend: backend, Ops: ops}
		}
		if lastVer && lastKind == 2 {
			ops = append(ops, Op{K: "prune", Ver: earliest})
			return Case{Backend: backend, Ops: ops}
		}
		if v >= earliest+1 && r.Chance(50) {
			ops = append(ops, Op{K: "prune", Ver: earliest})
			earliest++
		}
	}
	return Case{Backend: backend, Ops: ops}
}

func main() {
	seed := flag.Uint64("seed", 1, "seed")
	n := flag.Int("cases", 12, "number of histories per backend")
	out := flag.String("out", "", "output directory")
	replay := flag.String("replay", "", "replay a case description (JSON file)")
	isChild := flag.Bool("child", false, "internal: replay a history and die at VERIF_CRASH_AT")
	isRChild := flag.Bool("rchild", false, "internal: replay a checkpoint restore and die at VERIF_CRASH_AT")
	cpDirFlag := flag.String("cpdir", "", "internal: checkpoint directory of the restore child")
	dir := flag.String("dir", "", "internal: database directory of the child")
	caseFile := flag.String("case", "", "internal: case file of the child")
	flag.Parse()
	if *isChild || *isRChild {
		b, err := os.ReadFile(*caseFile)
		if err != nil {
			os.Exit(5)
		}
		var c Case
		if json.Unmarshal(b, &c) != nil {
			os.Exit(5)
		}
		if *isRChild {
			os.Exit(restoreChild(*dir, *cpDirFlag, c))
		}
		os.Exit(child(*dir, c))
	}
	if *out == "" {
		fmt.Fprintln(os.Stderr, "need -out")
		os.Exit(2)
	}
	_ = os.MkdirAll(*out, 0o755)
	self, _ := os.Executable()
	sum := coqout.NewSummary("seeded in-domain version histories (2-4 versions, 1-3 state candidates and an optional IO root per version, optional prunes) on badger and pathbadger on disk whose LAST operation (commit / finalize / prune in rotation) is interrupted at EVERY crash point it passes (enumerated by a dry run of the verif-tagged hook), then reopen + read back + retry + compare with an uninterrupted twin; one evaluation = one (history, crash point) pair; non-trivial = the crash left the metadata in the before-state while data had been flushed, or retry had to redo work; distinct = distinct (operation list, crash point)")
	var cases []Case
	if *replay != "" {
		b, err := os.ReadFile(*replay)
		if err != nil {
			panic(err)
		}
		var c Case
		var wrap struct {
			Case *Case `json:"case"`
		}
		if json.Unmarshal(b, &wrap) == nil && wrap.Case != nil {
			c = *wrap.Case
		} else if err := json.Unmarshal(b, &c); err != nil {
			panic(err)
		}
		cases = []Case{c}
	} else {
		r := prng.New(*seed)
		for i := 0; i < *n; i++ {
			for _, be := range []string{"badger", "pathbadger"} {
				cases = append(cases, genCase(r.Fork(), be, i%3))
			}
		}
		kinds := []string{"start", "chunk", "abort", "finalize", "chunk"}
		for i := 0; i < (*n+1)/2; i++ {
			for _, be := range []string{"badger", "pathbadger"} {
				rc := &Restore{NKeys: r.Range(8, 40), Pre: r.Chance(50), Last: kinds[i%len(kinds)], J: r.Range(0, 3)}
				if i%2 == 1 && (rc.Last == "chunk" || rc.Last == "abort") {
					// interrupted restore into a database sharing most nodes with the checkpoint, then
					// ordinary operation at the same version
					rc.Shared, rc.Pre, rc.Cont, rc.J = true, false, "normal", r.Range(1, 3)
				}
				cases = append(cases, Case{Backend: be, Restore: rc})
			}
		}
	}
	if !verifhook.Enabled {
		sum.Count("hook", "verif tag missing")
	}
	total := 0
	wb := coqout.NewWriter(*out, "From Verif Require Import Lib.Base NodeDB.Spec NodeDB.Badger NodeDB.Crash NodeDB.Multipart.\n", "any_case", "any_eqb", 10)
	for _, c := range cases {
		var res result
		if c.Restore != nil {
			res = runRestoreCase(self, c)
			sum.Count("last_op", c.Backend+":restore-"+c.Restore.Last)
			sum.Count("crash_points_per_op", fmt.Sprintf("%s:restore-%s:%d", c.Backend, c.Restore.Last, len(res.points)))
			c.Ops = []Op{{K: "restore-" + c.Restore.Last}}
		} else {
			res = runCase(self, c)
		}
		for _, t := range res.coq {
			wb.Add(t, map[string]any{"case": c})
		}
		last := c.Ops[len(c.Ops)-1].K
		if c.Restore == nil {
			sum.Count("last_op", c.Backend+":"+last)
			sum.Count("crash_points_per_op", fmt.Sprintf("%s:%s:%d", c.Backend, last, len(res.points)))
		} else {
			c.Ops = nil
		}
		for _, p := range res.points {
			sum.Count("crash_point", p)
			sum.Evaluations++
			total++
		}
		for k, v := range res.notes {
			for j := 0; j < v; j++ {
				sum.Count("outcome", k)
			}
			if k == "crash-state:not-at-all" || k == "retry:ok" || k == "restore:retry-ok" || k == "restore:continued-normally-ok" {
				sum.DistinctNontrivial += v
			}
		}
		sum.Sample(c, 2)
		for _, f := range res.finds {
			sum.Count("findings", finKeyPruneRetry)
			have := false
			for _, x := range sum.Findings {
				have = have || x.Key == finKeyPruneRetry
			}
			if !have {
				sum.Findings = append(sum.Findings, coqout.Finding{Key: finKeyPruneRetry, What: f, Replay: map[string]any{"case": c}})
			}
		}
		for _, kf := range res.keyed {
			sum.Count("findings", kf[0])
			dup := false
			for _, f := range sum.Findings {
				dup = dup || f.Key == kf[0]
			}
			if !dup {
				sum.Findings = append(sum.Findings, coqout.Finding{Key: kf[0], What: kf[1], Replay: map[string]any{"case": c}})
			}
		}
		for _, v := range res.viol {
			if len(sum.Violations) < 6 {
				sum.Violations = append(sum.Violations, map[string]any{"what": v, "case": c})
			}
			sum.Count("violations", v[:min(60, len(v))])
		}
	}
	if total == 0 {
		// the one-line CrashPoint calls (hooks/c07-crashpoints.diff) are not in the tree yet
		sum.Count("hook", "no crash point passed: call sites absent (hooks/c07-crashpoints.diff not applied); crash enumeration skipped")
		sum.Extra["degraded"] = "crash-point call sites absent in the repository under test"
	}
	wb.Close()
	sum.Write(*out)
}
