// Command pool drives the real roothash commitment.Pool (exported API:
// NewPool, AddVerifiedExecutorCommitment, ProcessCommitments) on generated
// committees and commitment sequences, records the observables as Coq terms
// for the model Verif.Roothash.Pool, and evaluates the finalization rule of
// property C11 directly on the commitments the implementation accepted.
package main

import (
	"encoding/binary"
	"encoding/json"
	"flag"
	"fmt"
	"os"
	"sort"
	"strconv"
	"strings"

	"github.com/oasisprotocol/oasis-core/go/common/crypto/hash"
	"github.com/oasisprotocol/oasis-core/go/common/crypto/signature"
	"github.com/oasisprotocol/oasis-core/go/roothash/api/commitment"
	scheduler "github.com/oasisprotocol/oasis-core/go/scheduler/api"

	"verifharness/internal/coqout"
	"verifharness/internal/prng"
)

// ---------- case description (also the replay format) ----------

type Member struct {
	Role int `json:"r"` // 0 invalid, 1 worker, 2 backup worker
	Node int `json:"n"`
}

type Commit struct {
	Node  int    `json:"n"`
	Sched int    `json:"s"`
	Round string `json:"rd"` // decimal uint64
	Fail  bool   `json:"f,omitempty"`
	Res   int    `json:"v"` // result variant (distinct state roots)
}

type Op struct {
	K       string  `json:"k"` // add | proc | probe
	C       *Commit `json:"c,omitempty"`
	VC      *VCommit `json:"vc,omitempty"`
	Strag   int     `json:"st,omitempty"`
	Timeout bool    `json:"to,omitempty"`
}

type Case struct {
	Mode    string   `json:"mode,omitempty"`   // "" = pool stream, "verify" = verify-then-add stream
	Latest  string   `json:"latest,omitempty"` // verify mode: round of the latest block
	ASeed   uint64   `json:"aseed,omitempty"`  // app mode: seed of the history
	Blocks  int      `json:"blocks,omitempty"` // app mode: number of consensus blocks
	Ev      *EvDesc  `json:"ev,omitempty"`     // evidence mode
	Tag     string   `json:"tag"`
	Members []Member `json:"m"`
	Ops     []Op     `json:"ops"`
}

func pk(i int) signature.PublicKey {
	var k signature.PublicKey
	k[0] = 0x77
	binary.BigEndian.PutUint64(k[24:], uint64(i)+1)
	return k
}

func pkIndex(k signature.PublicKey) int {
	return int(binary.BigEndian.Uint64(k[24:])) - 1
}

func buildCommittee(ms []Member) *scheduler.Committee {
	c := &scheduler.Committee{Kind: scheduler.KindComputeExecutor}
	for _, m := range ms {
		c.Members = append(c.Members, &scheduler.CommitteeNode{Role: scheduler.Role(m.Role), PublicKey: pk(m.Node)})
	}
	return c
}

func buildCommit(cm *Commit) *commitment.ExecutorCommitment {
	round, _ := strconv.ParseUint(cm.Round, 10, 64)
	var prev hash.Hash
	prev.FromBytes([]byte("verif previous block"))
	ec := &commitment.ExecutorCommitment{
		NodeID: pk(cm.Node),
		Header: commitment.ExecutorCommitmentHeader{
			SchedulerID: pk(cm.Sched),
			Header: commitment.ComputeResultsHeader{
				Round:        round,
				PreviousHash: prev,
			},
		},
	}
	if cm.Fail {
		ec.Header.Failure = commitment.FailureUnknown
		return ec
	}
	var io, st, mh, imh hash.Hash
	io.Empty()
	st.FromBytes([]byte(fmt.Sprintf("state root variant %d", cm.Res)))
	mh.Empty()
	imh.Empty()
	ec.Header.Header.IORoot = &io
	ec.Header.Header.StateRoot = &st
	ec.Header.Header.MessagesHash = &mh
	ec.Header.Header.InMessagesHash = &imh
	return ec
}

func clonePool(p *commitment.Pool) *commitment.Pool {
	cp := &commitment.Pool{HighestRank: p.HighestRank, Discrepancy: p.Discrepancy}
	if p.SchedulerCommitments != nil {
		cp.SchedulerCommitments = make(map[uint64]*commitment.SchedulerCommitment)
		for r, sc := range p.SchedulerCommitments {
			n := &commitment.SchedulerCommitment{Commitment: sc.Commitment}
			if sc.Votes != nil {
				n.Votes = make(map[signature.PublicKey]*hash.Hash)
				for k, v := range sc.Votes {
					n.Votes[k] = v
				}
			}
			cp.SchedulerCommitments[r] = n
		}
	}
	return cp
}

// ---------- running one case on the implementation ----------

type runResult struct {
	coqOps   []string
	coqObs   []string
	coqSnap  []string
	blk      string // verify mode: Coq term for the block info
	violated string
	nontriv  bool
	stats    map[string]int
}

type interner struct{ m map[hash.Hash]int }

func (in *interner) id(h hash.Hash) int {
	if v, ok := in.m[h]; ok {
		return v
	}
	v := len(in.m) + 1
	in.m[h] = v
	return v
}

func addClass(err error) (int, string) {
	switch err {
	case nil:
		return 0, "ok"
	case commitment.ErrNotInCommittee:
		return 1, "not-in-committee"
	case commitment.ErrBadExecutorCommitment:
		return 2, "bad-executor-commitment"
	case commitment.ErrAlreadyCommitted:
		return 3, "already-committed"
	}
	return 99, "other:" + err.Error()
}

func procClass(err error) (int, string) {
	switch err {
	case nil:
		return 10, "ok"
	case commitment.ErrStillWaiting:
		return 11, "still-waiting"
	case commitment.ErrDiscrepancyDetected:
		return 12, "discrepancy-detected"
	case commitment.ErrInsufficientVotes:
		return 13, "insufficient-votes"
	case commitment.ErrNoSchedulerCommitment:
		return 14, "no-scheduler-commitment"
	case commitment.ErrBadSchedulerCommitment:
		return 15, "bad-scheduler-commitment"
	}
	return 99, "other:" + err.Error()
}

// wellFormed: workers precede backup workers, only valid roles, no node twice in the same role.
func wellFormed(ms []Member) bool {
	seenBackup := false
	seen := map[[2]int]bool{}
	for _, m := range ms {
		switch m.Role {
		case 1:
			if seenBackup {
				return false
			}
		case 2:
			seenBackup = true
		default:
			return false
		}
		if seen[[2]int{m.Role, m.Node}] {
			return false
		}
		seen[[2]int{m.Role, m.Node}] = true
	}
	return true
}

// accepted is the oracle's own ledger of commitments the implementation accepted (nil error).
type accepted struct {
	node, sched int
	fail        bool
	vote        hash.Hash
}

// ruleHolds is the independent statement of the C11 rule over the ledger.
func ruleHolds(ms []Member, led []accepted, sched int, result hash.Hash, disc bool, strag int) (bool, string) {
	votes := map[int]*accepted{} // first accepted vote per node for this scheduler
	for i := range led {
		a := &led[i]
		if a.sched != sched {
			continue
		}
		if _, dup := votes[a.node]; dup {
			return false, "two accepted votes of one node for one scheduler"
		}
		votes[a.node] = a
	}
	var primary, backup []int
	isMember := map[int]bool{}
	for _, m := range ms {
		isMember[m.Node] = true
		if m.Role == 1 {
			primary = append(primary, m.Node)
		} else if m.Role == 2 {
			backup = append(backup, m.Node)
		}
	}
	for n := range votes {
		if !isMember[n] {
			return false, "accepted vote of a non-member"
		}
	}
	if !disc {
		agree, failures := 0, 0
		for _, n := range primary {
			v, ok := votes[n]
			switch {
			case !ok:
			case v.fail:
				failures++
			case v.vote == result:
				agree++
			default:
				return false, "finalized with a dissenting primary vote"
			}
		}
		if failures > strag {
			return false, "finalized with more failures than allowed stragglers"
		}
		if agree < len(primary)-strag {
			return false, "finalized with fewer than primary-stragglers agreeing votes"
		}
		return true, ""
	}
	agree := 0
	for _, n := range backup {
		if v, ok := votes[n]; ok && !v.fail && v.vote == result {
			agree++
		}
	}
	if 2*agree <= len(backup) {
		return false, "finalized after discrepancy without a strict backup majority"
	}
	return true, ""
}

func rankOf(ms []Member, round uint64, node int) (uint64, bool) {
	var total, idx uint64
	found := false
	for _, m := range ms {
		if m.Role != 1 {
			break
		}
		if m.Node == node {
			idx, found = total, true
		}
		total++
	}
	if !found {
		return 0, false
	}
	return (round + idx) % total, true
}

func runCase(c Case) (res runResult) {
	if c.Mode == "verify" {
		return runVCase(c)
	}
	res.stats = map[string]int{}
	com := buildCommittee(c.Members)
	pool := commitment.NewPool()
	in := &interner{m: map[hash.Hash]int{}}

	// Shape of the history: the oracle applies when every commitment could have passed
	// VerifyExecutorCommitment (same round, no failure from the scheduler itself) and the
	// committee is well formed.
	verifiedShape := wellFormed(c.Members)
	var round0 string
	for _, o := range c.Ops {
		if o.K != "add" {
			continue
		}
		if round0 == "" {
			round0 = o.C.Round
		}
		if o.C.Round != round0 || (o.C.Fail && o.C.Node == o.C.Sched) {
			verifiedShape = false
		}
	}
	if r0, err := strconv.ParseUint(round0, 10, 64); err == nil && r0 > 1<<63 {
		verifiedShape = false // uint64 wrap-around of round+idx in SchedulerRank
	}
	if verifiedShape {
		res.stats["shape:verified"]++
	} else {
		res.stats["shape:unverified"]++
	}
	var ledger []accepted
	violate := func(s string) {
		if res.violated == "" {
			res.violated = s
		}
	}

	for i, o := range c.Ops {
		switch o.K {
		case "add":
			ec := buildCommit(o.C)
			vote := ec.ToVote()
			round, _ := strconv.ParseUint(o.C.Round, 10, 64)
			res.coqOps = append(res.coqOps, fmt.Sprintf("OAdd (mkEC %d %d %d %s %d)", o.C.Node, o.C.Sched, round, coqout.Bool(o.C.Fail), in.id(vote)))
			var err error
			panicked := false
			func() {
				defer func() {
					if r := recover(); r != nil {
						panicked = true
					}
				}()
				err = pool.AddVerifiedExecutorCommitment(com, ec)
			}()
			code, name := addClass(err)
			if panicked {
				code, name = 98, "panic"
				violate(fmt.Sprintf("op %d: AddVerifiedExecutorCommitment panicked", i))
			}
			res.stats["add:"+name]++
			if err == nil && !panicked {
				ledger = append(ledger, accepted{o.C.Node, o.C.Sched, o.C.Fail, vote})
			}
			res.coqObs = append(res.coqObs, fmt.Sprintf("(%d, noCh, %s, %s)", code, hrTerm(pool.HighestRank), coqout.Bool(pool.Discrepancy)))
		case "proc", "probe":
			res.coqOps = append(res.coqOps, fmt.Sprintf("%s %d %s", map[string]string{"proc": "OProc", "probe": "OProbe"}[o.K], o.Strag, coqout.Bool(o.Timeout)))
			p := pool
			if o.K == "probe" {
				p = clonePool(pool)
			}
			discBefore := p.Discrepancy
			var (
				sc  *commitment.SchedulerCommitment
				err error
			)
			panicked := false
			func() {
				defer func() {
					if r := recover(); r != nil {
						panicked = true
					}
				}()
				sc, err = p.ProcessCommitments(com, uint16(o.Strag), o.Timeout)
			}()
			code, name := procClass(err)
			chosen := "noCh"
			if panicked {
				code, name = 16, "panic"
				if verifiedShape {
					violate(fmt.Sprintf("op %d: ProcessCommitments panicked", i))
				}
			} else if err == nil {
				if sc == nil || sc.Commitment == nil {
					chosen = "(Some noPair)"
					if verifiedShape {
						violate(fmt.Sprintf("op %d: finalized without a scheduler commitment", i))
					}
				} else {
					chosen = fmt.Sprintf("(Some (Some (%d, %d)))", pkIndex(sc.Commitment.NodeID), in.id(sc.Commitment.ToVote()))
				}
			}
			timeoutTag := "nt"
			if o.Timeout {
				timeoutTag = "to"
			}
			res.stats["process-"+timeoutTag+":"+name]++
			if code != 11 && code != 14 {
				res.nontriv = true
			}
			// ---- implementation-side oracle (S) ----
			if verifiedShape && !panicked {
				if err == commitment.ErrStillWaiting && o.Timeout {
					violate(fmt.Sprintf("op %d: still waiting although the round timer expired", i))
				}
				if err == commitment.ErrDiscrepancyDetected && discBefore {
					violate(fmt.Sprintf("op %d: discrepancy detected during discrepancy resolution", i))
				}
				if err == nil && sc != nil && sc.Commitment != nil {
					s := pkIndex(sc.Commitment.Header.SchedulerID)
					if pkIndex(sc.Commitment.NodeID) != s {
						violate(fmt.Sprintf("op %d: chosen commitment is not the scheduler's own", i))
					}
					if sc.Commitment.IsIndicatingFailure() {
						violate(fmt.Sprintf("op %d: finalized a failure-indicating commitment", i))
					}
					if ok, why := ruleHolds(c.Members, ledger, s, sc.Commitment.ToVote(), discBefore, o.Strag); !ok {
						violate(fmt.Sprintf("op %d: %s", i, why))
					}
					// rank priority: no accepted own-commitment of a better ranked scheduler
					r0, _ := strconv.ParseUint(round0, 10, 64)
					if rs, ok := rankOf(c.Members, r0, s); ok {
						for _, a := range ledger {
							if a.node == a.sched {
								if ra, ok2 := rankOf(c.Members, r0, a.sched); ok2 && ra < rs {
									violate(fmt.Sprintf("op %d: finalized rank %d although the rank %d scheduler committed", i, rs, ra))
								}
							}
						}
					}
				}
			}
			res.coqObs = append(res.coqObs, fmt.Sprintf("(%d, %s, %s, %s)", code, chosen, hrTerm(p.HighestRank), coqout.Bool(p.Discrepancy)))
		}
	}
	// final snapshot
	var ranks []uint64
	for r := range pool.SchedulerCommitments {
		ranks = append(ranks, r)
	}
	sort.Slice(ranks, func(a, b int) bool { return ranks[a] < ranks[b] })
	for _, r := range ranks {
		sc := pool.SchedulerCommitments[r]
		cn := "noN"
		if sc.Commitment != nil {
			cn = fmt.Sprintf("(Some %d)", pkIndex(sc.Commitment.NodeID))
		}
		var nodes []int
		for k := range sc.Votes {
			nodes = append(nodes, pkIndex(k))
		}
		sort.Ints(nodes)
		var vs []string
		for _, n := range nodes {
			v := sc.Votes[pk(n)]
			if v == nil {
				vs = append(vs, fmt.Sprintf("(%d, noN)", n))
			} else {
				vs = append(vs, fmt.Sprintf("(%d, Some %d)", n, in.id(*v)))
			}
		}
		res.coqSnap = append(res.coqSnap, fmt.Sprintf("(%d, (%s, %s))", r, cn, coqout.List(vs)))
	}
	return res
}

func hrTerm(r uint64) string {
	if r == ^uint64(0) {
		return "U64MAX"
	}
	return strconv.FormatUint(r, 10)
}

func coqCommittee(ms []Member) string {
	var l []string
	for _, m := range ms {
		r := "RInvalid"
		switch m.Role {
		case 1:
			r = "RWorker"
		case 2:
			r = "RBackup"
		}
		l = append(l, fmt.Sprintf("(%s, %d)", r, m.Node))
	}
	return coqout.List(l)
}

// ---------- generators ----------

const baseRound = "3"

// committee with np workers (nodes 0..np-1), nb backups of which ov are the last ov workers.
func mkCommittee(np, nb, ov int) ([]Member, int) {
	var ms []Member
	for i := 0; i < np; i++ {
		ms = append(ms, Member{1, i})
	}
	next := np
	for i := 0; i < nb; i++ {
		if i < ov {
			ms = append(ms, Member{2, np - ov + i})
		} else {
			ms = append(ms, Member{2, next})
			next++
		}
	}
	return ms, next // next = first non-member node id
}

func probes(maxStrag int) []Op {
	var l []Op
	for s := 0; s <= maxStrag; s++ {
		l = append(l, Op{K: "probe", Strag: s, Timeout: false}, Op{K: "probe", Strag: s, Timeout: true})
	}
	return l
}

// exhaustive: every sequence of exactly `length` commitments over
// nodes (members + one non-member) x schedulers (every worker) x {agree, dissent A, dissent B, failure};
// after every prefix all (stragglers 0..2, timeout) probes on a copy of the pool; one state-changing
// ProcessCommitments placed (seeded) after some prefix.
func exhaustive(r *prng.R, maxNP, maxNB, length int, emit func(Case)) {
	for np := 1; np <= maxNP; np++ {
		for nb := 0; nb <= maxNB; nb++ {
			for ov := 0; ov <= np && ov <= nb; ov++ {
				ms, outsider := mkCommittee(np, nb, ov)
				var universe []Commit
				for n := 0; n <= outsider; n++ {
					for s := 0; s < np; s++ {
						for kind := 0; kind < 4; kind++ {
							if kind == 2 && np+nb < 3 {
								continue // a third distinct result needs three voters
							}
							universe = append(universe, Commit{Node: n, Sched: s, Round: baseRound, Fail: kind == 3, Res: kind % 3})
						}
					}
				}
				idx := make([]int, length)
				for {
					var ops []Op
					procAt := r.Intn(length + 1)
					ops = append(ops, probes(0)...)
					for i := 0; i < length; i++ {
						cm := universe[idx[i]]
						ops = append(ops, Op{K: "add", C: &cm})
						ops = append(ops, probes(2)...)
						if i+1 == procAt {
							ops = append(ops, Op{K: "proc", Strag: r.Intn(3), Timeout: r.Chance(70)})
							ops = append(ops, probes(2)...)
						}
					}
					emit(Case{Tag: fmt.Sprintf("exh-p%d-b%d-o%d-l%d", np, nb, ov, length), Members: ms, Ops: ops})
					k := length - 1
					for k >= 0 {
						idx[k]++
						if idx[k] < len(universe) {
							break
						}
						idx[k] = 0
						k--
					}
					if k < 0 {
						break
					}
				}
			}
		}
	}
}

// structured random case: mostly a plausible round (scheduler proposes, workers vote, timeouts,
// discrepancy, backups vote) with adversarial noise.
func genCase(r *prng.R, big bool) Case {
	np, nb := r.Range(1, 3), r.Range(0, 3)
	if big {
		np, nb = r.Range(3, 12), r.Range(0, 12)
	}
	ov := 0
	if m := min(np, nb); m > 0 && r.Chance(60) {
		ov = r.Range(1, m)
	}
	ms, outsider := mkCommittee(np, nb, ov)
	tag := "rand-small"
	if big {
		tag = "rand-big"
	}
	round := strconv.Itoa(r.Range(0, 7))
	malformed := r.Chance(12)
	if malformed {
		tag += "-malformed"
		switch r.Intn(4) {
		case 0: // shuffled roles
			for i := range ms {
				j := r.Intn(len(ms))
				ms[i], ms[j] = ms[j], ms[i]
			}
		case 1: // invalid role somewhere
			ms[r.Intn(len(ms))].Role = 0
		case 2: // duplicated member
			ms = append([]Member{ms[r.Intn(len(ms))]}, ms...)
		case 3: // round close to 2^64
			round = strconv.FormatUint(^uint64(0)-uint64(r.Intn(4)), 10)
		}
	}
	strag := r.Intn(3)
	if big && r.Chance(30) {
		strag = r.Range(0, np)
	}
	nAdds := r.Range(1, 6)
	if big {
		nAdds = r.Range(np/2, 2*(np+nb)+2)
	}
	mainSched := r.Intn(np)
	var ops []Op
	pr := func() {
		if big {
			ops = append(ops, Op{K: "probe", Strag: strag, Timeout: false}, Op{K: "probe", Strag: strag, Timeout: true})
		} else {
			ops = append(ops, probes(2)...)
		}
	}
	// arrival order: a random permutation of the nodes first, then anything
	order := make([]int, outsider)
	for i := range order {
		order[i] = i
	}
	for i := range order {
		j := r.Intn(len(order))
		order[i], order[j] = order[j], order[i]
	}
	dissentPct := []int{0, 10, 35}[r.Intn(3)]
	failPct := []int{0, 10, 30}[r.Intn(3)]
	for i := 0; i < nAdds; i++ {
		cm := Commit{Round: round}
		if i < len(order) && r.Chance(85) {
			cm.Node = order[i]
		} else {
			cm.Node = r.Intn(outsider + 1)
		}
		switch {
		case r.Chance(75):
			cm.Sched = mainSched
		case r.Chance(85):
			cm.Sched = r.Intn(np)
		default:
			cm.Sched = r.Intn(outsider + 1)
		}
		if i == 0 && r.Chance(60) {
			cm.Node = mainSched
		}
		switch {
		case r.Chance(failPct):
			cm.Fail = true
		case r.Chance(dissentPct):
			cm.Res = r.Range(1, 2)
		}
		if cm.Fail && cm.Node == cm.Sched && !r.Chance(5) {
			cm.Fail = false // schedulers may not submit failures (VerifyExecutorCommitment)
		}
		if malformed && r.Chance(15) {
			cm.Round = strconv.Itoa(r.Range(0, 7))
		}
		c2 := cm
		ops = append(ops, Op{K: "add", C: &c2})
		pr()
		if r.Chance(35) {
			s := strag
			if r.Chance(15) {
				s = r.Intn(3)
			}
			ops = append(ops, Op{K: "proc", Strag: s, Timeout: r.Chance(50)})
			pr()
		}
	}
	ops = append(ops, Op{K: "proc", Strag: strag, Timeout: true})
	pr()
	return Case{Tag: tag, Members: ms, Ops: ops}
}

// ---------- shrinking ----------

func shrink(c Case, what string) Case {
	fails := func(x Case) bool { return runCase(x).violated != "" }
	changed := true
	for changed {
		changed = false
		for i := len(c.Ops) - 1; i >= 0; i-- {
			n := Case{Mode: c.Mode, Latest: c.Latest, Tag: c.Tag, Members: c.Members}
			n.Ops = append(append([]Op{}, c.Ops[:i]...), c.Ops[i+1:]...)
			if len(n.Ops) > 0 && fails(n) {
				c, changed = n, true
			}
		}
	}
	// a probe that fails can be shown as a plain process call when it is the last op
	return c
}

func main() {
	seed := flag.Uint64("seed", 1, "seed")
	n := flag.Int("cases", 2000, "number of random cases")
	exhNP := flag.Int("exh-np", 2, "exhaustive scope: max primary size")
	exhNB := flag.Int("exh-nb", 2, "exhaustive scope: max backup size")
	exhLen := flag.Int("exh-len", 2, "exhaustive scope: max sequence length")
	out := flag.String("out", "", "output directory")
	replay := flag.String("replay", "", "replay a case description (JSON file)")
	mode := flag.String("mode", "pool", "pool | verify | app")
	blocksFlag := flag.Int("blocks", 36, "app mode: consensus blocks per history")
	probe := flag.Uint64("app-probe", 0, "debug: run one app-level history and print it")
	flag.Parse()
	if *probe != 0 {
		appProbe(*probe)
		return
	}
	if *mode != "app" {
		vInit()
	}
	if *out == "" {
		fmt.Fprintln(os.Stderr, "need -out")
		os.Exit(2)
	}
	var replayCase *Case
	if *replay != "" {
		b, err := os.ReadFile(*replay)
		if err != nil {
			panic(err)
		}
		var c Case
		var wrap struct {
			Case *Case `json:"case"`
		}
		if json.Unmarshal(b, &wrap) == nil && wrap.Case != nil {
			c = *wrap.Case
		} else if err := json.Unmarshal(b, &c); err != nil {
			panic(err)
		}
		replayCase = &c
		switch c.Mode {
		case "verify", "app", "evidence":
			*mode = c.Mode
		default:
			*mode = "pool"
		}
	}
	hdr := "From Verif Require Import Lib.Base Roothash.Pool.\n"
	w := coqout.NewWriter(*out, hdr, "run_case", "case_eqb", 400)
	if *mode == "verify" {
		hdr = "From Verif Require Import Lib.Base Roothash.Pool Roothash.Verify.\n"
		w = coqout.NewWriter(*out, hdr, "run_vcase", "case_eqb", 400)
	}
	if *mode == "app" {
		hdr = "From Verif Require Import Lib.Base Roothash.Pool Roothash.Verify Roothash.App Roothash.Evidence.\n"
		w = coqout.NewWriter(*out, hdr, "run_ecase", "ecase_eqb", 8)
	}
	if *mode == "evidence" {
		hdr = "From Verif Require Import Lib.Base Roothash.Pool Roothash.Verify Roothash.App Roothash.Evidence.\n"
		w = coqout.NewWriter(*out, hdr, "evidence_code", "N.eqb", 1000)
	}
	sum := coqout.NewSummary("(1) exhaustive: all sequences of <= exh-len commitments over (members + one non-member) x (every worker as scheduler) x {agree, dissent A, dissent B, failure} for every committee with primary 1..exh-np, backup 0..exh-nb and every overlap, with ProcessCommitments probed on a copy of the pool after every prefix for stragglers 0..2 with and without timeout and one seeded state-changing call; (2) seeded structured rounds on committees 1..3 + 0..3 and 3..12 + 0..12 (scheduler proposes, members vote in a random order, 0/10/35% dissent, 0/10/30% failures, duplicates, non-members, other schedulers, 12% malformed: shuffled or invalid roles, duplicate members, mixed rounds, rounds near 2^64). non-trivial = some process call returned something other than still-waiting / no-scheduler-commitment; distinct = distinct case descriptions")
	seen := map[string]bool{}
	nviol := 0
	handle := func(c Case) {
		res := runCase(c)
		key, _ := json.Marshal(c)
		if res.nontriv && !seen[string(key)] {
			sum.DistinctNontrivial++
		}
		seen[string(key)] = true
		sum.Evaluations++
		sum.Count("tag", strings.SplitN(c.Tag, "-l", 2)[0])
		for k, v := range res.stats {
			parts := strings.SplitN(k, ":", 2)
			m := sum.Histograms[parts[0]]
			if m == nil {
				m = map[string]int{}
				sum.Histograms[parts[0]] = m
			}
			m[parts[1]] += v
		}
		sum.Sample(c, 3)
		term := fmt.Sprintf("((%s, %s), (%s, %s))", coqCommittee(c.Members), coqout.List(res.coqOps), coqout.List(res.coqObs), coqout.List(res.coqSnap))
		if c.Mode == "verify" {
			term = fmt.Sprintf("((%s, %s, %s), (%s, %s))", res.blk, coqCommittee(c.Members), coqout.List(res.coqOps), coqout.List(res.coqObs), coqout.List(res.coqSnap))
		}
		w.Add(term, map[string]any{"case": c})
		if res.violated != "" && nviol < 5 {
			nviol++
			c2 := shrink(c, res.violated)
			r2 := runCase(c2)
			sum.Violations = append(sum.Violations, map[string]any{"what": r2.violated, "case": c2})
		}
	}
	handleApp := func(c Case) {
		res := runAppHistory(c.ASeed, c.Blocks)
		sum.Evaluations++
		if res.nontriv {
			sum.DistinctNontrivial++
		}
		for k, v := range res.stats {
			parts := strings.SplitN(k, ":", 2)
			m := sum.Histograms[parts[0]]
			if m == nil {
				m = map[string]int{}
				sum.Histograms[parts[0]] = m
			}
			m[parts[1]] += v
		}
		sum.Sample(c, 3)
		if res.term != "" {
			w.Add(res.term, map[string]any{"case": c})
		}
		if res.violated != "" && nviol < 5 {
			nviol++
			// shrink: the shortest prefix of the history that still fails
			for n := 1; n < c.Blocks; n++ {
				if r2 := runAppHistory(c.ASeed, n); r2.violated != "" {
					c.Blocks, res = n, r2
					break
				}
			}
			sum.Violations = append(sum.Violations, map[string]any{"what": res.violated, "case": c})
		}
	}
	handleEv := func(c Case) {
		term, stat, violated := runEvidenceCase(c)
		sum.Evaluations++
		key, _ := json.Marshal(c)
		if !seen[string(key)] {
			sum.DistinctNontrivial++
		}
		seen[string(key)] = true
		sum.Count("evidence", stat)
		sum.Sample(c, 3)
		w.Add(term, map[string]any{"case": c})
		if violated != "" && nviol < 5 {
			nviol++
			sum.Violations = append(sum.Violations, map[string]any{"what": violated, "case": c})
		}
	}
	if replayCase != nil && replayCase.Mode == "evidence" {
		handleEv(*replayCase)
	} else if *mode == "evidence" {
		sum.Rule = "stateless Evidence.ValidateBasic on signed pairs: executor commitments (same commitment twice, other node / scheduler / round, failure vs result, two failure codes, same failure on different parents, bad / foreign signature, messages attached, missing fields, invalid failure code, differing only in previous hash / messages hash / a field the check ignores) and batch proposals (equal, other node / round, other parent, batch or batch signature attached, bad / foreign signature), both or no field set; distinct = distinct descriptions (every case counts as non-trivial)"
		r := prng.New(*seed ^ 0xe71d)
		for i := 0; i < *n; i++ {
			handleEv(genEvidenceCase(r.Fork()))
		}
	} else if replayCase != nil && replayCase.Mode == "app" {
		handleApp(*replayCase)
	} else if *mode == "app" {
		sum.Rule = "histories of the real roothash application behind the real ABCI multiplexer: one validator, one non-TEE compute runtime (group 1..3, backup 0..2, round timeout 0/1/2/3/5 blocks, stragglers 0/1), epoch interval 3..5 blocks, compute-node registrations expiring after 2..4 epochs (suspension, also while a round timeout is armed) and re-registration; per block a seeded choice of signed ExecutorCommit transactions (scheduler only, all agree, conflicting, failure-indicating, early backup votes, backup resolution with agreeing / split / failing votes, rank-1 scheduler rounds, wrong round / future round of rank 0 / wrong parent / non-member / other scheduler) or nothing (timeouts run out). One case = one history; non-trivial = a discrepancy was detected or a Normal / RoundFailed block was emitted"
		r := prng.New(*seed ^ 0xa99)
		for i := 0; i < *n; i++ {
			handleApp(Case{Mode: "app", Tag: "app", ASeed: 1 + r.U64()%1000000, Blocks: *blocksFlag})
		}
	} else if replayCase != nil {
		handle(*replayCase)
	} else if *mode == "verify" {
		sum.Rule = "verify-then-add rounds as in the roothash application: well-formed committees 1..4 + 0..3 with overlaps, latest block round 0..9, every commitment signed by a node key; 10/30/60% of the commitments carry one deviation (header round = latest, latest+2, or a future round mapping the scheduler to rank 0; wrong previous hash; scheduler id of a backup worker / non-member; the scheduler's own failure; non-member signer; wrong messages hash; corrupted or foreign signature; missing / superfluous header fields; invalid failure code). non-trivial = some process call returned something other than still-waiting / no-scheduler-commitment"
		r := prng.New(*seed ^ 0x5eed)
		for i := 0; i < *n; i++ {
			handle(genVCase(r.Fork()))
		}
	} else {
		r := prng.New(*seed)
		for l := 1; l <= *exhLen; l++ {
			exhaustive(r.Fork(), *exhNP, *exhNB, l, handle)
		}
		sum.Extra["exhaustive_scope"] = map[string]int{"max_primary": *exhNP, "max_backup": *exhNB, "max_len": *exhLen}
		for i := 0; i < *n; i++ {
			handle(genCase(r.Fork(), i%4 == 3))
		}
	}
	w.Close()
	sum.Write(*out)
}
