// Equivocation evidence (roothash.Evidence): stateless ValidateBasic against the model
// Verif.Roothash.Evidence (mode "evidence"), and helpers for the evidence transactions of the
// app stream.
package main

import (
	"fmt"
	"strconv"
	"strings"

	"github.com/oasisprotocol/oasis-core/go/common"
	"github.com/oasisprotocol/oasis-core/go/common/crypto/hash"
	"github.com/oasisprotocol/oasis-core/go/common/crypto/signature"
	roothash "github.com/oasisprotocol/oasis-core/go/roothash/api"
	"github.com/oasisprotocol/oasis-core/go/roothash/api/block"
	"github.com/oasisprotocol/oasis-core/go/roothash/api/commitment"

	"verifharness/internal/coqout"
	"verifharness/internal/prng"
)

// PropDesc describes one signed batch proposal.
type PropDesc struct {
	Node   int    `json:"n"`
	Round  uint64 `json:"rd"`
	Prev   int    `json:"p"`            // previous-hash variant
	Batch  int    `json:"b"`            // batch-hash variant
	NBatch int    `json:"nb,omitempty"` // entries in Batch (must be empty in evidence)
	BSig   bool   `json:"bsig,omitempty"`
	BadSig bool   `json:"bs,omitempty"`
	SignAs int    `json:"sa,omitempty"`
}

// EvDesc describes one piece of evidence.
type EvDesc struct {
	Kind   string    `json:"kind"` // exec | prop | both | none
	Latest string    `json:"latest"`
	A      *VCommit  `json:"a,omitempty"`
	B      *VCommit  `json:"b,omitempty"`
	PA     *PropDesc `json:"pa,omitempty"`
	PB     *PropDesc `json:"pb,omitempty"`
}

func hid(in *interner, h *hash.Hash) int {
	if h == nil {
		return 0
	}
	return in.id(*h)
}

// evTerm renders a commitment inside evidence as the Coq term (mkEV vcommit io state mh).
func evTerm(ec *commitment.ExecutorCommitment, nodeIdx, schedIdx int, rtID common.Namespace, in *interner) string {
	h := &ec.Header.Header
	return fmt.Sprintf("(mkEV %s %d %d %d)", vcTerm(ec, nodeIdx, schedIdx, rtID, in), hid(in, h.IORoot), hid(in, h.StateRoot), hid(in, h.MessagesHash))
}

func propTerm(p *commitment.Proposal, nodeIdx int, rtID common.Namespace, in *interner) string {
	return fmt.Sprintf("(mkPR %d %d %d %d %d %s %s)", nodeIdx, p.Header.Round, in.id(p.Header.PreviousHash), in.id(p.Header.BatchHash),
		len(p.Batch), coqout.Bool(p.BatchSignature != nil), coqout.Bool(p.Verify(rtID) == nil))
}

func buildProposal(d *PropDesc, key func(int) signature.Signer, rtID common.Namespace) *commitment.Proposal {
	p := &commitment.Proposal{NodeID: key(d.Node).Public()}
	p.Header.Round = d.Round
	p.Header.PreviousHash.FromBytes([]byte(fmt.Sprintf("prev %d", d.Prev)))
	p.Header.BatchHash.FromBytes([]byte(fmt.Sprintf("batch %d", d.Batch)))
	k := key(d.Node)
	if d.SignAs > 0 {
		k = key(d.SignAs - 1)
	}
	if sig, err := p.Header.Sign(k, rtID); err == nil {
		p.Signature = *sig
	}
	if d.BadSig {
		p.Signature[5] ^= 0x10
	}
	for i := 0; i < d.NBatch; i++ {
		var h hash.Hash
		h.FromBytes([]byte{byte(i)})
		p.Batch = append(p.Batch, h)
	}
	if d.BSig {
		var rs signature.RawSignature
		p.BatchSignature = &rs
	}
	return p
}

// evidenceClass maps the error of Evidence.ValidateBasic to the model's code.
func evidenceClass(err error) (int, string) {
	if err == nil {
		return 0, "valid"
	}
	m := err.Error()
	tab := []struct {
		sub  string
		code int
	}{
		{"commits are equal", 1},
		{"executor evidence signature public keys don't match", 2},
		{"scheduler IDs don't match", 3},
		{"commit headers not for same round", 4},
		{"messages should be empty", 5},
		{"commit A not valid", 6},
		{"commit B not valid", 7},
		{"commit headers match", 8},
		{"failure indication fields match", 9},
		{"invalid signature for commit A", 10},
		{"invalid signature for commit B", 11},
		{"proposal headers are equal", 21},
		{"proposal evidence signature public keys don't match", 22},
		{"proposal header rounds don't match", 23},
		{"batch should be empty", 24},
		{"batch signature should be empty", 25},
		{"invalid signature for proposal A", 26},
		{"invalid signature for proposal B", 27},
		{"multiple fields set", 31},
		{"no fields set", 32},
	}
	for _, t := range tab {
		if strings.Contains(m, t.sub) {
			return t.code, t.sub
		}
	}
	return 99, "other:" + m
}

// runEvidenceCase evaluates one stateless evidence case on the implementation.
func runEvidenceCase(c Case) (term string, stat string, violated string) {
	d := c.Ev
	in := &interner{m: map[hash.Hash]int{}}
	latest, _ := strconv.ParseUint(d.Latest, 10, 64)
	last := block.NewGenesisBlock(vRuntime.ID, 0)
	last.Header.Round = latest
	ev := &roothash.Evidence{ID: vRuntime.ID}
	coq := "ENone"
	var ea, eb *commitment.ExecutorCommitment
	if d.Kind == "exec" || d.Kind == "both" {
		ea, eb = buildVCommit(d.A, last), buildVCommit(d.B, last)
		ev.EquivocationExecutor = &roothash.EquivocationExecutorEvidence{CommitA: *ea, CommitB: *eb}
		coq = fmt.Sprintf("EExec %s %s", evTerm(ea, d.A.Node, d.A.Sched, vRuntime.ID, in), evTerm(eb, d.B.Node, d.B.Sched, vRuntime.ID, in))
	}
	if d.Kind == "prop" || d.Kind == "both" {
		pa, pb := buildProposal(d.PA, signer, vRuntime.ID), buildProposal(d.PB, signer, vRuntime.ID)
		ev.EquivocationProposal = &roothash.EquivocationProposalEvidence{ProposalA: *pa, ProposalB: *pb}
		coq = fmt.Sprintf("EProp %s %s", propTerm(pa, d.PA.Node, vRuntime.ID, in), propTerm(pb, d.PB.Node, vRuntime.ID, in))
	}
	if d.Kind == "both" {
		coq = "EBoth"
	}
	var err error
	panicked := false
	func() {
		defer func() {
			if r := recover(); r != nil {
				panicked = true
			}
		}()
		err = ev.ValidateBasic()
	}()
	code, name := evidenceClass(err)
	if panicked {
		code, name = 98, "panic"
		violated = "Evidence.ValidateBasic panicked"
	}
	// ---- oracle S: valid evidence must show two different signed statements of ONE node for
	// one round (and scheduler) ----
	if err == nil && !panicked {
		switch {
		case ea != nil:
			ha, hb := ea.Header.Header.EncodedHash(), eb.Header.Header.EncodedHash()
			switch {
			case !ea.NodeID.Equal(eb.NodeID):
				violated = "valid evidence accuses two different nodes"
			case ea.Header.Header.Round != eb.Header.Header.Round || ea.Header.SchedulerID != eb.Header.SchedulerID:
				violated = "valid evidence for different rounds / schedulers"
			case ea.Verify(vRuntime.ID) != nil || eb.Verify(vRuntime.ID) != nil:
				violated = "valid evidence with an invalid signature"
			case ha.Equal(&hb) && ea.Header.Failure == eb.Header.Failure:
				violated = "valid evidence whose two commitments say the same"
			}
		case ev.EquivocationProposal != nil:
			pa, pb := &ev.EquivocationProposal.ProposalA, &ev.EquivocationProposal.ProposalB
			switch {
			case !pa.NodeID.Equal(pb.NodeID) || pa.Header.Round != pb.Header.Round:
				violated = "valid proposal evidence for different nodes / rounds"
			case pa.Verify(vRuntime.ID) != nil || pb.Verify(vRuntime.ID) != nil:
				violated = "valid proposal evidence with an invalid signature"
			case pa.Header.Equal(&pb.Header):
				violated = "valid proposal evidence whose two proposals are equal"
			}
		}
	}
	return fmt.Sprintf("(%s, %d)", coq, code), d.Kind + ": " + name, violated
}

func genEvidenceCase(r *prng.R) Case {
	latest := uint64(r.Range(0, 9))
	next := strconv.FormatUint(latest+1, 10)
	d := &EvDesc{Latest: strconv.FormatUint(latest, 10)}
	switch x := r.Intn(100); {
	case x < 3:
		d.Kind = "none"
		return Case{Mode: "evidence", Tag: "evidence", Ev: d}
	case x < 6:
		d.Kind = "both"
	case x < 70:
		d.Kind = "exec"
	default:
		d.Kind = "prop"
	}
	if d.Kind == "exec" || d.Kind == "both" {
		n, s := r.Intn(4), r.Intn(3)
		a := VCommit{Node: n, Sched: s, Round: next, Res: 0}
		b := VCommit{Node: n, Sched: s, Round: next, Res: 1}
		switch r.Intn(16) {
		case 0: // the same commitment twice
			b.Res = 0
		case 1:
			b.Node = (n + 1) % 4
		case 2:
			b.Sched = (s + 1) % 3
		case 3:
			b.Round = strconv.FormatUint(latest+2, 10)
		case 4: // failure versus result: equivocation
			b.FCode = 1
		case 5: // two different failure codes
			a.FCode, b.FCode = 1, 2
		case 6: // the same failure twice, different parents (header hashes differ)
			a.FCode, b.FCode, b.PrevW = 1, 1, true
		case 7:
			a.BadSig = true
		case 8:
			b.SignAs = 1 + (n+1)%4
		case 9:
			a.NMsgs, a.MH = 1, 1
		case 10:
			b.Twist = []string{"no-io", "no-state", "no-msgs", "no-inmsgs"}[r.Intn(4)]
		case 11:
			a.Twist = "no-state"
		case 12: // differ only in the previous hash
			b.Res, b.PrevW = 0, true
		case 13: // differ only in the messages hash
			b.Res, b.MH = 0, 2
		case 14: // differ only in a field the evidence check does not compare (in-messages count)
			b.Res, b.Twist = 0, "with-count"
		case 15:
			b.FCode = 7
		}
		d.A, d.B = &a, &b
	}
	if d.Kind == "prop" || d.Kind == "both" {
		n := r.Intn(4)
		a := PropDesc{Node: n, Round: latest + 1, Prev: 0, Batch: 0}
		b := PropDesc{Node: n, Round: latest + 1, Prev: 0, Batch: 1}
		switch r.Intn(10) {
		case 0:
			b.Batch = 0
		case 1:
			b.Node = (n + 1) % 4
		case 2:
			b.Round++
		case 3:
			b.Batch, b.Prev = 0, 1
		case 4:
			a.NBatch = 2
		case 5:
			b.BSig = true
		case 6:
			a.BadSig = true
		case 7:
			b.SignAs = 1 + (n+1)%4
		}
		d.PA, d.PB = &a, &b
	}
	return Case{Mode: "evidence", Tag: "evidence", Ev: d}
}
