// App mode: the REAL roothash application behind the real ABCI multiplexer (internal/muxdrv)
// with a registered non-TEE compute runtime and an elected executor committee.  Signed
// ExecutorCommit transactions drive rounds that finalize, time out, run into discrepancies
// (resolved or not by the backup workers) or fail; the compute nodes' registrations expire so
// that the runtime gets suspended (possibly while a round timeout is armed) and is resumed by
// re-registration.  Observables per consensus block: result of every commit transaction,
// rounds of the runtime blocks emitted in BeginBlock / EndBlock, discrepancy events, the
// latest runtime block header (round, type, state root), NextTimeout, suspension, pool flags.
// They are compared with the model Verif.Roothash.App; oracle S checks the C11 rule, the
// unchanged state root of failed rounds and "suspended => no armed timeout" directly.
package main

import (
	"context"
	"encoding/base64"
	"fmt"
	"sort"
	"strings"
	"time"

	"github.com/oasisprotocol/oasis-core/go/common"
	"github.com/oasisprotocol/oasis-core/go/common/cbor"
	"github.com/oasisprotocol/oasis-core/go/common/crypto/hash"
	"github.com/oasisprotocol/oasis-core/go/common/crypto/signature"
	"github.com/oasisprotocol/oasis-core/go/common/node"
	staking "github.com/oasisprotocol/oasis-core/go/staking/api"
	registryState "github.com/oasisprotocol/oasis-core/go/consensus/cometbft/apps/registry/state"
	"github.com/oasisprotocol/oasis-core/go/common/quantity"
	"github.com/oasisprotocol/oasis-core/go/consensus/api/transaction"
	abciAPI "github.com/oasisprotocol/oasis-core/go/consensus/cometbft/api"
	roothashState "github.com/oasisprotocol/oasis-core/go/consensus/cometbft/apps/roothash/state"
	genesis "github.com/oasisprotocol/oasis-core/go/genesis/api"
	registry "github.com/oasisprotocol/oasis-core/go/registry/api"
	roothash "github.com/oasisprotocol/oasis-core/go/roothash/api"
	"github.com/oasisprotocol/oasis-core/go/roothash/api/block"
	"github.com/oasisprotocol/oasis-core/go/roothash/api/commitment"
	"github.com/oasisprotocol/oasis-core/go/roothash/api/message"
	scheduler "github.com/oasisprotocol/oasis-core/go/scheduler/api"

	"verifharness/internal/coqout"
	"verifharness/internal/muxdrv"
	"verifharness/internal/prng"
)

const appMaxEvidenceAge = 3

type appWorld struct {
	seed    uint64
	rng     *prng.R
	g       *muxdrv.Genesis
	rep     *muxdrv.Replica
	chain   *muxdrv.Chain
	rtID    common.Namespace
	nodes   []*muxdrv.Validator
	group   uint16
	backup  uint16
	timeout int64
	strag   uint16
	expire  uint64
	outsider *muxdrv.Validator
	local    map[string]uint64 // nonces used in the block being planned
	slashAmt uint64             // equivocation penalty of the runtime (0 = the runtime does not slash)
	lastEv   *roothash.Evidence // last submitted evidence (for duplicate submissions)
}

func (w *appWorld) descriptor() *registry.Runtime {
	rt := &registry.Runtime{
		Versioned: cbor.NewVersioned(registry.LatestRuntimeDescriptorVersion),
		ID:        w.rtID,
		EntityID:  w.g.Validators[0].Entity.Public(),
		Kind:      registry.KindCompute,
		Executor:  registry.ExecutorParameters{GroupSize: w.group, GroupBackupSize: w.backup, AllowedStragglers: w.strag, RoundTimeout: w.timeout, MaxMessages: 32},
		TxnScheduler: registry.TxnSchedulerParameters{
			BatchFlushTimeout: time.Second, MaxBatchSize: 1, MaxBatchSizeBytes: 1024, ProposerTimeout: 2 * time.Second,
			MaxInMessages: 2,
		},
		AdmissionPolicy: registry.RuntimeAdmissionPolicy{AnyNode: &registry.AnyNodeRuntimeAdmissionPolicy{}},
		Constraints: map[scheduler.CommitteeKind]map[scheduler.Role]registry.SchedulingConstraints{
			scheduler.KindComputeExecutor: {
				scheduler.RoleWorker:       {MinPoolSize: &registry.MinPoolSizeConstraint{Limit: w.group}},
				scheduler.RoleBackupWorker: {MinPoolSize: &registry.MinPoolSizeConstraint{Limit: w.backup}},
			},
		},
		GovernanceModel: registry.GovernanceEntity,
		Deployments:     []*registry.VersionInfo{{}},
	}
	if w.slashAmt > 0 {
		rt.Staking.Slashing = map[staking.SlashReason]staking.Slash{
			staking.SlashRuntimeEquivocation: {Amount: *quantity.NewFromUint64(w.slashAmt)},
		}
		rt.Staking.RewardSlashEquvocationRuntimePercent = 30
	}
	rt.Genesis.StateRoot.Empty()
	return rt
}

func (w *appWorld) state() *roothash.RuntimeState {
	defer func() { _ = recover() }()
	ctx := context.Background()
	ist, err := abciAPI.NewImmutableStateAt(ctx, w.rep.Srv.State(), 0)
	if err != nil {
		return nil
	}
	defer ist.Close()
	st, err := roothashState.NewImmutableState(ist).RuntimeState(ctx, w.rtID)
	if err != nil {
		return nil
	}
	return st
}

func (w *appWorld) armedTimeouts() []int64 {
	defer func() { _ = recover() }()
	ctx := context.Background()
	ist, err := abciAPI.NewImmutableStateAt(ctx, w.rep.Srv.State(), 0)
	if err != nil {
		return nil
	}
	defer ist.Close()
	ids, hs, err := roothashState.NewImmutableState(ist).RuntimesWithRoundTimeoutsAny(ctx)
	if err != nil {
		return nil
	}
	var out []int64
	for i, id := range ids {
		if id.Equal(&w.rtID) {
			out = append(out, hs[i])
		}
	}
	return out
}

// nonce returns the next nonce of the key for the block being planned.
func (w *appWorld) nonce(k *muxdrv.Key) uint64 {
	var base uint64
	if acc, err := w.rep.Account(0, k.Address()); err == nil && acc != nil {
		base = acc.General.Nonce
	}
	if w.local == nil {
		w.local = map[string]uint64{}
	}
	a := k.Address().String()
	n := base + w.local[a]
	w.local[a]++
	return n
}

func (w *appWorld) nodeOf(id signature.PublicKey) (int, *muxdrv.Validator) {
	if w.outsider != nil && w.outsider.Node.Public().Equal(id) {
		return len(w.nodes), w.outsider
	}
	for i, n := range w.nodes {
		if n.Node.Public().Equal(id) {
			return i, n
		}
	}
	return -1, nil
}

// commit builds a signed commitment of node n for a round on top of blk.
func (w *appWorld) commit(blk *block.Block, sched signature.PublicKey, n *muxdrv.Validator, variant int, failure commitment.ExecutorCommitmentFailure, roundDelta int64, badPrev bool) *commitment.ExecutorCommitment {
	nb := block.NewEmptyBlock(blk, 1, block.Normal)
	msgs := message.MessagesHash(nil)
	var empty hash.Hash
	empty.Empty()
	io := hash.NewFromBytes([]byte(fmt.Sprintf("io/%d/%d", nb.Header.Round, variant)))
	sr := hash.NewFromBytes([]byte(fmt.Sprintf("state/%d/%d", nb.Header.Round, variant)))
	ec := commitment.ExecutorCommitment{
		NodeID: n.Node.Public(),
		Header: commitment.ExecutorCommitmentHeader{
			SchedulerID: sched,
			Header: commitment.ComputeResultsHeader{
				Round:        uint64(int64(nb.Header.Round) + roundDelta),
				PreviousHash: nb.Header.PreviousHash,
			},
		},
	}
	if badPrev {
		ec.Header.Header.PreviousHash = hash.NewFromBytes([]byte("not the previous block"))
	}
	if failure == commitment.FailureNone {
		ec.Header.Header.IORoot = &io
		ec.Header.Header.StateRoot = &sr
		ec.Header.Header.MessagesHash = &msgs
		ec.Header.Header.InMessagesHash = &empty
	} else {
		ec.Header.Failure = failure
	}
	if err := ec.Sign(n.Node.Signer, w.rtID); err != nil {
		panic(err)
	}
	return &ec
}

type appTx struct {
	raw  []byte
	kind string
	ecs      []*commitment.ExecutorCommitment // the commitments of an ExecutorCommit transaction
	isCommit bool
	ev       *roothash.Evidence // an Evidence transaction
	node     int
}

func (w *appWorld) commitTx(signer *muxdrv.Validator, kind string, ecs ...*commitment.ExecutorCommitment) appTx {
	var cs []commitment.ExecutorCommitment
	for _, e := range ecs {
		cs = append(cs, *e)
	}
	tx := roothash.NewExecutorCommitTx(w.nonce(signer.Node), muxdrv.Fee(0, 8*muxdrv.DefaultGas), w.rtID, cs)
	return appTx{raw: muxdrv.Sign(signer.Node, tx), kind: kind, ecs: ecs, isCommit: true, node: -1}
}

func (w *appWorld) registerNodes(expiration uint64) []appTx {
	var out []appTx
	for _, cn := range w.nodes {
		nd := muxdrv.NodeDescriptor(cn, expiration, node.RoleComputeWorker)
		nd.Runtimes = []*node.Runtime{{ID: w.rtID}}
		tx := muxdrv.TxRegisterNode(w.nonce(cn.Node), muxdrv.Fee(0, 4*muxdrv.DefaultGas), cn, nd)
		out = append(out, appTx{raw: muxdrv.Sign(cn.Node, tx), kind: "register compute node", node: -1})
	}
	return out
}

func newAppWorld(seed uint64) (*appWorld, error) {
	r := prng.New(seed)
	w := &appWorld{seed: seed, rng: r}
	w.group = []uint16{1, 2, 2, 3, 3}[r.Intn(5)]
	w.backup = uint16(r.Intn(3))
	w.timeout = int64([]int{0, 1, 2, 3, 5}[r.Intn(5)])
	w.strag = uint16([]int{0, 0, 1}[r.Intn(3)])
	if int(w.strag) >= int(w.group) {
		w.strag = 0
	}
	w.slashAmt = []uint64{0, 100, 100, 5000}[r.Intn(4)]
	w.expire = uint64(2 + r.Intn(3))
	if r.Chance(20) {
		w.expire = 1000
	}
	g, err := muxdrv.NewGenesis(seed, muxdrv.GenesisOpts{
		Validators: 1, Accounts: 2, EpochInterval: int64(3 + r.Intn(3)), BypassStake: true, NoRewards: true, MaxTxSize: 16384,
		Mutate: func(doc *genesis.Document) {
			doc.RootHash.Parameters.DebugDoNotSuspendRuntimes = false
			doc.RootHash.Parameters.MaxEvidenceAge = appMaxEvidenceAge
			doc.RootHash.Parameters.GasCosts = transaction.Costs{roothash.GasOpSubmitMsg: 1500, roothash.GasOpComputeCommit: 1800, roothash.GasOpEvidence: 1900}
		},
	})
	if err != nil {
		return nil, err
	}
	w.g = g
	w.rtID = common.NewTestNamespaceFromSeed([]byte(fmt.Sprintf("verif/c11/%d/rt", seed)), common.NamespaceTest)
	n := int(w.group+w.backup) + r.Intn(2)
	for i := 0; i < n; i++ {
		cn := *muxdrv.NewValidator(g.Seed, 10+i)
		cn.Entity = g.Validators[0].Entity
		w.nodes = append(w.nodes, &cn)
	}
	out := *muxdrv.NewValidator(g.Seed, 40)
	out.Entity = g.Validators[0].Entity
	w.outsider = &out
	w.rep, err = muxdrv.NewReplica(g, muxdrv.ReplicaConfig{Name: "p0", Identity: g.Validators[0].Identity})
	if err != nil {
		return nil, err
	}
	w.chain = muxdrv.NewChain(g)
	return w, nil
}

func (w *appWorld) runBlock(txs []appTx) (*muxdrv.BlockResult, [][]byte, error) {
	in := w.chain.NewBlock(w.g.Validators[0].ConsAddr, muxdrv.VotesAll, nil)
	var cand [][]byte
	for _, t := range txs {
		cand = append(cand, t.raw)
	}
	all, err := w.rep.Propose(in, cand)
	if err != nil {
		return nil, nil, err
	}
	res, err := w.rep.Process(in, all)
	if err != nil {
		return nil, all, err
	}
	w.chain.Applied(res)
	return res, all, nil
}

// decodeEvents extracts (finalized rounds, discrepancy events) of our runtime from ABCI events.
func decodeRoothashEvents(evs []muxdrv.Event) (rounds []uint64, discs []roothash.ExecutionDiscrepancyDetectedEvent) {
	for _, e := range evs {
		if !strings.HasSuffix(e.Type, "roothash") {
			continue
		}
		for _, a := range e.Attrs {
			raw, err := base64.StdEncoding.DecodeString(a[1])
			if err != nil {
				raw = []byte(a[1])
			}
			switch a[0] {
			case "finalized":
				var f roothash.FinalizedEvent
				if cbor.Unmarshal(raw, &f) == nil {
					rounds = append(rounds, f.Round)
				}
			case "execution_discrepancy":
				var d roothash.ExecutionDiscrepancyDetectedEvent
				if cbor.Unmarshal(raw, &d) == nil {
					discs = append(discs, d)
				}
			}
		}
	}
	return
}


// ---------- one app-level history ----------

type appResult struct {
	term     string // Coq case term
	violated string
	nontriv  bool
	stats    map[string]int
	blocks   int
}

func vcTerm(ec *commitment.ExecutorCommitment, nodeIdx, schedIdx int, rtID common.Namespace, in *interner) string {
	h := &ec.Header.Header
	sigOK := ec.Verify(rtID) == nil
	msgsHashOK := false
	if h.MessagesHash != nil {
		mh := message.MessagesHash(ec.Messages)
		msgsHashOK = mh.Equal(h.MessagesHash)
	}
	return fmt.Sprintf("(mkVC %d %d %d %d %d %d %s %s %s %s %d %s %d %s true %s None true)",
		nodeIdx, schedIdx, h.Round, in.id(h.PreviousHash), uint8(ec.Header.Failure), in.id(ec.ToVote()),
		coqout.Bool(h.IORoot != nil), coqout.Bool(h.StateRoot != nil), coqout.Bool(h.MessagesHash != nil), coqout.Bool(h.InMessagesHash != nil),
		h.InMessagesCount, coqout.Bool(ec.Header.RAKSignature != nil), len(ec.Messages),
		coqout.Bool(sigOK), coqout.Bool(msgsHashOK))
}

func txCode(tr muxdrv.TxResult) (int, string) {
	switch {
	case tr.Code == 0:
		return 0, "ok"
	case strings.Contains(tr.Log, "signature verification failed"):
		return 21, "signature-invalid"
	case tr.Codespace == "roothash/commitment":
		switch tr.Code {
		case 5:
			return 1, "not-in-committee"
		case 6:
			return 3, "already-committed"
		case 7:
			return 23, "not-based-on-correct-block"
		case 11:
			return 2, "bad-executor-commitment"
		case 13:
			return 27, "invalid-messages"
		}
	case tr.Codespace == "roothash":
		switch tr.Code {
		case 5:
			return 30, "runtime-suspended"
		case 6:
			return 31, "no-committee"
		case 4:
			return 32, "no-executor-pool"
		}
	}
	return 99, fmt.Sprintf("other:%s/%d:%s", tr.Codespace, tr.Code, tr.Log)
}

type ledgerEntry struct {
	accepted
	stateRoot hash.Hash
	ioRoot    hash.Hash
}

func usum(xs []uint64) uint64 {
	var t uint64
	for _, x := range xs {
		t += x
	}
	return t
}

func (w *appWorld) members(c *scheduler.Committee) []Member {
	var ms []Member
	for _, m := range c.Members {
		i, _ := w.nodeOf(m.PublicKey)
		ms = append(ms, Member{Role: int(m.Role), Node: i})
	}
	return ms
}

func evTerms(rounds []uint64, discs []roothash.ExecutionDiscrepancyDetectedEvent) string {
	// the discrepancy event precedes the finalized event of the same call
	var l []string
	for _, d := range discs {
		l = append(l, fmt.Sprintf("EvDiscrepancy %d %d %s", d.Round, d.Rank, coqout.Bool(d.Timeout)))
	}
	for _, r := range rounds {
		l = append(l, fmt.Sprintf("EvFinalized %d", r))
	}
	return coqout.List(l)
}

// planBlock chooses the transactions of the next consensus block from the current runtime state.
func (w *appWorld) planBlock(b int, st *roothash.RuntimeState, epoch uint64) []appTx {
	w.local = map[string]uint64{}
	r := w.rng
	v0 := w.g.Validators[0]
	var txs []appTx
	switch b {
	case 0:
		n0 := w.nonce(v0.Entity)
		w.nonce(v0.Entity)
		txs = append(txs, appTx{raw: muxdrv.Sign(v0.Entity, registry.NewRegisterRuntimeTx(n0, muxdrv.Fee(0, 4*muxdrv.DefaultGas), w.descriptor())), kind: "register runtime", node: -1})
		ids := []signature.PublicKey{v0.Node.Public()}
		for _, cn := range w.nodes {
			ids = append(ids, cn.Node.Public())
		}
		ids = append(ids, w.outsider.Node.Public())
		txs = append(txs, appTx{raw: muxdrv.Sign(v0.Entity, muxdrv.TxRegisterEntity(n0+1, muxdrv.Fee(0, 4*muxdrv.DefaultGas), v0.Entity, ids)), kind: "register entity nodes", node: -1})
		return txs
	case 1:
		return w.registerNodes(w.expire)
	}
	if st == nil {
		return nil
	}
	// resumption: re-register the compute nodes
	if (st.Suspended || r.Chance(4)) && r.Chance(30) {
		txs = append(txs, w.registerNodes(epoch+uint64(1+r.Intn(3)))...)
	}
	if st.Suspended || st.Committee == nil || st.CommitmentPool == nil {
		if r.Chance(30) {
			n := w.nodes[r.Intn(len(w.nodes))]
			txs = append(txs, w.commitTx(n, "commit to suspended/idle runtime", w.commit(st.LastBlock, n.Node.Public(), n, 0, commitment.FailureNone, 0, false)))
		}
		return append(txs, w.planEvidence(st, txs, w.nodes[0].Node.Public())...)
	}
	com := st.Committee
	round := st.LastBlock.Header.Round + 1
	var workers, backups []*muxdrv.Validator
	for _, m := range com.Members {
		_, n := w.nodeOf(m.PublicKey)
		if n == nil {
			continue
		}
		if m.Role == scheduler.RoleWorker {
			workers = append(workers, n)
		} else {
			backups = append(backups, n)
		}
	}
	schedM, ok := com.Scheduler(round, 0)
	if !ok || len(workers) == 0 {
		return txs
	}
	_, sched := w.nodeOf(schedM.PublicKey)
	if sched == nil {
		return txs
	}
	// sometimes the whole round is run by the rank-1 scheduler (the primary stays silent)
	if st.CommitmentPool.HighestRank != 0 && len(workers) > 1 && (st.CommitmentPool.HighestRank == 1 || r.Chance(12)) {
		if m2, ok2 := com.Scheduler(round, 1); ok2 {
			_, sched = w.nodeOf(m2.PublicKey)
		}
	}
	schedID := sched.Node.Public()
	var others []*muxdrv.Validator
	for _, n := range workers {
		if n != sched {
			others = append(others, n)
		}
	}
	schedRank, _ := com.SchedulerRank(round, schedID)
	haveSched := st.CommitmentPool.HighestRank == schedRank
	mk := func(n *muxdrv.Validator, variant int, f commitment.ExecutorCommitmentFailure) *commitment.ExecutorCommitment {
		return w.commit(st.LastBlock, schedID, n, variant, f, 0, false)
	}
	if st.CommitmentPool.Discrepancy {
		if len(backups) > 0 && r.Chance(65) {
			agree := r.Chance(70)
			for _, n := range backups {
				v := 0
				if !agree {
					v = r.Intn(3)
				}
				if r.Chance(12) {
					txs = append(txs, w.commitTx(n, "backup worker failure", mk(n, 0, commitment.FailureUnknown)))
				} else {
					txs = append(txs, w.commitTx(n, "backup worker commit", mk(n, v, commitment.FailureNone)))
				}
			}
		}
		if r.Chance(15) && len(others) > 0 {
			n := others[r.Intn(len(others))]
			txs = append(txs, w.commitTx(n, "primary worker commit during resolution", mk(n, 0, commitment.FailureNone)))
		}
		return txs
	}
	switch x := r.Intn(100); {
	case x < 18:
		// nothing: an armed timeout keeps running / an idle runtime stays idle
	case x < 42 && !haveSched:
		txs = append(txs, w.commitTx(sched, "scheduler commit", mk(sched, 0, commitment.FailureNone)))
	case x < 42:
		for _, n := range others {
			txs = append(txs, w.commitTx(n, "worker commit (agrees)", mk(n, 0, commitment.FailureNone)))
		}
	case x < 54:
		if !haveSched {
			txs = append(txs, w.commitTx(sched, "scheduler commit", mk(sched, 0, commitment.FailureNone)))
		}
		for _, n := range others {
			txs = append(txs, w.commitTx(n, "worker commit (agrees)", mk(n, 0, commitment.FailureNone)))
		}
		if r.Chance(25) {
			for _, n := range backups {
				txs = append(txs, w.commitTx(n, "early backup commit", mk(n, 0, commitment.FailureNone)))
			}
		}
	case x < 70:
		if !haveSched {
			txs = append(txs, w.commitTx(sched, "scheduler commit", mk(sched, 0, commitment.FailureNone)))
		}
		for i, n := range others {
			txs = append(txs, w.commitTx(n, "worker commit (conflicts)", mk(n, 1+i%2, commitment.FailureNone)))
		}
	case x < 80:
		n := workers[r.Intn(len(workers))]
		f := []commitment.ExecutorCommitmentFailure{commitment.FailureUnknown, commitment.FailureStateUnavailable}[r.Intn(2)]
		txs = append(txs, w.commitTx(n, "failure-indicating commit", mk(n, 0, f)))
	case x < 92:
		n := w.nodes[r.Intn(len(w.nodes))]
		switch r.Intn(5) {
		case 0:
			txs = append(txs, w.commitTx(n, "commit for a wrong round", w.commit(st.LastBlock, schedID, n, 0, commitment.FailureNone, int64(1+r.Intn(3)), false)))
		case 1:
			txs = append(txs, w.commitTx(n, "commit on a wrong parent", w.commit(st.LastBlock, schedID, n, 0, commitment.FailureNone, 0, true)))
		case 2:
			txs = append(txs, w.commitTx(w.outsider, "commit by a non-member", w.commit(st.LastBlock, schedID, w.outsider, 0, commitment.FailureNone, 0, false)))
		case 3:
			// a future round chosen so that this node's own proposal maps to rank 0
			for k := int64(1); k <= int64(len(workers))+1; k++ {
				if rk, ok := com.SchedulerRank(round+uint64(k), n.Node.Public()); ok && rk == 0 {
					txs = append(txs, w.commitTx(n, "own proposal for a future round of rank 0", w.commit(st.LastBlock, n.Node.Public(), n, 6, commitment.FailureNone, k, false)))
					break
				}
			}
		default:
			if len(others) > 0 {
				o := others[r.Intn(len(others))]
				txs = append(txs, w.commitTx(o, "other scheduler commit", w.commit(st.LastBlock, o.Node.Public(), o, 5, commitment.FailureNone, 0, false)))
			}
		}
	default:
		if len(others) > 0 {
			n := others[r.Intn(len(others))]
			txs = append(txs, w.commitTx(n, "worker commit before the scheduler", mk(n, 0, commitment.FailureNone)))
		}
	}
	txs = w.bundle(txs, st, sched, workers)
	return append(txs, w.planEvidence(st, txs, schedID)...)
}

// planEvidence sometimes adds an equivocation-evidence transaction (never together with node
// registrations, so that "the accused key is a registered node" is the same before and after
// the block's transactions).
func (w *appWorld) planEvidence(st *roothash.RuntimeState, txs []appTx, schedID signature.PublicKey) []appTx {
	r := w.rng
	for _, t := range txs {
		if !t.isCommit {
			return nil
		}
	}
	if !r.Chance(14) {
		return nil
	}
	var ev *roothash.Evidence
	kind := "evidence"
	if w.lastEv != nil && r.Chance(25) {
		ev, kind = w.lastEv, "evidence resubmitted"
	} else {
		// an older block of the same chain: rounds back in time share LastBlock's fields we need
		back := uint64([]int{0, 0, 0, 1, 2, 5, 8}[r.Intn(7)])
		base := *st.LastBlock
		if base.Header.Round >= back {
			base.Header.Round -= back
		}
		n := w.nodes[r.Intn(len(w.nodes))]
		a := w.commit(&base, schedID, n, 10, commitment.FailureNone, 0, false)
		b := w.commit(&base, schedID, n, 11, commitment.FailureNone, 0, false)
		switch r.Intn(8) {
		case 0:
			b = a
			kind = "evidence with equal commitments"
		case 1:
			a = w.commit(&base, schedID, w.outsider, 10, commitment.FailureNone, 0, false)
			b = w.commit(&base, schedID, w.outsider, 11, commitment.FailureNone, 0, false)
			kind = "evidence against an unregistered key"
		case 2:
			b = w.commit(&base, schedID, n, 0, commitment.FailureUnknown, 0, false)
			kind = "evidence: result versus failure"
		case 3:
			b.Signature[2] ^= 1
			kind = "evidence with a bad signature"
		}
		if r.Chance(20) {
			pa := buildProposal(&PropDesc{Node: 0, Round: base.Header.Round + 1, Batch: 0}, func(int) signature.Signer { return n.Node.Signer }, w.rtID)
			pb := buildProposal(&PropDesc{Node: 0, Round: base.Header.Round + 1, Batch: 1}, func(int) signature.Signer { return n.Node.Signer }, w.rtID)
			ev = &roothash.Evidence{ID: w.rtID, EquivocationProposal: &roothash.EquivocationProposalEvidence{ProposalA: *pa, ProposalB: *pb}}
			kind = "proposal evidence"
		} else {
			ev = &roothash.Evidence{ID: w.rtID, EquivocationExecutor: &roothash.EquivocationExecutorEvidence{CommitA: *a, CommitB: *b}}
		}
		w.lastEv = ev
	}
	k := w.g.Accounts[0].Key
	tx := roothash.NewEvidenceTx(w.nonce(k), muxdrv.Fee(0, 4*muxdrv.DefaultGas), ev)
	return []appTx{{raw: muxdrv.Sign(k, tx), kind: kind, ev: ev, node: -1}}
}

func (w *appWorld) evidenceStored(round uint64, h hash.Hash) bool {
	defer func() { _ = recover() }()
	ctx := context.Background()
	ist, err := abciAPI.NewImmutableStateAt(ctx, w.rep.Srv.State(), 0)
	if err != nil {
		return false
	}
	defer ist.Close()
	ok, _ := roothashState.NewImmutableState(ist).EvidenceHashExists(ctx, w.rtID, round, h)
	return ok
}

func (w *appWorld) isRegisteredNode(pk signature.PublicKey) bool {
	defer func() { _ = recover() }()
	ctx := context.Background()
	ist, err := abciAPI.NewImmutableStateAt(ctx, w.rep.Srv.State(), 0)
	if err != nil {
		return false
	}
	defer ist.Close()
	n, err := registryState.NewImmutableState(ist).Node(ctx, pk)
	return err == nil && n != nil
}

// bundle sometimes merges the commitments planned for this block into ONE multi-commit
// transaction (all-or-nothing), possibly poisoned by a commitment that must be rejected, or
// sends an empty ExecutorCommit transaction.
func (w *appWorld) bundle(txs []appTx, st *roothash.RuntimeState, sched *muxdrv.Validator, workers []*muxdrv.Validator) []appTx {
	r := w.rng
	if r.Chance(5) {
		w.local = map[string]uint64{}
		return []appTx{w.commitTx(workers[0], "empty commit transaction")}
	}
	var commits []*commitment.ExecutorCommitment
	var other []appTx
	for _, t := range txs {
		if t.isCommit {
			commits = append(commits, t.ecs...)
		} else {
			other = append(other, t)
		}
	}
	if len(commits) < 2 || !r.Chance(35) || len(other) > 0 {
		return txs
	}
	kind := "bundle of commitments"
	switch r.Intn(4) {
	case 0: // a duplicate at the end: the whole transaction must fail
		commits = append(commits, commits[0])
		kind = "bundle poisoned by a duplicate"
	case 1: // a commitment on a wrong parent in the middle
		n := workers[r.Intn(len(workers))]
		bad := w.commit(st.LastBlock, sched.Node.Public(), n, 0, commitment.FailureNone, 0, true)
		commits = append(commits[:1], append([]*commitment.ExecutorCommitment{bad}, commits[1:]...)...)
		kind = "bundle poisoned by a wrong parent"
	}
	w.local = map[string]uint64{}
	return []appTx{w.commitTx(workers[r.Intn(len(workers))], kind, commits...)}
}

func runAppHistory(seed uint64, nblocks int) (res appResult) {
	res.stats = map[string]int{}
	w, err := newAppWorld(seed)
	if err != nil {
		res.violated = "cannot boot: " + err.Error()
		return
	}
	defer w.rep.Close()
	res.stats[fmt.Sprintf("shape:group=%d backup=%d", w.group, w.backup)]++
	res.stats[fmt.Sprintf("round-timeout:%d", w.timeout)]++
	res.stats[fmt.Sprintf("stragglers:%d", w.strag)]++
	in := &interner{m: map[hash.Hash]int{}}
	violate := func(s string) {
		if res.violated == "" {
			res.violated = s
		}
	}
	hashes := map[uint64]int{} // round -> interned block hash
	roots := map[int]int{}     // vote -> state root
	ios := map[int]int{}       // vote -> IO root
	mhs := map[int]int{}       // vote -> messages hash
	var emptyH hash.Hash
	emptyH.Empty()
	emptyID := in.id(emptyH)
	var blocks []string
	var obs []string
	evAccepted := map[hash.Hash]bool{} // evidence store keys accepted so far
	var obsEv []string
	var ledger []ledgerEntry // accepted commitments of the current round
	ledgerRound := uint64(0)
	discRound := false
	started := false
	var round0, root0 int
	for b := 0; b < nblocks; b++ {
		st := w.state()
		ep, _, _ := w.rep.Epoch(0)
		txs := w.planBlock(b, st, uint64(ep))
		var pre *roothash.RuntimeState
		if st != nil {
			pre = st
			hashes[st.LastBlock.Header.Round] = in.id(st.LastBlock.Header.EncodedHash())
		}
		bres, _, err := w.runBlock(txs)
		halted := 0
		if err != nil {
			// EndBlock (or another ABCI call) failed: the chain would halt here
			violate(fmt.Sprintf("block %d: the block could not be executed: %v", b, err))
			res.stats["block:HALT"]++
			break
		}
		res.blocks++
		post := w.state()
		if post == nil {
			continue
		}
		if !started {
			// the runtime state was created in this block (onNewRuntime)
			started = true
			round0, root0 = int(post.LastBlock.Header.Round), in.id(post.LastBlock.Header.StateRoot)
			hashes[post.LastBlock.Header.Round] = in.id(post.LastBlock.Header.EncodedHash())
			continue
		}
		H := bres.Height
		bRounds, bDiscs := decodeRoothashEvents(bres.BeginEvents)
		eRounds, eDiscs := decodeRoothashEvents(bres.EndEvents)
		// ---- model input ----
		epoch := "noEpoch"
		if len(bRounds) > 0 {
			if post.Suspended || post.Committee == nil {
				epoch = "(Some noCommittee)"
				res.stats["begin:suspend"]++
				if pre != nil && pre.NextTimeout != roothash.TimeoutNever {
					res.stats["scenario:SUSPENDED WHILE A ROUND TIMEOUT WAS ARMED"]++
				}
			} else {
				epoch = fmt.Sprintf("(Some (Some %s))", coqCommittee(w.members(post.Committee)))
				res.stats["begin:epoch-transition"]++
			}
		}
		var vcs, codes []string
		for i, t := range txs {
			if !t.isCommit {
				continue
			}
			var one []string
			for _, ec := range t.ecs {
				ni, _ := w.nodeOf(ec.NodeID)
				si, _ := w.nodeOf(ec.Header.SchedulerID)
				if si < 0 {
					si = 99
				}
				one = append(one, vcTerm(ec, ni, si, w.rtID, in))
				if ec.Header.Header.StateRoot != nil {
					roots[in.id(ec.ToVote())] = in.id(*ec.Header.Header.StateRoot)
					if ec.Header.Header.IORoot != nil {
						ios[in.id(ec.ToVote())] = in.id(*ec.Header.Header.IORoot)
					}
					if ec.Header.Header.MessagesHash != nil {
						mhs[in.id(ec.ToVote())] = in.id(*ec.Header.Header.MessagesHash)
					}
				}
			}
			vcs = append(vcs, coqout.List(one))
			code, name := txCode(bres.TxResults[i])
			codes = append(codes, fmt.Sprint(code))
			res.stats["commit-tx:"+name]++
			res.stats["commit-kind:"+t.kind]++
			res.stats[fmt.Sprintf("commits-per-tx:%d", len(t.ecs))]++
			if code != 0 {
				continue
			}
			for _, ec := range t.ecs {
				ni, _ := w.nodeOf(ec.NodeID)
				si, _ := w.nodeOf(ec.Header.SchedulerID)
				if ledgerRound != ec.Header.Header.Round {
					ledger, ledgerRound, discRound = nil, ec.Header.Header.Round, false
				}
				ledger = append(ledger, ledgerEntry{accepted: accepted{ni, si, ec.IsIndicatingFailure(), ec.ToVote()}})
				if ec.Header.Header.StateRoot != nil {
					ledger[len(ledger)-1].stateRoot = *ec.Header.Header.StateRoot
				}
				if ec.Header.Header.IORoot != nil {
					ledger[len(ledger)-1].ioRoot = *ec.Header.Header.IORoot
				}
				// oracle: what an accepted commitment must look like
				if pre == nil || ec.Header.Header.Round != w.roundAtTx(pre, bRounds)+1 {
					violate(fmt.Sprintf("block %d: accepted a commitment whose header round %d is not the latest round + 1", b, ec.Header.Header.Round))
				}
			}
		}
		var evTs, evCodes []string
		for i, t := range txs {
			if t.ev == nil {
				continue
			}
			var coq string
			var accused signature.PublicKey
			var evRound uint64
			if x := t.ev.EquivocationExecutor; x != nil {
				ai, _ := w.nodeOf(x.CommitA.NodeID)
				bi, _ := w.nodeOf(x.CommitB.NodeID)
				sa, _ := w.nodeOf(x.CommitA.Header.SchedulerID)
				sb, _ := w.nodeOf(x.CommitB.Header.SchedulerID)
				coq = fmt.Sprintf("EExec %s %s", evTerm(&x.CommitA, ai, sa, w.rtID, in), evTerm(&x.CommitB, bi, sb, w.rtID, in))
				accused, evRound = x.CommitA.NodeID, x.CommitA.Header.Header.Round
			} else {
				x := t.ev.EquivocationProposal
				ai, _ := w.nodeOf(x.ProposalA.NodeID)
				bi, _ := w.nodeOf(x.ProposalB.NodeID)
				coq = fmt.Sprintf("EProp %s %s", propTerm(&x.ProposalA, ai, w.rtID, in), propTerm(&x.ProposalB, bi, w.rtID, in))
				accused, evRound = x.ProposalA.NodeID, x.ProposalA.Header.Round
			}
			evHash, _ := t.ev.Hash()
			var rb [8]byte
			for k := 0; k < 8; k++ {
				rb[k] = byte(evRound >> (8 * k))
			}
			storeKey := hash.NewFromBytes(rb[:], evHash[:])
			registered := w.isRegisteredNode(accused)
			evTs = append(evTs, fmt.Sprintf("mkET (%s) %d %s", coq, in.id(storeKey), coqout.Bool(registered)))
			tr := bres.TxResults[i]
			code, name := 99, fmt.Sprintf("other:%s/%d:%s", tr.Codespace, tr.Code, tr.Log)
			switch {
			case tr.Code == 0:
				code, name = 0, "accepted"
			case tr.Codespace == "roothash" && tr.Code == 10:
				code, name = 40, "invalid-evidence"
			case tr.Codespace == "roothash" && tr.Code == 8:
				code, name = 41, "runtime-does-not-slash"
			case tr.Codespace == "roothash" && tr.Code == 9:
				code, name = 42, "duplicate-evidence"
			case tr.Codespace == "roothash" && tr.Code == 5:
				code, name = 30, "runtime-suspended"
			case tr.Codespace == "roothash" && tr.Code == 6:
				code, name = 31, "no-committee"
			case tr.Codespace == "roothash" && tr.Code == 4:
				code, name = 32, "no-executor-pool"
			}
			evCodes = append(evCodes, fmt.Sprint(code))
			res.stats["evidence-tx:"+name]++
			res.stats["evidence-kind:"+t.kind]++
			// ---- oracle S ----
			stored := w.evidenceStored(evRound, evHash)
			if code == 0 {
				res.nontriv = true
				if evAccepted[storeKey] {
					violate(fmt.Sprintf("block %d: evidence for the same node and round accepted twice", b))
				}
				evAccepted[storeKey] = true
				if !stored {
					violate(fmt.Sprintf("block %d: accepted evidence was not recorded", b))
				}
				if !registered {
					violate(fmt.Sprintf("block %d: evidence against a key that is not a registered node was accepted", b))
				}
				if x := t.ev.EquivocationExecutor; x != nil {
					ha, hb := x.CommitA.Header.Header.EncodedHash(), x.CommitB.Header.Header.EncodedHash()
					if !x.CommitA.NodeID.Equal(x.CommitB.NodeID) || x.CommitA.Header.Header.Round != x.CommitB.Header.Header.Round ||
						x.CommitA.Header.SchedulerID != x.CommitB.Header.SchedulerID ||
						x.CommitA.Verify(w.rtID) != nil || x.CommitB.Verify(w.rtID) != nil ||
						(ha.Equal(&hb) && x.CommitA.Header.Failure == x.CommitB.Header.Failure) {
						violate(fmt.Sprintf("block %d: accepted evidence does not show two different signed commitments of one node for one round and scheduler", b))
					}
				}
			} else if stored && !evAccepted[storeKey] {
				violate(fmt.Sprintf("block %d: a rejected evidence transaction left its evidence hash behind", b))
			}
		}
		blocks = append(blocks, fmt.Sprintf("mkEB (mkAB %d %s %s) %s", H, epoch, coqout.List(vcs), coqout.List(evTs)))
		obsEv = append(obsEv, coqout.List(evCodes))
		hashes[post.LastBlock.Header.Round] = in.id(post.LastBlock.Header.EncodedHash())
		if len(bRounds)+len(eRounds) == 2 {
			// the block emitted in BeginBlock is only visible as the parent of the final one
			hashes[post.LastBlock.Header.Round-1] = in.id(post.LastBlock.Header.PreviousHash)
		}
		ngood, nbad := w.lastResults()
		poolT := "noPool"
		if post.CommitmentPool != nil {
			poolT = fmt.Sprintf("(Some (%d, %s))", post.CommitmentPool.HighestRank, coqout.Bool(post.CommitmentPool.Discrepancy))
		}
		obs = append(obs, fmt.Sprintf("mkBO %s %s %s %d %d %d %d %d%%Z %s %s", coqout.List(codes), evTerms(bRounds, bDiscs), evTerms(eRounds, eDiscs), halted,
			post.LastBlock.Header.Round, uint8(post.LastBlock.Header.HeaderType), in.id(post.LastBlock.Header.StateRoot), post.NextTimeout, coqout.Bool(post.Suspended), poolT)+
			fmt.Sprintf(" %d %d %d %s (%d, %d)", in.id(post.LastBlock.Header.IORoot), in.id(post.LastBlock.Header.PreviousHash), in.id(post.LastBlock.Header.MessagesHash),
				liveTerm(post.LivenessStatistics), ngood, nbad))

		// ---- oracle S, independent of the model ----
		res.stats["lastblock:"+hdrName(post.LastBlock.Header.HeaderType)]++
		if len(eDiscs) > 0 {
			discRound = true
			res.stats["end:discrepancy-detected"]++
			res.nontriv = true
		}
		armed := w.armedTimeouts()
		switch {
		case post.NextTimeout == roothash.TimeoutNever && len(armed) != 0:
			violate(fmt.Sprintf("block %d (height %d): round timeout index %v although NextTimeout is never", b, H, armed))
		case post.NextTimeout != roothash.TimeoutNever && (len(armed) != 1 || armed[0] != post.NextTimeout):
			violate(fmt.Sprintf("block %d (height %d): round timeout index %v differs from NextTimeout %d", b, H, armed, post.NextTimeout))
		}
		if post.Suspended && (post.NextTimeout != roothash.TimeoutNever || len(armed) != 0) {
			violate(fmt.Sprintf("block %d (height %d): suspended runtime with an armed round timeout (NextTimeout %d, index %v)", b, H, post.NextTimeout, armed))
		}
		if post.NextTimeout != roothash.TimeoutNever && post.NextTimeout <= H {
			violate(fmt.Sprintf("block %d (height %d): the round timer (%d) expired but the round just keeps waiting", b, H, post.NextTimeout))
		}
		if post.NextTimeout != roothash.TimeoutNever {
			res.stats["post:timeout armed"]++
		}
		if post.Suspended {
			res.stats["post:suspended"]++
		}
		emitted := len(bRounds) + len(eRounds)
		if pre != nil {
			if post.LastBlock.Header.Round != pre.LastBlock.Header.Round+uint64(emitted) {
				violate(fmt.Sprintf("block %d: %d finalized events but the round went from %d to %d", b, emitted, pre.LastBlock.Header.Round, post.LastBlock.Header.Round))
			}
			ph := pre.LastBlock.Header.EncodedHash()
			if emitted == 1 && !post.LastBlock.Header.PreviousHash.Equal(&ph) {
				violate(fmt.Sprintf("block %d: new runtime block does not point to the previous one", b))
			}
			if emitted == 0 && !post.LastBlock.Header.StateRoot.Equal(&pre.LastBlock.Header.StateRoot) {
				violate(fmt.Sprintf("block %d: state root changed without a new runtime block", b))
			}
			if emitted > 0 {
				switch post.LastBlock.Header.HeaderType {
				case block.Normal:
					res.nontriv = true
					// the finalized proposal: the best-ranked own commitment with this state root
					com := pre.Committee
					if len(bRounds) > 0 {
						com = post.Committee
					}
					if com == nil {
						violate(fmt.Sprintf("block %d: Normal block without a committee", b))
						break
					}
					ms := w.members(com)
					rnd := post.LastBlock.Header.Round
					best, bestRank := -1, uint64(0)
					for i, a := range ledger {
						if a.node == a.sched && !a.fail && a.stateRoot.Equal(&post.LastBlock.Header.StateRoot) {
							if rk, ok := rankOf(ms, rnd, a.sched); ok && (best < 0 || rk < bestRank) {
								best, bestRank = i, rk
							}
						}
					}
					if best < 0 || ledgerRound != rnd {
						violate(fmt.Sprintf("block %d: Normal block whose state root is not that of an accepted proposal for round %d", b, rnd))
						break
					}
					var plain []accepted
					for _, a := range ledger {
						plain = append(plain, a.accepted)
						if a.node == a.sched {
							if rk, ok := rankOf(ms, rnd, a.sched); ok && rk < bestRank {
								violate(fmt.Sprintf("block %d: finalized the rank %d proposal although the rank %d scheduler committed", b, bestRank, rk))
							}
						}
					}
					if ok, why := ruleHolds(ms, plain, ledger[best].sched, ledger[best].vote, discRound, int(w.strag)); !ok {
						violate(fmt.Sprintf("block %d: Normal block for round %d: %s", b, rnd, why))
					}
					// liveness: one more finalized round, accounted to the primary scheduler as finalized or
					// missed, and every member that committed to the finalized result is credited once
					if z := post.LivenessStatistics; z != nil {
						var aT, aL, aF, aM uint64
						var aLive []uint64
						if a := pre.LivenessStatistics; a != nil && len(bRounds) == 0 {
							aT, aL, aF, aM, aLive = a.TotalRounds, usum(a.LiveRounds), usum(a.FinalizedProposals), usum(a.MissedProposals), a.LiveRounds
						}
						credited := map[int]bool{}
						for _, a := range ledger {
							if !a.fail && a.vote == ledger[best].vote {
								credited[a.node] = true
							}
						}
						want := 0
						seenN := map[int]bool{}
						for i, m := range ms {
							if credited[m.Node] && !seenN[m.Node] {
								seenN[m.Node] = true
								want++
								before := uint64(0)
								if aLive != nil {
									before = aLive[i]
								}
								if z.LiveRounds[i] != before+1 {
									violate(fmt.Sprintf("block %d: member %d committed to the finalized result but was not credited as live", b, m.Node))
								}
							}
						}
						if z.TotalRounds != aT+1 || usum(z.LiveRounds) != aL+uint64(want) || usum(z.FinalizedProposals)+usum(z.MissedProposals) != aF+aM+1 {
							violate(fmt.Sprintf("block %d: liveness statistics of a finalized round are inconsistent", b))
						}
					} else {
						violate(fmt.Sprintf("block %d: no liveness statistics after a finalized round", b))
					}
					if !post.LastBlock.Header.IORoot.Equal(&ledger[best].ioRoot) {
						violate(fmt.Sprintf("block %d: Normal block does not carry the finalized proposal's IO root", b))
					}
					if discRound {
						res.stats["normal:after discrepancy resolution"]++
					} else {
						res.stats["normal:unanimous"]++
					}
				default:
					// RoundFailed, EpochTransition, Suspended keep the state root
					if !post.LastBlock.Header.StateRoot.Equal(&pre.LastBlock.Header.StateRoot) {
						violate(fmt.Sprintf("block %d: %s block changed the state root", b, hdrName(post.LastBlock.Header.HeaderType)))
					}
					if !post.LastBlock.Header.IORoot.Equal(&emptyH) || !post.LastBlock.Header.MessagesHash.Equal(&emptyH) {
						violate(fmt.Sprintf("block %d: %s block with a non-empty IO root / messages hash", b, hdrName(post.LastBlock.Header.HeaderType)))
					}
					if post.LastBlock.Header.HeaderType == block.RoundFailed {
						res.nontriv = true
						res.stats["normal:(RoundFailed block instead)"]++
						// liveness: a failed round blames exactly the primary scheduler, credits nobody
						if len(bRounds) == 0 && pre.LivenessStatistics != nil && post.LivenessStatistics != nil {
							a, z := pre.LivenessStatistics, post.LivenessStatistics
							if z.TotalRounds != a.TotalRounds || usum(z.LiveRounds) != usum(a.LiveRounds) ||
								usum(z.FinalizedProposals) != usum(a.FinalizedProposals) || usum(z.MissedProposals) != usum(a.MissedProposals)+1 {
								violate(fmt.Sprintf("block %d: liveness statistics of a failed round are inconsistent", b))
							}
						}
					}
				}
				ledger, discRound = nil, false
			}
		}
	}
	// ---- Coq term ----
	var hs, rs []string
	var hk []uint64
	for k := range hashes {
		hk = append(hk, k)
	}
	sort.Slice(hk, func(a, b int) bool { return hk[a] < hk[b] })
	for _, k := range hk {
		hs = append(hs, fmt.Sprintf("(%d, %d)", k, hashes[k]))
	}
	var rk []int
	for k := range roots {
		rk = append(rk, k)
	}
	sort.Ints(rk)
	for _, k := range rk {
		rs = append(rs, fmt.Sprintf("(%d, %d)", k, roots[k]))
	}
	tab := func(m map[int]int) string {
		var ks []int
		for k := range m {
			ks = append(ks, k)
		}
		sort.Ints(ks)
		var l []string
		for _, k := range ks {
			l = append(l, fmt.Sprintf("(%d, %d)", k, m[k]))
		}
		return coqout.List(l)
	}
	var pairs []string
	for i := range obs {
		pairs = append(pairs, fmt.Sprintf("(%s, %s)", obs[i], obsEv[i]))
	}
	res.term = fmt.Sprintf("((mkRP %d %d%%Z 32 %s %s %s %s %d, (%s, %d), (%d, %d), %s), %s)", w.strag, w.timeout, coqout.List(hs), coqout.List(rs), tab(ios), tab(mhs), emptyID,
		coqout.Bool(w.slashAmt > 0), appMaxEvidenceAge, round0, root0, coqout.List(blocks), coqout.List(pairs))
	return res
}

func liveTerm(l *roothash.LivenessStatistics) string {
	if l == nil {
		return "noLive"
	}
	f := func(xs []uint64) string {
		var o []string
		for _, x := range xs {
			o = append(o, fmt.Sprint(x))
		}
		return coqout.List(o)
	}
	return fmt.Sprintf("(Some (%d, %s, %s, %s))", l.TotalRounds, f(l.LiveRounds), f(l.FinalizedProposals), f(l.MissedProposals))
}

// lastResults: number of good / bad compute entities recorded for the last normal round.
func (w *appWorld) lastResults() (int, int) {
	defer func() { _ = recover() }()
	ctx := context.Background()
	ist, err := abciAPI.NewImmutableStateAt(ctx, w.rep.Srv.State(), 0)
	if err != nil {
		return 0, 0
	}
	defer ist.Close()
	r, err := roothashState.NewImmutableState(ist).LastRoundResults(ctx, w.rtID)
	if err != nil || r == nil {
		return 0, 0
	}
	return len(r.GoodComputeEntities), len(r.BadComputeEntities)
}

func hdrName(t block.HeaderType) string {
	switch t {
	case block.Normal:
		return "Normal"
	case block.RoundFailed:
		return "RoundFailed"
	case block.EpochTransition:
		return "EpochTransition"
	case block.Suspended:
		return "Suspended"
	}
	return fmt.Sprintf("type-%d", uint8(t))
}

// roundAtTx: the latest runtime round at the time the block's transactions run.
func (w *appWorld) roundAtTx(pre *roothash.RuntimeState, beginRounds []uint64) uint64 {
	return pre.LastBlock.Header.Round + uint64(len(beginRounds))
}

func appProbe(seed uint64) {
	w, err := newAppWorld(seed)
	if err != nil {
		panic(err)
	}
	defer w.rep.Close()
	v0 := w.g.Validators[0]
	fmt.Printf("group=%d backup=%d timeout=%d strag=%d expire=%d nodes=%d\n", w.group, w.backup, w.timeout, w.strag, w.expire, len(w.nodes))
	for b := 0; b < 14; b++ {
		var txs []appTx
		switch b {
		case 0:
			n0 := w.nonce(v0.Entity)
			txs = append(txs, appTx{raw: muxdrv.Sign(v0.Entity, registry.NewRegisterRuntimeTx(n0, muxdrv.Fee(0, 4*muxdrv.DefaultGas), w.descriptor())), kind: "register runtime", node: -1})
			ids := []signature.PublicKey{v0.Node.Public()}
			for _, cn := range w.nodes {
				ids = append(ids, cn.Node.Public())
			}
			txs = append(txs, appTx{raw: muxdrv.Sign(v0.Entity, muxdrv.TxRegisterEntity(n0+1, muxdrv.Fee(0, 4*muxdrv.DefaultGas), v0.Entity, ids)), kind: "register entity nodes", node: -1})
		case 1:
			txs = w.registerNodes(w.expire)
		default:
			st := w.state()
			if st != nil && !st.Suspended && st.Committee != nil && st.CommitmentPool != nil {
				round := st.LastBlock.Header.Round + 1
				sm, _ := st.Committee.Scheduler(round, 0)
				_, sn := w.nodeOf(sm.PublicKey)
				for _, m := range st.Committee.Members {
					if m.Role != scheduler.RoleWorker {
						continue
					}
					_, n := w.nodeOf(m.PublicKey)
					txs = append(txs, w.commitTx(n, "commit", w.commit(st.LastBlock, sn.Node.Public(), n, 0, commitment.FailureNone, 0, false)))
				}
			}
		}
		res, _, err := w.runBlock(txs)
		if err != nil {
			fmt.Println("block error", err)
			return
		}
		for i, t := range txs {
			tr := res.TxResults[i]
			fmt.Printf("  tx %-24s code=%d/%s %s\n", t.kind, tr.Code, tr.Codespace, tr.Log)
		}
		for _, e := range append(append([]muxdrv.Event{}, res.BeginEvents...), res.EndEvents...) {
			if strings.Contains(e.Type, "roothash") || b == 11 {
				fmt.Printf("  event %v\n", e)
			}
		}
		st := w.state()
		if st == nil {
			fmt.Printf("h=%d no runtime state\n", res.Height)
			continue
		}
		fmt.Printf("h=%d round=%d type=%v susp=%v committee=%v pool=%v nextTimeout=%d armed=%v\n", res.Height, st.LastBlock.Header.Round, st.LastBlock.Header.HeaderType, st.Suspended, st.Committee != nil, st.CommitmentPool != nil, st.NextTimeout, w.armedTimeouts())
	}
}

var _ = sort.Ints
var _ = strings.Contains
var _ = coqout.Bool
