// Verify mode: what the roothash application does with a submitted commitment
// (consensus/cometbft/apps/roothash/transactions.go:95-105):
// commitment.VerifyExecutorCommitment, then Pool.AddVerifiedExecutorCommitment, then
// Pool.ProcessCommitments — with properly signed commitments that are adversarial in
// one respect (header round, previous hash, scheduler id, own failure, signer, ...).
package main

import (
	"context"
	"errors"
	"fmt"
	"sort"
	"strconv"
	"strings"

	"github.com/oasisprotocol/oasis-core/go/common"
	"github.com/oasisprotocol/oasis-core/go/common/cbor"
	"github.com/oasisprotocol/oasis-core/go/common/crypto/hash"
	"github.com/oasisprotocol/oasis-core/go/common/crypto/signature"
	memorySigner "github.com/oasisprotocol/oasis-core/go/common/crypto/signature/signers/memory"
	"github.com/oasisprotocol/oasis-core/go/common/node"
	"github.com/oasisprotocol/oasis-core/go/common/quantity"
	registry "github.com/oasisprotocol/oasis-core/go/registry/api"
	"github.com/oasisprotocol/oasis-core/go/roothash/api/block"
	"github.com/oasisprotocol/oasis-core/go/roothash/api/commitment"
	"github.com/oasisprotocol/oasis-core/go/roothash/api/message"
	scheduler "github.com/oasisprotocol/oasis-core/go/scheduler/api"
	staking "github.com/oasisprotocol/oasis-core/go/staking/api"

	"verifharness/internal/coqout"
	"verifharness/internal/prng"
)

// VCommit describes one signed commitment as submitted.
type VCommit struct {
	Node   int    `json:"n"`
	Sched  int    `json:"s"`
	Round  string `json:"rd"`            // header round (absolute, decimal uint64)
	PrevW  bool   `json:"pw,omitempty"`  // wrong previous hash
	FCode  int    `json:"fc,omitempty"`  // header.Failure
	Res    int    `json:"v"`             // result variant
	Twist  string `json:"tw,omitempty"`  // field-level malformation (see buildVCommit)
	BadSig bool   `json:"bs,omitempty"`  // corrupted signature
	SignAs int    `json:"sa,omitempty"`  // 1+index of another node whose key signs (0 = own key)
	MsgHW  bool   `json:"mhw,omitempty"` // header.MessagesHash is not the hash of any message list
	MH     int    `json:"mh,omitempty"`  // header.MessagesHash = hash of the first MH canonical runtime messages
	NMsgs  int    `json:"nm,omitempty"`  // number of canonical runtime messages carried by the commitment
	BadMsg bool   `json:"bm,omitempty"`  // the first carried message fails ValidateBasic (no field set)
	Reject bool   `json:"rj,omitempty"`  // the first carried message is one the message validator rejects
}

var (
	signers   = map[int]signature.Signer{}
	signerIdx = map[signature.PublicKey]int{}
	vRuntime  *registry.Runtime
)

const vMaxMessages = 3

// canonical runtime messages: message i is a staking transfer of i+1 base units
func canonMsgs(n int) []message.Message {
	var out []message.Message
	for i := 0; i < n; i++ {
		var to staking.Address
		to[0] = byte(i + 1)
		out = append(out, message.Message{Staking: &message.StakingMessage{Transfer: &staking.Transfer{To: to, Amount: *quantity.NewFromUint64(uint64(i + 1))}}})
	}
	return out
}

// vValidator is the custom message validator handed to VerifyExecutorCommitment: it rejects
// a batch whose first message transfers exactly 777 base units.
var errValidator = fmt.Errorf("verif: message validator says no")

func vValidator(msgs []message.Message) error {
	if len(msgs) > 0 && msgs[0].Staking != nil && msgs[0].Staking.Transfer != nil {
		if msgs[0].Staking.Transfer.Amount.Cmp(quantity.NewFromUint64(777)) == 0 {
			return errValidator
		}
	}
	return nil
}

func vInit() {
	signature.SetChainContext("verif C11 chain context")
	var id common.Namespace
	_ = id.UnmarshalHex("c000000000000000ffffffffffffffffffffffffffffffffffffffffffffffff")
	vRuntime = &registry.Runtime{
		Versioned:       cbor.NewVersioned(registry.LatestRuntimeDescriptorVersion),
		ID:              id,
		Kind:            registry.KindCompute,
		TEEHardware:     node.TEEHardwareInvalid,
		Executor:        registry.ExecutorParameters{MaxMessages: vMaxMessages},
		GovernanceModel: registry.GovernanceEntity,
	}
}

func signer(i int) signature.Signer {
	if s, ok := signers[i]; ok {
		return s
	}
	s := memorySigner.NewTestSigner(fmt.Sprintf("verif C11 node %d", i))
	signers[i] = s
	signerIdx[s.Public()] = i
	return s
}

func vCommittee(ms []Member) *scheduler.Committee {
	c := &scheduler.Committee{Kind: scheduler.KindComputeExecutor, RuntimeID: vRuntime.ID}
	for _, m := range ms {
		c.Members = append(c.Members, &scheduler.CommitteeNode{Role: scheduler.Role(m.Role), PublicKey: signer(m.Node).Public()})
	}
	return c
}

func buildVCommit(vc *VCommit, last *block.Block) *commitment.ExecutorCommitment {
	round, _ := strconv.ParseUint(vc.Round, 10, 64)
	prev := last.Header.EncodedHash()
	if vc.PrevW {
		prev.FromBytes([]byte("some other block"))
	}
	ec := &commitment.ExecutorCommitment{
		NodeID: signer(vc.Node).Public(),
		Header: commitment.ExecutorCommitmentHeader{
			SchedulerID: signer(vc.Sched).Public(),
			Header:      commitment.ComputeResultsHeader{Round: round, PreviousHash: prev},
			Failure:     commitment.ExecutorCommitmentFailure(vc.FCode),
		},
	}
	var io, st, mh, imh hash.Hash
	io.Empty()
	st.FromBytes([]byte(fmt.Sprintf("state root variant %d", vc.Res)))
	mh = message.MessagesHash(canonMsgs(vc.MH))
	if vc.NMsgs > 0 {
		ec.Messages = canonMsgs(vc.NMsgs)
		if vc.BadMsg {
			ec.Messages[0] = message.Message{}
		}
		if vc.Reject {
			ec.Messages[0].Staking.Transfer.Amount = *quantity.NewFromUint64(777)
			if vc.MH == vc.NMsgs {
				mh = message.MessagesHash(ec.Messages)
			}
		}
	}
	if vc.MsgHW {
		mh.FromBytes([]byte("not the hash of the messages"))
	}
	imh = message.InMessagesHash(nil)
	h := &ec.Header.Header
	if vc.FCode == 0 {
		h.IORoot, h.StateRoot, h.MessagesHash, h.InMessagesHash = &io, &st, &mh, &imh
	}
	switch vc.Twist {
	case "no-io":
		h.IORoot = nil
	case "no-state":
		h.StateRoot = nil
	case "no-msgs":
		h.MessagesHash = nil
	case "no-inmsgs":
		h.InMessagesHash = nil
	case "with-io":
		h.IORoot = &io
	case "with-state":
		h.StateRoot = &st
	case "with-msgs":
		h.MessagesHash = &mh
	case "with-inmsgs":
		h.InMessagesHash = &imh
	case "with-count":
		h.InMessagesCount = 1
	case "with-rak":
		var rs signature.RawSignature
		ec.Header.RAKSignature = &rs
	}
	key := signer(vc.Node)
	if vc.SignAs > 0 {
		key = signer(vc.SignAs - 1)
	}
	if sig, err := ec.Header.Sign(key, vRuntime.ID); err == nil {
		ec.Signature = *sig
	}
	if vc.BadSig {
		ec.Signature[3] ^= 0x40
	}
	return ec
}

func verifyClass(err error) (int, string) {
	switch {
	case err == nil:
		return 0, "ok"
	case errors.Is(err, commitment.ErrBadExecutorCommitment):
		return 22, "bad-executor-commitment"
	case errors.Is(err, commitment.ErrNotBasedOnCorrectBlock):
		return 23, "not-based-on-correct-block"
	case errors.Is(err, commitment.ErrNotInCommittee):
		return 24, "not-in-committee"
	case errors.Is(err, commitment.ErrNoRuntime):
		return 25, "no-runtime"
	case errors.Is(err, commitment.ErrRakSigInvalid):
		return 26, "rak-sig-invalid"
	case err == commitment.ErrInvalidMessages:
		// the very p2p permanent error value; errors.Is would match ANY permanent error
		return 27, "invalid-messages"
	case err == errValidator:
		return 28, "message-validator-error"
	case strings.Contains(err.Error(), "signature verification failed"):
		// commit.Verify error wrapped in a p2p permanent error (pool.go:94-96)
		return 21, "signature-invalid"
	}
	return 99, "other:" + err.Error()
}

func runVCase(c Case) (res runResult) {
	res.stats = map[string]int{}
	com := vCommittee(c.Members)
	latest, _ := strconv.ParseUint(c.Latest, 10, 64)
	last := block.NewGenesisBlock(vRuntime.ID, 0)
	last.Header.Round = latest
	pool := commitment.NewPool()
	in := &interner{m: map[hash.Hash]int{}}
	blkHash := in.id(last.Header.EncodedHash())
	res.coqSnap = nil
	res.stats["shape:verify-then-add"]++
	var ledger []accepted
	violate := func(s string) {
		if res.violated == "" {
			res.violated = s
		}
	}
	ctx := context.Background()
	next := latest + 1
	for i, o := range c.Ops {
		switch o.K {
		case "vadd":
			ec := buildVCommit(o.VC, last)
			h := &ec.Header.Header
			sigOK := ec.Verify(vRuntime.ID) == nil
			msgsBasic := true
			for _, m := range ec.Messages {
				if m.ValidateBasic() != nil {
					msgsBasic = false
				}
			}
			msgsHashOK := false
			if h.MessagesHash != nil {
				mh := message.MessagesHash(ec.Messages)
				msgsHashOK = mh.Equal(h.MessagesHash)
			}
			vote := ec.ToVote()
			res.coqOps = append(res.coqOps, fmt.Sprintf("VAdd (mkVC %d %d %d %d %d %d %s %s %s %s %d %s %d %s %s %s None %s)",
				o.VC.Node, o.VC.Sched, h.Round, in.id(h.PreviousHash), uint8(ec.Header.Failure), in.id(vote),
				coqout.Bool(h.IORoot != nil), coqout.Bool(h.StateRoot != nil), coqout.Bool(h.MessagesHash != nil), coqout.Bool(h.InMessagesHash != nil),
				h.InMessagesCount, coqout.Bool(ec.Header.RAKSignature != nil), len(ec.Messages),
				coqout.Bool(sigOK), coqout.Bool(msgsBasic), coqout.Bool(msgsHashOK), coqout.Bool(vValidator(ec.Messages) == nil)))
			res.stats[fmt.Sprintf("messages-carried:%d", len(ec.Messages))]++
			var verr, aerr error
			panicked := false
			func() {
				defer func() {
					if r := recover(); r != nil {
						panicked = true
					}
				}()
				verr = commitment.VerifyExecutorCommitment(ctx, last, vRuntime, 0, ec, vValidator, nil)
				if verr == nil {
					aerr = pool.AddVerifiedExecutorCommitment(com, ec)
				}
			}()
			code, name := verifyClass(verr)
			res.stats["verify:"+name]++
			if verr == nil {
				code, name = addClass(aerr)
				res.stats["add:"+name]++
			}
			if panicked {
				code = 98
				violate(fmt.Sprintf("op %d: verify/add panicked", i))
			}
			if verr == nil && aerr == nil && !panicked {
				ledger = append(ledger, accepted{o.VC.Node, o.VC.Sched, ec.IsIndicatingFailure(), vote})
				// ---- oracle: what an accepted commitment must look like ----
				if h.Round != next {
					violate(fmt.Sprintf("op %d: accepted a commitment whose header round %d is not latest round + 1 = %d", i, h.Round, next))
				}
				if lh := last.Header.EncodedHash(); !h.PreviousHash.Equal(&lh) {
					violate(fmt.Sprintf("op %d: accepted a commitment not based on the latest block", i))
				}
				if !sigOK {
					violate(fmt.Sprintf("op %d: accepted a commitment with an invalid signature", i))
				}
				if ec.IsIndicatingFailure() && o.VC.Node == o.VC.Sched {
					violate(fmt.Sprintf("op %d: accepted the scheduler's own failure", i))
				}
				if _, ok := rankOf(c.Members, next, o.VC.Sched); !ok {
					violate(fmt.Sprintf("op %d: accepted a commitment for a scheduler that is not a primary worker", i))
				}
			}
			res.coqObs = append(res.coqObs, fmt.Sprintf("(%d, noCh, %s, %s)", code, hrTerm(pool.HighestRank), coqout.Bool(pool.Discrepancy)))
		case "proc", "probe":
			res.coqOps = append(res.coqOps, fmt.Sprintf("%s %d %s", map[string]string{"proc": "VProc", "probe": "VProbe"}[o.K], o.Strag, coqout.Bool(o.Timeout)))
			p := pool
			if o.K == "probe" {
				p = clonePool(pool)
			}
			discBefore := p.Discrepancy
			var (
				sc  *commitment.SchedulerCommitment
				err error
			)
			panicked := false
			func() {
				defer func() {
					if r := recover(); r != nil {
						panicked = true
					}
				}()
				sc, err = p.ProcessCommitments(com, uint16(o.Strag), o.Timeout)
			}()
			code, name := procClass(err)
			chosen := "noCh"
			if panicked {
				code, name = 16, "panic"
				violate(fmt.Sprintf("op %d: ProcessCommitments panicked", i))
			} else if err == nil {
				if sc == nil || sc.Commitment == nil {
					chosen = "(Some noPair)"
					violate(fmt.Sprintf("op %d: finalized without a scheduler commitment", i))
				} else {
					chosen = fmt.Sprintf("(Some (Some (%d, %d)))", signerIdx[sc.Commitment.NodeID], in.id(sc.Commitment.ToVote()))
				}
			}
			tt := "nt"
			if o.Timeout {
				tt = "to"
			}
			res.stats["process-"+tt+":"+name]++
			if code != 11 && code != 14 {
				res.nontriv = true
			}
			if !panicked {
				if err == commitment.ErrStillWaiting && o.Timeout {
					violate(fmt.Sprintf("op %d: still waiting although the round timer expired", i))
				}
				if err == commitment.ErrDiscrepancyDetected && discBefore {
					violate(fmt.Sprintf("op %d: discrepancy detected during discrepancy resolution", i))
				}
				if err == nil && sc != nil && sc.Commitment != nil {
					s := signerIdx[sc.Commitment.Header.SchedulerID]
					if signerIdx[sc.Commitment.NodeID] != s {
						violate(fmt.Sprintf("op %d: chosen commitment is not the scheduler's own", i))
					}
					if sc.Commitment.IsIndicatingFailure() {
						violate(fmt.Sprintf("op %d: finalized a failure-indicating commitment", i))
					}
					if sc.Commitment.Header.Header.Round != next {
						violate(fmt.Sprintf("op %d: finalized a proposal for round %d, expected %d", i, sc.Commitment.Header.Header.Round, next))
					}
					if ok, why := ruleHolds(c.Members, ledger, s, sc.Commitment.ToVote(), discBefore, o.Strag); !ok {
						violate(fmt.Sprintf("op %d: %s", i, why))
					}
					// ranks computed independently from the latest block round
					rs, ok := rankOf(c.Members, next, s)
					if !ok {
						violate(fmt.Sprintf("op %d: finalized the proposal of a non-worker", i))
					}
					for _, a := range ledger {
						if a.node == a.sched {
							if ra, ok2 := rankOf(c.Members, next, a.sched); ok2 && ra < rs {
								violate(fmt.Sprintf("op %d: finalized the proposal of the rank %d scheduler although the rank %d scheduler (round %d) committed", i, rs, ra, next))
							}
						}
					}
				}
			}
			res.coqObs = append(res.coqObs, fmt.Sprintf("(%d, %s, %s, %s)", code, chosen, hrTerm(p.HighestRank), coqout.Bool(p.Discrepancy)))
		}
	}
	var ranks []uint64
	for r := range pool.SchedulerCommitments {
		ranks = append(ranks, r)
	}
	sort.Slice(ranks, func(a, b int) bool { return ranks[a] < ranks[b] })
	for _, r := range ranks {
		sc := pool.SchedulerCommitments[r]
		cn := "noN"
		if sc.Commitment != nil {
			cn = fmt.Sprintf("(Some %d)", signerIdx[sc.Commitment.NodeID])
		}
		var nodes []int
		for k := range sc.Votes {
			nodes = append(nodes, signerIdx[k])
		}
		sort.Ints(nodes)
		var vs []string
		for _, n := range nodes {
			v := sc.Votes[signer(n).Public()]
			if v == nil {
				vs = append(vs, fmt.Sprintf("(%d, noN)", n))
			} else {
				vs = append(vs, fmt.Sprintf("(%d, Some %d)", n, in.id(*v)))
			}
		}
		res.coqSnap = append(res.coqSnap, fmt.Sprintf("(%d, (%s, %s))", r, cn, coqout.List(vs)))
	}
	res.blk = fmt.Sprintf("mkBlk %d %d %d", latest, blkHash, vMaxMessages)
	return res
}

// genVCase: a plausible round on a well-formed committee; every commitment is signed; a
// fraction carries exactly one adversarial deviation.
func genVCase(r *prng.R) Case {
	np, nb := r.Range(1, 4), r.Range(0, 3)
	ov := 0
	if m := min(np, nb); m > 0 && r.Chance(50) {
		ov = r.Range(1, m)
	}
	ms, outsider := mkCommittee(np, nb, ov)
	latest := uint64(r.Range(0, 9))
	next := latest + 1
	strag := r.Intn(3)
	// scheduler of the best rank for round latest+1, and some other scheduler
	bySched := map[uint64]int{}
	for i := 0; i < np; i++ {
		rk, _ := rankOf(ms, next, i)
		bySched[rk] = i
	}
	mainSched := bySched[0]
	if r.Chance(25) {
		mainSched = r.Intn(np)
	}
	order := make([]int, outsider)
	for i := range order {
		order[i] = i
	}
	for i := range order {
		j := r.Intn(len(order))
		order[i], order[j] = order[j], order[i]
	}
	dissentPct := []int{0, 10, 35}[r.Intn(3)]
	failPct := []int{0, 10, 30}[r.Intn(3)]
	advPct := []int{10, 30, 60}[r.Intn(3)]
	// runtime messages emitted by this round's batch (the scheduler carries them, every
	// honest commitment has their hash in the header)
	roundMsgs := 0
	if r.Chance(40) {
		roundMsgs = r.Range(1, vMaxMessages)
	}
	nAdds := r.Range(1, 2*(np+nb)+1)
	var ops []Op
	pr := func() {
		ops = append(ops, Op{K: "probe", Strag: strag, Timeout: false}, Op{K: "probe", Strag: strag, Timeout: true})
	}
	for i := 0; i < nAdds; i++ {
		vc := VCommit{Round: strconv.FormatUint(next, 10), Sched: mainSched}
		if i < len(order) && r.Chance(85) {
			vc.Node = order[i]
		} else {
			vc.Node = r.Intn(outsider)
		}
		if i == 0 && r.Chance(60) {
			vc.Node = mainSched
		}
		if r.Chance(15) {
			vc.Sched = r.Intn(np)
		}
		vc.MH = roundMsgs
		if vc.Node == vc.Sched {
			vc.NMsgs = roundMsgs
		}
		switch {
		case r.Chance(failPct) && vc.Node != vc.Sched:
			vc.FCode = 1 + r.Intn(2)
		case r.Chance(dissentPct):
			vc.Res = r.Range(1, 2)
		}
		if r.Chance(advPct) {
			switch r.Intn(18) {
			case 13: // more messages than the runtime allows
				vc.Node, vc.FCode = vc.Sched, 0
				vc.NMsgs, vc.MH = vMaxMessages+1, vMaxMessages+1
			case 14: // a non-scheduler carries messages
				if vc.Node == vc.Sched {
					vc.Node = (vc.Sched + 1) % outsider
				}
				vc.FCode, vc.NMsgs = 0, r.Range(1, 2)
			case 15: // a message that fails ValidateBasic
				vc.Node, vc.FCode = vc.Sched, 0
				vc.NMsgs, vc.MH, vc.BadMsg = 2, 2, true
			case 16: // the message validator rejects the batch
				vc.Node, vc.FCode = vc.Sched, 0
				vc.NMsgs, vc.MH, vc.Reject = 1, 1, true
			case 17: // the scheduler carries fewer / other messages than the header hash says
				vc.Node, vc.FCode = vc.Sched, 0
				vc.MH, vc.NMsgs = 2, 1
			case 0: // stale round
				vc.Round = strconv.FormatUint(latest, 10)
			case 1:
				vc.Round = strconv.FormatUint(latest+2, 10)
			case 2, 3: // a future round that maps this scheduler (often its own proposal) to rank 0
				if r.Chance(70) {
					vc.Node = r.Intn(np)
					vc.Sched = vc.Node
					vc.FCode = 0
				}
				for k := uint64(1); k <= uint64(np)+1; k++ {
					if rk, _ := rankOf(ms, next+k, vc.Sched); rk == 0 {
						vc.Round = strconv.FormatUint(next+k, 10)
						break
					}
				}
			case 4:
				vc.PrevW = true
			case 5: // scheduler id that is a backup worker or a non-member
				vc.Sched = r.Range(np, outsider)
			case 6: // the scheduler's own failure
				vc.Node = vc.Sched
				vc.FCode = 1
			case 7: // non-member signer with its own valid signature
				vc.Node = outsider
			case 8:
				vc.MsgHW = true
			case 9:
				vc.BadSig = true
			case 10:
				vc.SignAs = 1 + r.Intn(outsider+1)
			case 11:
				if vc.FCode == 0 {
					vc.Twist = []string{"no-io", "no-state", "no-msgs", "no-inmsgs", "with-rak"}[r.Intn(5)]
				} else {
					vc.Twist = []string{"with-io", "with-state", "with-msgs", "with-inmsgs", "with-count", "with-rak"}[r.Intn(6)]
				}
			case 12:
				vc.FCode = []int{3, 7, 255}[r.Intn(3)]
			}
		}
		v2 := vc
		ops = append(ops, Op{K: "vadd", VC: &v2})
		pr()
		if r.Chance(30) {
			ops = append(ops, Op{K: "proc", Strag: strag, Timeout: r.Chance(50)})
			pr()
		}
	}
	ops = append(ops, Op{K: "proc", Strag: strag, Timeout: true})
	pr()
	return Case{Mode: "verify", Tag: "verify", Members: ms, Latest: strconv.FormatUint(latest, 10), Ops: ops}
}
